// io2coq reads package jen (current working tree, non-test files, build tag verif off),
// type-checks it with go/types and prints coq/Gen/IO.v: the body of every render ENTRY POINT
// as a list of events over the statement language of coq/Spec/IOShape.v - the premise of C10
// at buffer level - and the results of two whole-package scans: the confinement scan
// (io_confinement) and the scan for writes of File.NoFormat (io_noformat_writes).
//
// Entry points (discovered, not listed): every exported function or method of an exported type
//   - with one or more parameters whose TYPE IMPLEMENTS io.Writer (io.Writer, io.WriteCloser,
//     *os.File, *bytes.Buffer, ..: the CALLER's writers; all of them are tracked, and a mention
//     of any of them is an EvWriteCaller event on the one log of the semantics)  -> kind EWriter,
//     or EDelegate when its body is exactly `return recv.Other(w, ..)` with Other an EWriter entry;
//   - without one but calling package os or io/ioutil                     -> kind EFileSys (File.Save).
//
// and, transitively, every UNEXPORTED function of package jen to which such a function hands a
// caller's writer (statically resolved call, the writer as an identifier at a parameter whose
// type implements io.Writer): INTERNAL entry points, translated and checked like the others
// (kind EWriter or EDelegate), so that `return helper(w, ..)` as a whole body is a delegation.
//
// NOT tracked (stated, not checked): a writer that reaches an exported function inside another
// value (a struct field of a parameter or of the receiver, a slice, a func, an interface{}).
// Rule 2 and 3 of the confinement scan below close the roads by which package jen could keep
// or recover such a writer.
//
// Exported functions that only call an entry point with a local buffer (GoString) are listed in
// io_notes.
//
// Identity.  Variables and buffers are go/types OBJECTS.  An object is printed under its own
// name; a second object of the same name in the same function (shadowing: `output, err :=`
// inside an inner block) is printed as name#2, name#3, ..  So equal names in one entry mean the
// same variable.  Only local variables and parameters of the function being translated have a
// name; a field or a package-level variable in their place makes the statement EvOther.
// `&b` with b a local variable of type bytes.Buffer denotes the same buffer as b.
//
// Translation of a body (source order, purely structural):
//
//	b := &bytes.Buffer{} | bytes.Buffer{} | new(bytes.Buffer)      Do (EvNewBuf b)
//	var b bytes.Buffer   |  var b = <one of the three above>        Do (EvNewBuf b)   (the zero value is an empty buffer)
//	var x T              (no initialiser, T not bytes.Buffer)       Do (EvDecl x)
//	x = y.Bytes()  |  x := y.Bytes()                                Do (EvBytes x y)
//	if [_,] err := CALL; err != nil { return R }                    Try <CALL> <R>
//	x, err := CALL  (or =)  followed by  if err != nil { return R } Try <CALL> <R>
//	x, err := CALL  (or =)  followed by  return err                 Try <CALL> EvReturnErr; EvReturnNil
//	CALL  |  _, _ = CALL  |  x, err := CALL not followed by a check Do <CALL>
//	return nil                                                      EvReturnNil
//	return CALL                                                     Try <CALL> EvReturnErr; EvReturnNil
//	if r.NoFormat { A } [else { B }]                                EvCondNoFormat (block A) (block B)
//	if !r.NoFormat { B } [else { A }]                               EvCondNoFormat (block A) (block B)
//	    (r the RECEIVER, NoFormat a bool field of a type of package jen; a missing else is Nop)
//	if COND { A }   (COND: no call but len, no writer)              If "COND" (block A)
//	for .. := range X { A }   (X: no call, no writer)               For "X" (block A)
//	for INIT; COND; POST { A }                                      For "for INIT; COND; POST" (block A)
//	    (INIT, POST: absent or x := e, x = e, x op= e, x++, x-- on local variables that are neither
//	     writers nor buffers, e without calls but len; COND as above: a header that only counts.
//	     The semantics of For runs the body any number of times.)
//
// The rules that REWRITE rather than classify are these, all plainly semantics-preserving (the
// function has a single unnamed result of type error, which the translator checks):
//
//	`return CALL` and `x, err := CALL; return err`  ==  `if err != nil { return err }; return nil`;
//	`if !c { B } else { A }`  ==  `if c { A } else { B }`;  `if c { A }`  ==  `if c { A } else {}`;
//	`var b bytes.Buffer`, `&b`  ==  `b := &bytes.Buffer{}`, `b`.
//
// There is NO inlining: a helper that receives the caller's writer is KPass (rejected by the
// checker), a helper that receives a local buffer is EvRender.
//
// <R>: `err` -> EvReturnErr; fmt.Errorf(.., err, ..) -> EvReturnWrapped; nil -> EvSwallowErr.
// <CALL> (first rule that applies):
//
//	anything mentioning a writer parameter w                        EvWriteCaller k ..
//	    w.Write(x), x a local variable                                  k = KWrite, arg x
//	    fmt.Fprint*(w, ..)                                               KFprint
//	    io.WriteString(w, ..), io.Copy(w, ..)                            KWriteString
//	    recv.Entry(.., w, ..) with Entry an EWriter entry point, w at one of ITS writer
//	    parameters, no other mention of a writer, nothing of rule 1 below, and the SAME OBJECTS
//	    (strict; see below)                                              KDelegate, what = entry name
//	    a function literal mentioning w                                  KStore
//	    any other call                                                   KPass
//	any call containing a call into package os or io/ioutil         EvWriteFile fn path data
//	any call mentioning an object of rule 1 below (os.Stdout, fmt.Println, log.Printf ..)
//	                                                                EvWriteFile "<object> (in: ..)" "" ""
//	format.Source(b.Bytes())                                        EvFormat x b   (x the variable assigned)
//	recv.Entry(b, ..) with Entry an EWriter entry point with ONE writer parameter, b a local bytes.Buffer,
//	and the SAME OBJECTS (strict)                                   EvRenderToBuffer entry b
//	fmt.Fprint*(b, ..), io.WriteString(b, ..), b.Write*(..), b a local bytes.Buffer   EvWriteLocal b
//	a function or method of package jen, not an entry point, with exactly ONE parameter whose type
//	implements io.Writer, which receives a local bytes.Buffer b, and the SAME OBJECTS
//	                                                                EvRender target b
//	anything else                                                   EvOther "text"
//
// THE SAME OBJECTS (func ownObjects).  The table does not print receivers and arguments; the
// theorems speak of ONE File f (whose NoFormat is the `noformat` of the run, whose Render is
// what Save calls) and of one Statement / Group.  So a call becomes one of the three events
// above only if it is about the objects the function being translated was called on:
// the OBJECT TYPES of that function are the named types of package jen that its receiver and
// parameters have (File and Statement for (*Statement).RenderWithFile(w, file)); wherever the
// call has a receiver or an argument of such a type (or a pointer to it), or of an interface
// type (a Code, an interface{}: it may hold any object), it must be an IDENTIFIER denoting the
// function's own receiver or one of its parameters (go/types object identity) - in receiver
// position the receiver, when the function has one; a literal nil and constants are let through.  Strict (delegation, entry called with a local buffer): the receiver of a
// method call must be the function's own receiver whatever its type.  f.Render(buf) in Save,
// s.render(file, buf, nil), Comment(c).render(f, source, nil), g.RenderWithFile(writer, NewFile(""))
// in (*Group).Render (File is not an object type there) pass; NewFile("x").Render(buf),
// other.render(file, buf, nil), s.render(NewFile("x"), buf, nil) are EvOther (KPass when they
// mention the writer), which no checker accepts.  WHICH other code an EvRender runs
// (Comment(c) ..) is not recorded: that is the hypothesis phase1_matches of the refinement theorems.
// Object identity is value identity only if the receiver and the parameters are never assigned:
// a function that assigns, increments, ranges into or takes the address of its receiver or of a
// parameter (anywhere in its body, function literals included) gets `Do (EvOther ..)` as its
// first statement (func reassigned).
//
// Every statement that fits no rule is Do (EvWriteCaller KStore|KOtherUse ..) when it mentions
// a writer, Do (EvWriteFile ..) when it mentions package os or an object of rule 1, and
// Do (EvOther "text") otherwise.  The checker io_wf of Spec/IOShape.v decides what is
// acceptable; this program only classifies.
//
// Confinement scan (func confinement; printed as io_confinement, which Proofs/IOProofs.v
// requires to be []).  The semantics of EvRender / EvWriteLocal / EvFormat says that such an
// event touches only its local buffer: never the caller's writer, never the file system.  The
// caller's writer w itself cannot reach the callee (any mention of w is an EvWriteCaller event,
// and only w.Write(x) and the delegation to another checked entry point are accepted), so what
// has to be excluded is a second road to the same writer or to the file system.  For the WHOLE
// package (every non-test file: functions, methods, function literals, initialisers; so every
// callee, transitively, whatever the dispatch):
//  1. ALLOW-LIST: no import of, and no reference to an object (function, variable, type,
//     constant, method, field) of, a package other than package jen itself and those of
//     allowedPkgs: bytes, fmt, go/format, io, regexp, sort, strconv, strings, unicode,
//     unicode/utf8 (what package jen imports today) and errors, math, math/bits, cmp, slices,
//     maps, unicode/utf16 (pure computation); none to fmt.Print*/Scan* or to the builtins
//     print/println; os and io/ioutil only inside the bodies of the EFileSys entry points, which
//     are translated and checked as events.  An allow-list is the sound direction (log/slog,
//     flag, testing, mime/multipart, expvar .. need no enumeration); its price: a future
//     harmless use of a new package is an ALARM, fixed by adding the package to allowedPkgs
//     after a look at what it can do.  The list is printed into the generated file;
//  2. no package-level variable and no struct field whose type implements io.Writer, other
//     than bytes.Buffer / strings.Builder (nowhere to leave a writer for later); and no
//     package-level variable, struct field or PARAMETER OF AN EXPORTED FUNCTION whose type is
//     (a pointer to, a slice of) an interface type with methods that is declared outside
//     package jen, is not `error` and does not implement io.Writer (io.StringWriter, io.Closer,
//     interface{ WriteString(string) (int, error) }: a sink of the caller that is not a writer
//     parameter, so that the function would not be an entry point); the package has none;
//  3. no type assertion, type-switch case or conversion to a type that implements io.Writer,
//     other than those two (a writer smuggled in as interface{}: Lit(w)); none to a type
//     parameter; none to ANY interface type that has methods (v.(io.StringWriter),
//     v.(io.Closer), v.(interface{ WriteString(string) (int, error) }): the methods of the
//     smuggled value without the word io.Writer), other than those of allowedIfaces - which is
//     EMPTY: the unchanged package asserts and switches only to concrete types (*Group, token,
//     Dict, string, rune, the numeric types ..) and converts to no interface type.  The
//     allow-list and the targets found are printed into the generated file;
//  4. no import "C", no //go:linkname.
//
// NoFormat scan (same function; printed as io_noformat_writes, which Proofs/IOProofs.v requires to
// be []).  The semantics takes f.NoFormat as a constant of the run, and `if r.NoFormat` is
// EvCondNoFormat only for r the receiver.  So, rule 5, for the WHOLE package: nothing writes the
// field that noFormatCond matches (a bool field NoFormat of a struct of package jen): no
// assignment, compound assignment, ++/--, range assignment whose target selects it (through
// whatever path: f.NoFormat, other.NoFormat, a copy, an embedding struct), no `&x.NoFormat`,
// and no assignment whose target is a whole value that holds such a struct (`*f = File{..}`,
// `files[0] = g`; a variable declared by the statement itself is not a target).  The field is
// set by the user of the library only.  (A composite literal File{NoFormat: true} makes a NEW
// File; rendering that one instead of the receiver is what THE SAME OBJECTS excludes.)
//
// What remains ASSUMED: the standard library packages of allowedPkgs (fmt.Print*/Scan* excepted)
// do not touch the file system or a writer they were not given.
package main

import (
	"bytes"
	"fmt"
	"go/ast"
	"go/build/constraint"
	"go/importer"
	"go/parser"
	"go/printer"
	"go/token"
	"go/types"
	"os"
	"path/filepath"
	"sort"
	"strconv"
	"strings"
	"veriftools/internal/srcset"

	"veriftools/coqfmt"
)

func die(format string, a ...interface{}) {
	fmt.Fprintf(os.Stderr, "io2coq: "+format+"\n", a...)
	os.Exit(2)
}

func buildable(f *ast.File) bool {
	for _, cg := range f.Comments {
		if cg.Pos() >= f.Package {
			break
		}
		for _, c := range cg.List {
			if !constraint.IsGoBuild(c.Text) && !constraint.IsPlusBuild(c.Text) {
				continue
			}
			e, err := constraint.Parse(c.Text)
			if err != nil {
				die("%v", err)
			}
			if !e.Eval(func(tag string) bool { return false }) {
				return false
			}
		}
	}
	return true
}

func unparen(e ast.Expr) ast.Expr {
	for {
		p, ok := e.(*ast.ParenExpr)
		if !ok {
			return e
		}
		e = p.X
	}
}

var (
	fset = token.NewFileSet()
	info *types.Info
	pkg  *types.Package
	// entry points that receive the caller's writer: function object -> (name, indices of the writer parameters)
	writerEntries = map[types.Object]entryRef{}
	// io.Writer's method set (nil when package jen does not import io)
	ioWriter *types.Interface
	// every function and method of package jen that has a body
	funcDecls = map[*types.Func]*ast.FuncDecl{}
)

type entryRef struct {
	name     string
	widx     []int // every parameter whose type implements io.Writer
	exported bool  // false: an unexported function that an entry point hands the caller's writer to
}

func (r entryRef) isWidx(i int) bool {
	for _, j := range r.widx {
		if i == j {
			return true
		}
	}
	return false
}

func text(n ast.Node) string {
	var b bytes.Buffer
	if err := printer.Fprint(&b, fset, n); err != nil {
		return "<unprintable>"
	}
	return strings.Join(strings.Fields(b.String()), " ")
}

// isWriter: a value of type t (or its address) can be used as an io.Writer: io.Writer itself,
// io.WriteCloser, *os.File, *bytes.Buffer, bytes.Buffer, *bufio.Writer, ...
func isWriter(t types.Type) bool {
	if ioWriter == nil || t == nil {
		return false
	}
	if types.Implements(t, ioWriter) {
		return true
	}
	if _, isPtr := t.Underlying().(*types.Pointer); !isPtr && !types.IsInterface(t) {
		return types.Implements(types.NewPointer(t), ioWriter)
	}
	return false
}

func isBytesBuffer(t types.Type) bool {
	if p, ok := t.(*types.Pointer); ok {
		t = p.Elem()
	}
	return isBufferValue(t)
}

// isBufferValue: t is bytes.Buffer (not a pointer to it)
func isBufferValue(t types.Type) bool {
	n, ok := t.(*types.Named)
	return ok && n.Obj().Pkg() != nil && n.Obj().Pkg().Path() == "bytes" && n.Obj().Name() == "Buffer"
}

// callee returns the function object called, or nil (conversion, builtin, function value).
func callee(c *ast.CallExpr) *types.Func {
	switch f := unparen(c.Fun).(type) {
	case *ast.Ident:
		fn, _ := info.Uses[f].(*types.Func)
		return fn
	case *ast.SelectorExpr:
		fn, _ := info.Uses[f.Sel].(*types.Func)
		return fn
	}
	return nil
}

func calleeIs(c *ast.CallExpr, pkgPath string, names ...string) bool {
	fn := callee(c)
	if fn == nil || fn.Pkg() == nil || fn.Pkg().Path() != pkgPath {
		return false
	}
	if sig, ok := fn.Type().(*types.Signature); ok && sig.Recv() != nil {
		return false
	}
	for _, n := range names {
		if fn.Name() == n {
			return true
		}
	}
	return len(names) == 0
}

// osCall finds a call into package os or io/ioutil anywhere below n.
func osCall(n ast.Node) *ast.CallExpr {
	var found *ast.CallExpr
	ast.Inspect(n, func(x ast.Node) bool {
		if found != nil {
			return false
		}
		if c, ok := x.(*ast.CallExpr); ok {
			if fn := callee(c); fn != nil && fn.Pkg() != nil && (fn.Pkg().Path() == "os" || fn.Pkg().Path() == "io/ioutil") {
				found = c
				return false
			}
		}
		return true
	})
	return found
}

// allowedPkgs: the packages whose objects package jen may reference anywhere (rule 1 of the
// confinement scan is an ALLOW-list): what it imports today, plus a few packages that only
// compute on their arguments.  They are ASSUMED not to touch the file system, standard
// output or any writer they were not given (fmt.Print*/Scan* are excepted below).  The list is
// printed into the generated file.
var allowedPkgs = map[string]bool{
	// imported by package jen at the commit this was written against
	"bytes": true, "fmt": true, "go/format": true, "io": true, "regexp": true, "sort": true,
	"strconv": true, "strings": true, "unicode": true, "unicode/utf8": true,
	// pure computation
	"errors": true, "math": true, "math/bits": true, "cmp": true, "slices": true, "maps": true, "unicode/utf16": true,
}

// fsPkgs: referenced only inside the bodies of the EFileSys entry points (File.Save), where
// every statement is translated into an event and checked.
var fsPkgs = map[string]bool{"os": true, "io/ioutil": true}

// commentSafe: s, made fit for the inside of a Coq comment (no comment brackets, no quotes)
func commentSafe(s string) string {
	s = strings.ReplaceAll(s, "*", "* ")
	s = strings.ReplaceAll(s, "(", "( ")
	return strings.ReplaceAll(s, "\"", "'")
}

func sortedKeys(m map[string]bool) []string {
	var ks []string
	for k := range m {
		ks = append(ks, k)
	}
	sort.Strings(ks)
	return ks
}

// refOutside: id names something through which code might reach the outside world without
// being handed a writer: an object (function, variable, type, constant, method, field) of a
// package other than jen that is not on the allow-list, fmt.Print*/Scan*, the builtins print
// and println.  Returns a description, "" when id is harmless.
func refOutside(id *ast.Ident) string {
	obj := info.Uses[id]
	if obj == nil {
		return ""
	}
	if b, ok := obj.(*types.Builtin); ok && (b.Name() == "print" || b.Name() == "println") {
		return b.Name()
	}
	if _, ok := obj.(*types.PkgName); ok {
		// the qualifier of a qualified identifier: the object selected is examined on its own
		return ""
	}
	if obj.Pkg() == nil || obj.Pkg() == pkg {
		return ""
	}
	if p := obj.Pkg().Path(); !allowedPkgs[p] {
		return obj.Pkg().Name() + "." + obj.Name() + " (package " + p + ")"
	}
	if fn, ok := obj.(*types.Func); ok && obj.Pkg().Path() == "fmt" {
		if sig := fn.Type().(*types.Signature); sig.Recv() == nil {
			switch fn.Name() {
			case "Print", "Printf", "Println", "Scan", "Scanf", "Scanln":
				return "fmt." + fn.Name()
			}
		}
	}
	return ""
}

// osRef: the first such reference below n ("" when none).
func osRef(n ast.Node) string {
	found := ""
	ast.Inspect(n, func(x ast.Node) bool {
		if id, ok := x.(*ast.Ident); ok && found == "" {
			found = refOutside(id)
		}
		return found == ""
	})
	return found
}

// isScratch: bytes.Buffer / strings.Builder (or pointers to them): writers that are memory.
func isScratch(t types.Type) bool {
	if p, ok := t.(*types.Pointer); ok {
		t = p.Elem()
	}
	n, ok := t.(*types.Named)
	if !ok || n.Obj().Pkg() == nil {
		return false
	}
	q := n.Obj().Pkg().Path() + "." + n.Obj().Name()
	return q == "bytes.Buffer" || q == "strings.Builder"
}

// allowedIfaces: the interface types WITH methods that package jen may assert, switch or
// convert to (rule 3): exactly those the package contained when this was written.  Through
// such a type code can call methods of a value it was given as interface{} (Lit(v), a
// Dict key ..): io.StringWriter, io.Closer, interface{ WriteString(string) (int, error) } would
// reach the caller's writer although nothing of type io.Writer is mentioned.  Printed into the
// generated file.
var allowedIfaces = map[string]bool{}

// targets seen by rule 3 (distinct, printed into the generated file)
var seenTargets = map[string]bool{}

// targetProblem: why a type must not be the target of a type assertion, a type-switch case or
// a conversion ("" when it may): it implements io.Writer (bytes.Buffer and strings.Builder
// excepted), it is a type parameter, or it is an interface type that has methods and is not on
// the allow-list.  A type without methods (interface{}, any) gives access to nothing.
func targetProblem(t types.Type) string {
	seenTargets[types.TypeString(t, types.RelativeTo(pkg))] = true
	if isWriter(t) && !isScratch(t) {
		return "writer type"
	}
	if _, ok := t.(*types.TypeParam); ok {
		return "type parameter"
	}
	if it, ok := t.Underlying().(*types.Interface); ok {
		if it.NumMethods() == 0 && it.NumEmbeddeds() == 0 {
			return ""
		}
		if allowedIfaces[types.TypeString(t, types.RelativeTo(pkg))] {
			return ""
		}
		return "interface type with methods (not on the allow-list)"
	}
	return ""
}

// confinement runs the two whole-package scans described in the header: rules 1-4 (what would let
// code of package jen that is not an entry point reach the caller's writer or the file system by
// a second road; `out`, printed as io_confinement) and rule 5 (places where package jen writes
// File.NoFormat; `nofmt`, printed as io_noformat_writes).  Every non-test file, every function,
// method and function literal, initialisers of package-level variables included; the bodies of
// the EFileSys entry points may reference os and io/ioutil.  Proofs/IOProofs.v wants both [].
func confinement(files []*ast.File, fsEntries map[*ast.FuncDecl]bool) (out, nofmt []string) {
	where := func(pos token.Pos) string {
		p := fset.Position(pos)
		return fmt.Sprintf("%s:%d: ", filepath.Base(p.Filename), p.Line)
	}
	add := func(pos token.Pos, format string, a ...interface{}) {
		out = append(out, where(pos)+fmt.Sprintf(format, a...))
	}
	// rule 5: e is written to (what: "assignment to", "inc/dec of", ..)
	target := func(e ast.Expr, what string) {
		e = unparen(e)
		if isNoFormatSel(e) {
			nofmt = append(nofmt, where(e.Pos())+what+" "+text(e))
			return
		}
		if id, ok := e.(*ast.Ident); ok && (id.Name == "_" || info.Defs[id] != nil) {
			return // blank, or a variable declared by this very statement
		}
		if tv, ok := info.Types[e]; ok && containsNoFormat(tv.Type) {
			nofmt = append(nofmt, where(e.Pos())+what+" "+text(e)+" (a whole "+types.TypeString(tv.Type, types.RelativeTo(pkg))+")")
		}
	}
	badWriterType := func(t types.Type) bool { return isWriter(t) && !isScratch(t) }
	for _, f := range files {
		for _, im := range f.Imports {
			if im.Path.Value == `"C"` {
				add(im.Pos(), "import \"C\"")
			} else if p, err := strconv.Unquote(im.Path.Value); err != nil || (!allowedPkgs[p] && !fsPkgs[p]) {
				add(im.Pos(), "import of %s (not on the allow-list)", im.Path.Value)
			}
		}
		for _, cg := range f.Comments {
			for _, c := range cg.List {
				if strings.HasPrefix(c.Text, "//go:linkname") {
					add(c.Pos(), "go:linkname")
				}
			}
		}
		for _, d := range f.Decls {
			fd, isFunc := d.(*ast.FuncDecl)
			skipRule1 := isFunc && fsEntries[fd]
			ast.Inspect(d, func(x ast.Node) bool {
				switch x := x.(type) {
				case *ast.Ident:
					if r := refOutside(x); r != "" {
						// the bodies of the EFileSys entry points may use os and io/ioutil (and nothing else)
						if o := info.Uses[x]; !(skipRule1 && o != nil && o.Pkg() != nil && fsPkgs[o.Pkg().Path()]) {
							add(x.Pos(), "reference to %s", r)
						}
					}
					if v, ok := info.Defs[x].(*types.Var); ok && v.Pkg() == pkg && (v.IsField() || v.Parent() == pkg.Scope()) && badWriterType(v.Type()) {
						add(x.Pos(), "%s of writer type %s", x.Name, types.TypeString(v.Type(), types.RelativeTo(pkg)))
					} else if ok && v.Pkg() == pkg && (v.IsField() || v.Parent() == pkg.Scope() || exportedParams[v]) && foreignIface(v.Type()) {
						add(x.Pos(), "%s of foreign interface type %s", x.Name, types.TypeString(v.Type(), types.RelativeTo(pkg)))
					}
				case *ast.Field:
					// embedded fields have no name
					if len(x.Names) == 0 {
						if tv, ok := info.Types[x.Type]; ok && tv.IsType() && badWriterType(tv.Type) {
							if _, inStruct := structFields[x]; inStruct {
								add(x.Pos(), "embedded field of writer type %s", text(x.Type))
							}
						}
					}
				case *ast.AssignStmt:
					for _, l := range x.Lhs {
						target(l, "assignment to")
					}
				case *ast.IncDecStmt:
					target(x.X, "inc/dec of")
				case *ast.RangeStmt:
					if x.Tok == token.ASSIGN {
						for _, l := range []ast.Expr{x.Key, x.Value} {
							if l != nil {
								target(l, "range assignment to")
							}
						}
					}
				case *ast.UnaryExpr:
					if x.Op == token.AND && isNoFormatSel(unparen(x.X)) {
						nofmt = append(nofmt, where(x.Pos())+"address of "+text(x.X))
					}
				case *ast.TypeAssertExpr:
					if x.Type != nil {
						if tv, ok := info.Types[x.Type]; ok {
							if why := targetProblem(tv.Type); why != "" {
								add(x.Pos(), "type assertion to %s %s", why, text(x.Type))
							}
						}
					}
				case *ast.CaseClause:
					for _, e := range x.List {
						if tv, ok := info.Types[e]; ok && tv.IsType() {
							if why := targetProblem(tv.Type); why != "" {
								add(e.Pos(), "type-switch case on %s %s", why, text(e))
							}
						}
					}
				case *ast.CallExpr:
					if tv, ok := info.Types[x.Fun]; ok && tv.IsType() && len(x.Args) == 1 {
						if at, ok := info.Types[x.Args[0]]; ok {
							// a conversion between two writer types recovers nothing (the operand is a writer already)
							if why := targetProblem(tv.Type); why != "" && !(why == "writer type" && isWriter(at.Type)) {
								add(x.Pos(), "conversion to %s %s", why, text(x.Fun))
							}
						}
					}
				}
				return true
			})
		}
	}
	return out, nofmt
}

// exportedParams: the parameters of the exported functions and methods (of exported types) of
// package jen: where a resource of the caller enters the package.
var exportedParams = map[*types.Var]bool{}

// foreignIface: t is (a pointer to, a slice of) an interface type that has methods, is not
// declared in package jen, is not `error`, and does not implement io.Writer (those are the
// tracked writers): io.StringWriter, io.Closer, interface{ WriteString(string) (int, error) }:
// a sink of the caller that the entry-point discovery does not see.
func foreignIface(t types.Type) bool {
	switch u := t.(type) {
	case *types.Pointer:
		return foreignIface(u.Elem())
	case *types.Slice:
		return foreignIface(u.Elem())
	case *types.Array:
		return foreignIface(u.Elem())
	}
	it, ok := t.Underlying().(*types.Interface)
	if !ok || it.NumMethods() == 0 || isWriter(t) {
		return false
	}
	if n, ok := t.(*types.Named); ok && (n.Obj().Pkg() == pkg || (n.Obj().Pkg() == nil && n.Obj().Name() == "error")) {
		return false
	}
	return true
}

// isNoFormatField: the field that `if r.NoFormat` reads (see noFormatCond): a bool field called
// NoFormat of a struct type of package jen (File.NoFormat).
func isNoFormatField(obj types.Object) bool {
	fld, isVar := obj.(*types.Var)
	if !isVar || !fld.IsField() || fld.Pkg() != pkg || fld.Name() != "NoFormat" {
		return false
	}
	b, isBasic := fld.Type().Underlying().(*types.Basic)
	return isBasic && b.Kind() == types.Bool
}

// isNoFormatSel: e is a selector expression x.NoFormat that selects that field (whatever x is:
// the receiver, another *File, a copy, a struct that embeds a File).
func isNoFormatSel(e ast.Expr) bool {
	sel, ok := unparen(e).(*ast.SelectorExpr)
	return ok && isNoFormatField(info.Uses[sel.Sel])
}

// containsNoFormat: a value of type t holds (by value: directly, in a field, in an array
// element) a struct with that field, so that assigning a whole t overwrites it.
func containsNoFormat(t types.Type) bool {
	switch u := t.Underlying().(type) {
	case *types.Struct:
		for i := 0; i < u.NumFields(); i++ {
			if isNoFormatField(u.Field(i)) || containsNoFormat(u.Field(i).Type()) {
				return true
			}
		}
	case *types.Array:
		return containsNoFormat(u.Elem())
	}
	return false
}

// struct fields (to tell an embedded struct field from an unnamed parameter)
var structFields = map[*ast.Field]bool{}

func collectStructFields(files []*ast.File) {
	for _, f := range files {
		ast.Inspect(f, func(x ast.Node) bool {
			if st, ok := x.(*ast.StructType); ok && st.Fields != nil {
				for _, fl := range st.Fields.List {
					structFields[fl] = true
				}
			}
			return true
		})
	}
}

type translator struct {
	ws      map[types.Object]bool // the caller's writers: every parameter whose type implements io.Writer
	recv    types.Object          // the receiver variable (nil for a function)
	params  map[types.Object]bool // the parameters
	tracked map[*types.TypeName]bool
	names   map[types.Object]string
	taken   map[string]types.Object
}

func newTranslator(sig *types.Signature) *translator {
	t := &translator{ws: map[types.Object]bool{}, params: map[types.Object]bool{}, tracked: map[*types.TypeName]bool{},
		names: map[types.Object]string{}, taken: map[string]types.Object{}}
	if sig.Recv() != nil {
		t.recv = sig.Recv()
		t.nameOf(sig.Recv())
		if b := jenBase(sig.Recv().Type()); b != nil {
			t.tracked[b] = true
		}
	}
	for i := 0; i < sig.Params().Len(); i++ {
		t.nameOf(sig.Params().At(i))
		t.params[sig.Params().At(i)] = true
		if b := jenBase(sig.Params().At(i).Type()); b != nil {
			t.tracked[b] = true
		}
	}
	return t
}

// jenBase: t is T or *T with T a named type of package jen (File, Statement, Group, Code ..);
// returns T's name object, nil otherwise.
func jenBase(t types.Type) *types.TypeName {
	if t == nil {
		return nil
	}
	if p, ok := t.(*types.Pointer); ok {
		t = p.Elem()
	}
	if n, ok := t.(*types.Named); ok && n.Obj().Pkg() == pkg {
		return n.Obj()
	}
	return nil
}

// ownIdent: e is an identifier that denotes the receiver of the function being translated or
// one of its parameters (go/types object identity; neither is ever assigned, see reassigned).
// In receiver position of a call, when the function has a receiver, only the receiver will do.
func (t *translator) ownIdent(e ast.Expr, recvPos bool) bool {
	id, ok := unparen(e).(*ast.Ident)
	if !ok {
		return false
	}
	o := info.Uses[id]
	if o == nil {
		return false
	}
	if recvPos && t.recv != nil {
		return o == t.recv
	}
	return o == t.recv || t.params[o]
}

// ownObjects: the call c is about the SAME objects as the function being translated.  The
// OBJECT TYPES of that function are the named types of package jen that its receiver and its
// parameters have (File and Statement for (*Statement).RenderWithFile(w, file)).  Wherever the
// call has a receiver or an argument of such a type (or a pointer to it) or of an INTERFACE type
// (a Code, an interface{}: it may hold any object), that receiver or argument must be an
// identifier denoting the function's own receiver or parameter - in receiver position the
// receiver, when there is one; a literal nil and constants are let through.  With
// strictRecv (delegation, entry called with a local buffer) the receiver of a method call must
// be the function's own receiver whatever its type.  So f.Render(buf) in (*File).Save,
// s.render(file, buf, nil) and Comment(c).render(f, source, nil) pass;
// NewFile("x").Render(buf), other.render(file, buf, nil), s.render(NewFile("x"), buf, nil) do not.
func (t *translator) ownObjects(c *ast.CallExpr, strictRecv bool) bool {
	fn := callee(c)
	if fn == nil {
		return false
	}
	isTracked := func(e ast.Expr) bool {
		tv, ok := info.Types[e]
		if !ok {
			return true
		}
		if tv.IsNil() || tv.Value != nil {
			return false // nil, a constant
		}
		if types.IsInterface(tv.Type) {
			return true // a Code, an interface{}: may hold any object
		}
		b := jenBase(tv.Type)
		return b != nil && t.tracked[b]
	}
	if sig, ok := fn.Type().(*types.Signature); ok && sig.Recv() != nil {
		sel, ok := unparen(c.Fun).(*ast.SelectorExpr)
		if !ok {
			return false
		}
		if tv, ok := info.Types[sel.X]; ok && tv.IsType() {
			return false // method expression T.m(x, ..)
		}
		if (strictRecv || isTracked(sel.X)) && !t.ownIdent(sel.X, true) {
			return false
		}
	}
	for _, a := range c.Args {
		if isNilIdent(a) || t.isW(a) {
			continue
		}
		if isTracked(a) && !t.ownIdent(a, false) {
			return false
		}
	}
	return true
}

// reassigned: somewhere in body (function literals included) the receiver or a parameter of
// the function is assigned, incremented, ranged into, or has its address taken; returns the
// first such place as text ("" when none).  Identity of objects (ownIdent, noFormatCond) means
// identity of VALUES only as long as this never happens.
func (t *translator) reassigned(body *ast.BlockStmt) string {
	found := ""
	mine := func(e ast.Expr) bool {
		id, ok := unparen(e).(*ast.Ident)
		if !ok {
			return false
		}
		o := info.Uses[id]
		return o != nil && (o == t.recv || t.params[o])
	}
	ast.Inspect(body, func(x ast.Node) bool {
		if found != "" {
			return false
		}
		switch x := x.(type) {
		case *ast.AssignStmt:
			for _, l := range x.Lhs {
				if mine(l) {
					found = text(x)
				}
			}
		case *ast.IncDecStmt:
			if mine(x.X) {
				found = text(x)
			}
		case *ast.RangeStmt:
			if x.Tok == token.ASSIGN && ((x.Key != nil && mine(x.Key)) || (x.Value != nil && mine(x.Value))) {
				found = "for " + text(x.Key) + " .. = range " + text(x.X)
			}
		case *ast.UnaryExpr:
			if x.Op == token.AND && mine(x.X) {
				found = text(x)
			}
		}
		return true
	})
	return found
}

// nameOf: the name under which a local object appears in the table: its own name, or - when
// another object of this function already has that name (shadowing, a second `buf` in an inner
// block) - the name followed by #2, #3, ..: equal names in one entry of the table mean the
// same object.
func (t *translator) nameOf(obj types.Object) string {
	if n, ok := t.names[obj]; ok {
		return n
	}
	n := obj.Name()
	for i := 2; t.taken[n] != nil; i++ {
		n = fmt.Sprintf("%s#%d", obj.Name(), i)
	}
	t.names[obj] = n
	t.taken[n] = obj
	return n
}

func objOf(id *ast.Ident) types.Object {
	if o := info.Uses[id]; o != nil {
		return o
	}
	return info.Defs[id]
}

// local: e is an identifier x that denotes a local variable or a parameter of the function
// being translated (not a field, not a package-level variable), or &x with x such a variable
// of type bytes.Buffer; returns its table name.
func (t *translator) local(e ast.Expr) (string, bool) {
	e = unparen(e)
	if u, ok := e.(*ast.UnaryExpr); ok && u.Op == token.AND {
		id, ok := unparen(u.X).(*ast.Ident)
		if !ok {
			return "", false
		}
		if o := objOf(id); o == nil || !isBufferValue(o.Type()) {
			return "", false
		}
		e = id
	}
	id, ok := e.(*ast.Ident)
	if !ok || id.Name == "_" {
		return "", false
	}
	v, ok := objOf(id).(*types.Var)
	if !ok || v.IsField() || v.Pkg() != pkg || v.Parent() == nil || v.Parent() == pkg.Scope() || v.Parent() == types.Universe {
		return "", false
	}
	return t.nameOf(v), true
}

func (t *translator) mentionsW(n ast.Node) bool {
	if len(t.ws) == 0 || n == nil {
		return false
	}
	found := false
	ast.Inspect(n, func(x ast.Node) bool {
		if id, ok := x.(*ast.Ident); ok && t.ws[info.Uses[id]] {
			found = true
		}
		return !found
	})
	return found
}

func hasFuncLit(n ast.Node) bool {
	found := false
	ast.Inspect(n, func(x ast.Node) bool {
		if _, ok := x.(*ast.FuncLit); ok {
			found = true
		}
		return !found
	})
	return found
}

func (t *translator) isW(e ast.Expr) bool {
	id, ok := unparen(e).(*ast.Ident)
	return ok && t.ws[info.Uses[id]]
}

// bytesOf: e is `b.Bytes()` with b a local bytes.Buffer or *bytes.Buffer variable.
func (t *translator) bytesOf(e ast.Expr) (string, bool) {
	c, ok := unparen(e).(*ast.CallExpr)
	if !ok || len(c.Args) != 0 {
		return "", false
	}
	sel, ok := unparen(c.Fun).(*ast.SelectorExpr)
	if !ok || sel.Sel.Name != "Bytes" {
		return "", false
	}
	if _, isAddr := unparen(sel.X).(*ast.UnaryExpr); isAddr {
		return "", false
	}
	name, ok := t.local(sel.X)
	if !ok {
		return "", false
	}
	if tv, ok := info.Types[sel.X]; !ok || !isBytesBuffer(tv.Type) {
		return "", false
	}
	return name, true
}

func wk(kind, what, arg string) string {
	return fmt.Sprintf("EvWriteCaller %s %s %s", kind, coqfmt.Str(what), coqfmt.Str(arg))
}

// localBuf: e denotes a local bytes.Buffer (b of type *bytes.Buffer or bytes.Buffer, or &b with b
// of type bytes.Buffer).
func (t *translator) localBuf(e ast.Expr) (string, bool) {
	name, ok := t.local(e)
	if !ok {
		return "", false
	}
	if tv, ok := info.Types[e]; !ok || !isBytesBuffer(tv.Type) {
		return "", false
	}
	return name, true
}

// classify translates a call into an event; dst is the variable its first result is assigned to.
func (t *translator) classify(c *ast.CallExpr, dst string) string {
	if t.mentionsW(c) {
		if sel, ok := unparen(c.Fun).(*ast.SelectorExpr); ok && t.isW(sel.X) && sel.Sel.Name == "Write" && len(c.Args) == 1 {
			if x, ok := t.local(c.Args[0]); ok && !t.mentionsW(c.Args[0]) {
				if _, isAddr := unparen(c.Args[0]).(*ast.UnaryExpr); !isAddr {
					return wk("KWrite", text(c), x)
				}
			}
			return wk("KWrite", text(c), "")
		}
		if hasFuncLit(c) {
			return wk("KStore", text(c), "")
		}
		if calleeIs(c, "fmt", "Fprint", "Fprintf", "Fprintln") && len(c.Args) >= 1 && t.isW(c.Args[0]) {
			return wk("KFprint", text(c), "")
		}
		if calleeIs(c, "io", "WriteString", "Copy", "CopyN", "CopyBuffer") && len(c.Args) >= 1 && t.isW(c.Args[0]) {
			return wk("KWriteString", text(c), "")
		}
		if fn := callee(c); fn != nil {
			if ref, ok := writerEntries[fn]; ok {
				// exactly one argument is a writer of the caller, it sits at a writer parameter of
				// the entry called, and nothing else in the call mentions a writer
				n, only := 0, !t.mentionsW(c.Fun)
				for i, a := range c.Args {
					if ref.isWidx(i) && t.isW(a) {
						n++
					} else if t.mentionsW(a) {
						only = false
					}
				}
				if n == 1 && only && osRef(c) == "" && t.ownObjects(c, true) {
					return wk("KDelegate", ref.name, "")
				}
			}
		}
		return wk("KPass", text(c), "")
	}
	if oc := osCall(c); oc != nil {
		fn := callee(oc)
		p := fn.Pkg().Name()
		path, data := "", ""
		if len(oc.Args) >= 1 {
			path, _ = t.local(oc.Args[0])
		}
		if len(oc.Args) >= 2 {
			data, _ = t.bytesOf(oc.Args[1])
		}
		if oc != c {
			// an os call buried in the arguments of something else: not the recognised shape
			return fmt.Sprintf("EvWriteFile %s %s %s", coqfmt.Str(p+"."+fn.Name()+" (nested)"), coqfmt.Str(""), coqfmt.Str(""))
		}
		for _, a := range oc.Args {
			if osRef(a) != "" {
				return fmt.Sprintf("EvWriteFile %s %s %s", coqfmt.Str(p+"."+fn.Name()+" (with "+osRef(a)+")"), coqfmt.Str(""), coqfmt.Str(""))
			}
		}
		return fmt.Sprintf("EvWriteFile %s %s %s", coqfmt.Str(p+"."+fn.Name()), coqfmt.Str(path), coqfmt.Str(data))
	}
	if r := osRef(c); r != "" {
		// os.Stdout, os.Args, log.Printf, fmt.Println ..: not a call into os, but the outside world all the same
		return fmt.Sprintf("EvWriteFile %s %s %s", coqfmt.Str(r+" (in: "+text(c)+")"), coqfmt.Str(""), coqfmt.Str(""))
	}
	if calleeIs(c, "go/format", "Source") && len(c.Args) == 1 {
		if src, ok := t.bytesOf(c.Args[0]); ok && dst != "" {
			return fmt.Sprintf("EvFormat %s %s", coqfmt.Str(dst), coqfmt.Str(src))
		}
	}
	if fn := callee(c); fn != nil {
		if ref, ok := writerEntries[fn]; ok && ref.exported && len(ref.widx) == 1 && ref.widx[0] < len(c.Args) {
			if b, ok := t.localBuf(c.Args[ref.widx[0]]); ok && t.ownObjects(c, true) {
				return fmt.Sprintf("EvRenderToBuffer %s %s", coqfmt.Str(ref.name), coqfmt.Str(b))
			}
		}
	}
	if calleeIs(c, "fmt", "Fprint", "Fprintf", "Fprintln") && len(c.Args) >= 1 {
		if b, ok := t.localBuf(c.Args[0]); ok {
			return fmt.Sprintf("EvWriteLocal %s", coqfmt.Str(b))
		}
	}
	if calleeIs(c, "io", "WriteString") && len(c.Args) >= 1 {
		if b, ok := t.localBuf(c.Args[0]); ok {
			return fmt.Sprintf("EvWriteLocal %s", coqfmt.Str(b))
		}
	}
	if sel, ok := unparen(c.Fun).(*ast.SelectorExpr); ok {
		if _, isAddr := unparen(sel.X).(*ast.UnaryExpr); !isAddr {
			if b, ok := t.localBuf(sel.X); ok {
				switch sel.Sel.Name {
				case "Write", "WriteString", "WriteByte", "WriteRune":
					return fmt.Sprintf("EvWriteLocal %s", coqfmt.Str(b))
				}
			}
		}
	}
	if fn := callee(c); fn != nil && fn.Pkg() == pkg {
		if ref, isEntry := writerEntries[fn]; !isEntry || !ref.exported {
			if sig, ok := fn.Type().(*types.Signature); ok {
				// exactly one writer parameter, and it receives a local buffer
				var ws []int
				for i := 0; i < sig.Params().Len(); i++ {
					if isWriter(sig.Params().At(i).Type()) {
						ws = append(ws, i)
					}
				}
				if len(ws) == 1 && ws[0] < len(c.Args) && !(sig.Variadic() && ws[0] == sig.Params().Len()-1) {
					if b, ok := t.localBuf(c.Args[ws[0]]); ok && t.ownObjects(c, false) {
						return fmt.Sprintf("EvRender %s %s", coqfmt.Str(text(c.Fun)), coqfmt.Str(b))
					}
				}
			}
		}
	}
	return fmt.Sprintf("EvOther %s", coqfmt.Str(text(c)))
}

// fallback for a statement that fits no rule
func (t *translator) fallback(s ast.Stmt) string {
	if t.mentionsW(s) {
		kind := "KOtherUse"
		switch s.(type) {
		case *ast.AssignStmt, *ast.DeclStmt, *ast.SendStmt:
			kind = "KStore"
		}
		if hasFuncLit(s) {
			kind = "KStore"
		}
		return "Do (" + wk(kind, text(s), "") + ")"
	}
	if oc := osCall(s); oc != nil {
		fn := callee(oc)
		return fmt.Sprintf("Do (EvWriteFile %s %s %s)", coqfmt.Str(fn.Pkg().Name()+"."+fn.Name()+" (in: "+text(s)+")"), coqfmt.Str(""), coqfmt.Str(""))
	}
	if r := osRef(s); r != "" {
		return fmt.Sprintf("Do (EvWriteFile %s %s %s)", coqfmt.Str(r+" (in: "+text(s)+")"), coqfmt.Str(""), coqfmt.Str(""))
	}
	return "Do (EvOther " + coqfmt.Str(text(s)) + ")"
}

func isNilIdent(e ast.Expr) bool {
	id, ok := unparen(e).(*ast.Ident)
	if !ok {
		return false
	}
	_, isNil := info.Uses[id].(*types.Nil)
	return isNil
}

// errCheck: cond is `e != nil` with e an identifier of type error; returns its object.
func errCheck(cond ast.Expr) types.Object {
	b, ok := unparen(cond).(*ast.BinaryExpr)
	if !ok || b.Op != token.NEQ || !isNilIdent(b.Y) {
		return nil
	}
	id, ok := unparen(b.X).(*ast.Ident)
	if !ok {
		return nil
	}
	obj := info.Uses[id]
	if obj == nil || obj.Type().String() != "error" {
		return nil
	}
	return obj
}

// handler: body is a single `return R`.
func (t *translator) handler(body *ast.BlockStmt, errObj types.Object) (string, bool) {
	if len(body.List) != 1 {
		return "", false
	}
	r, ok := body.List[0].(*ast.ReturnStmt)
	if !ok || len(r.Results) != 1 || t.mentionsW(r) || osCall(r) != nil || osRef(r) != "" {
		return "", false
	}
	x := unparen(r.Results[0])
	if id, ok := x.(*ast.Ident); ok && info.Uses[id] == errObj {
		return "EvReturnErr", true
	}
	if isNilIdent(x) {
		return "EvSwallowErr", true
	}
	if c, ok := x.(*ast.CallExpr); ok && calleeIs(c, "fmt", "Errorf") {
		for _, a := range c.Args {
			if id, ok := unparen(a).(*ast.Ident); ok && info.Uses[id] == errObj {
				return "EvReturnWrapped", true
			}
		}
	}
	return "", false
}

// errAssign: `[x|_,] err :=|= CALL` ; returns the call, the name of the first result variable
// ("" when blank or absent) and the error variable's object.
func (t *translator) errAssign(a *ast.AssignStmt) (*ast.CallExpr, string, types.Object) {
	if (a.Tok != token.DEFINE && a.Tok != token.ASSIGN) || len(a.Rhs) != 1 || len(a.Lhs) < 1 || len(a.Lhs) > 2 {
		return nil, "", nil
	}
	c, ok := unparen(a.Rhs[0]).(*ast.CallExpr)
	if !ok {
		return nil, "", nil
	}
	last, ok := a.Lhs[len(a.Lhs)-1].(*ast.Ident)
	if !ok || last.Name == "_" {
		return nil, "", nil
	}
	obj := info.Defs[last]
	if obj == nil {
		obj = info.Uses[last]
	}
	if obj == nil || obj.Type().String() != "error" {
		return nil, "", nil
	}
	dst := ""
	if len(a.Lhs) == 2 {
		id, ok := a.Lhs[0].(*ast.Ident)
		if !ok {
			return nil, "", nil
		}
		if id.Name != "_" {
			if dst, ok = t.local(id); !ok {
				return nil, "", nil
			}
		}
	}
	return c, dst, obj
}

func (t *translator) pureCond(e ast.Expr) bool {
	if t.mentionsW(e) || hasFuncLit(e) {
		return false
	}
	ok := true
	ast.Inspect(e, func(x ast.Node) bool {
		if c, isCall := x.(*ast.CallExpr); isCall {
			id, isId := unparen(c.Fun).(*ast.Ident)
			if !isId {
				ok = false
				return false
			}
			if b, isB := info.Uses[id].(*types.Builtin); !isB || b.Name() != "len" {
				ok = false
				return false
			}
		}
		return ok
	})
	return ok
}

func isNewBuffer(e ast.Expr) bool {
	e = unparen(e)
	if u, ok := e.(*ast.UnaryExpr); ok && u.Op == token.AND {
		e = unparen(u.X)
	}
	switch x := e.(type) {
	case *ast.CompositeLit:
		tv, ok := info.Types[x]
		return ok && isBytesBuffer(tv.Type) && len(x.Elts) == 0
	case *ast.CallExpr:
		if id, ok := unparen(x.Fun).(*ast.Ident); ok && len(x.Args) == 1 {
			if b, isB := info.Uses[id].(*types.Builtin); isB && b.Name() == "new" {
				tv, ok := info.Types[x]
				return ok && isBytesBuffer(tv.Type)
			}
		}
	}
	return false
}

func blockOf(items []string, indent string) string {
	if len(items) == 0 {
		return "Nop"
	}
	return "(block " + coqfmt.List(items, indent+"  ") + ")"
}

// noFormatCond: cond is `r.NoFormat` (neg false) or `!r.NoFormat` (neg true), r the receiver and
// NoFormat a bool field.
func (t *translator) noFormatCond(cond ast.Expr) (neg, ok bool) {
	cond = unparen(cond)
	if u, isNot := cond.(*ast.UnaryExpr); isNot && u.Op == token.NOT {
		neg = true
		cond = unparen(u.X)
	}
	sel, isSel := cond.(*ast.SelectorExpr)
	if !isSel {
		return false, false
	}
	if !isNoFormatField(info.Uses[sel.Sel]) {
		return false, false
	}
	id, isId := unparen(sel.X).(*ast.Ident)
	if !isId || t.recv == nil || info.Uses[id] != t.recv {
		return false, false
	}
	return neg, true
}

// pureSimple: nil, or `x := e` / `x = e` / `x++` / `x--` / `x += e` on local non-writer variables, e without
// calls (but len), writers or function literals: a loop header that does nothing but count.
func (t *translator) pureSimple(s ast.Stmt) bool {
	switch s := s.(type) {
	case nil:
		return true
	case *ast.IncDecStmt:
		_, ok := t.local(s.X)
		return ok && !t.mentionsW(s)
	case *ast.AssignStmt:
		for _, l := range s.Lhs {
			if id, ok := unparen(l).(*ast.Ident); ok && id.Name == "_" {
				continue
			}
			if _, ok := t.local(l); !ok {
				return false
			}
			if tv, ok := info.Types[l]; ok && (isWriter(tv.Type) || isBytesBuffer(tv.Type)) {
				return false
			}
		}
		for _, r := range s.Rhs {
			if !t.pureCond(r) {
				return false
			}
			if tv, ok := info.Types[r]; ok && (isWriter(tv.Type) || isBytesBuffer(tv.Type)) {
				return false
			}
		}
		return true
	}
	return false
}

func (t *translator) stmts(list []ast.Stmt, indent string) []string {
	var out []string
	// try: CALL whose error is tested by the statement that follows
	try := func(i *int, c *ast.CallExpr, dst string, errObj types.Object) {
		ev := t.classify(c, dst)
		if h, ok := t.followingCheck(list, *i, errObj); ok {
			out = append(out, fmt.Sprintf("Try (%s) %s", ev, h))
			*i++
		} else if t.followingReturn(list, *i, errObj) {
			out = append(out, fmt.Sprintf("Try (%s) EvReturnErr", ev), "EvReturnNil")
			*i++
		} else {
			out = append(out, "Do ("+ev+")")
		}
	}
	for i := 0; i < len(list); i++ {
		s := list[i]
		switch s := s.(type) {
		case *ast.EmptyStmt:
			continue
		case *ast.DeclStmt:
			gd, ok := s.Decl.(*ast.GenDecl)
			if ok && gd.Tok == token.VAR && !t.mentionsW(s) && osRef(s) == "" {
				var evs []string
				good := true
				for _, sp := range gd.Specs {
					vs := sp.(*ast.ValueSpec)
					switch {
					case len(vs.Values) == 0:
						for _, n := range vs.Names {
							if n.Name == "_" {
								continue
							}
							obj := info.Defs[n]
							if obj != nil && isBufferValue(obj.Type()) {
								// var buf bytes.Buffer: the zero value is an empty buffer ready to use
								evs = append(evs, "Do (EvNewBuf "+coqfmt.Str(t.nameOf(obj))+")")
							} else if obj != nil {
								evs = append(evs, "Do (EvDecl "+coqfmt.Str(t.nameOf(obj))+")")
							}
						}
					case len(vs.Values) == 1 && len(vs.Names) == 1 && vs.Names[0].Name != "_" && isNewBuffer(vs.Values[0]):
						// var buf = &bytes.Buffer{} | bytes.Buffer{} | new(bytes.Buffer)
						evs = append(evs, "Do (EvNewBuf "+coqfmt.Str(t.nameOf(info.Defs[vs.Names[0]]))+")")
					default:
						good = false
					}
				}
				if good {
					out = append(out, evs...)
					continue
				}
			}
		case *ast.AssignStmt:
			if t.mentionsW(s) {
				// the only assignment that may mention w is `.., err := <call using w>`
				if c, dst, errObj := t.errAssign(s); c != nil && !t.mentionsW(s.Lhs[0]) {
					try(&i, c, dst, errObj)
					continue
				}
				if len(s.Rhs) == 1 && allBlank(s.Lhs) {
					if c, ok := unparen(s.Rhs[0]).(*ast.CallExpr); ok {
						out = append(out, "Do ("+t.classify(c, "")+")")
						continue
					}
				}
				break
			}
			if s.Tok == token.DEFINE && len(s.Lhs) == 1 && len(s.Rhs) == 1 && isNewBuffer(s.Rhs[0]) {
				if n, ok := t.local(s.Lhs[0]); ok {
					out = append(out, "Do (EvNewBuf "+coqfmt.Str(n)+")")
					continue
				}
			}
			if len(s.Lhs) == 1 && len(s.Rhs) == 1 && (s.Tok == token.ASSIGN || s.Tok == token.DEFINE) {
				if src, ok := t.bytesOf(s.Rhs[0]); ok {
					if n, ok := t.local(s.Lhs[0]); ok {
						out = append(out, fmt.Sprintf("Do (EvBytes %s %s)", coqfmt.Str(n), coqfmt.Str(src)))
						continue
					}
				}
			}
			if c, dst, errObj := t.errAssign(s); c != nil {
				try(&i, c, dst, errObj)
				continue
			}
			if len(s.Rhs) == 1 && allBlank(s.Lhs) {
				if c, ok := unparen(s.Rhs[0]).(*ast.CallExpr); ok {
					out = append(out, "Do ("+t.classify(c, "")+")")
					continue
				}
			}
		case *ast.ExprStmt:
			if c, ok := unparen(s.X).(*ast.CallExpr); ok {
				out = append(out, "Do ("+t.classify(c, "")+")")
				continue
			}
		case *ast.ReturnStmt:
			if len(s.Results) == 1 {
				if isNilIdent(s.Results[0]) {
					out = append(out, "EvReturnNil")
					continue
				}
				if c, ok := unparen(s.Results[0]).(*ast.CallExpr); ok {
					if tv, ok := info.Types[c]; ok && tv.Type.String() == "error" {
						out = append(out, fmt.Sprintf("Try (%s) EvReturnErr", t.classify(c, "")), "EvReturnNil")
						continue
					}
				}
			}
		case *ast.IfStmt:
			if s.Init != nil && s.Else == nil {
				if a, ok := s.Init.(*ast.AssignStmt); ok && a.Tok == token.DEFINE {
					if c, dst, errObj := t.errAssign(a); c != nil && errCheck(s.Cond) == errObj && !t.mentionsW(a.Lhs[0]) {
						if h, ok := t.handler(s.Body, errObj); ok {
							out = append(out, fmt.Sprintf("Try (%s) %s", t.classify(c, dst), h))
							continue
						}
					}
				}
			}
			if s.Init == nil {
				if neg, ok := t.noFormatCond(s.Cond); ok {
					// if r.NoFormat { A } [else { B }]  /  if !r.NoFormat { B } [else { A }]
					var eb []ast.Stmt
					good := true
					switch e := s.Else.(type) {
					case nil:
					case *ast.BlockStmt:
						eb = e.List
					default: // else if
						good = false
					}
					if good {
						a := t.stmts(s.Body.List, indent+"  ")
						b := t.stmts(eb, indent+"  ")
						if neg {
							a, b = b, a
						}
						out = append(out, fmt.Sprintf("EvCondNoFormat %s %s", blockOf(a, indent), blockOf(b, indent)))
						continue
					}
				}
			}
			if s.Init == nil && s.Else == nil && errCheck(s.Cond) == nil && t.pureCond(s.Cond) {
				a := t.stmts(s.Body.List, indent+"  ")
				out = append(out, fmt.Sprintf("If %s %s", coqfmt.Str(text(s.Cond)), blockOf(a, indent)))
				continue
			}
		case *ast.RangeStmt:
			if t.pureCond(s.X) && !t.mentionsW(s.Key) && !t.mentionsW(s.Value) && !hasCall(s.X) {
				a := t.stmts(s.Body.List, indent+"  ")
				out = append(out, fmt.Sprintf("For %s %s", coqfmt.Str(text(s.X)), blockOf(a, indent)))
				continue
			}
		case *ast.ForStmt:
			// for i := 0; i < len(xs); i++ { A }: a header that only counts; the body runs some number of times
			if t.pureSimple(s.Init) && t.pureSimple(s.Post) && (s.Cond == nil || (t.pureCond(s.Cond) && errCheck(s.Cond) == nil)) {
				a := t.stmts(s.Body.List, indent+"  ")
				hdr := "for "
				if s.Init != nil {
					hdr += text(s.Init)
				}
				hdr += "; "
				if s.Cond != nil {
					hdr += text(s.Cond)
				}
				hdr += "; "
				if s.Post != nil {
					hdr += text(s.Post)
				}
				out = append(out, fmt.Sprintf("For %s %s", coqfmt.Str(hdr), blockOf(a, indent)))
				continue
			}
		}
		out = append(out, t.fallback(s))
	}
	return out
}

// body: the events of an entry's body; preceded by an EvOther (which no checker accepts) when the
// function assigns its own receiver or a parameter.
func (t *translator) body(fd *ast.FuncDecl) []string {
	out := t.stmts(fd.Body.List, "    ")
	if r := t.reassigned(fd.Body); r != "" {
		out = append([]string{"Do (EvOther " + coqfmt.Str("the receiver or a parameter is assigned or has its address taken: "+r) + ")"}, out...)
	}
	return out
}

// followingReturn: list[i+1] is `return err` on the same error variable: with the call before it,
// `x, err := CALL; return err` is `if err != nil { return err }; return nil`.
func (t *translator) followingReturn(list []ast.Stmt, i int, errObj types.Object) bool {
	if i+1 >= len(list) {
		return false
	}
	r, ok := list[i+1].(*ast.ReturnStmt)
	if !ok || len(r.Results) != 1 {
		return false
	}
	id, ok := unparen(r.Results[0]).(*ast.Ident)
	return ok && info.Uses[id] == errObj
}

func hasCall(e ast.Expr) bool {
	found := false
	ast.Inspect(e, func(x ast.Node) bool {
		if _, ok := x.(*ast.CallExpr); ok {
			found = true
		}
		return !found
	})
	return found
}

func allBlank(l []ast.Expr) bool {
	for _, e := range l {
		id, ok := e.(*ast.Ident)
		if !ok || id.Name != "_" {
			return false
		}
	}
	return true
}

// followingCheck: list[i+1] is `if err != nil { return R }` on the same error variable.
func (t *translator) followingCheck(list []ast.Stmt, i int, errObj types.Object) (string, bool) {
	if i+1 >= len(list) {
		return "", false
	}
	is, ok := list[i+1].(*ast.IfStmt)
	if !ok || is.Init != nil || is.Else != nil || errCheck(is.Cond) != errObj {
		return "", false
	}
	return t.handler(is.Body, errObj)
}

func recvOf(fd *ast.FuncDecl) (base string, ptr bool, name string) {
	if fd.Recv == nil || len(fd.Recv.List) != 1 {
		return "", false, ""
	}
	f := fd.Recv.List[0]
	tp := f.Type
	if st, ok := tp.(*ast.StarExpr); ok {
		tp, ptr = st.X, true
	}
	if ix, ok := tp.(*ast.IndexExpr); ok {
		tp = ix.X
	}
	if id, ok := tp.(*ast.Ident); ok {
		base = id.Name
	}
	if len(f.Names) == 1 {
		name = f.Names[0].Name
	}
	return
}

func entryName(fd *ast.FuncDecl) string {
	base, ptr, _ := recvOf(fd)
	if base == "" {
		return fd.Name.Name
	}
	if ptr {
		return "(*" + base + ")." + fd.Name.Name
	}
	return base + "." + fd.Name.Name
}

func exportedEntry(fd *ast.FuncDecl) bool {
	if !fd.Name.IsExported() || fd.Body == nil {
		return false
	}
	if fd.Recv != nil {
		base, _, _ := recvOf(fd)
		return base != "" && ast.IsExported(base)
	}
	return true
}

type entry struct {
	name, kind, writer, path string
	body                     []string
}

func main() {
	if len(os.Args) < 2 {
		die("usage: io2coq <repo>")
	}
	repo := os.Args[1]
	names, err := srcset.Files(repo)
	if err != nil {
		die("%v", err)
	}
	sort.Strings(names)
	var files []*ast.File
	for _, n := range names {
		if strings.HasSuffix(n, "_test.go") {
			continue
		}
		f, err := parser.ParseFile(fset, n, nil, parser.ParseComments)
		if err != nil {
			die("%v", err)
		}
		files = append(files, f)
	}
	info = &types.Info{Types: map[ast.Expr]types.TypeAndValue{}, Uses: map[*ast.Ident]types.Object{}, Defs: map[*ast.Ident]types.Object{}}
	conf := types.Config{Importer: importer.ForCompiler(fset, "source", nil)}
	pkg, err = conf.Check("github.com/dave/jennifer/jen", fset, files, info)
	if err != nil {
		die("package jen does not type-check: %v", err)
	}
	for _, im := range pkg.Imports() {
		if im.Path() == "io" {
			if o := im.Scope().Lookup("Writer"); o != nil {
				ioWriter, _ = o.Type().Underlying().(*types.Interface)
			}
		}
	}
	collectStructFields(files)

	var decls []*ast.FuncDecl
	for _, f := range files {
		for _, d := range f.Decls {
			if fd, ok := d.(*ast.FuncDecl); ok {
				if fn, ok := info.Defs[fd.Name].(*types.Func); ok && fd.Body != nil {
					funcDecls[fn] = fd
				}
				if exportedEntry(fd) {
					decls = append(decls, fd)
					if sig, ok := info.Defs[fd.Name].Type().(*types.Signature); ok {
						for i := 0; i < sig.Params().Len(); i++ {
							exportedParams[sig.Params().At(i)] = true
						}
					}
				}
			}
		}
	}
	sort.Slice(decls, func(i, j int) bool { return entryName(decls[i]) < entryName(decls[j]) })

	// pass 1: which exported functions receive a writer of the caller (any parameter whose type
	// implements io.Writer) ..
	widx := map[*ast.FuncDecl][]int{}
	writerParams := func(fd *ast.FuncDecl) []int {
		sig := info.Defs[fd.Name].Type().(*types.Signature)
		var ws []int
		for i := 0; i < sig.Params().Len(); i++ {
			if isWriter(sig.Params().At(i).Type()) {
				ws = append(ws, i)
			}
		}
		return ws
	}
	var work []*ast.FuncDecl
	for _, fd := range decls {
		if ws := writerParams(fd); len(ws) > 0 {
			widx[fd] = ws
			writerEntries[info.Defs[fd.Name]] = entryRef{entryName(fd), ws, true}
			work = append(work, fd)
		}
	}
	// .. and, transitively, which UNEXPORTED functions of package jen such a function hands a
	// caller's writer to (a statically resolved call with the writer, as an identifier, at a
	// parameter whose type implements io.Writer).  They are entries of the table too (INTERNAL
	// entry points: same translation, same checker), so that `return helper(w, ..)` is a
	// delegation like Render -> RenderWithFile, and whatever else is done with w is examined
	// where it is done.
	for len(work) > 0 {
		fd := work[0]
		work = work[1:]
		sig := info.Defs[fd.Name].Type().(*types.Signature)
		mine := map[types.Object]bool{}
		for _, i := range widx[fd] {
			mine[sig.Params().At(i)] = true
		}
		ast.Inspect(fd.Body, func(x ast.Node) bool {
			c, ok := x.(*ast.CallExpr)
			if !ok {
				return true
			}
			fn := callee(c)
			if fn == nil || fn.Pkg() != pkg {
				return true
			}
			cd := funcDecls[fn]
			if cd == nil || widx[cd] != nil {
				return true
			}
			csig := fn.Type().(*types.Signature)
			for i, a := range c.Args {
				if i >= csig.Params().Len() || (csig.Variadic() && i >= csig.Params().Len()-1) {
					break
				}
				id, isId := unparen(a).(*ast.Ident)
				if isId && mine[info.Uses[id]] && isWriter(csig.Params().At(i).Type()) {
					widx[cd] = writerParams(cd)
					writerEntries[fn] = entryRef{entryName(cd), widx[cd], false}
					decls = append(decls, cd)
					work = append(work, cd)
					break
				}
			}
			return true
		})
	}
	sort.Slice(decls, func(i, j int) bool { return entryName(decls[i]) < entryName(decls[j]) })

	var entries []entry
	var notes [][2]string
	fsEntries := map[*ast.FuncDecl]bool{}
	for _, fd := range decls {
		obj := info.Defs[fd.Name]
		sig := obj.Type().(*types.Signature)
		t := newTranslator(sig)
		path := ""
		for i := 0; i < sig.Params().Len(); i++ {
			if b, ok := sig.Params().At(i).Type().(*types.Basic); ok && b.Kind() == types.String {
				path = t.nameOf(sig.Params().At(i))
				break
			}
		}
		singleErr := sig.Results().Len() == 1 && sig.Results().At(0).Type().String() == "error" && sig.Results().At(0).Name() == ""
		if ws, ok := widx[fd]; ok {
			var wnames []string
			for _, i := range ws {
				t.ws[sig.Params().At(i)] = true
				wnames = append(wnames, t.nameOf(sig.Params().At(i)))
			}
			var body []string
			if !singleErr {
				body = []string{"Do (EvOther " + coqfmt.Str("results are not a single unnamed error: "+text(fd.Type)) + ")"}
			} else {
				body = t.body(fd)
			}
			kind := "EWriter"
			if len(body) == 2 && strings.HasPrefix(body[0], "Try (EvWriteCaller KDelegate ") && body[1] == "EvReturnNil" {
				kind = "EDelegate"
			}
			entries = append(entries, entry{entryName(fd), kind, strings.Join(wnames, ","), path, body})
			continue
		}
		if exportedEntry(fd) && osCall(fd.Body) != nil {
			fsEntries[fd] = true
			var body []string
			if !singleErr {
				body = []string{"Do (EvOther " + coqfmt.Str("results are not a single unnamed error: "+text(fd.Type)) + ")"}
			} else {
				body = t.body(fd)
			}
			entries = append(entries, entry{entryName(fd), "EFileSys", "", path, body})
			continue
		}
		if !exportedEntry(fd) {
			continue
		}
		// note: calls an entry point (with a local buffer)
		ast.Inspect(fd.Body, func(x ast.Node) bool {
			if c, ok := x.(*ast.CallExpr); ok {
				if fn := callee(c); fn != nil {
					if ref, ok := writerEntries[fn]; ok {
						notes = append(notes, [2]string{entryName(fd), ref.name})
					}
				}
			}
			return true
		})
	}
	confined, nofmtWrites := confinement(files, fsEntries)

	out := os.Stdout
	fmt.Fprintf(out, "(* GENERATED by tools/cmd/io2coq from %s - do not edit *)\n", repo)
	fmt.Fprintln(out, "From Jen Require Import Spec.IOShape.")
	fmt.Fprintln(out)
	fmt.Fprintf(out, "(* %d entry points:", len(entries))
	for _, e := range entries {
		fmt.Fprintf(out, " %s %s;", strings.ReplaceAll(e.name, "(*", "( *"), e.kind)
	}
	fmt.Fprintln(out, " *)")
	var es []string
	for _, e := range entries {
		es = append(es, fmt.Sprintf("mkentry %s %s %s %s %s", coqfmt.Str(e.name), e.kind, coqfmt.Str(e.writer), coqfmt.Str(e.path), coqfmt.List(e.body, "    ")))
	}
	fmt.Fprintf(out, "Definition io_entries : list entry := %s.\n\n", coqfmt.List(es, "  "))
	var ns []string
	for _, n := range notes {
		ns = append(ns, fmt.Sprintf("(%s, %s)", coqfmt.Str(n[0]), coqfmt.Str(n[1])))
	}
	var cs []string
	for _, c := range confined {
		cs = append(cs, coqfmt.Str(c))
	}
	fmt.Fprintf(out, "(* what would let code of package jen that is not an entry point reach the caller's writer or the\n   file system (see `confinement` in tools/cmd/io2coq/main.go); must be empty.\n")
	fmt.Fprintf(out, "   Rule 1 is an allow-list: package jen may reference objects of\n     %s\n   (fmt.Print*/Scan* excepted) and, inside the bodies of the EFileSys entry points only, of\n     %s.\n", strings.Join(sortedKeys(allowedPkgs), ", "), strings.Join(sortedKeys(fsPkgs), ", "))
	ifs := "none"
	if len(allowedIfaces) > 0 {
		ifs = commentSafe(strings.Join(sortedKeys(allowedIfaces), ", "))
	}
	fmt.Fprintf(out, "   Rule 3: interface types with methods that may be the target of a type assertion, type-switch\n   case or conversion: %s.  Targets found in this tree:\n     %s *)\n", ifs, commentSafe(strings.Join(sortedKeys(seenTargets), ", ")))
	fmt.Fprintf(out, "Definition io_confinement : list str := %s.\n\n", coqfmt.List(cs, "  "))
	var nf []string
	for _, c := range nofmtWrites {
		nf = append(nf, coqfmt.Str(c))
	}
	fmt.Fprintf(out, "(* places where package jen itself WRITES the field that `if f.NoFormat` reads (assignment, op=, ++/--,\n   address taken, a whole struct holding it assigned): the semantics treats f.NoFormat as a constant of\n   the run, set by the user only; must be empty *)\nDefinition io_noformat_writes : list str := %s.\n\n", coqfmt.List(nf, "  "))
	fmt.Fprintf(out, "(* exported functions that have no caller resource and call an entry point (with a buffer of their own) *)\nDefinition io_notes : list (str * str) := %s.\n", coqfmt.List(ns, "  "))
}
