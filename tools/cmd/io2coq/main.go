// io2coq reads package jen (current working tree, non-test files, build tag verif off),
// type-checks it with go/types and prints coq/Gen/IO.v: the body of every render ENTRY POINT
// as a list of events over the statement language of coq/Spec/IOShape.v - the premise of C10
// at buffer level.
//
// Entry points (discovered, not listed): every exported function or method of an exported type
//   - with a parameter of type io.Writer (the CALLER's writer)            -> kind EWriter, or
//     EDelegate when its body is exactly `return recv.Other(w, ..)` with Other an EWriter entry;
//   - without one but calling package os or io/ioutil                     -> kind EFileSys (File.Save).
//
// Exported functions that only call an entry point with a local buffer (GoString) are listed in
// io_notes.
//
// Translation of a body (source order, purely structural; go/types is used only to identify
// objects: the writer parameter, packages fmt/io/os/format/bytes, functions of package jen):
//
//	b := &bytes.Buffer{} | bytes.Buffer{} | new(bytes.Buffer)      Do (EvNewBuf b)
//	var x T                                                         Do (EvDecl x)
//	x = y.Bytes()                                                   Do (EvBytes x y)
//	if [_,] err := CALL; err != nil { return R }                    Try <CALL> <R>
//	x, err := CALL  (or =)  followed by  if err != nil { return R } Try <CALL> <R>
//	CALL  |  _, _ = CALL  |  x, err := CALL not followed by a check Do <CALL>
//	return nil                                                      EvReturnNil
//	return CALL                                                     Try <CALL> EvReturnErr; EvReturnNil
//	if X.NoFormat { A } else { B }                                  EvCondNoFormat (block A) (block B)
//	if COND { A }   (COND: no call but len, no writer)              If "COND" (block A)
//	for .. := range X { A }   (X: no call, no writer)               For "X" (block A)
//
// <R>: `err` -> EvReturnErr; fmt.Errorf(.., err, ..) -> EvReturnWrapped; nil -> EvSwallowErr.
// <CALL> (first rule that applies):
//
//	anything mentioning the writer parameter w                      EvWriteCaller k ..
//	    w.Write(x), x an identifier                                     k = KWrite, arg x
//	    fmt.Fprint*(w, ..)                                               KFprint
//	    io.WriteString(w, ..), io.Copy(w, ..)                            KWriteString
//	    recv.Entry(w, ..) with Entry an EWriter entry point              KDelegate, what = entry name
//	    a function literal mentioning w                                  KStore
//	    any other call                                                   KPass
//	any call containing a call into package os or io/ioutil         EvWriteFile fn path data
//	format.Source(b.Bytes())                                        EvFormat x b   (x the variable assigned)
//	recv.Entry(b, ..) with Entry an EWriter entry point, b an identifier    EvRenderToBuffer entry b
//	fmt.Fprint*(b, ..), io.WriteString(b, ..), b.Write*(..) on a bytes.Buffer EvWriteLocal b
//	a function or method of package jen with an io.Writer parameter whose
//	argument is an identifier b                                     EvRender target b
//	anything else                                                   EvOther "text"
//
// Every statement that fits no rule is Do (EvWriteCaller KStore|KOtherUse ..) when it mentions
// the writer and Do (EvOther "text") otherwise.  The checker io_wf of Spec/IOShape.v decides
// what is acceptable; this program only classifies.
package main

import (
	"bytes"
	"fmt"
	"go/ast"
	"go/build"
	"go/build/constraint"
	"go/importer"
	"go/parser"
	"go/printer"
	"go/token"
	"go/types"
	"os"
	"path/filepath"
	"sort"
	"strings"

	"veriftools/coqfmt"
)

func die(format string, a ...interface{}) {
	fmt.Fprintf(os.Stderr, "io2coq: "+format+"\n", a...)
	os.Exit(2)
}

func buildable(f *ast.File) bool {
	for _, cg := range f.Comments {
		if cg.Pos() >= f.Package {
			break
		}
		for _, c := range cg.List {
			if !constraint.IsGoBuild(c.Text) && !constraint.IsPlusBuild(c.Text) {
				continue
			}
			e, err := constraint.Parse(c.Text)
			if err != nil {
				die("%v", err)
			}
			if !e.Eval(func(tag string) bool { return false }) {
				return false
			}
		}
	}
	return true
}

func unparen(e ast.Expr) ast.Expr {
	for {
		p, ok := e.(*ast.ParenExpr)
		if !ok {
			return e
		}
		e = p.X
	}
}

var (
	fset = token.NewFileSet()
	info *types.Info
	pkg  *types.Package
	// entry points that receive the caller's writer: function object -> (name, index of the writer parameter)
	writerEntries = map[types.Object]entryRef{}
)

type entryRef struct {
	name string
	widx int
}

func text(n ast.Node) string {
	var b bytes.Buffer
	if err := printer.Fprint(&b, fset, n); err != nil {
		return "<unprintable>"
	}
	return strings.Join(strings.Fields(b.String()), " ")
}

func isIOWriter(t types.Type) bool {
	n, ok := t.(*types.Named)
	return ok && n.Obj().Pkg() != nil && n.Obj().Pkg().Path() == "io" && n.Obj().Name() == "Writer"
}

func isBytesBuffer(t types.Type) bool {
	if p, ok := t.(*types.Pointer); ok {
		t = p.Elem()
	}
	n, ok := t.(*types.Named)
	return ok && n.Obj().Pkg() != nil && n.Obj().Pkg().Path() == "bytes" && n.Obj().Name() == "Buffer"
}

// callee returns the function object called, or nil (conversion, builtin, function value).
func callee(c *ast.CallExpr) *types.Func {
	switch f := unparen(c.Fun).(type) {
	case *ast.Ident:
		fn, _ := info.Uses[f].(*types.Func)
		return fn
	case *ast.SelectorExpr:
		fn, _ := info.Uses[f.Sel].(*types.Func)
		return fn
	}
	return nil
}

func calleeIs(c *ast.CallExpr, pkgPath string, names ...string) bool {
	fn := callee(c)
	if fn == nil || fn.Pkg() == nil || fn.Pkg().Path() != pkgPath {
		return false
	}
	if sig, ok := fn.Type().(*types.Signature); ok && sig.Recv() != nil {
		return false
	}
	for _, n := range names {
		if fn.Name() == n {
			return true
		}
	}
	return len(names) == 0
}

// osCall finds a call into package os or io/ioutil anywhere below n.
func osCall(n ast.Node) *ast.CallExpr {
	var found *ast.CallExpr
	ast.Inspect(n, func(x ast.Node) bool {
		if found != nil {
			return false
		}
		if c, ok := x.(*ast.CallExpr); ok {
			if fn := callee(c); fn != nil && fn.Pkg() != nil && (fn.Pkg().Path() == "os" || fn.Pkg().Path() == "io/ioutil") {
				found = c
				return false
			}
		}
		return true
	})
	return found
}

type translator struct {
	w    *types.Var // the caller's writer parameter (nil for EFileSys entries)
	recv string
}

func (t *translator) mentionsW(n ast.Node) bool {
	if t.w == nil || n == nil {
		return false
	}
	found := false
	ast.Inspect(n, func(x ast.Node) bool {
		if id, ok := x.(*ast.Ident); ok && info.Uses[id] == t.w {
			found = true
		}
		return !found
	})
	return found
}

func hasFuncLit(n ast.Node) bool {
	found := false
	ast.Inspect(n, func(x ast.Node) bool {
		if _, ok := x.(*ast.FuncLit); ok {
			found = true
		}
		return !found
	})
	return found
}

func (t *translator) isW(e ast.Expr) bool {
	id, ok := unparen(e).(*ast.Ident)
	return ok && t.w != nil && info.Uses[id] == t.w
}

func identName(e ast.Expr) (string, bool) {
	id, ok := unparen(e).(*ast.Ident)
	if !ok || id.Name == "_" {
		return "", false
	}
	return id.Name, true
}

// bytesOf: e is `b.Bytes()` with b an identifier.
func bytesOf(e ast.Expr) (string, bool) {
	c, ok := unparen(e).(*ast.CallExpr)
	if !ok || len(c.Args) != 0 {
		return "", false
	}
	sel, ok := unparen(c.Fun).(*ast.SelectorExpr)
	if !ok || sel.Sel.Name != "Bytes" {
		return "", false
	}
	name, ok := identName(sel.X)
	if !ok {
		return "", false
	}
	if tv, ok := info.Types[sel.X]; !ok || !isBytesBuffer(tv.Type) {
		return "", false
	}
	return name, true
}

func wk(kind, what, arg string) string {
	return fmt.Sprintf("EvWriteCaller %s %s %s", kind, coqfmt.Str(what), coqfmt.Str(arg))
}

// classify translates a call into an event; dst is the variable its first result is assigned to.
func (t *translator) classify(c *ast.CallExpr, dst string) string {
	if t.mentionsW(c) {
		if sel, ok := unparen(c.Fun).(*ast.SelectorExpr); ok && t.isW(sel.X) && sel.Sel.Name == "Write" && len(c.Args) == 1 {
			if x, ok := identName(c.Args[0]); ok && !t.mentionsW(c.Args[0]) {
				return wk("KWrite", text(c), x)
			}
			return wk("KWrite", text(c), "")
		}
		if hasFuncLit(c) {
			return wk("KStore", text(c), "")
		}
		if calleeIs(c, "fmt", "Fprint", "Fprintf", "Fprintln") && len(c.Args) >= 1 && t.isW(c.Args[0]) {
			return wk("KFprint", text(c), "")
		}
		if calleeIs(c, "io", "WriteString", "Copy", "CopyN", "CopyBuffer") && len(c.Args) >= 1 && t.isW(c.Args[0]) {
			return wk("KWriteString", text(c), "")
		}
		if fn := callee(c); fn != nil {
			if ref, ok := writerEntries[fn]; ok && ref.widx < len(c.Args) && t.isW(c.Args[ref.widx]) {
				only := true
				for i, a := range c.Args {
					if i != ref.widx && t.mentionsW(a) {
						only = false
					}
				}
				if t.mentionsW(c.Fun) {
					only = false
				}
				if only {
					return wk("KDelegate", ref.name, "")
				}
			}
		}
		return wk("KPass", text(c), "")
	}
	if oc := osCall(c); oc != nil {
		fn := callee(oc)
		p := fn.Pkg().Name()
		path, data := "", ""
		if len(oc.Args) >= 1 {
			path, _ = identName(oc.Args[0])
		}
		if len(oc.Args) >= 2 {
			data, _ = bytesOf(oc.Args[1])
		}
		if oc != c {
			// an os call buried in the arguments of something else: not the recognised shape
			return fmt.Sprintf("EvWriteFile %s %s %s", coqfmt.Str(p+"."+fn.Name()+" (nested)"), coqfmt.Str(""), coqfmt.Str(""))
		}
		return fmt.Sprintf("EvWriteFile %s %s %s", coqfmt.Str(p+"."+fn.Name()), coqfmt.Str(path), coqfmt.Str(data))
	}
	if calleeIs(c, "go/format", "Source") && len(c.Args) == 1 {
		if src, ok := bytesOf(c.Args[0]); ok && dst != "" {
			return fmt.Sprintf("EvFormat %s %s", coqfmt.Str(dst), coqfmt.Str(src))
		}
	}
	if fn := callee(c); fn != nil {
		if ref, ok := writerEntries[fn]; ok && ref.widx < len(c.Args) {
			if b, ok := identName(c.Args[ref.widx]); ok {
				return fmt.Sprintf("EvRenderToBuffer %s %s", coqfmt.Str(ref.name), coqfmt.Str(b))
			}
		}
	}
	if calleeIs(c, "fmt", "Fprint", "Fprintf", "Fprintln") && len(c.Args) >= 1 {
		if b, ok := identName(c.Args[0]); ok {
			return fmt.Sprintf("EvWriteLocal %s", coqfmt.Str(b))
		}
	}
	if calleeIs(c, "io", "WriteString") && len(c.Args) >= 1 {
		if b, ok := identName(c.Args[0]); ok {
			return fmt.Sprintf("EvWriteLocal %s", coqfmt.Str(b))
		}
	}
	if sel, ok := unparen(c.Fun).(*ast.SelectorExpr); ok {
		if b, ok := identName(sel.X); ok {
			if tv, ok := info.Types[sel.X]; ok && isBytesBuffer(tv.Type) {
				switch sel.Sel.Name {
				case "Write", "WriteString", "WriteByte", "WriteRune":
					return fmt.Sprintf("EvWriteLocal %s", coqfmt.Str(b))
				}
			}
		}
	}
	if fn := callee(c); fn != nil && fn.Pkg() == pkg {
		if sig, ok := fn.Type().(*types.Signature); ok {
			for i := 0; i < sig.Params().Len() && i < len(c.Args); i++ {
				if isIOWriter(sig.Params().At(i).Type()) {
					if b, ok := identName(c.Args[i]); ok {
						return fmt.Sprintf("EvRender %s %s", coqfmt.Str(text(c.Fun)), coqfmt.Str(b))
					}
				}
			}
		}
	}
	return fmt.Sprintf("EvOther %s", coqfmt.Str(text(c)))
}

// fallback for a statement that fits no rule
func (t *translator) fallback(s ast.Stmt) string {
	if t.mentionsW(s) {
		kind := "KOtherUse"
		switch s.(type) {
		case *ast.AssignStmt, *ast.DeclStmt, *ast.SendStmt:
			kind = "KStore"
		}
		if hasFuncLit(s) {
			kind = "KStore"
		}
		return "Do (" + wk(kind, text(s), "") + ")"
	}
	if oc := osCall(s); oc != nil {
		fn := callee(oc)
		return fmt.Sprintf("Do (EvWriteFile %s %s %s)", coqfmt.Str(fn.Pkg().Name()+"."+fn.Name()+" (in: "+text(s)+")"), coqfmt.Str(""), coqfmt.Str(""))
	}
	return "Do (EvOther " + coqfmt.Str(text(s)) + ")"
}

func isNilIdent(e ast.Expr) bool {
	id, ok := unparen(e).(*ast.Ident)
	if !ok {
		return false
	}
	_, isNil := info.Uses[id].(*types.Nil)
	return isNil
}

// errCheck: cond is `e != nil` with e an identifier of type error; returns its object.
func errCheck(cond ast.Expr) types.Object {
	b, ok := unparen(cond).(*ast.BinaryExpr)
	if !ok || b.Op != token.NEQ || !isNilIdent(b.Y) {
		return nil
	}
	id, ok := unparen(b.X).(*ast.Ident)
	if !ok {
		return nil
	}
	obj := info.Uses[id]
	if obj == nil || obj.Type().String() != "error" {
		return nil
	}
	return obj
}

// handler: body is a single `return R`.
func (t *translator) handler(body *ast.BlockStmt, errObj types.Object) (string, bool) {
	if len(body.List) != 1 {
		return "", false
	}
	r, ok := body.List[0].(*ast.ReturnStmt)
	if !ok || len(r.Results) != 1 || t.mentionsW(r) || osCall(r) != nil {
		return "", false
	}
	x := unparen(r.Results[0])
	if id, ok := x.(*ast.Ident); ok && info.Uses[id] == errObj {
		return "EvReturnErr", true
	}
	if isNilIdent(x) {
		return "EvSwallowErr", true
	}
	if c, ok := x.(*ast.CallExpr); ok && calleeIs(c, "fmt", "Errorf") {
		for _, a := range c.Args {
			if id, ok := unparen(a).(*ast.Ident); ok && info.Uses[id] == errObj {
				return "EvReturnWrapped", true
			}
		}
	}
	return "", false
}

// errAssign: `[x|_,] err :=|= CALL` ; returns the call, the name of the first result variable
// ("" when blank or absent) and the error variable's object.
func errAssign(a *ast.AssignStmt) (*ast.CallExpr, string, types.Object) {
	if (a.Tok != token.DEFINE && a.Tok != token.ASSIGN) || len(a.Rhs) != 1 || len(a.Lhs) < 1 || len(a.Lhs) > 2 {
		return nil, "", nil
	}
	c, ok := unparen(a.Rhs[0]).(*ast.CallExpr)
	if !ok {
		return nil, "", nil
	}
	last, ok := a.Lhs[len(a.Lhs)-1].(*ast.Ident)
	if !ok || last.Name == "_" {
		return nil, "", nil
	}
	obj := info.Defs[last]
	if obj == nil {
		obj = info.Uses[last]
	}
	if obj == nil || obj.Type().String() != "error" {
		return nil, "", nil
	}
	dst := ""
	if len(a.Lhs) == 2 {
		id, ok := a.Lhs[0].(*ast.Ident)
		if !ok {
			return nil, "", nil
		}
		if id.Name != "_" {
			dst = id.Name
		}
	}
	return c, dst, obj
}

func (t *translator) pureCond(e ast.Expr) bool {
	if t.mentionsW(e) || hasFuncLit(e) {
		return false
	}
	ok := true
	ast.Inspect(e, func(x ast.Node) bool {
		if c, isCall := x.(*ast.CallExpr); isCall {
			id, isId := unparen(c.Fun).(*ast.Ident)
			if !isId {
				ok = false
				return false
			}
			if b, isB := info.Uses[id].(*types.Builtin); !isB || b.Name() != "len" {
				ok = false
				return false
			}
		}
		return ok
	})
	return ok
}

func isNewBuffer(e ast.Expr) bool {
	e = unparen(e)
	if u, ok := e.(*ast.UnaryExpr); ok && u.Op == token.AND {
		e = unparen(u.X)
	}
	switch x := e.(type) {
	case *ast.CompositeLit:
		tv, ok := info.Types[x]
		return ok && isBytesBuffer(tv.Type) && len(x.Elts) == 0
	case *ast.CallExpr:
		if id, ok := unparen(x.Fun).(*ast.Ident); ok && len(x.Args) == 1 {
			if b, isB := info.Uses[id].(*types.Builtin); isB && b.Name() == "new" {
				tv, ok := info.Types[x]
				return ok && isBytesBuffer(tv.Type)
			}
		}
	}
	return false
}

func blockOf(items []string, indent string) string {
	if len(items) == 0 {
		return "Nop"
	}
	return "(block " + coqfmt.List(items, indent+"  ") + ")"
}

func (t *translator) stmts(list []ast.Stmt, indent string) []string {
	var out []string
	for i := 0; i < len(list); i++ {
		s := list[i]
		switch s := s.(type) {
		case *ast.EmptyStmt:
			continue
		case *ast.DeclStmt:
			gd, ok := s.Decl.(*ast.GenDecl)
			if ok && gd.Tok == token.VAR && !t.mentionsW(s) {
				plain := true
				var names []string
				for _, sp := range gd.Specs {
					vs := sp.(*ast.ValueSpec)
					if len(vs.Values) != 0 {
						plain = false
					}
					for _, n := range vs.Names {
						names = append(names, n.Name)
					}
				}
				if plain {
					for _, n := range names {
						out = append(out, "Do (EvDecl "+coqfmt.Str(n)+")")
					}
					continue
				}
			}
		case *ast.AssignStmt:
			if t.mentionsW(s) {
				// the only assignment that may mention w is `.., err := <call using w>`
				if c, dst, errObj := errAssign(s); c != nil && !t.mentionsW(s.Lhs[0]) {
					ev := t.classify(c, dst)
					if h, ok := t.followingCheck(list, i, errObj); ok {
						out = append(out, fmt.Sprintf("Try (%s) %s", ev, h))
						i++
					} else {
						out = append(out, "Do ("+ev+")")
					}
					continue
				}
				if len(s.Rhs) == 1 && allBlank(s.Lhs) {
					if c, ok := unparen(s.Rhs[0]).(*ast.CallExpr); ok {
						out = append(out, "Do ("+t.classify(c, "")+")")
						continue
					}
				}
				break
			}
			if s.Tok == token.DEFINE && len(s.Lhs) == 1 && len(s.Rhs) == 1 && isNewBuffer(s.Rhs[0]) {
				if n, ok := identName(s.Lhs[0]); ok {
					out = append(out, "Do (EvNewBuf "+coqfmt.Str(n)+")")
					continue
				}
			}
			if len(s.Lhs) == 1 && len(s.Rhs) == 1 && (s.Tok == token.ASSIGN || s.Tok == token.DEFINE) {
				if src, ok := bytesOf(s.Rhs[0]); ok {
					if n, ok := identName(s.Lhs[0]); ok {
						out = append(out, fmt.Sprintf("Do (EvBytes %s %s)", coqfmt.Str(n), coqfmt.Str(src)))
						continue
					}
				}
			}
			if c, dst, errObj := errAssign(s); c != nil {
				ev := t.classify(c, dst)
				if h, ok := t.followingCheck(list, i, errObj); ok {
					out = append(out, fmt.Sprintf("Try (%s) %s", ev, h))
					i++
				} else {
					out = append(out, "Do ("+ev+")")
				}
				continue
			}
			if len(s.Rhs) == 1 && allBlank(s.Lhs) {
				if c, ok := unparen(s.Rhs[0]).(*ast.CallExpr); ok {
					out = append(out, "Do ("+t.classify(c, "")+")")
					continue
				}
			}
		case *ast.ExprStmt:
			if c, ok := unparen(s.X).(*ast.CallExpr); ok {
				out = append(out, "Do ("+t.classify(c, "")+")")
				continue
			}
		case *ast.ReturnStmt:
			if len(s.Results) == 1 {
				if isNilIdent(s.Results[0]) {
					out = append(out, "EvReturnNil")
					continue
				}
				if c, ok := unparen(s.Results[0]).(*ast.CallExpr); ok {
					if tv, ok := info.Types[c]; ok && tv.Type.String() == "error" {
						out = append(out, fmt.Sprintf("Try (%s) EvReturnErr", t.classify(c, "")), "EvReturnNil")
						continue
					}
				}
			}
		case *ast.IfStmt:
			if s.Init != nil && s.Else == nil {
				if a, ok := s.Init.(*ast.AssignStmt); ok && a.Tok == token.DEFINE {
					if c, dst, errObj := errAssign(a); c != nil && errCheck(s.Cond) == errObj && !t.mentionsW(a.Lhs[0]) {
						if h, ok := t.handler(s.Body, errObj); ok {
							out = append(out, fmt.Sprintf("Try (%s) %s", t.classify(c, dst), h))
							continue
						}
					}
				}
			}
			if s.Init == nil && s.Else != nil {
				if sel, ok := unparen(s.Cond).(*ast.SelectorExpr); ok && sel.Sel.Name == "NoFormat" && !t.mentionsW(s.Cond) {
					if eb, ok := s.Else.(*ast.BlockStmt); ok {
						a := t.stmts(s.Body.List, indent+"  ")
						b := t.stmts(eb.List, indent+"  ")
						out = append(out, fmt.Sprintf("EvCondNoFormat %s %s", blockOf(a, indent), blockOf(b, indent)))
						continue
					}
				}
			}
			if s.Init == nil && s.Else == nil && errCheck(s.Cond) == nil && t.pureCond(s.Cond) {
				a := t.stmts(s.Body.List, indent+"  ")
				out = append(out, fmt.Sprintf("If %s %s", coqfmt.Str(text(s.Cond)), blockOf(a, indent)))
				continue
			}
		case *ast.RangeStmt:
			if t.pureCond(s.X) && !t.mentionsW(s.Key) && !t.mentionsW(s.Value) && !hasCall(s.X) {
				a := t.stmts(s.Body.List, indent+"  ")
				out = append(out, fmt.Sprintf("For %s %s", coqfmt.Str(text(s.X)), blockOf(a, indent)))
				continue
			}
		}
		out = append(out, t.fallback(s))
	}
	return out
}

func hasCall(e ast.Expr) bool {
	found := false
	ast.Inspect(e, func(x ast.Node) bool {
		if _, ok := x.(*ast.CallExpr); ok {
			found = true
		}
		return !found
	})
	return found
}

func allBlank(l []ast.Expr) bool {
	for _, e := range l {
		id, ok := e.(*ast.Ident)
		if !ok || id.Name != "_" {
			return false
		}
	}
	return true
}

// followingCheck: list[i+1] is `if err != nil { return R }` on the same error variable.
func (t *translator) followingCheck(list []ast.Stmt, i int, errObj types.Object) (string, bool) {
	if i+1 >= len(list) {
		return "", false
	}
	is, ok := list[i+1].(*ast.IfStmt)
	if !ok || is.Init != nil || is.Else != nil || errCheck(is.Cond) != errObj {
		return "", false
	}
	return t.handler(is.Body, errObj)
}

func recvOf(fd *ast.FuncDecl) (base string, ptr bool, name string) {
	if fd.Recv == nil || len(fd.Recv.List) != 1 {
		return "", false, ""
	}
	f := fd.Recv.List[0]
	tp := f.Type
	if st, ok := tp.(*ast.StarExpr); ok {
		tp, ptr = st.X, true
	}
	if ix, ok := tp.(*ast.IndexExpr); ok {
		tp = ix.X
	}
	if id, ok := tp.(*ast.Ident); ok {
		base = id.Name
	}
	if len(f.Names) == 1 {
		name = f.Names[0].Name
	}
	return
}

func entryName(fd *ast.FuncDecl) string {
	base, ptr, _ := recvOf(fd)
	if base == "" {
		return fd.Name.Name
	}
	if ptr {
		return "(*" + base + ")." + fd.Name.Name
	}
	return base + "." + fd.Name.Name
}

func exportedEntry(fd *ast.FuncDecl) bool {
	if !fd.Name.IsExported() || fd.Body == nil {
		return false
	}
	if fd.Recv != nil {
		base, _, _ := recvOf(fd)
		return base != "" && ast.IsExported(base)
	}
	return true
}

type entry struct {
	name, kind, writer, path string
	body                     []string
}

// matchFile: is this file part of the package as the go tool builds it here (GOOS, GOARCH,
// release tags, file name suffixes, //go:build and +build lines; no extra tags, so files
// guarded by the `verif` tag are left out)?  go/build decides, the same way `go build` does.
func matchFile(path string) bool {
	ok, err := build.Default.MatchFile(filepath.Dir(path), filepath.Base(path))
	if err != nil {
		die("%s: %v", path, err)
	}
	return ok
}

func main() {
	if len(os.Args) < 2 {
		die("usage: io2coq <repo>")
	}
	repo := os.Args[1]
	dir := filepath.Join(repo, "jen")
	names, err := filepath.Glob(filepath.Join(dir, "*.go"))
	if err != nil {
		die("%v", err)
	}
	sort.Strings(names)
	var files []*ast.File
	for _, n := range names {
		if strings.HasSuffix(n, "_test.go") {
			continue
		}
		f, err := parser.ParseFile(fset, n, nil, parser.ParseComments)
		if err != nil {
			die("%v", err)
		}
		if matchFile(n) {
			files = append(files, f)
		}
	}
	info = &types.Info{Types: map[ast.Expr]types.TypeAndValue{}, Uses: map[*ast.Ident]types.Object{}, Defs: map[*ast.Ident]types.Object{}}
	conf := types.Config{Importer: importer.ForCompiler(fset, "source", nil)}
	pkg, err = conf.Check("github.com/dave/jennifer/jen", fset, files, info)
	if err != nil {
		die("package jen does not type-check: %v", err)
	}

	var decls []*ast.FuncDecl
	for _, f := range files {
		for _, d := range f.Decls {
			if fd, ok := d.(*ast.FuncDecl); ok && exportedEntry(fd) {
				decls = append(decls, fd)
			}
		}
	}
	sort.Slice(decls, func(i, j int) bool { return entryName(decls[i]) < entryName(decls[j]) })

	// pass 1: which exported functions receive the caller's writer
	widx := map[*ast.FuncDecl]int{}
	for _, fd := range decls {
		obj := info.Defs[fd.Name]
		sig := obj.Type().(*types.Signature)
		for i := 0; i < sig.Params().Len(); i++ {
			if isIOWriter(sig.Params().At(i).Type()) {
				widx[fd] = i
				writerEntries[obj] = entryRef{entryName(fd), i}
				break
			}
		}
	}

	var entries []entry
	var notes [][2]string
	for _, fd := range decls {
		obj := info.Defs[fd.Name]
		sig := obj.Type().(*types.Signature)
		_, _, rname := recvOf(fd)
		path := ""
		for i := 0; i < sig.Params().Len(); i++ {
			if b, ok := sig.Params().At(i).Type().(*types.Basic); ok && b.Kind() == types.String {
				path = sig.Params().At(i).Name()
				break
			}
		}
		singleErr := sig.Results().Len() == 1 && sig.Results().At(0).Type().String() == "error" && sig.Results().At(0).Name() == ""
		if i, ok := widx[fd]; ok {
			t := &translator{w: sig.Params().At(i), recv: rname}
			var body []string
			if !singleErr {
				body = []string{"Do (EvOther " + coqfmt.Str("results are not a single unnamed error: "+text(fd.Type)) + ")"}
			} else {
				body = t.stmts(fd.Body.List, "    ")
			}
			kind := "EWriter"
			if len(body) == 2 && strings.HasPrefix(body[0], "Try (EvWriteCaller KDelegate ") && body[1] == "EvReturnNil" {
				kind = "EDelegate"
			}
			entries = append(entries, entry{entryName(fd), kind, sig.Params().At(i).Name(), path, body})
			continue
		}
		if osCall(fd.Body) != nil {
			t := &translator{}
			var body []string
			if !singleErr {
				body = []string{"Do (EvOther " + coqfmt.Str("results are not a single unnamed error: "+text(fd.Type)) + ")"}
			} else {
				body = t.stmts(fd.Body.List, "    ")
			}
			entries = append(entries, entry{entryName(fd), "EFileSys", "", path, body})
			continue
		}
		// note: calls an entry point (with a local buffer)
		ast.Inspect(fd.Body, func(x ast.Node) bool {
			if c, ok := x.(*ast.CallExpr); ok {
				if fn := callee(c); fn != nil {
					if ref, ok := writerEntries[fn]; ok {
						notes = append(notes, [2]string{entryName(fd), ref.name})
					}
				}
			}
			return true
		})
	}

	out := os.Stdout
	fmt.Fprintf(out, "(* GENERATED by tools/cmd/io2coq from %s - do not edit *)\n", repo)
	fmt.Fprintln(out, "From Jen Require Import Spec.IOShape.")
	fmt.Fprintln(out)
	fmt.Fprintf(out, "(* %d entry points:", len(entries))
	for _, e := range entries {
		fmt.Fprintf(out, " %s %s;", strings.ReplaceAll(e.name, "(*", "( *"), e.kind)
	}
	fmt.Fprintln(out, " *)")
	var es []string
	for _, e := range entries {
		es = append(es, fmt.Sprintf("mkentry %s %s %s %s %s", coqfmt.Str(e.name), e.kind, coqfmt.Str(e.writer), coqfmt.Str(e.path), coqfmt.List(e.body, "    ")))
	}
	fmt.Fprintf(out, "Definition io_entries : list entry := %s.\n\n", coqfmt.List(es, "  "))
	var ns []string
	for _, n := range notes {
		ns = append(ns, fmt.Sprintf("(%s, %s)", coqfmt.Str(n[0]), coqfmt.Str(n[1])))
	}
	fmt.Fprintf(out, "(* exported functions that have no caller resource and call an entry point (with a buffer of their own) *)\nDefinition io_notes : list (str * str) := %s.\n", coqfmt.List(ns, "  "))
}
