// clone2coq reads package jen (current working tree, non-test files, build tag verif off),
// type-checks it with go/types and prints Coq definitions describing how the package
// treats values of type Statement ([]Code) at the slice level - the premises of C20:
//
//	statement_is_code_slice : bool          type Statement []Code
//	clone_body_is_wrap      : bool          Clone's body is exactly `return &Statement{s}`
//	new_statement_is_fresh  : bool          newStatement's body is exactly `return &Statement{}`
//	append_only_methods     : list (str * bool)
//	    one row per method whose receiver is Statement / *Statement: true iff every
//	    occurrence of a Statement-typed VALUE (the slice header, e.g. `*s`) in its body is in
//	    one of the harmless positions listed at `allowed` below, the only assignment form
//	    being `*s = append(*s, ...)` on the receiver
//	other_writes            : list str      the same occurrences everywhere else in the package
//	                                        (other functions, methods of other types, function
//	                                        literals, package-level initialisers); expected empty
//
// A Statement-typed value expression is harmless when it is
//   - the operand of `range` (with := or no variables),
//   - the X of an index expression that is only read,
//   - the argument of len or cap,
//   - both the left side and the first argument of `*s = append(*s, ...)` where s is the
//     receiver of the enclosing method (a *Statement),
//   - a composite literal `Statement{...}` (a fresh value).
//
// Anything else - `x := *s`, `(*s)[i] = c`, `(*s)[i:j]`, `&(*s)[i]`, `append(*s, c)` not assigned
// back, `copy(*s, ..)`, `[]Code(*s)`, passing `*s` to a function, returning it - could create
// a second header over the same array or write an element in place, and is reported.
package main

import (
	"fmt"
	"go/ast"
	"go/build"
	"go/build/constraint"
	"go/importer"
	"go/parser"
	"go/token"
	"go/types"
	"os"
	"path/filepath"
	"sort"
	"strings"

	"veriftools/coqfmt"
)

func die(format string, a ...interface{}) {
	fmt.Fprintf(os.Stderr, "clone2coq: "+format+"\n", a...)
	os.Exit(2)
}

// buildable reports whether the file is part of the package with no build tags set
// (in particular with the tag verif off).
func buildable(f *ast.File) bool {
	for _, cg := range f.Comments {
		if cg.Pos() >= f.Package {
			break
		}
		for _, c := range cg.List {
			if !constraint.IsGoBuild(c.Text) {
				continue
			}
			e, err := constraint.Parse(c.Text)
			if err != nil {
				die("%v", err)
			}
			if !e.Eval(func(tag string) bool { return false }) {
				return false
			}
		}
	}
	return true
}

func unparen(e ast.Expr) ast.Expr {
	for {
		p, ok := e.(*ast.ParenExpr)
		if !ok {
			return e
		}
		e = p.X
	}
}

type checker struct {
	fset     *token.FileSet
	info     *types.Info
	stmtType types.Type // the named type Statement
	recv     *types.Var // receiver of the enclosing Statement method when it is a *Statement
	bad      []string
}

func (c *checker) isStmtValue(e ast.Expr) bool {
	tv, ok := c.info.Types[e]
	if !ok || tv.Type == nil || !tv.IsValue() {
		return false
	}
	return types.Identical(tv.Type, c.stmtType)
}

func (c *checker) isRecvDeref(e ast.Expr) bool {
	st, ok := unparen(e).(*ast.StarExpr)
	if !ok || c.recv == nil {
		return false
	}
	id, ok := unparen(st.X).(*ast.Ident)
	return ok && c.info.Uses[id] == c.recv
}

func (c *checker) isBuiltin(fun ast.Expr, name string) bool {
	id, ok := unparen(fun).(*ast.Ident)
	if !ok || id.Name != name {
		return false
	}
	_, isb := c.info.Uses[id].(*types.Builtin)
	return isb
}

func (c *checker) report(n ast.Node, what string) {
	p := c.fset.Position(n.Pos())
	c.bad = append(c.bad, fmt.Sprintf("%s:%d: %s", filepath.Base(p.Filename), p.Line, what))
}

// walk visits the tree below n keeping the chain of ancestors, and classifies every
// Statement-typed value expression by its context.
func (c *checker) walk(n ast.Node) {
	var stack []ast.Node
	ast.Inspect(n, func(x ast.Node) bool {
		if x == nil {
			stack = stack[:len(stack)-1]
			return true
		}
		if e, ok := x.(ast.Expr); ok {
			if _, isParen := e.(*ast.ParenExpr); !isParen && c.isStmtValue(e) {
				c.classify(e, stack)
			}
		}
		stack = append(stack, x)
		return true
	})
}

func (c *checker) classify(e ast.Expr, stack []ast.Node) {
	// a fresh value
	if _, ok := e.(*ast.CompositeLit); ok {
		return
	}
	// nearest ancestor that is not a parenthesis, and the child through which we reach it
	i := len(stack) - 1
	var child ast.Node = e
	for i >= 0 {
		if _, ok := stack[i].(*ast.ParenExpr); !ok {
			break
		}
		child = stack[i]
		i--
	}
	if i < 0 {
		c.report(e, "Statement value in an unknown position")
		return
	}
	switch p := stack[i].(type) {
	case *ast.RangeStmt:
		if p.X == child {
			if p.Tok == token.ASSIGN {
				c.report(e, "range over a Statement assigning to existing variables")
			}
			return
		}
	case *ast.IndexExpr:
		if p.X == child {
			// read position? look at what holds the index expression
			j := i - 1
			var ch ast.Node = p
			for j >= 0 {
				if _, ok := stack[j].(*ast.ParenExpr); !ok {
					break
				}
				ch = stack[j]
				j--
			}
			if j >= 0 {
				switch q := stack[j].(type) {
				case *ast.AssignStmt:
					for _, l := range q.Lhs {
						if l == ch {
							c.report(e, "element of a Statement assigned in place")
							return
						}
					}
				case *ast.IncDecStmt:
					c.report(e, "element of a Statement modified in place")
					return
				case *ast.UnaryExpr:
					if q.Op == token.AND {
						c.report(e, "address of an element of a Statement taken")
						return
					}
				case *ast.RangeStmt:
					if q.Key == ch || q.Value == ch {
						c.report(e, "element of a Statement assigned by range")
						return
					}
				}
			}
			return
		}
	case *ast.CallExpr:
		if (c.isBuiltin(p.Fun, "len") || c.isBuiltin(p.Fun, "cap")) && len(p.Args) == 1 && p.Args[0] == child {
			return
		}
		if c.isBuiltin(p.Fun, "append") && len(p.Args) >= 1 && p.Args[0] == child && c.isRecvDeref(e) {
			// must be the right side of `*s = append(*s, ...)`
			if i >= 1 {
				if as, ok := stack[i-1].(*ast.AssignStmt); ok && as.Tok == token.ASSIGN &&
					len(as.Lhs) == 1 && len(as.Rhs) == 1 && as.Rhs[0] == p && c.isRecvDeref(as.Lhs[0]) {
					return
				}
			}
			c.report(e, "append to a Statement whose result is not assigned back to it")
			return
		}
	case *ast.AssignStmt:
		// the append call itself (its type is Statement) as the right side of `*s = append(*s, ...)`
		if call, ok := e.(*ast.CallExpr); ok && p.Tok == token.ASSIGN && len(p.Lhs) == 1 && len(p.Rhs) == 1 &&
			p.Rhs[0] == child && c.isBuiltin(call.Fun, "append") && len(call.Args) >= 1 &&
			c.isRecvDeref(call.Args[0]) && c.isRecvDeref(p.Lhs[0]) {
			return
		}
		if p.Tok == token.ASSIGN && len(p.Lhs) == 1 && len(p.Rhs) == 1 && p.Lhs[0] == child && c.isRecvDeref(e) {
			if call, ok := unparen(p.Rhs[0]).(*ast.CallExpr); ok && c.isBuiltin(call.Fun, "append") &&
				len(call.Args) >= 1 && c.isRecvDeref(call.Args[0]) {
				return
			}
			c.report(e, "Statement overwritten by something other than append to itself")
			return
		}
	}
	c.report(e, fmt.Sprintf("Statement value used as %T operand (possible second header over the same array)", stack[i]))
}

func recvBase(fd *ast.FuncDecl) (name string, ptr bool) {
	if fd.Recv == nil || len(fd.Recv.List) != 1 {
		return "", false
	}
	t := fd.Recv.List[0].Type
	if st, ok := t.(*ast.StarExpr); ok {
		t, ptr = st.X, true
	}
	if id, ok := t.(*ast.Ident); ok {
		return id.Name, ptr
	}
	return "", false
}

// matchFile: is this file part of the package as the go tool builds it here (GOOS, GOARCH,
// release tags, file name suffixes, //go:build and +build lines; no extra tags, so files
// guarded by the `verif` tag are left out)?  go/build decides, the same way `go build` does.
func matchFile(path string) bool {
	ok, err := build.Default.MatchFile(filepath.Dir(path), filepath.Base(path))
	if err != nil {
		die("%s: %v", path, err)
	}
	return ok
}

func main() {
	if len(os.Args) < 2 {
		die("usage: clone2coq <repo>")
	}
	repo := os.Args[1]
	dir := filepath.Join(repo, "jen")
	names, err := filepath.Glob(filepath.Join(dir, "*.go"))
	if err != nil {
		die("%v", err)
	}
	sort.Strings(names)
	fset := token.NewFileSet()
	var files []*ast.File
	for _, n := range names {
		if strings.HasSuffix(n, "_test.go") {
			continue
		}
		f, err := parser.ParseFile(fset, n, nil, parser.ParseComments)
		if err != nil {
			die("%v", err)
		}
		if matchFile(n) {
			files = append(files, f)
		}
	}
	info := &types.Info{Types: map[ast.Expr]types.TypeAndValue{}, Uses: map[*ast.Ident]types.Object{}, Defs: map[*ast.Ident]types.Object{}}
	conf := types.Config{Importer: importer.ForCompiler(fset, "source", nil)}
	pkg, err := conf.Check("github.com/dave/jennifer/jen", fset, files, info)
	if err != nil {
		die("package jen does not type-check: %v", err)
	}
	obj := pkg.Scope().Lookup("Statement")
	if obj == nil {
		die("type Statement not found")
	}
	stmtType := obj.Type()

	// type Statement []Code
	isCodeSlice := false
	if sl, ok := stmtType.Underlying().(*types.Slice); ok {
		if nm, ok := sl.Elem().(*types.Named); ok && nm.Obj().Name() == "Code" && nm.Obj().Pkg() == pkg {
			isCodeSlice = true
		}
	}

	cloneWrap, cloneFound, newFresh := false, false, false
	type row struct {
		name string
		ok   bool
		why  []string
	}
	var rows []row
	var others []string

	for _, f := range files {
		for _, d := range f.Decls {
			switch d := d.(type) {
			case *ast.FuncDecl:
				base, ptr := recvBase(d)
				c := &checker{fset: fset, info: info, stmtType: stmtType}
				if base == "Statement" {
					if ptr && len(d.Recv.List[0].Names) == 1 {
						if v, ok := info.Defs[d.Recv.List[0].Names[0]].(*types.Var); ok {
							c.recv = v
						}
					}
					if d.Body != nil {
						c.walk(d.Body)
					}
					rows = append(rows, row{d.Name.Name, len(c.bad) == 0, c.bad})
					if d.Name.Name == "Clone" {
						cloneFound = true
						cloneWrap = isWrapBody(d, info, c.recv)
					}
					continue
				}
				if d.Body != nil {
					c.walk(d.Body)
				}
				others = append(others, c.bad...)
				if d.Recv == nil && d.Name.Name == "newStatement" {
					newFresh = isFreshBody(d)
				}
			case *ast.GenDecl:
				if d.Tok == token.VAR {
					c := &checker{fset: fset, info: info, stmtType: stmtType}
					c.walk(d)
					others = append(others, c.bad...)
				}
			}
		}
	}
	if !cloneFound {
		cloneWrap = false
	}
	sort.Slice(rows, func(i, j int) bool { return rows[i].name < rows[j].name })
	sort.Strings(others)

	out := os.Stdout
	fmt.Fprintf(out, "(* GENERATED by tools/cmd/clone2coq from %s - do not edit *)\n", repo)
	fmt.Fprintln(out, "From Jen Require Import Base.Bytes.")
	fmt.Fprintln(out)
	fmt.Fprintf(out, "(* type Statement []Code *)\nDefinition statement_is_code_slice : bool := %s.\n\n", coqfmt.Bool(isCodeSlice))
	fmt.Fprintf(out, "(* func (s *Statement) Clone() *Statement { return &Statement{s} } *)\nDefinition clone_body_is_wrap : bool := %s.\n\n", coqfmt.Bool(cloneWrap))
	fmt.Fprintf(out, "(* func newStatement() *Statement { return &Statement{} } *)\nDefinition new_statement_is_fresh : bool := %s.\n\n", coqfmt.Bool(newFresh))
	var rs []string
	for _, r := range rows {
		s := fmt.Sprintf("(%s, %s)", coqfmt.Str(r.name), coqfmt.Bool(r.ok))
		rs = append(rs, s)
	}
	fmt.Fprintf(out, "(* methods of Statement: the slice header is only read, or replaced by append to itself *)\nDefinition append_only_methods : list (str * bool) := %s.\n\n", coqfmt.List(rs, "  "))
	var why []string
	for _, r := range rows {
		for _, w := range r.why {
			why = append(why, coqfmt.Str(r.name+": "+w))
		}
	}
	fmt.Fprintf(out, "(* why a row above is false *)\nDefinition append_only_violations : list str := %s.\n\n", coqfmt.List(why, "  "))
	var os_ []string
	for _, o := range others {
		os_ = append(os_, coqfmt.Str(o))
	}
	fmt.Fprintf(out, "(* every other place in package jen that could write through a Statement value or create a\n   second header over its array; expected empty *)\nDefinition other_writes : list str := %s.\n", coqfmt.List(os_, "  "))
}

// isWrapBody: the body is exactly `return &Statement{s}` with s the receiver.
func isWrapBody(d *ast.FuncDecl, info *types.Info, recv *types.Var) bool {
	if d.Body == nil || len(d.Body.List) != 1 || recv == nil {
		return false
	}
	if d.Type.Params != nil && len(d.Type.Params.List) != 0 {
		return false
	}
	rs, ok := d.Body.List[0].(*ast.ReturnStmt)
	if !ok || len(rs.Results) != 1 {
		return false
	}
	ue, ok := rs.Results[0].(*ast.UnaryExpr)
	if !ok || ue.Op != token.AND {
		return false
	}
	cl, ok := ue.X.(*ast.CompositeLit)
	if !ok || len(cl.Elts) != 1 {
		return false
	}
	if id, ok := cl.Type.(*ast.Ident); !ok || id.Name != "Statement" {
		return false
	}
	el, ok := cl.Elts[0].(*ast.Ident)
	return ok && info.Uses[el] == recv
}

// isFreshBody: the body is exactly `return &Statement{}`.
func isFreshBody(d *ast.FuncDecl) bool {
	if d.Body == nil || len(d.Body.List) != 1 {
		return false
	}
	rs, ok := d.Body.List[0].(*ast.ReturnStmt)
	if !ok || len(rs.Results) != 1 {
		return false
	}
	ue, ok := rs.Results[0].(*ast.UnaryExpr)
	if !ok || ue.Op != token.AND {
		return false
	}
	cl, ok := ue.X.(*ast.CompositeLit)
	if !ok || len(cl.Elts) != 0 {
		return false
	}
	id, ok := cl.Type.(*ast.Ident)
	return ok && id.Name == "Statement"
}
