// clone2coq reads package jen (current working tree, non-test files, build tag verif off),
// type-checks it with go/types and prints Coq definitions describing how the package
// treats values of type Statement ([]Code) at the slice level - the premises of C20:
//
//	statement_is_code_slice : bool          type Statement []Code
//	clone_body_is_wrap      : bool          Clone's body is exactly `return &Statement{s}`
//	new_statement_is_fresh  : bool          newStatement's body is exactly `return &Statement{}`
//	append_only_methods     : list (str * bool)
//	    one row per method whose receiver is Statement / *Statement: true iff nothing in its
//	    body is reported by the rules below
//	append_only_violations  : list str      why a row above is false
//	other_writes            : list str      the same reports everywhere else in the package
//	                                        (other functions, methods of other types, function
//	                                        literals, package-level initialisers); expected empty
//	direct_header_uses      : list (str * nat)  how many Statement-typed expressions are in each of
//	                                        the direct positions (rules 1-3, 10); evidence only
//	self_appending_methods  : list str      the methods containing `*s = append(*s, ..)` (rule 10)
//	ptr_results, ptr_locals, builder_calls  rules 13, 14: who the methods of Statement are called
//	                                        on; Spec/CloneShape.v (foreign_builder_calls) decides
//	copies_readonly         : list copy_row (Spec/CloneShape.v)
//	    one row (function, "file:line name", uses) per COPY of a Statement's slice header: a
//	    local variable or parameter that receives one (`uses` is the category of every
//	    mention of it in the package), and one row per Statement-valued expression that is
//	    not a mention of such a variable and is in any position other than the direct ones
//	    (rules 1-3 and 10 below): copied, passed on, resliced, compared, ... or misused.  The
//	    Coq side (copies_closed_readonly) decides from the categories; a category that is not
//	    read-only is also reported in append_only_violations / other_writes.
//
// TRUSTED RULES (what this program is trusted to classify as the syntax tree says).
//
// A "header expression" is an expression that may denote the slice header of a Statement:
//
//	(H1) any value expression whose type is Statement (`*s`, a Statement-typed variable, field,
//	     call result, ...), except a composite literal `Statement{...}` (a fresh value);
//	(H2) a mention of a TRACKED variable: a local variable or parameter, of any slice type
//	     (Statement, []Code, ...), that some header expression is copied into (rules 7, 8);
//	(H3) a reslice `e[i:j]`, `e[i:j:k]` or a conversion to a slice type `[]Code(e)`,
//	     `Statement(e)` of a header expression e.
//
// Every header expression is classified by the syntactic position it is in.  READ-ONLY:
//  1. operand of `range` (with := or no iteration variables)              UseRange
//  2. the X of an index expression that is only read                      UseIndexRead
//  3. the argument of len / cap                                           UseLen / UseCap
//  4. operand of == or != (a slice can only be compared with nil)         UseNilCmp
//  5. a non-first argument `e...` of append; the second argument of copy  UseAppendSrc / UseCopySrc
//     (the elements are read and copied elsewhere)
//  6. the X of a reslice or the argument of a conversion to a slice type: the result is a
//     header expression again, classified by ITS position            UseReslice u / UseConvert u
//  7. the right side of `x := e`, `var x = e`, `var x T = e` (also positionwise in
//     `a, b := e1, e2`) where x is a NEW LOCAL variable of slice type: x becomes tracked and
//     every mention of x anywhere is classified by these same rules        UseCopyTo x
//  8. an argument of a call that is statically bound (a function, or a method called on a
//     non-interface receiver) to a function DECLARED WITH A BODY IN PACKAGE JEN, in a
//     parameter position of slice type (`e...` in the variadic position included); the
//     call is not the operand of go/defer: the callee's parameter becomes tracked and every
//     mention of it is classified by these same rules - transitively; a parameter already
//     being analysed is not analysed again (the table is a greatest fixed point: a cycle of
//     helpers is accepted iff every mention in the cycle is read-only)      UsePass f p
//  9. for a tracked variable x only: `x = x[i:j]` (x replaced by a reslice of itself)
//     UseSelfAssign
//
// and for the receiver s (a *Statement) of the enclosing method only:
//  10. both the left side and the first argument of `*s = append(*s, ...)` (not a copy), where
//     both `s` resolve to the receiver variable, the statement is not inside a function literal
//     and not under go/defer (it runs during the call), and the receiver variable is never
//     assigned and never has its address taken anywhere (rule 11: it still points to the cell
//     the method was called on).  Otherwise it is an UseAppendDst / UseOther like any other.
//
// POINTERS TO STATEMENTS (rules 11-14).  Rules 1-10 are about slice headers; these are about
// which CELL a `*s`, or a method call, reaches.
//  11. Reported: any receiver or parameter whose type is a pointer to Statement (or to a type
//     with the same underlying type) that is assigned (`s = p`, `s, ok = ..`, `s, x := ..`
//     redeclaring it, range with `=`), incremented or has its address taken (`&s`) anywhere in
//     the package, function literals included.
//  12. Reported: every conversion T(e) where T or the type of e is a pointer to Statement, to
//     []Code or to a type with that underlying type (`(*[]Code)(s)`, `(*Statement)(p)`,
//     `unsafe.Pointer(s)`; a nil operand is exempt); any import of package unsafe; any call of
//     a function or method of package reflect or unsafe with an argument (or receiver) whose
//     static type is such a pointer or such a slice.  NOT seen: reflect on a statement that is
//     held in an interface value (`reflect.ValueOf(code)`).
//  13. builder_calls has one row for every selector expression that go/types resolves to a
//     method of Statement (value or pointer receiver; promoted through embedding included), and
//     for every selector that resolves to an interface method with the NAME of a method of
//     Statement (kind PkOther: the receiver is chosen at run time).  The kind of a row is
//     PkOther when the selector is not the function of a call (method value `s.Add`, method
//     expression `(*Statement).Add`), or the call is under go/defer; otherwise it is the kind
//     of the receiver expression x, which must have type *Statement:
//     PkSelf           x is an identifier resolving to the receiver variable of the enclosing
//     method of *Statement, not inside a function literal, never mutated (11)
//     PkLocal fn v     x is an identifier resolving to a local variable that is declared with
//     its own initialiser (`v := e`, positionwise in `a, b := e1, e2`,
//     `var v = e`), is never mutated in the sense of rule 11 and is not
//     mentioned here inside a function literal that does not declare it;
//     ptr_locals gets the row (fn, v, kind of e)
//     PkNew            `&Statement{..}`, `new(Statement)`
//     PkChain m k      `e.M(..)`: M a method of Statement declared with a body, called
//     directly through a selector; m its key, k the kind of e
//     PkCall f         `f(..)`, `y.f(..)`: a non-generic function, or method of another type,
//     declared with a body in package jen and statically bound; f its key
//     PkOther why      everything else: parameters, fields, package-level variables,
//     elements, type assertions, variables without own initialiser, ...
//  14. ptr_results has one row for every function and method declared with a body whose only
//     result has type *Statement: the kind (as in 13) of the operand of each of its return
//     statements (those of nested function literals excluded; a bare return is PkOther).
//
// Which rows are harmless is decided in Coq (Spec/CloneShape.v: kind_self, kind_fresh, mutating,
// foreign_builder_calls; soundness in Proofs/CloneShapeProofs.v).
//
// WHAT IS ENUMERATED (so that "copies_readonly = []" means "there is no copy"): phase 1 visits
// every node of every selected file; every ast.Expr other than a ParenExpr for which go/types
// recorded a VALUE of a type identical to Statement - except a CompositeLit - is classified by
// rules 1-10, and gets a row in copies_readonly unless its category is UseRange, UseIndexRead,
// UseLen, UseCap or UseAppendSelf (counted in direct_header_uses), or it is a mention (or
// reslice) of a tracked variable (then the variable's row has the category), or it is a
// reslice/conversion of a header expression (then the operand's category wraps it).
//
// NOT read-only, reported:
//
//	first argument of append otherwise (UseAppendDst); `e[i] = ..`, `e[i]++`, `e[i]` as range
//	variable (UseElemWrite); first argument of copy (UseCopyDst); `&e` (UseAddr); `&e[i]`
//	(UseElemAddr); returned (UseReturned); a tracked variable mentioned inside a function
//	literal that does not declare it (UseClosure); assigned to an existing variable, a field,
//	an element, a dereference, a package-level variable, put in a composite literal, sent on a
//	channel, converted to a non-slice type, passed to go/defer, passed to a function outside
//	package jen, to a function value, to an interface method, to a parameter that is not of
//	slice type (UseStored); `*s` overwritten by anything but append to itself, a method called
//	on a copy (its address is taken), and every other position (UseOther).
//
// Additionally reported (these would let a header be copied without any header expression
// appearing): an expression whose type holds a Statement BY VALUE inside a struct, array,
// slice, map or channel; `for .. = range` (assignment form) over a Statement.
//
// Why read-only copies are harmless for C20: the theorems of Props/C20.v are about histories
// of newStatement / `*s = append(*s, ..)` / Clone on the statement CELLS; a second header that
// is never appended to, written through, stored or returned dies with the call that made it
// and cannot change any array, so every builder call is still an OAppend and nothing else
// writes.  Appending through a second header is what the refuted mutant [clone_header] does.
package main

import (
	"bytes"
	"fmt"
	"go/ast"
	"go/importer"
	"go/parser"
	"go/printer"
	"go/token"
	"go/types"
	"os"
	"path/filepath"
	"sort"
	"strings"
	"veriftools/internal/srcset"

	"veriftools/coqfmt"
)

func die(format string, a ...interface{}) {
	fmt.Fprintf(os.Stderr, "clone2coq: "+format+"\n", a...)
	os.Exit(2)
}

func unparen(e ast.Expr) ast.Expr {
	for {
		p, ok := e.(*ast.ParenExpr)
		if !ok {
			return e
		}
		e = p.X
	}
}

// use is one classified mention of a header expression: a term of type copy_use
// (Spec/CloneShape.v); bad is "" for the read-only categories.
type use struct {
	coq   string // the Coq term
	short string // for messages
	bad   string // why it is not read-only
}

func ro(ctor string) use { return use{coq: ctor, short: ctor} }

func badUse(coq, why string) use { return use{coq: coq, short: coq, bad: why} }

func stored(what string) use {
	return use{coq: "UseStored " + coqfmt.Str(what), short: "UseStored", bad: what}
}

func other(what string) use {
	return use{coq: "UseOther " + coqfmt.Str(what), short: "UseOther", bad: what}
}

func wrap(ctor string, u use) use {
	return use{coq: ctor + " (" + u.coq + ")", short: ctor + " " + u.short, bad: u.bad}
}

// copyRow is one row of copies_readonly.
type copyRow struct {
	fn   string // key of the function the copy lives in
	name string // "file.go:line name"
	pos  token.Pos
	uses []use
}

type analysis struct {
	fset     *token.FileSet
	info     *types.Info
	pkg      *types.Package
	stmtType types.Type
	parent   map[ast.Node]ast.Node
	decls    map[*types.Func]*ast.FuncDecl
	usesOf   map[*types.Var][]*ast.Ident
	tracked  map[*types.Var]*copyRow
	queue    []*types.Var
	exprRows []*copyRow
	// pointers to statements (rules 11-14)
	ptrStmt     types.Type
	defInit     map[*types.Var]ast.Expr
	ptrLocals   map[*types.Var]*ptrLocal
	stmtMethods map[string]bool
	// reports, by enclosing top-level declaration
	reports map[ast.Node][]string
	seen    map[string]bool
}

func (a *analysis) posText(p token.Pos) string {
	q := a.fset.Position(p)
	return fmt.Sprintf("%s:%d", filepath.Base(q.Filename), q.Line)
}

func (a *analysis) exprText(e ast.Expr) string {
	var b bytes.Buffer
	printer.Fprint(&b, a.fset, e)
	s := strings.Join(strings.Fields(b.String()), " ")
	if len(s) > 60 {
		s = s[:57] + "..."
	}
	return s
}

// top: the top-level declaration a node is in.
func (a *analysis) top(n ast.Node) ast.Node {
	for {
		p := a.parent[n]
		if p == nil {
			return n
		}
		if _, ok := p.(*ast.File); ok {
			return n
		}
		n = p
	}
}

func recvBase(fd *ast.FuncDecl) (name string, ptr bool) {
	if fd.Recv == nil || len(fd.Recv.List) != 1 {
		return "", false
	}
	t := fd.Recv.List[0].Type
	if st, ok := t.(*ast.StarExpr); ok {
		t, ptr = st.X, true
	}
	if id, ok := t.(*ast.Ident); ok {
		return id.Name, ptr
	}
	return "", false
}

func fnKey(n ast.Node) string {
	fd, ok := n.(*ast.FuncDecl)
	if !ok {
		return "(package-level initialiser)"
	}
	if base, _ := recvBase(fd); base != "" {
		return base + "." + fd.Name.Name
	}
	if fd.Recv != nil {
		return "?." + fd.Name.Name
	}
	return fd.Name.Name
}

// recvOf: the receiver variable of the enclosing method when that is a *Statement.
func (a *analysis) recvOf(n ast.Node) *types.Var {
	fd, ok := a.top(n).(*ast.FuncDecl)
	if !ok {
		return nil
	}
	base, ptr := recvBase(fd)
	if base != "Statement" || !ptr || len(fd.Recv.List[0].Names) != 1 {
		return nil
	}
	v, _ := a.info.Defs[fd.Recv.List[0].Names[0]].(*types.Var)
	return v
}

func (a *analysis) isRecvDeref(e ast.Expr) bool {
	st, ok := unparen(e).(*ast.StarExpr)
	if !ok {
		return false
	}
	recv := a.recvOf(e)
	if recv == nil {
		return false
	}
	id, ok := unparen(st.X).(*ast.Ident)
	if !ok || a.info.Uses[id] != recv {
		return false
	}
	// rule 10: directly in the method's body (the statement must run during the call, on the
	// cell the method was called on)
	return !a.inFuncLit(id) && !a.underGoDefer(id) && a.mutated(recv) == ""
}

// inFuncLit: some function literal lies between n and the enclosing declaration.
func (a *analysis) inFuncLit(n ast.Node) bool {
	for p := a.parent[n]; p != nil; p = a.parent[p] {
		if _, ok := p.(*ast.FuncLit); ok {
			return true
		}
	}
	return false
}

// underGoDefer: n is inside the operand of a go or defer statement.
func (a *analysis) underGoDefer(n ast.Node) bool {
	for p := a.parent[n]; p != nil; p = a.parent[p] {
		switch p.(type) {
		case *ast.GoStmt, *ast.DeferStmt:
			return true
		}
	}
	return false
}

// captured: the mention id of the local variable v is inside a function literal that does
// not declare v.
func (a *analysis) captured(id *ast.Ident, v *types.Var) bool {
	for n := a.parent[ast.Node(id)]; n != nil; n = a.parent[n] {
		if fl, ok := n.(*ast.FuncLit); ok && !(fl.Pos() <= v.Pos() && v.Pos() < fl.End()) {
			return true
		}
	}
	return false
}

// mutated: why the variable v does not keep the value it was bound to ("" when it does): some
// mention of it anywhere in the package (function literals included) is the left side of an
// assignment (any operator; `v, x := ..` redeclarations included), a range variable of the
// assignment form, the operand of ++/-- or the operand of &.
func (a *analysis) mutated(v *types.Var) string {
	for _, id := range a.usesOf[v] {
		p, child := a.up(id)
		switch p := p.(type) {
		case *ast.AssignStmt:
			for _, l := range p.Lhs {
				if l == child {
					return "assigned at " + a.posText(id.Pos())
				}
			}
		case *ast.RangeStmt:
			if p.Key == child || p.Value == child {
				return "assigned by range at " + a.posText(id.Pos())
			}
		case *ast.IncDecStmt:
			return "modified at " + a.posText(id.Pos())
		case *ast.UnaryExpr:
			if p.Op == token.AND {
				return "address taken at " + a.posText(id.Pos())
			}
		}
	}
	return ""
}

// stmtLikePtr: t is a pointer to Statement or to any type with the same underlying type
// ([]Code itself, a defined type over it).
func (a *analysis) stmtLikePtr(t types.Type) bool {
	if t == nil {
		return false
	}
	p, ok := t.Underlying().(*types.Pointer)
	if !ok {
		return false
	}
	return types.Identical(p.Elem().Underlying(), a.stmtType.Underlying())
}

// ptrLocal is one row of ptr_locals.
type ptrLocal struct {
	fn, key, kind string
	pos           token.Pos
}

func pkOther(what string) string { return "PkOther " + coqfmt.Str(what) }

// ptrKind: what the *Statement-typed expression e denotes, as a term of type ptr_kind
// (Spec/CloneShape.v); rule 13.
func (a *analysis) ptrKind(e ast.Expr) string {
	e = unparen(e)
	if tv, ok := a.info.Types[e]; !ok || tv.Type == nil || !types.Identical(tv.Type, a.ptrStmt) {
		return pkOther(a.exprText(e) + ": not an expression of type *Statement")
	}
	switch x := e.(type) {
	case *ast.Ident:
		v, _ := a.info.Uses[x].(*types.Var)
		if v == nil {
			return pkOther(x.Name + ": not a variable")
		}
		if a.localVar(v) && a.captured(x, v) {
			return pkOther(x.Name + ": mentioned inside a function literal that does not declare it")
		}
		if why := a.mutated(v); why != "" {
			return pkOther(x.Name + ": variable " + why)
		}
		if recv := a.recvOf(x); recv != nil && recv == v {
			if a.inFuncLit(x) {
				return pkOther(x.Name + ": the receiver mentioned inside a function literal")
			}
			return "PkSelf"
		}
		init, ok := a.defInit[v]
		if !ok || !a.localVar(v) {
			return pkOther(x.Name + ": a parameter, package-level variable, field or variable declared without its own initialiser")
		}
		r := a.ptrLocals[v]
		if r == nil {
			r = &ptrLocal{fn: fnKey(a.top(init)), key: a.varKey(v), pos: v.Pos()}
			a.ptrLocals[v] = r
			r.kind = a.ptrKind(init)
		}
		return "PkLocal " + coqfmt.Str(r.fn) + " " + coqfmt.Str(r.key)
	case *ast.UnaryExpr:
		if x.Op == token.AND {
			if _, ok := unparen(x.X).(*ast.CompositeLit); ok {
				return "PkNew"
			}
		}
	case *ast.CallExpr:
		if a.isBuiltin(x.Fun, "new") {
			return "PkNew"
		}
		fn, decl := a.callee(x)
		if fn == nil {
			return pkOther(a.exprText(e) + ": result of a call that is not statically bound to a function declared in package jen")
		}
		if rb, _ := recvBase(decl); rb == "Statement" {
			sel, ok := unparen(x.Fun).(*ast.SelectorExpr)
			if !ok {
				return pkOther(a.exprText(e) + ": method of Statement not called through a selector")
			}
			if s := a.info.Selections[sel]; s == nil || s.Kind() != types.MethodVal {
				return pkOther(a.exprText(e) + ": method expression")
			}
			return "PkChain " + coqfmt.Str(fnKey(decl)) + " (" + a.ptrKind(sel.X) + ")"
		}
		return "PkCall " + coqfmt.Str(fnKey(decl))
	}
	return pkOther(a.exprText(e) + ": not a variable, a call or &Statement{..}")
}

// recvDerefNotDirect: e is `*s` for the receiver s, but not one rule 10 accepts: why.
func (a *analysis) recvDerefNotDirect(e ast.Expr) string {
	st, ok := unparen(e).(*ast.StarExpr)
	if !ok {
		return ""
	}
	recv := a.recvOf(e)
	id, ok := unparen(st.X).(*ast.Ident)
	if recv == nil || !ok || a.info.Uses[id] != recv {
		return ""
	}
	switch {
	case a.inFuncLit(id):
		return "inside a function literal (it may run after the call returned)"
	case a.underGoDefer(id):
		return "under go/defer"
	case a.mutated(recv) != "":
		return "although the receiver variable is " + a.mutated(recv)
	}
	return ""
}

func (a *analysis) isBuiltin(fun ast.Expr, name string) bool {
	id, ok := unparen(fun).(*ast.Ident)
	if !ok || id.Name != name {
		return false
	}
	_, isb := a.info.Uses[id].(*types.Builtin)
	return isb
}

func (a *analysis) isAnyBuiltin(fun ast.Expr) bool {
	id, ok := unparen(fun).(*ast.Ident)
	if !ok {
		return false
	}
	_, isb := a.info.Uses[id].(*types.Builtin)
	return isb
}

func (a *analysis) isStmtValue(e ast.Expr) bool {
	tv, ok := a.info.Types[e]
	if !ok || tv.Type == nil || !tv.IsValue() {
		return false
	}
	return types.Identical(tv.Type, a.stmtType)
}

func isSlice(t types.Type) bool {
	if t == nil {
		return false
	}
	if _, ok := t.(*types.TypeParam); ok {
		return false
	}
	_, ok := t.Underlying().(*types.Slice)
	return ok
}

// up: the nearest ancestor of n that is not a parenthesis, and the child through which it
// is reached.
func (a *analysis) up(n ast.Node) (p ast.Node, child ast.Node) {
	child = n
	p = a.parent[n]
	for {
		pe, ok := p.(*ast.ParenExpr)
		if !ok {
			return p, child
		}
		child = pe
		p = a.parent[pe]
	}
}

// localVar: v is a variable declared inside a function (not a field, not package-level).
func (a *analysis) localVar(v *types.Var) bool {
	return v != nil && !v.IsField() && v.Parent() != nil && v.Parent() != a.pkg.Scope() && v.Parent() != types.Universe
}

func (a *analysis) varKey(v *types.Var) string {
	name := v.Name()
	if name == "" {
		name = "_"
	}
	return a.posText(v.Pos()) + " " + name
}

// track makes v a tracked copy (once) and returns its key; bad != "" when v cannot be one.
func (a *analysis) track(v *types.Var, declIn ast.Node) (key string, bad string) {
	if !a.localVar(v) {
		return "", "stored in the non-local variable " + v.Name()
	}
	if !isSlice(v.Type()) {
		return "", "stored in the variable " + v.Name() + " of non-slice type " + v.Type().String()
	}
	if r, ok := a.tracked[v]; ok {
		return r.name, ""
	}
	r := &copyRow{fn: fnKey(a.top(declIn)), name: a.varKey(v), pos: v.Pos()}
	a.tracked[v] = r
	a.queue = append(a.queue, v)
	return r.name, ""
}

// selfReslice: e is x, x[i:j], x[i:j][k:l], ... for the variable v.
func (a *analysis) selfReslice(e ast.Expr, v *types.Var) bool {
	for {
		e = unparen(e)
		switch x := e.(type) {
		case *ast.SliceExpr:
			e = x.X
		case *ast.Ident:
			return a.info.Uses[x] == v
		default:
			return false
		}
	}
}

// rootVar: the variable at the root of a chain of reslices.
func (a *analysis) rootVar(e ast.Expr) *types.Var {
	for {
		e = unparen(e)
		switch x := e.(type) {
		case *ast.SliceExpr:
			e = x.X
		case *ast.Ident:
			v, _ := a.info.Uses[x].(*types.Var)
			return v
		default:
			return nil
		}
	}
}

// callee: the function of package jen a call is statically bound to, with its declaration.
func (a *analysis) callee(call *ast.CallExpr) (*types.Func, *ast.FuncDecl) {
	var id *ast.Ident
	switch f := unparen(call.Fun).(type) {
	case *ast.Ident:
		id = f
	case *ast.SelectorExpr:
		if sel, ok := a.info.Selections[f]; ok {
			if sel.Kind() != types.MethodVal || types.IsInterface(sel.Recv()) {
				return nil, nil
			}
		}
		id = f.Sel
	default:
		return nil, nil
	}
	fn, ok := a.info.Uses[id].(*types.Func)
	if !ok || fn.Pkg() != a.pkg {
		return nil, nil
	}
	d := a.decls[fn]
	if d == nil || d.Body == nil {
		return nil, nil
	}
	sig := fn.Type().(*types.Signature)
	if sig.TypeParams() != nil || sig.RecvTypeParams() != nil {
		return nil, nil
	}
	return fn, d
}

// classify: the category of the position the header expression e is in.
func (a *analysis) classify(e ast.Expr) use {
	// a tracked or any other local variable mentioned inside a function literal that does
	// not declare it
	if id, ok := e.(*ast.Ident); ok {
		if v, ok := a.info.Uses[id].(*types.Var); ok && a.localVar(v) {
			for n := a.parent[ast.Node(id)]; n != nil; n = a.parent[n] {
				if fl, ok := n.(*ast.FuncLit); ok && !(fl.Pos() <= v.Pos() && v.Pos() < fl.End()) {
					return badUse("UseClosure", "captured by a function literal")
				}
			}
		}
	}
	p, child := a.up(e)
	switch p := p.(type) {
	case *ast.RangeStmt:
		if p.X == child {
			if p.Tok == token.ASSIGN {
				return other("range over a Statement assigning to existing variables")
			}
			return ro("UseRange")
		}
	case *ast.IndexExpr:
		if p.X == child {
			q, ch := a.up(p)
			switch q := q.(type) {
			case *ast.AssignStmt:
				for _, l := range q.Lhs {
					if l == ch {
						return badUse("UseElemWrite", "element of a Statement assigned in place")
					}
				}
			case *ast.IncDecStmt:
				return badUse("UseElemWrite", "element of a Statement modified in place")
			case *ast.UnaryExpr:
				if q.Op == token.AND {
					return badUse("UseElemAddr", "address of an element of a Statement taken")
				}
			case *ast.RangeStmt:
				if q.Key == ch || q.Value == ch {
					return badUse("UseElemWrite", "element of a Statement assigned by range")
				}
			}
			return ro("UseIndexRead")
		}
	case *ast.SliceExpr:
		if p.X == child {
			return wrap("UseReslice", a.classify(p))
		}
	case *ast.BinaryExpr:
		if p.Op == token.EQL || p.Op == token.NEQ {
			return ro("UseNilCmp")
		}
	case *ast.UnaryExpr:
		if p.Op == token.AND {
			return badUse("UseAddr", "address of a Statement value taken")
		}
	case *ast.ReturnStmt:
		return badUse("UseReturned", "Statement value returned (the caller gets a second header over the same array)")
	case *ast.CallExpr:
		return a.classifyCall(e, p, child)
	case *ast.AssignStmt:
		return a.classifyAssign(e, p, child)
	case *ast.ValueSpec:
		for i, val := range p.Values {
			if val != child {
				continue
			}
			if len(p.Names) != len(p.Values) {
				break
			}
			v, _ := a.info.Defs[p.Names[i]].(*types.Var)
			if v == nil {
				return stored("assigned to " + p.Names[i].Name)
			}
			key, bad := a.track(v, p)
			if bad != "" {
				return stored(bad)
			}
			return ro("UseCopyTo " + coqfmt.Str(key))
		}
	case *ast.CompositeLit, *ast.KeyValueExpr:
		return stored("put in a composite literal")
	case *ast.SendStmt:
		return stored("sent on a channel")
	case *ast.SelectorExpr:
		return other("method or field selected on a Statement value (a method call takes the address of the copy)")
	}
	return other(fmt.Sprintf("Statement value used as %T operand (possible second header over the same array)", p))
}

func (a *analysis) classifyCall(e ast.Expr, p *ast.CallExpr, child ast.Node) use {
	argi := -1
	for i, x := range p.Args {
		if x == child {
			argi = i
		}
	}
	if argi < 0 {
		return other("Statement value called")
	}
	// conversion
	if tv, ok := a.info.Types[p.Fun]; ok && tv.IsType() {
		if len(p.Args) == 1 && isSlice(tv.Type) {
			return wrap("UseConvert", a.classify(p))
		}
		return stored("converted to the non-slice type " + tv.Type.String())
	}
	if a.isAnyBuiltin(p.Fun) {
		switch {
		case (a.isBuiltin(p.Fun, "len") || a.isBuiltin(p.Fun, "cap")) && len(p.Args) == 1:
			if a.isBuiltin(p.Fun, "len") {
				return ro("UseLen")
			}
			return ro("UseCap")
		case a.isBuiltin(p.Fun, "append") && argi == 0:
			if a.isRecvDeref(e) {
				// must be the right side of `*s = append(*s, ...)`
				if as, ok := a.parent[p].(*ast.AssignStmt); ok && as.Tok == token.ASSIGN &&
					len(as.Lhs) == 1 && len(as.Rhs) == 1 && as.Rhs[0] == p && a.isRecvDeref(as.Lhs[0]) {
					return ro("UseAppendSelf")
				}
				return badUse("UseAppendDst", "append to a Statement whose result is not assigned back to it")
			}
			if why := a.recvDerefNotDirect(e); why != "" {
				return badUse("UseAppendDst", "append to the receiver's statement "+why)
			}
			return badUse("UseAppendDst", "append to a copy of a Statement's slice header (it may write into the shared array)")
		case a.isBuiltin(p.Fun, "append") && argi == len(p.Args)-1 && p.Ellipsis.IsValid():
			return ro("UseAppendSrc")
		case a.isBuiltin(p.Fun, "copy") && len(p.Args) == 2 && argi == 1:
			return ro("UseCopySrc")
		case a.isBuiltin(p.Fun, "copy") && argi == 0:
			return badUse("UseCopyDst", "copy into a Statement (elements written in place)")
		}
		return other("Statement value passed to a builtin")
	}
	switch a.parent[p].(type) {
	case *ast.GoStmt:
		return stored("passed to a go statement (outlives the call)")
	case *ast.DeferStmt:
		return stored("passed to a deferred call")
	}
	fn, decl := a.callee(p)
	if fn == nil {
		return stored("passed to " + a.exprText(p.Fun) + ", which is not a function declared in package jen called directly")
	}
	sig := fn.Type().(*types.Signature)
	n := sig.Params().Len()
	var pv *types.Var
	switch {
	case sig.Variadic() && argi >= n-1:
		if !(p.Ellipsis.IsValid() && argi == n-1 && argi == len(p.Args)-1) {
			return stored("passed as one element of the variadic parameter of " + fn.Name())
		}
		pv = sig.Params().At(n - 1)
	case argi < n:
		pv = sig.Params().At(argi)
	default:
		return other("argument without a parameter")
	}
	key, bad := a.track(pv, decl)
	if bad != "" {
		return stored("passed to " + fn.Name() + ": " + bad)
	}
	return ro("UsePass " + coqfmt.Str(fnKey(decl)) + " " + coqfmt.Str(key))
}

func (a *analysis) classifyAssign(e ast.Expr, p *ast.AssignStmt, child ast.Node) use {
	if p.Tok != token.ASSIGN && p.Tok != token.DEFINE {
		return other("Statement value in an operator assignment")
	}
	for i, r := range p.Rhs {
		if r != child {
			continue
		}
		if len(p.Lhs) != len(p.Rhs) {
			return other("Statement value in a multi-value assignment")
		}
		// the append call itself as the right side of `*s = append(*s, ...)`
		if call, ok := e.(*ast.CallExpr); ok && p.Tok == token.ASSIGN && len(p.Lhs) == 1 &&
			a.isBuiltin(call.Fun, "append") && len(call.Args) >= 1 &&
			a.isRecvDeref(call.Args[0]) && a.isRecvDeref(p.Lhs[0]) {
			return ro("UseAppendSelf")
		}
		lhs, ok := unparen(p.Lhs[i]).(*ast.Ident)
		if !ok {
			return stored("assigned to " + a.exprText(p.Lhs[i]))
		}
		if v, ok := a.info.Defs[lhs].(*types.Var); ok && p.Tok == token.DEFINE {
			key, bad := a.track(v, p)
			if bad != "" {
				return stored(bad)
			}
			return ro("UseCopyTo " + coqfmt.Str(key))
		}
		if v, ok := a.info.Uses[lhs].(*types.Var); ok && a.tracked[v] != nil && a.selfReslice(e, v) {
			return ro("UseSelfAssign")
		}
		return stored("assigned to the existing variable " + lhs.Name)
	}
	for i, l := range p.Lhs {
		if l != child {
			continue
		}
		if len(p.Lhs) == len(p.Rhs) {
			// `*s = append(*s, ...)`
			if len(p.Lhs) == 1 && p.Tok == token.ASSIGN && a.isRecvDeref(e) {
				if call, ok := unparen(p.Rhs[0]).(*ast.CallExpr); ok && a.isBuiltin(call.Fun, "append") &&
					len(call.Args) >= 1 && a.isRecvDeref(call.Args[0]) {
					return ro("UseAppendSelf")
				}
			}
			// `x = x[i:j]` for a tracked x
			if id, ok := e.(*ast.Ident); ok && p.Tok == token.ASSIGN {
				if v, ok := a.info.Uses[id].(*types.Var); ok && a.tracked[v] != nil && a.selfReslice(p.Rhs[i], v) {
					return ro("UseSelfAssign")
				}
			}
		}
		if a.isRecvDeref(e) {
			return other("Statement overwritten by something other than append to itself")
		}
		return other("Statement value overwritten by something other than a reslice of itself")
	}
	return other("Statement value in an assignment")
}

// holdsStatement: t holds a Statement by value inside a composite type (so copying a value
// of type t copies a slice header without any Statement-typed expression appearing).
func (a *analysis) holdsStatement(t types.Type, inside bool, seen map[types.Type]bool) bool {
	if t == nil || seen[t] {
		return false
	}
	seen[t] = true
	if inside && types.Identical(t, a.stmtType) {
		return true
	}
	if types.Identical(t, a.stmtType) {
		return false
	}
	switch u := t.Underlying().(type) {
	case *types.Struct:
		for i := 0; i < u.NumFields(); i++ {
			if a.holdsStatement(u.Field(i).Type(), true, seen) {
				return true
			}
		}
	case *types.Array:
		return a.holdsStatement(u.Elem(), true, seen)
	case *types.Slice:
		return a.holdsStatement(u.Elem(), true, seen)
	case *types.Map:
		return a.holdsStatement(u.Key(), true, seen) || a.holdsStatement(u.Elem(), true, seen)
	case *types.Chan:
		return a.holdsStatement(u.Elem(), true, seen)
	}
	return false
}

func (a *analysis) report(at ast.Node, prefix string, u use) {
	if u.bad == "" {
		return
	}
	msg := fmt.Sprintf("%s: %s%s", a.posText(at.Pos()), prefix, u.bad)
	t := a.top(at)
	k := fmt.Sprintf("%p|%s", t, msg)
	if a.seen[k] {
		return
	}
	a.seen[k] = true
	a.reports[t] = append(a.reports[t], msg)
}

// derived: e is a reslice or slice conversion of a header expression (rule H3): it gets no
// row of its own, its operand's row shows it.
func (a *analysis) derived(e ast.Expr) bool {
	switch x := e.(type) {
	case *ast.SliceExpr:
		return a.isHeader(x.X)
	case *ast.CallExpr:
		if tv, ok := a.info.Types[x.Fun]; ok && tv.IsType() && len(x.Args) == 1 {
			return a.isHeader(x.Args[0])
		}
	}
	return false
}

// ofTracked: e is a mention of a tracked variable or a reslice of one (phase 2 classifies it).
func (a *analysis) ofTracked(e ast.Expr) bool {
	v := a.rootVar(e)
	return v != nil && a.tracked[v] != nil
}

func (a *analysis) isHeader(e ast.Expr) bool {
	e = unparen(e)
	if a.isStmtValue(e) {
		return true
	}
	if id, ok := e.(*ast.Ident); ok {
		if v, ok := a.info.Uses[id].(*types.Var); ok && a.tracked[v] != nil {
			return true
		}
	}
	return a.derived(e)
}

func main() {
	if len(os.Args) < 2 {
		die("usage: clone2coq <repo>")
	}
	repo := os.Args[1]
	names, err := srcset.Files(repo)
	if err != nil {
		die("%v", err)
	}
	sort.Strings(names)
	fset := token.NewFileSet()
	var files []*ast.File
	for _, n := range names {
		if strings.HasSuffix(n, "_test.go") {
			continue
		}
		f, err := parser.ParseFile(fset, n, nil, parser.ParseComments)
		if err != nil {
			die("%v", err)
		}
		files = append(files, f)
	}
	info := &types.Info{
		Types:      map[ast.Expr]types.TypeAndValue{},
		Uses:       map[*ast.Ident]types.Object{},
		Defs:       map[*ast.Ident]types.Object{},
		Selections: map[*ast.SelectorExpr]*types.Selection{},
	}
	conf := types.Config{Importer: importer.ForCompiler(fset, "source", nil)}
	pkg, err := conf.Check("github.com/dave/jennifer/jen", fset, files, info)
	if err != nil {
		die("package jen does not type-check: %v", err)
	}
	obj := pkg.Scope().Lookup("Statement")
	if obj == nil {
		die("type Statement not found")
	}
	stmtType := obj.Type()

	// type Statement []Code
	isCodeSlice := false
	if sl, ok := stmtType.Underlying().(*types.Slice); ok {
		if nm, ok := sl.Elem().(*types.Named); ok && nm.Obj().Name() == "Code" && nm.Obj().Pkg() == pkg {
			isCodeSlice = true
		}
	}

	a := &analysis{
		fset: fset, info: info, pkg: pkg, stmtType: stmtType,
		parent:      map[ast.Node]ast.Node{},
		decls:       map[*types.Func]*ast.FuncDecl{},
		usesOf:      map[*types.Var][]*ast.Ident{},
		tracked:     map[*types.Var]*copyRow{},
		reports:     map[ast.Node][]string{},
		seen:        map[string]bool{},
		ptrStmt:     types.NewPointer(stmtType),
		defInit:     map[*types.Var]ast.Expr{},
		ptrLocals:   map[*types.Var]*ptrLocal{},
		stmtMethods: map[string]bool{},
	}
	for _, t := range []types.Type{stmtType, a.ptrStmt} {
		ms := types.NewMethodSet(t)
		for i := 0; i < ms.Len(); i++ {
			a.stmtMethods[ms.At(i).Obj().Name()] = true
		}
	}
	for _, f := range files {
		var stack []ast.Node
		ast.Inspect(f, func(x ast.Node) bool {
			if x == nil {
				stack = stack[:len(stack)-1]
				return true
			}
			if len(stack) > 0 {
				a.parent[x] = stack[len(stack)-1]
			}
			stack = append(stack, x)
			return true
		})
		for _, d := range f.Decls {
			if fd, ok := d.(*ast.FuncDecl); ok {
				if fn, ok := info.Defs[fd.Name].(*types.Func); ok {
					a.decls[fn] = fd
				}
			}
		}
	}
	for id, o := range info.Uses {
		if v, ok := o.(*types.Var); ok {
			a.usesOf[v] = append(a.usesOf[v], id)
		}
	}
	// the initialiser of every variable declared with its own one (`x := e`, `a, b := e1, e2`,
	// `var x = e`, `var x T = e`)
	for _, f := range files {
		ast.Inspect(f, func(x ast.Node) bool {
			switch d := x.(type) {
			case *ast.AssignStmt:
				if d.Tok == token.DEFINE && len(d.Lhs) == len(d.Rhs) {
					for i, l := range d.Lhs {
						if id, ok := l.(*ast.Ident); ok {
							if v, ok := info.Defs[id].(*types.Var); ok {
								a.defInit[v] = d.Rhs[i]
							}
						}
					}
				}
			case *ast.ValueSpec:
				if len(d.Names) == len(d.Values) {
					for i, id := range d.Names {
						if v, ok := info.Defs[id].(*types.Var); ok {
							a.defInit[v] = d.Values[i]
						}
					}
				}
			}
			return true
		})
	}
	for _, ids := range a.usesOf {
		sort.Slice(ids, func(i, j int) bool { return ids[i].Pos() < ids[j].Pos() })
	}

	// phase 1: every Statement-typed value expression (H1), in source order
	type h1 struct {
		e ast.Expr
		u use
	}
	var h1s []h1
	for _, f := range files {
		ast.Inspect(f, func(x ast.Node) bool {
			e, ok := x.(ast.Expr)
			if !ok {
				return true
			}
			if _, isParen := e.(*ast.ParenExpr); isParen {
				return true
			}
			if tv, ok := info.Types[e]; ok && tv.Type != nil && !types.Identical(tv.Type, stmtType) &&
				a.holdsStatement(tv.Type, false, map[types.Type]bool{}) {
				a.report(e, "", other("expression of type "+tv.Type.String()+", which holds a Statement by value (copying it copies a slice header)"))
			}
			if !a.isStmtValue(e) {
				return true
			}
			if _, ok := e.(*ast.CompositeLit); ok {
				return true // a fresh value
			}
			h1s = append(h1s, h1{e, use{}})
			return true
		})
	}
	for i := range h1s {
		h1s[i].u = a.classify(h1s[i].e)
	}
	// phase 2: every mention of every tracked variable, transitively
	for len(a.queue) > 0 {
		v := a.queue[0]
		a.queue = a.queue[1:]
		r := a.tracked[v]
		for _, id := range a.usesOf[v] {
			u := a.classify(id)
			r.uses = append(r.uses, u)
			a.report(id, fmt.Sprintf("%s (copy of a Statement's slice header declared at %s): ", id.Name, a.posText(v.Pos())), u)
		}
	}
	// `x = x[i:j]` is recognised only once x is tracked: classify the H1 expressions again
	// now that the set of tracked variables is final (tracking is idempotent)
	for i := range h1s {
		h1s[i].u = a.classify(h1s[i].e)
		if !a.ofTracked(h1s[i].e) { // mentions of tracked variables were reported in phase 2
			a.report(h1s[i].e, "", h1s[i].u)
		}
	}
	if len(a.queue) != 0 {
		die("internal: new copies discovered after the fixed point")
	}
	// rows for Statement-valued expressions that are not mentions of a tracked variable and
	// are in any position other than the direct ones (rules 1-3 and 10)
	direct := map[string]bool{"UseRange": true, "UseIndexRead": true, "UseLen": true, "UseCap": true, "UseAppendSelf": true}
	for _, h := range h1s {
		if direct[h.u.coq] || a.ofTracked(h.e) || a.derived(h.e) {
			continue
		}
		a.exprRows = append(a.exprRows, &copyRow{fn: fnKey(a.top(h.e)), name: a.posText(h.e.Pos()) + " " + a.exprText(h.e) + " (expression)", pos: h.e.Pos(), uses: []use{h.u}})
	}

	// rule 11: the receiver and the *Statement parameters of every function keep their value
	for _, f := range files {
		for _, d := range f.Decls {
			fd, ok := d.(*ast.FuncDecl)
			if !ok {
				continue
			}
			var fields []*ast.Field
			if fd.Recv != nil {
				fields = append(fields, fd.Recv.List...)
			}
			if fd.Type.Params != nil {
				fields = append(fields, fd.Type.Params.List...)
			}
			for _, fl := range fields {
				for _, nm := range fl.Names {
					v, _ := info.Defs[nm].(*types.Var)
					if v == nil || !a.stmtLikePtr(v.Type()) {
						continue
					}
					if why := a.mutated(v); why != "" {
						a.report(nm, "", other("the receiver or parameter "+nm.Name+" of type "+v.Type().String()+" is "+why+" (it may then point to another statement's cell)"))
					}
				}
			}
		}
	}
	// rule 12: pointer conversions, unsafe, reflect
	for _, f := range files {
		for _, im := range f.Imports {
			if im.Path.Value == `"unsafe"` {
				a.report(im, "", other("package unsafe imported"))
			}
		}
		ast.Inspect(f, func(x ast.Node) bool {
			call, ok := x.(*ast.CallExpr)
			if !ok {
				return true
			}
			if tv, ok := info.Types[call.Fun]; ok && tv.IsType() {
				if len(call.Args) != 1 {
					return true
				}
				atv := info.Types[call.Args[0]]
				if atv.IsNil() {
					return true
				}
				if a.stmtLikePtr(tv.Type) || a.stmtLikePtr(atv.Type) {
					a.report(call, "", other("pointer conversion "+a.exprText(call)+" from "+atv.Type.String()+" to "+tv.Type.String()+" (a statement's cell reached through a pointer of another type)"))
				}
				return true
			}
			var id *ast.Ident
			switch fun := unparen(call.Fun).(type) {
			case *ast.Ident:
				id = fun
			case *ast.SelectorExpr:
				id = fun.Sel
			}
			if id == nil {
				return true
			}
			o := info.Uses[id]
			if o == nil || o.Pkg() == nil || (o.Pkg().Path() != "reflect" && o.Pkg().Path() != "unsafe") {
				return true
			}
			args := append([]ast.Expr{}, call.Args...)
			if se, ok := unparen(call.Fun).(*ast.SelectorExpr); ok && info.Selections[se] != nil {
				args = append(args, se.X)
			}
			for _, arg := range args {
				if t := info.Types[arg].Type; a.stmtLikePtr(t) || (t != nil && types.Identical(t.Underlying(), stmtType.Underlying())) {
					a.report(call, "", other("a statement passed to package "+o.Pkg().Path()+": "+a.exprText(call)))
				}
			}
			return true
		})
	}
	// rule 13: every mention of a method of Statement
	type callRow struct {
		fn, where, method, kind string
		pos                     token.Pos
	}
	var calls []callRow
	for _, f := range files {
		ast.Inspect(f, func(x ast.Node) bool {
			se, ok := x.(*ast.SelectorExpr)
			if !ok {
				return true
			}
			sel := info.Selections[se]
			if sel == nil {
				return true
			}
			fn, ok := sel.Obj().(*types.Func)
			if !ok {
				return true
			}
			recvT := fn.Type().(*types.Signature).Recv().Type()
			row := callRow{fn: fnKey(a.top(se)), where: a.posText(se.Pos()) + " " + a.exprText(se), method: "Statement." + fn.Name(), pos: se.Pos()}
			if types.IsInterface(recvT) {
				if a.stmtMethods[fn.Name()] {
					row.kind = pkOther("method of an interface (the receiver is chosen at run time)")
					calls = append(calls, row)
				}
				return true
			}
			if pt, ok := recvT.(*types.Pointer); ok {
				recvT = pt.Elem()
			}
			if !types.Identical(recvT, stmtType) {
				return true
			}
			p, child := a.up(se)
			call, isCall := p.(*ast.CallExpr)
			switch {
			case !isCall || call.Fun != child || sel.Kind() != types.MethodVal:
				row.kind = pkOther("method value or method expression (it can be called later, on any statement)")
			case a.underGoDefer(se):
				row.kind = pkOther("called in a go or defer statement")
			default:
				row.kind = a.ptrKind(se.X)
			}
			calls = append(calls, row)
			return true
		})
	}
	// rule 14: what every function with the single result *Statement returns
	type resultRow struct {
		fn    string
		kinds []string
	}
	var results []resultRow
	for _, f := range files {
		for _, d := range f.Decls {
			fd, ok := d.(*ast.FuncDecl)
			if !ok || fd.Body == nil {
				continue
			}
			fn, _ := info.Defs[fd.Name].(*types.Func)
			if fn == nil {
				continue
			}
			res := fn.Type().(*types.Signature).Results()
			if res.Len() != 1 || !types.Identical(res.At(0).Type(), a.ptrStmt) {
				continue
			}
			r := resultRow{fn: fnKey(fd)}
			ast.Inspect(fd.Body, func(x ast.Node) bool {
				switch y := x.(type) {
				case *ast.FuncLit:
					return false
				case *ast.ReturnStmt:
					if len(y.Results) != 1 {
						r.kinds = append(r.kinds, pkOther("return without an expression"))
					} else {
						r.kinds = append(r.kinds, a.ptrKind(y.Results[0]))
					}
				}
				return true
			})
			results = append(results, r)
		}
	}
	sort.SliceStable(results, func(i, j int) bool { return results[i].fn < results[j].fn })
	var locals []*ptrLocal
	for _, l := range a.ptrLocals {
		locals = append(locals, l)
	}
	sort.Slice(locals, func(i, j int) bool {
		pi, pj := fset.Position(locals[i].pos), fset.Position(locals[j].pos)
		if pi.Filename != pj.Filename {
			return pi.Filename < pj.Filename
		}
		return pi.Offset < pj.Offset
	})
	// the methods that contain `*s = append(*s, ..)` on their receiver
	selfApp := map[string]bool{}
	directCount := map[string]int{}
	for _, h := range h1s {
		if h.u.coq == "UseAppendSelf" {
			selfApp[fnKey(a.top(h.e))] = true
		}
		if direct[h.u.coq] && !a.ofTracked(h.e) && !a.derived(h.e) {
			directCount[h.u.coq]++
		}
	}

	cloneWrap, cloneFound, newFresh := false, false, false
	type row struct {
		name string
		ok   bool
		why  []string
	}
	var rows []row
	var others []string
	for _, f := range files {
		for _, d := range f.Decls {
			fd, isFunc := d.(*ast.FuncDecl)
			if isFunc {
				if base, ptr := recvBase(fd); base == "Statement" {
					bad := a.reports[d]
					rows = append(rows, row{fd.Name.Name, len(bad) == 0, bad})
					if fd.Name.Name == "Clone" {
						cloneFound = true
						var recv *types.Var
						if ptr && len(fd.Recv.List[0].Names) == 1 {
							recv, _ = info.Defs[fd.Recv.List[0].Names[0]].(*types.Var)
						}
						cloneWrap = isWrapBody(fd, info, recv)
					}
					continue
				}
				if fd.Recv == nil && fd.Name.Name == "newStatement" {
					newFresh = isFreshBody(fd)
				}
			}
			others = append(others, a.reports[d]...)
		}
	}
	if !cloneFound {
		cloneWrap = false
	}
	sort.SliceStable(rows, func(i, j int) bool { return rows[i].name < rows[j].name })
	sort.Strings(others)

	var crows []*copyRow
	for _, r := range a.tracked {
		crows = append(crows, r)
	}
	crows = append(crows, a.exprRows...)
	sort.Slice(crows, func(i, j int) bool {
		pi, pj := fset.Position(crows[i].pos), fset.Position(crows[j].pos)
		if pi.Filename != pj.Filename {
			return pi.Filename < pj.Filename
		}
		if pi.Offset != pj.Offset {
			return pi.Offset < pj.Offset
		}
		return crows[i].name < crows[j].name
	})

	out := os.Stdout
	fmt.Fprintf(out, "(* GENERATED by tools/cmd/clone2coq from %s - do not edit *)\n", repo)
	fmt.Fprintln(out, "From Jen Require Import Base.Bytes Spec.CloneShape.")
	fmt.Fprintln(out)
	fmt.Fprintf(out, "(* type Statement []Code *)\nDefinition statement_is_code_slice : bool := %s.\n\n", coqfmt.Bool(isCodeSlice))
	fmt.Fprintf(out, "(* func (s *Statement) Clone() *Statement { return &Statement{s} } *)\nDefinition clone_body_is_wrap : bool := %s.\n\n", coqfmt.Bool(cloneWrap))
	fmt.Fprintf(out, "(* func newStatement() *Statement { return &Statement{} } *)\nDefinition new_statement_is_fresh : bool := %s.\n\n", coqfmt.Bool(newFresh))
	var rs []string
	for _, r := range rows {
		s := fmt.Sprintf("(%s, %s)", coqfmt.Str(r.name), coqfmt.Bool(r.ok))
		rs = append(rs, s)
	}
	fmt.Fprintf(out, "(* methods of Statement: the slice header is only read (directly or through read-only\n   copies), or replaced by append to itself *)\nDefinition append_only_methods : list (str * bool) := %s.\n\n", coqfmt.List(rs, "  "))
	var why []string
	for _, r := range rows {
		for _, w := range r.why {
			why = append(why, coqfmt.Str(r.name+": "+w))
		}
	}
	fmt.Fprintf(out, "(* why a row above is false *)\nDefinition append_only_violations : list str := %s.\n\n", coqfmt.List(why, "  "))
	var os_ []string
	for _, o := range others {
		os_ = append(os_, coqfmt.Str(o))
	}
	fmt.Fprintf(out, "(* every other place in package jen that could write through a Statement value or create a\n   second header over its array that is not read-only; expected empty *)\nDefinition other_writes : list str := %s.\n\n", coqfmt.List(os_, "  "))
	var cs []string
	for _, r := range crows {
		var us []string
		for _, u := range r.uses {
			us = append(us, u.coq)
		}
		cs = append(cs, fmt.Sprintf("(%s, %s, [%s])", coqfmt.Str(r.fn), coqfmt.Str(r.name), strings.Join(us, "; ")))
	}
	var dc []string
	for _, k := range []string{"UseRange", "UseIndexRead", "UseLen", "UseCap", "UseAppendSelf"} {
		dc = append(dc, fmt.Sprintf("(%s, %d)", coqfmt.Str(k), directCount[k]))
	}
	fmt.Fprintf(out, "(* evidence for the enumeration: how many Statement-typed value expressions of package jen are in\n   each of the direct positions (they have no row in copies_readonly; every other one has) *)\nDefinition direct_header_uses : list (str * nat) := [%s].\n\n", strings.Join(dc, "; "))
	var sa []string
	for k := range selfApp {
		sa = append(sa, k)
	}
	sort.Strings(sa)
	for i := range sa {
		sa[i] = coqfmt.Str(sa[i])
	}
	fmt.Fprintf(out, "(* the functions whose body contains `*s = append( *s, ..)` on their receiver *)\nDefinition self_appending_methods : list str := %s.\n\n", coqfmt.List(sa, "  "))
	var rr []string
	for _, r := range results {
		rr = append(rr, fmt.Sprintf("(%s, [%s])", coqfmt.Str(r.fn), strings.Join(r.kinds, "; ")))
	}
	fmt.Fprintf(out, "(* every function and method of package jen whose only result is a *Statement: what each of its\n   return statements returns *)\nDefinition ptr_results : list result_row := %s.\n\n", coqfmt.List(rr, "  "))
	var ll []string
	for _, l := range locals {
		ll = append(ll, fmt.Sprintf("(%s, %s, %s)", coqfmt.Str(l.fn), coqfmt.Str(l.key), l.kind))
	}
	fmt.Fprintf(out, "(* the single-assignment local *Statement variables mentioned above and below: function,\n   \"file:line name\", its initialiser *)\nDefinition ptr_locals : list local_row := %s.\n\n", coqfmt.List(ll, "  "))
	var cl []string
	for _, c := range calls {
		cl = append(cl, fmt.Sprintf("(%s, %s, %s, %s)", coqfmt.Str(c.fn), coqfmt.Str(c.where), coqfmt.Str(c.method), c.kind))
	}
	fmt.Fprintf(out, "(* every mention of a method of Statement in package jen: function it is in, where, the method,\n   what the receiver expression denotes *)\nDefinition builder_calls : list call_row := %s.\n\n", coqfmt.List(cl, "  "))
	fmt.Fprintf(out, "(* every copy of a Statement's slice header (local variable or parameter: the category of each of\n   its mentions) and every Statement-valued expression in a position other than range, index\n   read, len, cap, append to itself: function, where, categories *)\nDefinition copies_readonly : list copy_row := %s.\n", coqfmt.List(cs, "  "))
}

// isWrapBody: the body is exactly `return &Statement{s}` with s the receiver.
func isWrapBody(d *ast.FuncDecl, info *types.Info, recv *types.Var) bool {
	if d.Body == nil || len(d.Body.List) != 1 || recv == nil {
		return false
	}
	if d.Type.Params != nil && len(d.Type.Params.List) != 0 {
		return false
	}
	rs, ok := d.Body.List[0].(*ast.ReturnStmt)
	if !ok || len(rs.Results) != 1 {
		return false
	}
	ue, ok := rs.Results[0].(*ast.UnaryExpr)
	if !ok || ue.Op != token.AND {
		return false
	}
	cl, ok := ue.X.(*ast.CompositeLit)
	if !ok || len(cl.Elts) != 1 {
		return false
	}
	if id, ok := cl.Type.(*ast.Ident); !ok || id.Name != "Statement" {
		return false
	}
	el, ok := cl.Elts[0].(*ast.Ident)
	return ok && info.Uses[el] == recv
}

// isFreshBody: the body is exactly `return &Statement{}`.
func isFreshBody(d *ast.FuncDecl) bool {
	if d.Body == nil || len(d.Body.List) != 1 {
		return false
	}
	rs, ok := d.Body.List[0].(*ast.ReturnStmt)
	if !ok || len(rs.Results) != 1 {
		return false
	}
	ue, ok := rs.Results[0].(*ast.UnaryExpr)
	if !ok || ue.Op != token.AND {
		return false
	}
	cl, ok := ue.X.(*ast.CompositeLit)
	if !ok || len(cl.Elts) != 0 {
		return false
	}
	id, ok := cl.Type.(*ast.Ident)
	return ok && id.Name == "Statement"
}
