package main

// Two things the rows of the builder IR do not carry, both read off go/types and judged on the
// Coq side (Spec/ApiSem.v api_wf: gostring_ok, no_shadow):
//
//   - bufString: the one non-builder body shape that is recognised, BufString (the GoString
//     methods); anything that is not literally that shape stays Other text, which the checker
//     does not accept for a GoString.
//   - structInfos: the struct types of the package with their embedded types and field names.

import (
	"fmt"
	"go/ast"
	"go/token"
	"go/types"
	"sort"
)

func isBytesBuffer(ty types.Type) bool {
	n, ok := types.Unalias(ty).(*types.Named)
	return ok && n.Obj().Pkg() != nil && n.Obj().Pkg().Path() == "bytes" && n.Obj().Name() == "Buffer"
}

func unparen(e ast.Expr) ast.Expr {
	for {
		p, ok := e.(*ast.ParenExpr)
		if !ok {
			return e
		}
		e = p.X
	}
}

func hasInline(e *expr) bool {
	if e.op == "inline" {
		return true
	}
	for _, k := range e.kids {
		if hasInline(k) {
			return true
		}
	}
	return false
}

// bufString recognises, and prints as `BufString buf (call)`, a body that is exactly
//
//	buf := bytes.Buffer{}  |  buf := &bytes.Buffer{}  |  buf := new(bytes.Buffer)  |  var buf bytes.Buffer
//	if err := CALL; err != nil { panic(err) }        |  err := CALL; if err != nil { panic(err) }
//	return buf.String()
//
// where buf has type bytes.Buffer resp. *bytes.Buffer of the standard library (go/types), String
// is that type's method, err / nil / panic are what they read as, and CALL is a call of an
// exported method of package jen whose receiver and arguments are in the IR, except that the
// pointer to the buffer (`&buf` resp. `buf`) may be an argument and is printed as EVar buf.
// Which method is called, on what, with which arguments is judged by the Coq checker
// (gostring_delegates); "" if the body has any other shape.
func bufString(outer *translator, fd *ast.FuncDecl) (out string) {
	defer func() {
		if e := recover(); e != nil {
			if _, ok := e.(trErr); !ok {
				panic(e)
			}
			out = ""
		}
	}()
	info, pkg := outer.info, outer.pkg
	if fd.Body == nil || fd.Type.Results == nil {
		return ""
	}
	// a translator that knows the receiver and the parameters, nothing else
	tr := &translator{ctx: outer.ctx, info: info, pkg: pkg, locals: map[string]bool{}, funcs: map[string]bool{}}
	if fd.Recv != nil && len(fd.Recv.List) == 1 && len(fd.Recv.List[0].Names) == 1 && fd.Recv.List[0].Names[0].Name != "_" {
		tr.locals[fd.Recv.List[0].Names[0].Name] = true
	}
	for _, p := range fd.Type.Params.List {
		for _, n := range p.Names {
			if n.Name != "_" {
				tr.locals[n.Name] = true
			}
		}
	}
	list := fd.Body.List
	if len(list) != 3 && len(list) != 4 {
		return ""
	}

	// ---- the buffer
	var bufID *ast.Ident
	isPtr := false
	switch d := list[0].(type) {
	case *ast.AssignStmt:
		if d.Tok != token.DEFINE || len(d.Lhs) != 1 || len(d.Rhs) != 1 {
			return ""
		}
		id, ok := d.Lhs[0].(*ast.Ident)
		if !ok {
			return ""
		}
		bufID = id
		emptyLit := func(e ast.Expr) bool {
			cl, ok := unparen(e).(*ast.CompositeLit)
			return ok && len(cl.Elts) == 0 && isBytesBuffer(info.Types[cl].Type)
		}
		switch x := unparen(d.Rhs[0]).(type) {
		case *ast.CompositeLit:
			if !emptyLit(x) {
				return ""
			}
		case *ast.UnaryExpr:
			if x.Op != token.AND || !emptyLit(x.X) {
				return ""
			}
			isPtr = true
		case *ast.CallExpr:
			fn, ok := x.Fun.(*ast.Ident)
			if !ok || len(x.Args) != 1 || x.Ellipsis.IsValid() {
				return ""
			}
			if b, ok := info.Uses[fn].(*types.Builtin); !ok || b.Name() != "new" {
				return ""
			}
			if !isBytesBuffer(info.Types[x.Args[0]].Type) {
				return ""
			}
			isPtr = true
		default:
			return ""
		}
	case *ast.DeclStmt:
		gd, ok := d.Decl.(*ast.GenDecl)
		if !ok || gd.Tok != token.VAR || len(gd.Specs) != 1 {
			return ""
		}
		vs, ok := gd.Specs[0].(*ast.ValueSpec)
		if !ok || len(vs.Names) != 1 || len(vs.Values) != 0 || vs.Type == nil {
			return ""
		}
		bufID = vs.Names[0]
	default:
		return ""
	}
	bufObj, ok := info.Defs[bufID].(*types.Var)
	if !ok || bufID.Name == "_" || tr.locals[bufID.Name] {
		return ""
	}
	bt := bufObj.Type()
	if isPtr {
		p, ok := types.Unalias(bt).(*types.Pointer)
		if !ok {
			return ""
		}
		bt = p.Elem()
	}
	if !isBytesBuffer(bt) {
		return ""
	}
	isBuf := func(e ast.Expr) bool {
		id, ok := unparen(e).(*ast.Ident)
		return ok && info.Uses[id] == bufObj
	}
	isBufPtr := func(e ast.Expr) bool {
		if isPtr {
			return isBuf(e)
		}
		u, ok := unparen(e).(*ast.UnaryExpr)
		return ok && u.Op == token.AND && isBuf(u.X)
	}

	// ---- err := CALL; if err != nil { panic(err) }
	var errDef *ast.AssignStmt
	var ifs *ast.IfStmt
	if len(list) == 3 {
		ifs, ok = list[1].(*ast.IfStmt)
		if !ok || ifs.Init == nil {
			return ""
		}
		errDef, ok = ifs.Init.(*ast.AssignStmt)
		if !ok {
			return ""
		}
	} else {
		errDef, ok = list[1].(*ast.AssignStmt)
		if !ok {
			return ""
		}
		ifs, ok = list[2].(*ast.IfStmt)
		if !ok || ifs.Init != nil {
			return ""
		}
	}
	if errDef.Tok != token.DEFINE || len(errDef.Lhs) != 1 || len(errDef.Rhs) != 1 || ifs.Else != nil {
		return ""
	}
	errID, ok := errDef.Lhs[0].(*ast.Ident)
	if !ok || errID.Name == "_" {
		return ""
	}
	errObj, ok := info.Defs[errID].(*types.Var)
	if !ok {
		return ""
	}
	isErr := func(e ast.Expr) bool {
		id, ok := unparen(e).(*ast.Ident)
		return ok && info.Uses[id] == errObj
	}
	cond, ok := unparen(ifs.Cond).(*ast.BinaryExpr)
	if !ok || cond.Op != token.NEQ || !isErr(cond.X) {
		return ""
	}
	if id, ok := unparen(cond.Y).(*ast.Ident); !ok {
		return ""
	} else if _, ok := info.Uses[id].(*types.Nil); !ok {
		return ""
	}
	if len(ifs.Body.List) != 1 {
		return ""
	}
	es, ok := ifs.Body.List[0].(*ast.ExprStmt)
	if !ok {
		return ""
	}
	pc, ok := es.X.(*ast.CallExpr)
	if !ok || len(pc.Args) != 1 || pc.Ellipsis.IsValid() || !isErr(pc.Args[0]) {
		return ""
	}
	if id, ok := pc.Fun.(*ast.Ident); !ok {
		return ""
	} else if b, ok := info.Uses[id].(*types.Builtin); !ok || b.Name() != "panic" {
		return ""
	}

	// ---- return buf.String()
	ret, ok := list[len(list)-1].(*ast.ReturnStmt)
	if !ok || len(ret.Results) != 1 {
		return ""
	}
	sc, ok := unparen(ret.Results[0]).(*ast.CallExpr)
	if !ok || len(sc.Args) != 0 {
		return ""
	}
	ssel, ok := sc.Fun.(*ast.SelectorExpr)
	if !ok || ssel.Sel.Name != "String" || !isBuf(ssel.X) {
		return ""
	}
	if sel := info.Selections[ssel]; sel == nil || sel.Kind() != types.MethodVal || sel.Obj().Pkg() == nil || sel.Obj().Pkg().Path() != "bytes" {
		return ""
	}

	// ---- CALL
	call, ok := unparen(errDef.Rhs[0]).(*ast.CallExpr)
	if !ok || call.Ellipsis.IsValid() {
		return ""
	}
	fsel, ok := call.Fun.(*ast.SelectorExpr)
	if !ok {
		return ""
	}
	sel := info.Selections[fsel]
	if sel == nil || sel.Kind() != types.MethodVal || !ast.IsExported(fsel.Sel.Name) || sel.Obj().Pkg() != pkg {
		return ""
	}
	e := &expr{op: "ECallMeth", s: fsel.Sel.Name, kids: []*expr{tr.expr(fsel.X)}}
	for _, a := range call.Args {
		if isBufPtr(a) {
			e.kids = append(e.kids, evar(bufID.Name))
		} else {
			e.kids = append(e.kids, tr.expr(a))
		}
	}
	if hasInline(e) {
		return ""
	}
	return fmt.Sprintf("BufString %s (%s)", cstr(bufID.Name), printExpr(e))
}

// structInfos: one `mkstruct name embeds fields` per defined (non-alias) type of the package
// whose underlying type is a struct - declared at package level or inside a function (then
// called name@file:line).  embeds: for every embedded field the name of its type with aliases
// and one pointer resolved - the entry's own name if it is a type of package jen, the
// qualified name (bytes.Buffer) otherwise; fields: the names of the other fields.
func structInfos(pkg *types.Package, info *types.Info) []string {
	scope := pkg.Scope()
	names := map[*types.TypeName]string{}
	var tns []*types.TypeName
	for _, n := range scope.Names() {
		if tn, ok := scope.Lookup(n).(*types.TypeName); ok && !tn.IsAlias() {
			names[tn] = n
			tns = append(tns, tn)
		}
	}
	var locals []*types.TypeName
	for id, obj := range info.Defs {
		if tn, ok := obj.(*types.TypeName); ok && !tn.IsAlias() && tn.Parent() != scope {
			if _, isParam := tn.Type().(*types.TypeParam); isParam {
				continue
			}
			names[tn] = id.Name + "@" + pos(id)
			locals = append(locals, tn)
		}
	}
	sort.Slice(locals, func(i, j int) bool { return names[locals[i]] < names[locals[j]] })
	tns = append(tns, locals...)
	qual := func(p *types.Package) string {
		if p == pkg {
			return ""
		}
		return p.Name()
	}
	var out []string
	for _, tn := range tns {
		st, ok := tn.Type().Underlying().(*types.Struct)
		if !ok {
			continue
		}
		var embeds, fields []string
		for i := 0; i < st.NumFields(); i++ {
			f := st.Field(i)
			if !f.Embedded() {
				fields = append(fields, cstr(f.Name()))
				continue
			}
			if n := namedOf(f.Type()); n != nil {
				if nm, ok := names[n.Origin().Obj()]; ok {
					embeds = append(embeds, cstr(nm))
					continue
				}
			}
			ty := types.Unalias(f.Type())
			if p, ok := ty.(*types.Pointer); ok {
				ty = types.Unalias(p.Elem())
			}
			embeds = append(embeds, cstr(types.TypeString(ty, qual)))
		}
		out = append(out, fmt.Sprintf("mkstruct %s %s %s", cstr(names[tn]), clist(embeds), clist(fields)))
	}
	return out
}
