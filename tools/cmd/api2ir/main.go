// api2ir reads package jen of jennifer's CURRENT working tree (go/parser + go/types, offline)
// and prints coq/Gen/Api.v: one row per exported function and method with its receiver, name,
// parameter shapes, result type and its body translated into the builder IR of
// coq/Spec/ApiShape.v; plus the two lists that must stay empty for callbacks to be unable to
// survive the constructing call: func_fields (struct fields that can hold a function) and
// go_stmts (go / defer statements, function literals that escape, package variables that can
// hold a function).
//
//	api2ir <repo>             print Gen/Api.v
//	api2ir -registry <repo>   print a Go file mapping every exported package function of jen
//	                          that returns *Statement to its value (harness/props/c14_registry.go)
//
// The translation is purely structural: anything that is not literally one of the IR's
// statement / expression forms makes the whole body Untranslatable (if the function returns
// *Statement or takes a function-typed parameter) or Other (printed text) otherwise.  Which
// of the two it is gets re-decided by the Coq checker from the row's result and parameter
// types, so the translator is not trusted with that choice.
package main

import (
	"bytes"
	"fmt"
	"go/ast"
	"go/build"
	"go/build/constraint"
	"go/format"
	"go/importer"
	"go/parser"
	"go/printer"
	"go/token"
	"go/types"
	"os"
	"path/filepath"
	"runtime"
	"sort"
	"strconv"
	"strings"
)

func die(format string, a ...interface{}) {
	fmt.Fprintf(os.Stderr, "api2ir: "+format+"\n", a...)
	os.Exit(2)
}

// cstr prints a Go string as a Coq term of type str: (S "...") for printable ASCII (a double
// quote is doubled, as Coq's string syntax wants), a byte list otherwise.
func cstr(s string) string {
	plain := true
	for i := 0; i < len(s); i++ {
		if s[i] < 0x20 || s[i] > 0x7e {
			plain = false
			break
		}
	}
	if plain {
		return `(S "` + strings.ReplaceAll(s, `"`, `""`) + `")`
	}
	var b strings.Builder
	b.WriteString("[")
	for i := 0; i < len(s); i++ {
		if i > 0 {
			b.WriteString("; ")
		}
		fmt.Fprintf(&b, "x%02x", s[i])
	}
	b.WriteString("]")
	return b.String()
}

func clist(elems []string) string { return "[" + strings.Join(elems, "; ") + "]" }

var fset = token.NewFileSet()

// buildTagOK: does the file take part in an ordinary build (no custom tags such as verif)?
func buildTagOK(f *ast.File) bool {
	for _, cg := range f.Comments {
		if cg.Pos() >= f.Package {
			break
		}
		for _, c := range cg.List {
			if !constraint.IsGoBuild(c.Text) && !constraint.IsPlusBuild(c.Text) {
				continue
			}
			x, err := constraint.Parse(c.Text)
			if err != nil {
				continue
			}
			ok := x.Eval(func(tag string) bool {
				if tag == runtime.GOOS || tag == runtime.GOARCH || tag == "gc" || tag == "unix" {
					return true
				}
				return strings.HasPrefix(tag, "go1.")
			})
			if !ok {
				return false
			}
		}
	}
	return true
}

func pos(n ast.Node) string {
	p := fset.Position(n.Pos())
	return fmt.Sprintf("%s:%d", filepath.Base(p.Filename), p.Line)
}

func printNode(n interface{}) string {
	var b bytes.Buffer
	printer.Fprint(&b, fset, n)
	return strings.Join(strings.Fields(b.String()), " ")
}

// ---------------------------------------------------------------- translation

type trErr struct{ msg string }

type translator struct {
	info   *types.Info
	pkg    *types.Package
	locals map[string]bool // receiver, parameters, := locals of the function being translated
	funcs  map[string]bool // names that are func-typed parameters
}

func (t *translator) fail(n ast.Node, format string, a ...interface{}) {
	panic(trErr{fmt.Sprintf(format, a...) + " at " + pos(n)})
}

func isFuncType(ty types.Type) bool {
	if ty == nil {
		return false
	}
	_, ok := ty.Underlying().(*types.Signature)
	return ok
}

// containsFunc: can a value of this type hold a function (directly, or in an element)?
// Interface types are not followed (token.content is an interface{}: it holds whatever the
// user gave to Lit and is never called; the renderer's type switch panics on a func).
func containsFunc(ty types.Type, seen map[types.Type]bool) bool {
	if ty == nil || seen[ty] {
		return false
	}
	seen[ty] = true
	switch u := ty.Underlying().(type) {
	case *types.Signature:
		return true
	case *types.Pointer:
		return containsFunc(u.Elem(), seen)
	case *types.Slice:
		return containsFunc(u.Elem(), seen)
	case *types.Array:
		return containsFunc(u.Elem(), seen)
	case *types.Chan:
		return containsFunc(u.Elem(), seen)
	case *types.Map:
		return containsFunc(u.Key(), seen) || containsFunc(u.Elem(), seen)
	case *types.Struct:
		// fields of struct types are reported where the struct is declared; an anonymous
		// struct used as a field type is followed here
		for i := 0; i < u.NumFields(); i++ {
			if containsFunc(u.Field(i).Type(), seen) {
				return true
			}
		}
	}
	return false
}

func (t *translator) args(call *ast.CallExpr) string {
	var out []string
	for i, a := range call.Args {
		if call.Ellipsis.IsValid() && i == len(call.Args)-1 {
			id, ok := a.(*ast.Ident)
			if !ok || !t.locals[id.Name] {
				t.fail(a, "spread of a non-variable")
			}
			out = append(out, "ESpread "+cstr(id.Name))
			continue
		}
		out = append(out, t.expr(a))
	}
	return clist(out)
}

func (t *translator) keyed(cl *ast.CompositeLit, allowed []string) map[string]ast.Expr {
	out := map[string]ast.Expr{}
	for _, el := range cl.Elts {
		kv, ok := el.(*ast.KeyValueExpr)
		if !ok {
			t.fail(el, "positional element in a struct literal")
		}
		k, ok := kv.Key.(*ast.Ident)
		if !ok {
			t.fail(el, "non-identifier key")
		}
		found := false
		for _, a := range allowed {
			if a == k.Name {
				found = true
			}
		}
		if !found {
			t.fail(el, "unknown field %s", k.Name)
		}
		out[k.Name] = kv.Value
	}
	return out
}

func (t *translator) field(m map[string]ast.Expr, k, zero string) string {
	if e, ok := m[k]; ok {
		return "(" + t.expr(e) + ")"
	}
	return zero
}

func (t *translator) composite(cl *ast.CompositeLit, addr bool) string {
	switch ty := cl.Type.(type) {
	case *ast.Ident:
		switch {
		case ty.Name == "Group" && addr:
			m := t.keyed(cl, []string{"name", "open", "close", "separator", "multi", "items"})
			return fmt.Sprintf("EGroupLit %s %s %s %s %s %s",
				t.field(m, "name", "(EStr [])"), t.field(m, "open", "(EStr [])"), t.field(m, "close", "(EStr [])"),
				t.field(m, "separator", "(EStr [])"), t.field(m, "multi", "(EBool false)"), t.field(m, "items", "ENil"))
		case ty.Name == "token" && !addr:
			m := t.keyed(cl, []string{"typ", "content"})
			return fmt.Sprintf("EToken %s %s", t.field(m, "typ", "(EStr [])"), t.field(m, "content", "ENil"))
		case ty.Name == "comment" && !addr:
			m := t.keyed(cl, []string{"comment"})
			return "EComment " + t.field(m, "comment", "(EStr [])")
		case ty.Name == "tag" && !addr:
			m := t.keyed(cl, []string{"items"})
			return "ETag " + t.field(m, "items", "ENil")
		case ty.Name == "Dict" && !addr:
			if len(cl.Elts) != 0 {
				t.fail(cl, "non-empty Dict literal")
			}
			return "EDictLit"
		case ty.Name == "Statement" && addr:
			var es []string
			for _, e := range cl.Elts {
				if _, ok := e.(*ast.KeyValueExpr); ok {
					t.fail(e, "keyed element in a Statement literal")
				}
				es = append(es, t.expr(e))
			}
			return "EStmtLit " + clist(es)
		}
	case *ast.ArrayType:
		if id, ok := ty.Elt.(*ast.Ident); ok && id.Name == "Code" && ty.Len == nil && !addr {
			var es []string
			for _, e := range cl.Elts {
				if _, ok := e.(*ast.KeyValueExpr); ok {
					t.fail(e, "keyed element in a []Code literal")
				}
				es = append(es, t.expr(e))
			}
			return "ECodeList " + clist(es)
		}
	}
	t.fail(cl, "composite literal %s outside the IR", printNode(cl.Type))
	return ""
}

func (t *translator) expr(e ast.Expr) string {
	switch x := e.(type) {
	case *ast.ParenExpr:
		return t.expr(x.X)
	case *ast.Ident:
		switch obj := t.info.Uses[x].(type) {
		case *types.Nil:
			return "ENil"
		case *types.Const:
			if obj.Parent() == types.Universe && (x.Name == "true" || x.Name == "false") {
				return "EBool " + x.Name
			}
			if obj.Pkg() == t.pkg && obj.Parent() == t.pkg.Scope() {
				return "EConst " + cstr(x.Name)
			}
		case *types.Var:
			if t.locals[x.Name] && !obj.IsField() && obj.Parent() != t.pkg.Scope() {
				return "EVar " + cstr(x.Name)
			}
		}
		t.fail(x, "identifier %s is not a local, nil, bool or package constant", x.Name)
	case *ast.BasicLit:
		if x.Kind == token.STRING {
			s, err := strconv.Unquote(x.Value)
			if err == nil {
				return "EStr " + cstr(s)
			}
		}
		t.fail(x, "literal %s outside the IR", x.Value)
	case *ast.SelectorExpr:
		if id, ok := x.X.(*ast.Ident); ok && t.locals[id.Name] {
			if sel := t.info.Selections[x]; sel != nil && sel.Kind() == types.FieldVal {
				return "ESel " + cstr(id.Name) + " " + cstr(x.Sel.Name)
			}
		}
		t.fail(x, "selector %s outside the IR", printNode(x))
	case *ast.UnaryExpr:
		if x.Op == token.AND {
			if cl, ok := x.X.(*ast.CompositeLit); ok {
				return t.composite(cl, true)
			}
		}
		t.fail(x, "unary expression outside the IR")
	case *ast.CompositeLit:
		return t.composite(x, false)
	case *ast.CallExpr:
		switch fn := x.Fun.(type) {
		case *ast.Ident:
			switch obj := t.info.Uses[fn].(type) {
			case *types.Func:
				if obj.Pkg() == t.pkg && fn.Name == "newStatement" && len(x.Args) == 0 {
					return "ENewStatement"
				}
				if obj.Pkg() == t.pkg && ast.IsExported(fn.Name) {
					return "ECallFn " + cstr(fn.Name) + " " + t.args(x)
				}
				t.fail(x, "call of unexported function %s", fn.Name)
			case *types.Var:
				if t.funcs[fn.Name] && t.locals[fn.Name] {
					return "ECallParam " + cstr(fn.Name) + " " + t.args(x)
				}
				t.fail(x, "call of a function value that is not a parameter")
			}
			t.fail(x, "call of %s outside the IR", fn.Name)
		case *ast.SelectorExpr:
			if sel := t.info.Selections[fn]; sel != nil {
				if sel.Kind() == types.MethodVal && ast.IsExported(fn.Sel.Name) && sel.Obj().Pkg() == t.pkg {
					return "ECallMeth (" + t.expr(fn.X) + ") " + cstr(fn.Sel.Name) + " " + t.args(x)
				}
				t.fail(x, "call through selector %s outside the IR", printNode(fn))
			}
			// qualified identifier pkg.F
			if obj, ok := t.info.Uses[fn.Sel].(*types.Func); ok && obj.Pkg() != nil && obj.Pkg().Path() == "fmt" && fn.Sel.Name == "Sprintf" {
				return "EPure " + cstr("fmt.Sprintf") + " " + t.args(x)
			}
			t.fail(x, "call of %s outside the IR", printNode(fn))
		}
		t.fail(x, "call outside the IR")
	}
	t.fail(e, "expression %T outside the IR", e)
	return ""
}

func starOf(e ast.Expr) (string, bool) {
	st, ok := e.(*ast.StarExpr)
	if !ok {
		return "", false
	}
	id, ok := st.X.(*ast.Ident)
	if !ok {
		return "", false
	}
	return id.Name, true
}

func (t *translator) stmt(s ast.Stmt) string {
	switch x := s.(type) {
	case *ast.AssignStmt:
		if len(x.Lhs) != 1 || len(x.Rhs) != 1 {
			t.fail(x, "multiple assignment")
		}
		if x.Tok == token.DEFINE {
			id, ok := x.Lhs[0].(*ast.Ident)
			if !ok || id.Name == "_" {
				t.fail(x, "definition of a non-identifier")
			}
			if t.locals[id.Name] {
				t.fail(x, "redefinition of %s", id.Name)
			}
			e := t.expr(x.Rhs[0])
			t.locals[id.Name] = true
			return "SDefine " + cstr(id.Name) + " (" + e + ")"
		}
		if x.Tok != token.ASSIGN {
			t.fail(x, "assignment operator %s", x.Tok)
		}
		call, ok := x.Rhs[0].(*ast.CallExpr)
		if !ok {
			t.fail(x, "assignment of a non-append")
		}
		fn, ok := call.Fun.(*ast.Ident)
		if !ok || fn.Name != "append" || len(call.Args) < 1 {
			t.fail(x, "assignment of a non-append")
		}
		if _, ok := t.info.Uses[fn].(*types.Builtin); !ok {
			t.fail(x, "append is not the builtin")
		}
		rest := &ast.CallExpr{Fun: call.Fun, Args: call.Args[1:], Ellipsis: call.Ellipsis}
		// *s = append(*s, args...)
		if l, ok := starOf(x.Lhs[0]); ok {
			r, ok := starOf(call.Args[0])
			if !ok || r != l || !t.locals[l] {
				t.fail(x, "append to a different slice")
			}
			return "SAppendSelf " + cstr(l) + " " + t.args(rest)
		}
		// g.items = append(g.items, e)
		if l, ok := x.Lhs[0].(*ast.SelectorExpr); ok {
			r, ok2 := call.Args[0].(*ast.SelectorExpr)
			li, ok3 := l.X.(*ast.Ident)
			if !ok2 || !ok3 {
				t.fail(x, "append to a field of a non-variable")
			}
			ri, ok4 := r.X.(*ast.Ident)
			if !ok4 || ri.Name != li.Name || l.Sel.Name != "items" || r.Sel.Name != "items" || !t.locals[li.Name] {
				t.fail(x, "append to a field other than items")
			}
			if len(call.Args) != 2 || call.Ellipsis.IsValid() {
				t.fail(x, "append of other than one item")
			}
			return "SAppendItems " + cstr(li.Name) + " (" + t.expr(call.Args[1]) + ")"
		}
		t.fail(x, "assignment outside the IR")
	case *ast.ExprStmt:
		call, ok := x.X.(*ast.CallExpr)
		if !ok {
			t.fail(x, "expression statement")
		}
		fn, ok := call.Fun.(*ast.Ident)
		if !ok || !t.funcs[fn.Name] || !t.locals[fn.Name] {
			t.fail(x, "statement call of other than a function parameter")
		}
		if _, ok := t.info.Uses[fn].(*types.Var); !ok {
			t.fail(x, "statement call of other than a function parameter")
		}
		return "SCallParam " + cstr(fn.Name) + " " + t.args(call)
	case *ast.ReturnStmt:
		if len(x.Results) != 1 {
			t.fail(x, "return of other than one value")
		}
		return "SReturn (" + t.expr(x.Results[0]) + ")"
	}
	t.fail(s, "statement %T outside the IR", s)
	return ""
}

type row struct {
	recv, self, name, ret string
	params                []string
	body                  string
	class                 string // for the statistics comment
	fn                    *ast.FuncDecl
}

func recvBase(fd *ast.FuncDecl) (base, self string) {
	if fd.Recv == nil || len(fd.Recv.List) == 0 {
		return "", ""
	}
	f := fd.Recv.List[0]
	ty := f.Type
	if st, ok := ty.(*ast.StarExpr); ok {
		ty = st.X
	}
	if ix, ok := ty.(*ast.IndexExpr); ok {
		ty = ix.X
	}
	id, ok := ty.(*ast.Ident)
	if !ok {
		return "?", ""
	}
	if len(f.Names) == 1 {
		self = f.Names[0].Name
	} else {
		self = "_"
	}
	return id.Name, self
}

// matchFile: is this file part of the package as the go tool builds it here (GOOS, GOARCH,
// release tags, file name suffixes, //go:build and +build lines; no extra tags, so files
// guarded by the `verif` tag are left out)?  go/build decides, the same way `go build` does.
func matchFile(path string) bool {
	ok, err := build.Default.MatchFile(filepath.Dir(path), filepath.Base(path))
	if err != nil {
		die("%s: %v", path, err)
	}
	return ok
}

func main() {
	args := os.Args[1:]
	registry := false
	if len(args) > 0 && args[0] == "-registry" {
		registry = true
		args = args[1:]
	}
	if len(args) != 1 {
		die("usage: api2ir [-registry] <repo>")
	}
	repo := args[0]
	names, err := filepath.Glob(filepath.Join(repo, "jen", "*.go"))
	if err != nil || len(names) == 0 {
		die("no Go files in %s/jen", repo)
	}
	sort.Strings(names)
	var files []*ast.File
	for _, n := range names {
		if strings.HasSuffix(n, "_test.go") {
			continue
		}
		f, err := parser.ParseFile(fset, n, nil, parser.ParseComments)
		if err != nil {
			die("%v", err)
		}
		if f.Name.Name != "jen" || !matchFile(n) {
			continue
		}
		files = append(files, f)
	}
	info := &types.Info{
		Defs:       map[*ast.Ident]types.Object{},
		Uses:       map[*ast.Ident]types.Object{},
		Selections: map[*ast.SelectorExpr]*types.Selection{},
		Types:      map[ast.Expr]types.TypeAndValue{},
	}
	conf := types.Config{Importer: importer.ForCompiler(fset, "source", nil)}
	pkg, err := conf.Check("github.com/dave/jennifer/jen", fset, files, info)
	if err != nil {
		die("package jen does not type-check: %v", err)
	}
	qual := func(p *types.Package) string {
		if p == pkg {
			return ""
		}
		return p.Name()
	}

	// ---- rows
	var rows []row
	for _, f := range files {
		for _, d := range f.Decls {
			fd, ok := d.(*ast.FuncDecl)
			if !ok || !ast.IsExported(fd.Name.Name) {
				continue
			}
			base, self := recvBase(fd)
			if base != "" && !ast.IsExported(base) {
				continue
			}
			r := row{recv: base, self: self, name: fd.Name.Name, fn: fd}
			tr := &translator{info: info, pkg: pkg, locals: map[string]bool{}, funcs: map[string]bool{}}
			if self != "" && self != "_" {
				tr.locals[self] = true
			}
			hasFunc := false
			for _, p := range fd.Type.Params.List {
				ty := info.Types[p.Type].Type
				kind := "PPlain"
				if _, ok := p.Type.(*ast.Ellipsis); ok {
					kind = "PVariadic"
				} else if isFuncType(ty) {
					kind = "PFunc"
					hasFunc = true
				} else if containsFunc(ty, map[types.Type]bool{}) {
					// a slice / map / struct of functions: treated as a callback carrier
					kind = "PFunc"
					hasFunc = true
				}
				if e, ok := p.Type.(*ast.Ellipsis); ok && containsFunc(info.Types[e.Elt].Type, map[types.Type]bool{}) {
					kind = "PFunc"
					hasFunc = true
				}
				pn := p.Names
				if len(pn) == 0 {
					pn = []*ast.Ident{{Name: "_"}}
				}
				for _, n := range pn {
					if n.Name != "_" {
						tr.locals[n.Name] = true
						if kind == "PFunc" && isFuncType(ty) {
							tr.funcs[n.Name] = true
						}
					}
					r.params = append(r.params, fmt.Sprintf("mkparam %s %s %s", cstr(n.Name), cstr(printNode(p.Type)), kind))
				}
			}
			if fd.Type.Results != nil {
				var rs []string
				for _, p := range fd.Type.Results.List {
					n := len(p.Names)
					if n == 0 {
						n = 1
					}
					for i := 0; i < n; i++ {
						rs = append(rs, printNode(p.Type))
					}
				}
				r.ret = strings.Join(rs, ", ")
			}
			if fd.Body == nil {
				r.body = "Untranslatable " + cstr("no body")
				r.class = "untranslatable"
				rows = append(rows, r)
				continue
			}
			func() {
				defer func() {
					if e := recover(); e != nil {
						te, ok := e.(trErr)
						if !ok {
							panic(e)
						}
						if r.ret == "*Statement" || hasFunc {
							r.body = "Untranslatable " + cstr(te.msg)
							r.class = "untranslatable"
						} else {
							r.body = "Other " + cstr(printNode(fd.Body))
							r.class = "other"
						}
					}
				}()
				var ss []string
				for i, s := range fd.Body.List {
					if _, ok := s.(*ast.ReturnStmt); ok && i != len(fd.Body.List)-1 {
						tr.fail(s, "return before the end of the body")
					}
					ss = append(ss, tr.stmt(s))
				}
				r.body = "Body " + clist(ss)
				r.class = classify(fd, ss)
			}()
			rows = append(rows, r)
		}
	}

	if registry {
		printRegistry(rows)
		return
	}

	// ---- func_fields: struct fields (of any type declared in the package) that can hold a function
	var funcFields []string
	scope := pkg.Scope()
	for _, n := range scope.Names() {
		tn, ok := scope.Lookup(n).(*types.TypeName)
		if !ok {
			continue
		}
		if st, ok := tn.Type().Underlying().(*types.Struct); ok {
			for i := 0; i < st.NumFields(); i++ {
				f := st.Field(i)
				if containsFunc(f.Type(), map[types.Type]bool{}) {
					funcFields = append(funcFields, fmt.Sprintf("(%s, %s)", cstr(n+"."+f.Name()), cstr(types.TypeString(f.Type(), qual))))
				}
			}
		} else if containsFunc(tn.Type(), map[types.Type]bool{}) && implementsCode(pkg, tn.Type()) {
			// a non-struct Code implementation that is itself a function / holds functions
			funcFields = append(funcFields, fmt.Sprintf("(%s, %s)", cstr(n), cstr(types.TypeString(tn.Type().Underlying(), qual))))
		}
	}
	// struct types declared inside function bodies
	for id, obj := range info.Defs {
		tn, ok := obj.(*types.TypeName)
		if !ok || tn.Parent() == scope {
			continue
		}
		if st, ok := tn.Type().Underlying().(*types.Struct); ok {
			for i := 0; i < st.NumFields(); i++ {
				f := st.Field(i)
				if containsFunc(f.Type(), map[types.Type]bool{}) {
					funcFields = append(funcFields, fmt.Sprintf("(%s, %s)", cstr(id.Name+"."+f.Name()+"@"+pos(id)), cstr(types.TypeString(f.Type(), qual))))
				}
			}
		}
	}
	sort.Strings(funcFields)

	// ---- go_stmts
	var goStmts []string
	add := func(kind string, n ast.Node) {
		goStmts = append(goStmts, fmt.Sprintf("(%s, %s)", cstr(kind), cstr(pos(n))))
	}
	for _, n := range scope.Names() {
		if v, ok := scope.Lookup(n).(*types.Var); ok && containsFunc(v.Type(), map[types.Type]bool{}) {
			goStmts = append(goStmts, fmt.Sprintf("(%s, %s)", cstr("package variable that can hold a function: "+n), cstr(filepath.Base(fset.Position(v.Pos()).Filename))))
		}
	}
	for _, f := range files {
		var stack []ast.Node
		ast.Inspect(f, func(n ast.Node) bool {
			if n == nil {
				stack = stack[:len(stack)-1]
				return true
			}
			switch x := n.(type) {
			case *ast.GoStmt:
				add("go", x)
			case *ast.DeferStmt:
				add("defer", x)
			case *ast.FuncLit:
				if how := escapes(stack, x, info); how != "" {
					add("function literal "+how, x)
				}
			}
			stack = append(stack, n)
			return true
		})
	}

	// ---- output
	out := os.Stdout
	fmt.Fprintf(out, "(* GENERATED by tools/cmd/api2ir from %s - do not edit *)\n", repo)
	fmt.Fprintln(out, "From Jen Require Import Spec.ApiShape.")
	fmt.Fprintln(out)
	counts := map[string]int{}
	for _, r := range rows {
		counts[r.class]++
	}
	var ks []string
	for k := range counts {
		ks = append(ks, k)
	}
	sort.Strings(ks)
	fmt.Fprintf(out, "(* %d rows;", len(rows))
	for _, k := range ks {
		fmt.Fprintf(out, " %s: %d;", k, counts[k])
	}
	fmt.Fprintln(out, " *)")
	var es []string
	for _, r := range rows {
		es = append(es, fmt.Sprintf("mkrow %s %s %s %s %s\n    (%s)", cstr(r.recv), cstr(r.self), cstr(r.name), clist(r.params), cstr(r.ret), r.body))
	}
	fmt.Fprintf(out, "Definition api_table : list api_row := [\n  %s\n].\n\n", strings.Join(es, ";\n  "))
	fmt.Fprintf(out, "(* struct fields (and Code implementations) that can hold a function: must be empty *)\nDefinition func_fields : list (str * str) := %s.\n\n", clist(funcFields))
	fmt.Fprintf(out, "(* go / defer statements, escaping function literals, package variables that can hold a\n   function, in the non-test code: must be empty *)\nDefinition go_stmts : list (str * str) := %s.\n", clist(goStmts))
}

func implementsCode(pkg *types.Package, ty types.Type) bool {
	obj, ok := pkg.Scope().Lookup("Code").(*types.TypeName)
	if !ok {
		return false
	}
	it, ok := obj.Type().Underlying().(*types.Interface)
	if !ok {
		return false
	}
	return types.Implements(ty, it) || types.Implements(types.NewPointer(ty), it)
}

// escapes says how a function literal outlives the expression it is written in ("" if it
// does not): it is harmless only when called on the spot or handed directly to a function of
// another package (sort.SliceStable's comparison); a literal passed to a function of package
// jen, to append, stored, returned or sent is reported.
func escapes(stack []ast.Node, lit *ast.FuncLit, info *types.Info) string {
	if len(stack) == 0 {
		return "at top level"
	}
	var e ast.Node = lit
	i := len(stack) - 1
	for i >= 0 {
		if p, ok := stack[i].(*ast.ParenExpr); ok {
			e = p
			i--
			continue
		}
		break
	}
	if i < 0 {
		return "at top level"
	}
	switch p := stack[i].(type) {
	case *ast.CallExpr:
		if p.Fun == e {
			return "" // called on the spot
		}
		if sel, ok := p.Fun.(*ast.SelectorExpr); ok {
			if id, ok := sel.X.(*ast.Ident); ok {
				if _, ok := info.Uses[id].(*types.PkgName); ok {
					return "" // argument of a function of another package
				}
			}
		}
		return "passed to " + printNode(p.Fun)
	case *ast.AssignStmt:
		return "assigned"
	case *ast.ValueSpec:
		return "stored in a variable"
	case *ast.KeyValueExpr, *ast.CompositeLit:
		return "stored in a composite literal"
	case *ast.ReturnStmt:
		return "returned"
	case *ast.SendStmt:
		return "sent on a channel"
	}
	return fmt.Sprintf("used in a %T", stack[i])
}

// classify names the body shape for the statistics comment (the Coq checker does its own
// classification; this one is only printed).
func classify(fd *ast.FuncDecl, ss []string) string {
	j := strings.Join(ss, " ; ")
	switch {
	case len(ss) == 1 && strings.HasPrefix(ss[0], "SReturn (ECallMeth (ENewStatement)"):
		return "function-form"
	case len(ss) == 3 && strings.HasPrefix(ss[0], "SDefine") && strings.Contains(ss[0], "(ECallFn ") && strings.HasPrefix(ss[1], "SAppendItems"):
		return "group-form"
	case strings.Contains(j, "EGroupLit") && strings.Contains(j, "SCallParam"):
		return "build-group-func"
	case strings.Contains(j, "EGroupLit"):
		return "build-group"
	case strings.Contains(j, "EToken") && strings.Contains(j, "ECallParam"):
		return "token-func"
	case strings.Contains(j, "EToken"):
		return "token"
	case strings.Contains(j, "EComment"):
		return "comment"
	case strings.Contains(j, "ETag"):
		return "tag"
	case strings.Contains(j, "SCallParam"):
		return "callback"
	case strings.Contains(j, "SAppendSelf"):
		return "append-params"
	}
	return "other-ir"
}

func printRegistry(rows []row) {
	var b bytes.Buffer
	fmt.Fprintln(&b, "// Code generated by `api2ir -registry`; DO NOT EDIT.")
	fmt.Fprintln(&b, "// Every exported package function of jen that returns *Statement, by name. Reflection cannot")
	fmt.Fprintln(&b, "// enumerate package functions; c14.go compares this list with the source of the package it")
	fmt.Fprintln(&b, "// was built against at run time and fails if they differ.")
	fmt.Fprintln(&b)
	fmt.Fprintln(&b, "package props")
	fmt.Fprintln(&b)
	fmt.Fprintln(&b, `import "github.com/dave/jennifer/jen"`)
	fmt.Fprintln(&b)
	fmt.Fprintln(&b, "var c14Funcs = map[string]interface{}{")
	var ns []string
	for _, r := range rows {
		if r.recv == "" && r.ret == "*Statement" {
			ns = append(ns, r.name)
		}
	}
	sort.Strings(ns)
	for _, n := range ns {
		fmt.Fprintf(&b, "\t%q: jen.%s,\n", n, n)
	}
	fmt.Fprintln(&b, "}")
	out, err := format.Source(b.Bytes())
	if err != nil {
		die("registry does not format: %v", err)
	}
	os.Stdout.Write(out)
}
