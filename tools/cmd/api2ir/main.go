// api2ir reads package jen of jennifer's CURRENT working tree (go/parser + go/types, offline)
// and prints coq/Gen/Api.v: one row per exported function and per method with an exported name
// (of ANY receiver type, exported or not) with its receiver, name, parameter shapes, result type
// and its body translated into the builder IR of coq/Spec/ApiShape.v; api_structs, the struct
// types of the package with their embedded types and field names (shape.go structInfos); plus
// the two lists that must stay empty for callbacks to be unable to survive the constructing
// call: func_fields (struct fields that can hold a function) and go_stmts (go / defer
// statements, function literals that escape, package variables that can hold a function).
//
// What is read off go/types rather than off the spelling (TRUSTED as far as go/types is):
//   - the receiver of a row is the receiver's named type as the type checker resolves it
//     (recvBase): a method declared through a type alias (`type fileT = File;
//     func (f *fileT) Type()`) is a method of File - that is what the alias means in Go, the
//     method set it lands in is File's - so it gets its row under File and is judged there.
//     (Reporting every alias as a problem instead would also be sound but is a deny-list over
//     spellings; resolving uses the compiler's own notion of identity and covers aliases of
//     aliases, parenthesised and generic receivers alike.)
//   - the result is "*Statement" iff there is one result whose type is identical to *Statement
//     (so `type sp = *Statement; func (s *Statement) X() sp` returns *Statement); otherwise the
//     printed type(s).
//   - the embedded types in api_structs are resolved the same way (alias, one pointer).
//
// The GoString methods are not builders; their one accepted shape (new bytes.Buffer, render
// into it, panic on error, return its text) is printed as `BufString buf (call)` (shape.go
// bufString) and the Coq checker decides whether the call is the receiver's own Render.
//
//	api2ir <repo>             print Gen/Api.v
//	api2ir -registry <repo>   print a Go file mapping every exported package function of jen
//	                          that returns *Statement to its value (harness/props/c14_registry.go)
//
// The translation is purely structural: anything that is not literally one of the IR's
// statement / expression forms makes the whole body Untranslatable (if the function returns
// *Statement or takes a function-typed parameter) or Other (printed text) otherwise.  Which
// of the two it is gets re-decided by the Coq checker from the row's result and parameter
// types, so the translator is not trusted with that choice.
//
// # Inlining of unexported helpers (TRUSTED: the Coq side never sees the helper)
//
// The table has rows for exported functions only, and the IR has no call of an unexported
// one.  A call `h(a1, .., an)` or `r.h(a1, .., an)` of an unexported function or method h of
// package jen is therefore replaced by h's body (translate.go helperCall, inline.go), and the
// row shows what the exported function does with the helper's work spelled out.  The rule:
//
//  1. h is declared with a body in the files of package jen that are translated, is a
//     concrete function or method (no interface method, no method promoted through an embedded
//     field, no generic), has at most one result, unnamed, and its body is ITSELF in the IR:
//     straight-line, `return` only as the last statement (calls of further helpers inside
//     it are inlined in turn).  The receiver expression has exactly the receiver's type (no
//     implicit & or *).  h must not be on the stack of helpers being inlined (recursion
//     guard), at most 8 helpers deep, at most 200 expansions per exported function.
//     Otherwise the row is Untranslatable and the reason names the helper and the call.
//  2. The call becomes, in this order:  r' := r;  p1' := a1;  ..;  pn' := an;  <body of h>
//     with h's receiver, parameters and locals renamed to names that are fresh in the row (the
//     original name if it is free, else name_1, name_2, ..).  So the receiver and every
//     argument is evaluated exactly once, left to right, before anything h does - as Go does.
//     A variadic parameter is bound to the slice `xs` for `h(.., xs...)`, to nil for no
//     variadic arguments, and to `[]Code{c1, .., ck}` for explicit ones (only for ...Code).
//  3. The value of the call is the operand e of h's final return.  If the call is the whole
//     right-hand side of `x := h(..)`, the whole operand of `return h(..)`, or a statement by
//     itself, h's statements are put before that statement and e takes the place of the call
//     (a statement `h(..)` whose e is a variable or constant disappears; otherwise e is still
//     evaluated, into a local named ret_h).  If the call is NESTED in a larger expression
//     (`*s = append(*s, newToken(..))`, `s.add(newToken(..))`), it is moved in front of the
//     statement and its result named ret_h - allowed only when everything the statement
//     evaluates before the call is an atom: a local (locals are never reassigned in the IR),
//     a literal, a package constant, nil, or a field of a struct VALUE held in a local; inside a
//     struct literal all the other fields must be atoms (Go evaluates them in source order, the
//     IR in field order).  Otherwise Untranslatable.  Calls are expanded first in
//     evaluation order first (operands before the operation, left to right).
//  4. Afterwards the bindings of step 2, and `x := h(..)` where the value of the inlined call
//     is an atom (x is then a second name for it) - only those; never another local the
//     programmer wrote - are substituted away where that cannot change the computation
//     (inline.go normalise):
//     `p' := e` with e an atom: p' is replaced by e everywhere (if p' also occurs as `p'...`,
//     `p'.f`, `*p' = append(*p', ..)`, `p'.items = append(..)` or is called: only when e is a
//     local); `p' := e` with e a call or an allocation: only when p' occurs exactly once, as a
//     plain operand of the NEXT statement, and everything that statement evaluates before it
//     is an atom - e then runs at the same point of the execution as before.  A binding that
//     cannot be removed stays as `SDefine p' e`, which has the same meaning.
//
// With 2-4 the row of `func (s *Statement) LitFunc(f) { return s.literal(literalToken, f()) }`
// and `func (s *Statement) literal(typ, v) { t := token{typ: typ, content: v}; *s = append(*s, t);
// return s }` is the row of the function written out by hand, and `f()` is one ECallParam,
// before the append.  A helper that calls the callback twice, appends twice, appends to another
// statement or stores the callback shows exactly that in the row (or is Untranslatable), and the
// Coq checker judges it.  The inlined calls are listed in the generated file (inlined_calls).
// newStatement() is ENewStatement only if its body is `return &Statement{}`; otherwise it is a
// helper like any other.
package main

import (
	"bytes"
	"fmt"
	"go/ast"
	"go/build/constraint"
	"go/format"
	"go/importer"
	"go/parser"
	"go/printer"
	"go/token"
	"go/types"
	"os"
	"path/filepath"
	"runtime"
	"sort"
	"strings"
	"veriftools/internal/srcset"
)

func die(format string, a ...interface{}) {
	fmt.Fprintf(os.Stderr, "api2ir: "+format+"\n", a...)
	os.Exit(2)
}

// cstr prints a Go string as a Coq term of type str: (S "...") for printable ASCII (a double
// quote is doubled, as Coq's string syntax wants), a byte list otherwise.
func cstr(s string) string {
	plain := true
	for i := 0; i < len(s); i++ {
		if s[i] < 0x20 || s[i] > 0x7e {
			plain = false
			break
		}
	}
	if plain {
		return `(S "` + strings.ReplaceAll(s, `"`, `""`) + `")`
	}
	var b strings.Builder
	b.WriteString("[")
	for i := 0; i < len(s); i++ {
		if i > 0 {
			b.WriteString("; ")
		}
		fmt.Fprintf(&b, "x%02x", s[i])
	}
	b.WriteString("]")
	return b.String()
}

func clist(elems []string) string { return "[" + strings.Join(elems, "; ") + "]" }

var fset = token.NewFileSet()

// buildTagOK: does the file take part in an ordinary build (no custom tags such as verif)?
func buildTagOK(f *ast.File) bool {
	for _, cg := range f.Comments {
		if cg.Pos() >= f.Package {
			break
		}
		for _, c := range cg.List {
			if !constraint.IsGoBuild(c.Text) && !constraint.IsPlusBuild(c.Text) {
				continue
			}
			x, err := constraint.Parse(c.Text)
			if err != nil {
				continue
			}
			ok := x.Eval(func(tag string) bool {
				if tag == runtime.GOOS || tag == runtime.GOARCH || tag == "gc" || tag == "unix" {
					return true
				}
				return strings.HasPrefix(tag, "go1.")
			})
			if !ok {
				return false
			}
		}
	}
	return true
}

func pos(n ast.Node) string {
	p := fset.Position(n.Pos())
	return fmt.Sprintf("%s:%d", filepath.Base(p.Filename), p.Line)
}

func printNode(n interface{}) string {
	var b bytes.Buffer
	printer.Fprint(&b, fset, n)
	return strings.Join(strings.Fields(b.String()), " ")
}

type row struct {
	recv, self, name, ret string
	params                []string
	body                  string
	class                 string // for the statistics comment
	fn                    *ast.FuncDecl
	inlined               []string // the helper calls inlined into the body
}

// recvBase: the name of the receiver's NAMED type, from go/types (Signature.Recv), so that a
// receiver written through a type alias (`type fileT = File; func (f *fileT) M()`), in
// parentheses or with type parameters is the type whose method set gets M - which is how the
// compiler sees it; and the receiver variable's name.  "?" if go/types has no named receiver
// type (cannot happen for a method that type-checks).
func recvBase(fd *ast.FuncDecl, info *types.Info) (base, self string) {
	if fd.Recv == nil || len(fd.Recv.List) == 0 {
		return "", ""
	}
	f := fd.Recv.List[0]
	if len(f.Names) == 1 {
		self = f.Names[0].Name
	} else {
		self = "_"
	}
	fn, ok := info.Defs[fd.Name].(*types.Func)
	if !ok {
		return "?", self
	}
	sig, ok := fn.Type().(*types.Signature)
	if !ok || sig.Recv() == nil {
		return "?", self
	}
	n := namedOf(sig.Recv().Type())
	if n == nil {
		return "?", self
	}
	return n.Origin().Obj().Name(), self
}

// namedOf: T for T and *T (aliases resolved at both levels), nil if that is not a named type.
func namedOf(ty types.Type) *types.Named {
	ty = types.Unalias(ty)
	if p, ok := ty.(*types.Pointer); ok {
		ty = types.Unalias(p.Elem())
	}
	n, _ := ty.(*types.Named)
	return n
}

// isPtrStatement: is ty identical to *Statement of package jen (types.Identical looks through
// aliases)?
func isPtrStatement(pkg *types.Package, ty types.Type) bool {
	tn, ok := pkg.Scope().Lookup("Statement").(*types.TypeName)
	if !ok || tn.IsAlias() || ty == nil {
		return false
	}
	return types.Identical(ty, types.NewPointer(tn.Type()))
}

func main() {
	args := os.Args[1:]
	registry := false
	if len(args) > 0 && args[0] == "-registry" {
		registry = true
		args = args[1:]
	}
	if len(args) != 1 {
		die("usage: api2ir [-registry] <repo>")
	}
	repo := args[0]
	names, err := srcset.Files(repo)
	if err != nil || len(names) == 0 {
		die("no Go files in %s/jen", repo)
	}
	sort.Strings(names)
	var files []*ast.File
	for _, n := range names {
		if strings.HasSuffix(n, "_test.go") {
			continue
		}
		f, err := parser.ParseFile(fset, n, nil, parser.ParseComments)
		if err != nil {
			die("%v", err)
		}
		if f.Name.Name != "jen" {
			die("%s: package %s, expected jen", n, f.Name.Name)
		}
		files = append(files, f)
	}
	info := &types.Info{
		Defs:       map[*ast.Ident]types.Object{},
		Uses:       map[*ast.Ident]types.Object{},
		Selections: map[*ast.SelectorExpr]*types.Selection{},
		Types:      map[ast.Expr]types.TypeAndValue{},
	}
	conf := types.Config{Importer: importer.ForCompiler(fset, "source", nil)}
	pkg, err := conf.Check("github.com/dave/jennifer/jen", fset, files, info)
	if err != nil {
		die("package jen does not type-check: %v", err)
	}
	qual := func(p *types.Package) string {
		if p == pkg {
			return ""
		}
		return p.Name()
	}

	// every function and method declaration of the package, for the inliner
	decls := map[*types.Func]*ast.FuncDecl{}
	for _, f := range files {
		for _, d := range f.Decls {
			if fd, ok := d.(*ast.FuncDecl); ok {
				if fn, ok := info.Defs[fd.Name].(*types.Func); ok {
					decls[fn] = fd
				}
			}
		}
	}

	// ---- rows
	var rows []row
	for _, f := range files {
		for _, d := range f.Decls {
			fd, ok := d.(*ast.FuncDecl)
			if !ok || !ast.IsExported(fd.Name.Name) {
				continue
			}
			// every method with an exported name has a row, whatever its receiver type is called
			// (an unexported type can be embedded in an exported one and hand its methods on)
			base, self := recvBase(fd, info)
			r := row{recv: base, self: self, name: fd.Name.Name, fn: fd}
			ctx := &rowCtx{info: info, pkg: pkg, decls: decls, used: definedNames(fd)}
			tr := &translator{ctx: ctx, info: info, pkg: pkg, locals: map[string]bool{}, funcs: map[string]bool{}}
			if self != "" && self != "_" {
				tr.locals[self] = true
			}
			hasFunc := false
			for _, p := range fd.Type.Params.List {
				ty := info.Types[p.Type].Type
				kind := "PPlain"
				if _, ok := p.Type.(*ast.Ellipsis); ok {
					kind = "PVariadic"
				} else if isFuncType(ty) {
					kind = "PFunc"
					hasFunc = true
				} else if containsFunc(ty, map[types.Type]bool{}) {
					// a slice / map / struct of functions: treated as a callback carrier
					kind = "PFunc"
					hasFunc = true
				}
				if e, ok := p.Type.(*ast.Ellipsis); ok && containsFunc(info.Types[e.Elt].Type, map[types.Type]bool{}) {
					kind = "PFunc"
					hasFunc = true
				}
				pn := p.Names
				if len(pn) == 0 {
					pn = []*ast.Ident{{Name: "_"}}
				}
				for _, n := range pn {
					if n.Name != "_" {
						tr.locals[n.Name] = true
						if kind == "PFunc" && isFuncType(ty) {
							tr.funcs[n.Name] = true
						}
					}
					r.params = append(r.params, fmt.Sprintf("mkparam %s %s %s", cstr(n.Name), cstr(printNode(p.Type)), kind))
				}
			}
			if fd.Type.Results != nil {
				var rs []string
				for _, p := range fd.Type.Results.List {
					n := len(p.Names)
					if n == 0 {
						n = 1
					}
					for i := 0; i < n; i++ {
						rs = append(rs, printNode(p.Type))
					}
				}
				r.ret = strings.Join(rs, ", ")
				// "*Statement" is decided by go/types, not by the spelling of the result type
				if len(rs) == 1 {
					if isPtrStatement(pkg, info.Types[fd.Type.Results.List[0].Type].Type) {
						r.ret = "*Statement"
					} else if r.ret == "*Statement" {
						r.ret = "*Statement (not the Statement of package jen)"
					}
				}
			}
			if fd.Body == nil {
				r.body = "Untranslatable " + cstr("no body")
				r.class = "untranslatable"
				rows = append(rows, r)
				continue
			}
			func() {
				defer func() {
					if e := recover(); e != nil {
						te, ok := e.(trErr)
						if !ok {
							panic(e)
						}
						if r.ret == "*Statement" || hasFunc {
							r.body = "Untranslatable " + cstr(te.msg)
							r.class = "untranslatable"
						} else if b := bufString(tr, fd); b != "" {
							r.body = b
							r.class = "buf-string"
						} else {
							r.body = "Other " + cstr(printNode(fd.Body))
							r.class = "other"
						}
					}
				}()
				body := normalise(ctx.expandBody(tr.body(fd.Body)))
				var ss []string
				for _, s := range body {
					ss = append(ss, printStmt(s))
				}
				r.inlined = ctx.decisions
				r.body = "Body " + clist(ss)
				r.class = classify(fd, ss)
			}()
			rows = append(rows, r)
		}
	}

	if registry {
		printRegistry(rows)
		return
	}

	// ---- func_fields: struct fields (of any type declared in the package) that can hold a function
	var funcFields []string
	scope := pkg.Scope()
	for _, n := range scope.Names() {
		tn, ok := scope.Lookup(n).(*types.TypeName)
		if !ok {
			continue
		}
		if st, ok := tn.Type().Underlying().(*types.Struct); ok {
			for i := 0; i < st.NumFields(); i++ {
				f := st.Field(i)
				if containsFunc(f.Type(), map[types.Type]bool{}) {
					funcFields = append(funcFields, fmt.Sprintf("(%s, %s)", cstr(n+"."+f.Name()), cstr(types.TypeString(f.Type(), qual))))
				}
			}
		} else if containsFunc(tn.Type(), map[types.Type]bool{}) && implementsCode(pkg, tn.Type()) {
			// a non-struct Code implementation that is itself a function / holds functions
			funcFields = append(funcFields, fmt.Sprintf("(%s, %s)", cstr(n), cstr(types.TypeString(tn.Type().Underlying(), qual))))
		}
	}
	// struct types declared inside function bodies
	for id, obj := range info.Defs {
		tn, ok := obj.(*types.TypeName)
		if !ok || tn.Parent() == scope {
			continue
		}
		if st, ok := tn.Type().Underlying().(*types.Struct); ok {
			for i := 0; i < st.NumFields(); i++ {
				f := st.Field(i)
				if containsFunc(f.Type(), map[types.Type]bool{}) {
					funcFields = append(funcFields, fmt.Sprintf("(%s, %s)", cstr(id.Name+"."+f.Name()+"@"+pos(id)), cstr(types.TypeString(f.Type(), qual))))
				}
			}
		}
	}
	sort.Strings(funcFields)

	// ---- go_stmts
	var goStmts []string
	add := func(kind string, n ast.Node) {
		goStmts = append(goStmts, fmt.Sprintf("(%s, %s)", cstr(kind), cstr(pos(n))))
	}
	for _, n := range scope.Names() {
		if v, ok := scope.Lookup(n).(*types.Var); ok && containsFunc(v.Type(), map[types.Type]bool{}) {
			goStmts = append(goStmts, fmt.Sprintf("(%s, %s)", cstr("package variable that can hold a function: "+n), cstr(filepath.Base(fset.Position(v.Pos()).Filename))))
		}
	}
	for _, f := range files {
		var stack []ast.Node
		ast.Inspect(f, func(n ast.Node) bool {
			if n == nil {
				stack = stack[:len(stack)-1]
				return true
			}
			switch x := n.(type) {
			case *ast.GoStmt:
				add("go", x)
			case *ast.DeferStmt:
				add("defer", x)
			case *ast.FuncLit:
				if how := escapes(stack, x, info); how != "" {
					add("function literal "+how, x)
				}
			}
			stack = append(stack, n)
			return true
		})
	}

	// ---- output
	out := os.Stdout
	fmt.Fprintf(out, "(* GENERATED by tools/cmd/api2ir from %s - do not edit *)\n", repo)
	fmt.Fprintln(out, "From Jen Require Import Spec.ApiShape.")
	fmt.Fprintln(out)
	counts := map[string]int{}
	for _, r := range rows {
		counts[r.class]++
	}
	var ks []string
	for k := range counts {
		ks = append(ks, k)
	}
	sort.Strings(ks)
	fmt.Fprintf(out, "(* %d rows;", len(rows))
	for _, k := range ks {
		fmt.Fprintf(out, " %s: %d;", k, counts[k])
	}
	fmt.Fprintln(out, " *)")
	var es []string
	for _, r := range rows {
		es = append(es, fmt.Sprintf("mkrow %s %s %s %s %s\n    (%s)", cstr(r.recv), cstr(r.self), cstr(r.name), clist(r.params), cstr(r.ret), r.body))
	}
	fmt.Fprintf(out, "Definition api_table : list api_row := [\n  %s\n].\n\n", strings.Join(es, ";\n  "))
	var inl []string
	for _, r := range rows {
		if len(r.inlined) == 0 {
			continue
		}
		var ds []string
		for _, d := range r.inlined {
			ds = append(ds, cstr(d))
		}
		n := r.name
		if r.recv != "" {
			n = r.recv + "." + r.name
		}
		inl = append(inl, fmt.Sprintf("(%s, %s)", cstr(n), clist(ds)))
	}
	fmt.Fprintf(out, "(* calls of unexported helpers that the translator replaced by the helper's body (the rule is in\n   the header of tools/cmd/api2ir/main.go), per row, in the order of expansion; informative *)\nDefinition inlined_calls : list (str * list str) := %s.\n\n", clist2(inl))
	fmt.Fprintf(out, "(* the struct types of the package (go/types): embedded types, other fields *)\nDefinition api_structs : list struct_info := %s.\n\n", clist2(structInfos(pkg, info)))
	fmt.Fprintf(out, "(* struct fields (and Code implementations) that can hold a function: must be empty *)\nDefinition func_fields : list (str * str) := %s.\n\n", clist(funcFields))
	fmt.Fprintf(out, "(* go / defer statements, escaping function literals, package variables that can hold a\n   function, in the non-test code: must be empty *)\nDefinition go_stmts : list (str * str) := %s.\n", clist(goStmts))
}

func clist2(elems []string) string {
	if len(elems) == 0 {
		return "[]"
	}
	return "[\n  " + strings.Join(elems, ";\n  ") + "\n]"
}

// definedNames: every identifier that occurs in the declaration (an over-approximation of
// the names it declares), so that the names invented for an inlined helper's locals cannot
// collide with the function's own.
func definedNames(fd *ast.FuncDecl) map[string]bool {
	used := map[string]bool{}
	ast.Inspect(fd, func(n ast.Node) bool {
		if id, ok := n.(*ast.Ident); ok {
			used[id.Name] = true
		}
		return true
	})
	return used
}

func implementsCode(pkg *types.Package, ty types.Type) bool {
	obj, ok := pkg.Scope().Lookup("Code").(*types.TypeName)
	if !ok {
		return false
	}
	it, ok := obj.Type().Underlying().(*types.Interface)
	if !ok {
		return false
	}
	return types.Implements(ty, it) || types.Implements(types.NewPointer(ty), it)
}

// escapes says how a function literal outlives the expression it is written in ("" if it
// does not): it is harmless only when called on the spot or handed directly to a function of
// another package (sort.SliceStable's comparison); a literal passed to a function of package
// jen, to append, stored, returned or sent is reported.
func escapes(stack []ast.Node, lit *ast.FuncLit, info *types.Info) string {
	if len(stack) == 0 {
		return "at top level"
	}
	var e ast.Node = lit
	i := len(stack) - 1
	for i >= 0 {
		if p, ok := stack[i].(*ast.ParenExpr); ok {
			e = p
			i--
			continue
		}
		break
	}
	if i < 0 {
		return "at top level"
	}
	switch p := stack[i].(type) {
	case *ast.CallExpr:
		if p.Fun == e {
			return "" // called on the spot
		}
		if sel, ok := p.Fun.(*ast.SelectorExpr); ok {
			if id, ok := sel.X.(*ast.Ident); ok {
				if _, ok := info.Uses[id].(*types.PkgName); ok {
					return "" // argument of a function of another package
				}
			}
		}
		return "passed to " + printNode(p.Fun)
	case *ast.AssignStmt:
		return "assigned"
	case *ast.ValueSpec:
		return "stored in a variable"
	case *ast.KeyValueExpr, *ast.CompositeLit:
		return "stored in a composite literal"
	case *ast.ReturnStmt:
		return "returned"
	case *ast.SendStmt:
		return "sent on a channel"
	}
	return fmt.Sprintf("used in a %T", stack[i])
}

// classify names the body shape for the statistics comment (the Coq checker does its own
// classification; this one is only printed).
func classify(fd *ast.FuncDecl, ss []string) string {
	j := strings.Join(ss, " ; ")
	switch {
	case len(ss) == 1 && strings.HasPrefix(ss[0], "SReturn (ECallMeth (ENewStatement)"):
		return "function-form"
	case len(ss) == 3 && strings.HasPrefix(ss[0], "SDefine") && strings.Contains(ss[0], "(ECallFn ") && strings.HasPrefix(ss[1], "SAppendItems"):
		return "group-form"
	case strings.Contains(j, "EGroupLit") && strings.Contains(j, "SCallParam"):
		return "build-group-func"
	case strings.Contains(j, "EGroupLit"):
		return "build-group"
	case strings.Contains(j, "EToken") && strings.Contains(j, "ECallParam"):
		return "token-func"
	case strings.Contains(j, "EToken"):
		return "token"
	case strings.Contains(j, "EComment"):
		return "comment"
	case strings.Contains(j, "ETag"):
		return "tag"
	case strings.Contains(j, "SCallParam"):
		return "callback"
	case strings.Contains(j, "SAppendSelf"):
		return "append-params"
	}
	return "other-ir"
}

func printRegistry(rows []row) {
	var b bytes.Buffer
	fmt.Fprintln(&b, "// Code generated by `api2ir -registry`; DO NOT EDIT.")
	fmt.Fprintln(&b, "// Every exported package function of jen that returns *Statement, by name. Reflection cannot")
	fmt.Fprintln(&b, "// enumerate package functions; c14.go compares this list with the source of the package it")
	fmt.Fprintln(&b, "// was built against at run time and fails if they differ.")
	fmt.Fprintln(&b)
	fmt.Fprintln(&b, "package props")
	fmt.Fprintln(&b)
	fmt.Fprintln(&b, `import "github.com/dave/jennifer/jen"`)
	fmt.Fprintln(&b)
	fmt.Fprintln(&b, "var c14Funcs = map[string]interface{}{")
	var ns []string
	for _, r := range rows {
		if r.recv == "" && r.ret == "*Statement" {
			ns = append(ns, r.name)
		}
	}
	sort.Strings(ns)
	for _, n := range ns {
		fmt.Fprintf(&b, "\t%q: jen.%s,\n", n, n)
	}
	fmt.Fprintln(&b, "}")
	out, err := format.Source(b.Bytes())
	if err != nil {
		die("registry does not format: %v", err)
	}
	os.Stdout.Write(out)
}
