package main

// Go AST -> builder IR (ir.go).  Purely structural; see the header of main.go.

import (
	"fmt"
	"go/ast"
	"go/token"
	"go/types"
	"strconv"
)

type trErr struct{ msg string }

// rowCtx: what is shared by the translation of one exported function and of every helper
// inlined into it.
type rowCtx struct {
	info      *types.Info
	pkg       *types.Package
	decls     map[*types.Func]*ast.FuncDecl // every function / method declaration of the package
	used      map[string]bool               // IR names taken in this row
	decisions []string                      // one line per inlined call
}

// fresh returns base if it is free in this row, else base_1, base_2, ...
func (c *rowCtx) fresh(base string) string {
	if base == "" || base == "_" {
		base = "unused"
	}
	n := base
	for i := 1; c.used[n]; i++ {
		n = fmt.Sprintf("%s_%d", base, i)
	}
	c.used[n] = true
	return n
}

type translator struct {
	ctx    *rowCtx
	info   *types.Info
	pkg    *types.Package
	locals map[string]bool   // receiver, parameters, := locals of the function being translated (Go names)
	funcs  map[string]bool   // names that are func-typed parameters (Go names)
	ren    map[string]string // Go name -> IR name; nil for the exported function itself (identity)
	chain  []*types.Func     // helpers being inlined around this body (innermost last)
}

// ir: the IR name of a local of the function being translated.
func (t *translator) ir(name string) string {
	if t.ren != nil {
		if n, ok := t.ren[name]; ok {
			return n
		}
	}
	return name
}

// declare makes name a local; inside a helper it gets a name that is fresh in the row.
func (t *translator) declare(name string) string {
	t.locals[name] = true
	if t.ren != nil {
		t.ren[name] = t.ctx.fresh(name)
	}
	return t.ir(name)
}

func (t *translator) fail(n ast.Node, format string, a ...interface{}) {
	panic(trErr{fmt.Sprintf(format, a...) + " at " + pos(n)})
}

func isFuncType(ty types.Type) bool {
	if ty == nil {
		return false
	}
	_, ok := ty.Underlying().(*types.Signature)
	return ok
}

// containsFunc: can a value of this type hold a function (directly, or in an element)?
// Interface types are not followed (token.content is an interface{}: it holds whatever the
// user gave to Lit and is never called; the renderer's type switch panics on a func).
func containsFunc(ty types.Type, seen map[types.Type]bool) bool {
	if ty == nil || seen[ty] {
		return false
	}
	seen[ty] = true
	switch u := ty.Underlying().(type) {
	case *types.Signature:
		return true
	case *types.Pointer:
		return containsFunc(u.Elem(), seen)
	case *types.Slice:
		return containsFunc(u.Elem(), seen)
	case *types.Array:
		return containsFunc(u.Elem(), seen)
	case *types.Chan:
		return containsFunc(u.Elem(), seen)
	case *types.Map:
		return containsFunc(u.Key(), seen) || containsFunc(u.Elem(), seen)
	case *types.Struct:
		// fields of struct types are reported where the struct is declared; an anonymous
		// struct used as a field type is followed here
		for i := 0; i < u.NumFields(); i++ {
			if containsFunc(u.Field(i).Type(), seen) {
				return true
			}
		}
	}
	return false
}

func (t *translator) args(call *ast.CallExpr) []*expr {
	var out []*expr
	for i, a := range call.Args {
		if call.Ellipsis.IsValid() && i == len(call.Args)-1 {
			id, ok := a.(*ast.Ident)
			if !ok || !t.locals[id.Name] {
				t.fail(a, "spread of a non-variable")
			}
			out = append(out, &expr{op: "ESpread", s: t.ir(id.Name)})
			continue
		}
		out = append(out, t.expr(a))
	}
	return out
}

func (t *translator) keyed(cl *ast.CompositeLit, allowed []string) map[string]ast.Expr {
	out := map[string]ast.Expr{}
	for _, el := range cl.Elts {
		kv, ok := el.(*ast.KeyValueExpr)
		if !ok {
			t.fail(el, "positional element in a struct literal")
		}
		k, ok := kv.Key.(*ast.Ident)
		if !ok {
			t.fail(el, "non-identifier key")
		}
		found := false
		for _, a := range allowed {
			if a == k.Name {
				found = true
			}
		}
		if !found {
			t.fail(el, "unknown field %s", k.Name)
		}
		out[k.Name] = kv.Value
	}
	return out
}

// fields translates the keyed elements of a struct literal into the fixed field order of the
// IR.  Go evaluates the elements in SOURCE order; the IR in field order: the two agree when
// at most one element is more than a variable, a literal or a constant.
func (t *translator) fields(cl *ast.CompositeLit, names []string, zeros []*expr) []*expr {
	m := t.keyed(cl, names)
	out := make([]*expr, len(names))
	busy := 0
	for i, k := range names {
		if e, ok := m[k]; ok {
			out[i] = t.expr(e)
			if !isAtom(out[i]) {
				busy++
			}
		} else {
			z := *zeros[i]
			z.zero = true
			out[i] = &z
		}
	}
	if busy > 1 {
		t.fail(cl, "struct literal with more than one element that is a call or an allocation (evaluation order)")
	}
	return out
}

var (
	zStr  = &expr{op: "EStr"}
	zBool = &expr{op: "EBool"}
	zNil  = &expr{op: "ENil"}
)

func (t *translator) composite(cl *ast.CompositeLit, addr bool) *expr {
	switch ty := cl.Type.(type) {
	case *ast.Ident:
		switch {
		case ty.Name == "Group" && addr:
			return mk("EGroupLit", t.fields(cl, []string{"name", "open", "close", "separator", "multi", "items"},
				[]*expr{zStr, zStr, zStr, zStr, zBool, zNil})...)
		case ty.Name == "token" && !addr:
			return mk("EToken", t.fields(cl, []string{"typ", "content"}, []*expr{zStr, zNil})...)
		case ty.Name == "comment" && !addr:
			return mk("EComment", t.fields(cl, []string{"comment"}, []*expr{zStr})...)
		case ty.Name == "tag" && !addr:
			return mk("ETag", t.fields(cl, []string{"items"}, []*expr{zNil})...)
		case ty.Name == "Dict" && !addr:
			if len(cl.Elts) != 0 {
				t.fail(cl, "non-empty Dict literal")
			}
			return mk("EDictLit")
		case ty.Name == "Statement" && addr:
			var es []*expr
			for _, e := range cl.Elts {
				if _, ok := e.(*ast.KeyValueExpr); ok {
					t.fail(e, "keyed element in a Statement literal")
				}
				es = append(es, t.expr(e))
			}
			return mk("EStmtLit", es...)
		}
	case *ast.ArrayType:
		if id, ok := ty.Elt.(*ast.Ident); ok && id.Name == "Code" && ty.Len == nil && !addr {
			var es []*expr
			for _, e := range cl.Elts {
				if _, ok := e.(*ast.KeyValueExpr); ok {
					t.fail(e, "keyed element in a []Code literal")
				}
				es = append(es, t.expr(e))
			}
			return mk("ECodeList", es...)
		}
	}
	t.fail(cl, "composite literal %s outside the IR", printNode(cl.Type))
	return nil
}

// isNewStatement: is fn the function `func newStatement() *Statement { return &Statement{} }`
// (the IR's ENewStatement)?  Decided from its body, not from its name alone.
func (t *translator) isNewStatement(fn *types.Func) bool {
	if fn.Name() != "newStatement" {
		return false
	}
	fd := t.ctx.decls[fn]
	if fd == nil || fd.Recv != nil || fd.Body == nil || len(fd.Body.List) != 1 || fd.Type.Params.NumFields() != 0 {
		return false
	}
	ret, ok := fd.Body.List[0].(*ast.ReturnStmt)
	if !ok || len(ret.Results) != 1 {
		return false
	}
	u, ok := ret.Results[0].(*ast.UnaryExpr)
	if !ok || u.Op != token.AND {
		return false
	}
	cl, ok := u.X.(*ast.CompositeLit)
	if !ok || len(cl.Elts) != 0 {
		return false
	}
	id, ok := cl.Type.(*ast.Ident)
	return ok && id.Name == "Statement" && t.info.Uses[id] == t.pkg.Scope().Lookup("Statement")
}

// helperCall: a call of an unexported function or method of package jen becomes a pending
// "inline" node (expanded by inline.go).  recv is nil for a plain function.
func (t *translator) helperCall(x *ast.CallExpr, fn *types.Func, recv ast.Expr) *expr {
	what := fn.Name()
	if recv != nil {
		what = printNode(x.Fun)
	}
	fd := t.ctx.decls[fn]
	if fd == nil || fd.Body == nil {
		t.fail(x, "call of %s, which has no body in package jen", what)
	}
	sig := fn.Type().(*types.Signature)
	if sig.TypeParams().Len() > 0 || sig.RecvTypeParams().Len() > 0 {
		t.fail(x, "call of the generic helper %s", what)
	}
	node := &expr{op: "inline", call: &inlineCall{fn: fn, decl: fd, chain: t.chain, at: pos(x), what: what}}
	if recv != nil {
		if sig.Recv() == nil {
			t.fail(x, "call of %s: not a method", what)
		}
		rt := t.info.Types[recv].Type
		if rt == nil || !types.Identical(rt, sig.Recv().Type()) {
			t.fail(x, "call of %s with an implicit & or * on the receiver", what)
		}
		node.call.hasRecv = true
		node.kids = append(node.kids, t.expr(recv))
	}
	n := sig.Params().Len()
	if !sig.Variadic() {
		if len(x.Args) != n || x.Ellipsis.IsValid() {
			t.fail(x, "call of %s: argument list does not match the parameters one to one", what)
		}
		for _, a := range x.Args {
			node.kids = append(node.kids, t.expr(a))
		}
		return node
	}
	if len(x.Args) < n-1 {
		t.fail(x, "call of %s: argument list does not match the parameters", what)
	}
	for _, a := range x.Args[:n-1] {
		node.kids = append(node.kids, t.expr(a))
	}
	rest := x.Args[n-1:]
	switch {
	case x.Ellipsis.IsValid():
		// h(a, xs...): the slice itself is passed
		if len(rest) != 1 {
			t.fail(x, "call of %s: argument list does not match the parameters", what)
		}
		node.kids = append(node.kids, t.expr(rest[0]))
	case len(rest) == 0:
		// no variadic arguments: the parameter is a nil slice
		node.kids = append(node.kids, mk("ENil"))
	default:
		// h(a, c1, c2): a new []Code{c1, c2}
		elt := sig.Params().At(n - 1).Type().(*types.Slice).Elem()
		named, ok := elt.(*types.Named)
		if !ok || named.Obj().Pkg() != t.pkg || named.Obj().Name() != "Code" {
			t.fail(x, "call of %s: variadic arguments of type %s cannot be packed in the IR", what, elt)
		}
		var es []*expr
		for _, a := range rest {
			es = append(es, t.expr(a))
		}
		node.kids = append(node.kids, mk("ECodeList", es...))
	}
	return node
}

func (t *translator) expr(e ast.Expr) *expr {
	switch x := e.(type) {
	case *ast.ParenExpr:
		return t.expr(x.X)
	case *ast.Ident:
		switch obj := t.info.Uses[x].(type) {
		case *types.Nil:
			return mk("ENil")
		case *types.Const:
			if obj.Parent() == types.Universe && (x.Name == "true" || x.Name == "false") {
				return &expr{op: "EBool", b: x.Name == "true"}
			}
			if obj.Pkg() == t.pkg && obj.Parent() == t.pkg.Scope() {
				return &expr{op: "EConst", s: x.Name}
			}
		case *types.Var:
			if t.locals[x.Name] && !obj.IsField() && obj.Parent() != t.pkg.Scope() {
				return evar(t.ir(x.Name))
			}
		}
		t.fail(x, "identifier %s is not a local, nil, bool or package constant", x.Name)
	case *ast.BasicLit:
		if x.Kind == token.STRING {
			s, err := strconv.Unquote(x.Value)
			if err == nil {
				return &expr{op: "EStr", s: s}
			}
		}
		t.fail(x, "literal %s outside the IR", x.Value)
	case *ast.SelectorExpr:
		if id, ok := x.X.(*ast.Ident); ok && t.locals[id.Name] {
			if sel := t.info.Selections[x]; sel != nil && sel.Kind() == types.FieldVal {
				_, ptr := t.info.Types[x.X].Type.Underlying().(*types.Pointer)
				return &expr{op: "ESel", s: t.ir(id.Name), s2: x.Sel.Name, ptrSel: ptr || sel.Indirect()}
			}
		}
		t.fail(x, "selector %s outside the IR", printNode(x))
	case *ast.UnaryExpr:
		if x.Op == token.AND {
			if cl, ok := x.X.(*ast.CompositeLit); ok {
				return t.composite(cl, true)
			}
		}
		t.fail(x, "unary expression outside the IR")
	case *ast.CompositeLit:
		return t.composite(x, false)
	case *ast.CallExpr:
		switch fn := x.Fun.(type) {
		case *ast.Ident:
			switch obj := t.info.Uses[fn].(type) {
			case *types.Func:
				if obj.Pkg() == t.pkg && len(x.Args) == 0 && t.isNewStatement(obj) {
					return mk("ENewStatement")
				}
				if obj.Pkg() == t.pkg && ast.IsExported(fn.Name) {
					return &expr{op: "ECallFn", s: fn.Name, kids: t.args(x)}
				}
				if obj.Pkg() == t.pkg {
					return t.helperCall(x, obj, nil)
				}
				t.fail(x, "call of unexported function %s", fn.Name)
			case *types.Var:
				if t.funcs[fn.Name] && t.locals[fn.Name] {
					return &expr{op: "ECallParam", s: t.ir(fn.Name), kids: t.args(x)}
				}
				t.fail(x, "call of a function value that is not a parameter")
			}
			t.fail(x, "call of %s outside the IR", fn.Name)
		case *ast.SelectorExpr:
			if sel := t.info.Selections[fn]; sel != nil {
				if sel.Kind() == types.MethodVal && ast.IsExported(fn.Sel.Name) && sel.Obj().Pkg() == t.pkg {
					return &expr{op: "ECallMeth", s: fn.Sel.Name, kids: append([]*expr{t.expr(fn.X)}, t.args(x)...)}
				}
				if m, ok := sel.Obj().(*types.Func); ok && sel.Kind() == types.MethodVal && m.Pkg() == t.pkg &&
					len(sel.Index()) == 1 && t.ctx.decls[m] != nil {
					return t.helperCall(x, m, fn.X)
				}
				t.fail(x, "call through selector %s outside the IR", printNode(fn))
			}
			// qualified identifier pkg.F
			if obj, ok := t.info.Uses[fn.Sel].(*types.Func); ok && obj.Pkg() != nil && obj.Pkg().Path() == "fmt" && fn.Sel.Name == "Sprintf" {
				return &expr{op: "EPure", s: "fmt.Sprintf", kids: t.args(x)}
			}
			t.fail(x, "call of %s outside the IR", printNode(fn))
		}
		t.fail(x, "call outside the IR")
	}
	t.fail(e, "expression %T outside the IR", e)
	return nil
}

func starOf(e ast.Expr) (string, bool) {
	st, ok := e.(*ast.StarExpr)
	if !ok {
		return "", false
	}
	id, ok := st.X.(*ast.Ident)
	if !ok {
		return "", false
	}
	return id.Name, true
}

func (t *translator) stmt(s ast.Stmt) *stmt {
	switch x := s.(type) {
	case *ast.AssignStmt:
		if len(x.Lhs) != 1 || len(x.Rhs) != 1 {
			t.fail(x, "multiple assignment")
		}
		if x.Tok == token.DEFINE {
			id, ok := x.Lhs[0].(*ast.Ident)
			if !ok || id.Name == "_" {
				t.fail(x, "definition of a non-identifier")
			}
			if t.locals[id.Name] {
				t.fail(x, "redefinition of %s", id.Name)
			}
			e := t.expr(x.Rhs[0])
			return &stmt{op: "SDefine", name: t.declare(id.Name), e: e, at: x}
		}
		if x.Tok != token.ASSIGN {
			t.fail(x, "assignment operator %s", x.Tok)
		}
		call, ok := x.Rhs[0].(*ast.CallExpr)
		if !ok {
			t.fail(x, "assignment of a non-append")
		}
		fn, ok := call.Fun.(*ast.Ident)
		if !ok || fn.Name != "append" || len(call.Args) < 1 {
			t.fail(x, "assignment of a non-append")
		}
		if _, ok := t.info.Uses[fn].(*types.Builtin); !ok {
			t.fail(x, "append is not the builtin")
		}
		rest := &ast.CallExpr{Fun: call.Fun, Args: call.Args[1:], Ellipsis: call.Ellipsis}
		// *s = append(*s, args...)
		if l, ok := starOf(x.Lhs[0]); ok {
			r, ok := starOf(call.Args[0])
			if !ok || r != l || !t.locals[l] {
				t.fail(x, "append to a different slice")
			}
			return &stmt{op: "SAppendSelf", name: t.ir(l), args: t.args(rest), at: x}
		}
		// g.items = append(g.items, e)
		if l, ok := x.Lhs[0].(*ast.SelectorExpr); ok {
			r, ok2 := call.Args[0].(*ast.SelectorExpr)
			li, ok3 := l.X.(*ast.Ident)
			if !ok2 || !ok3 {
				t.fail(x, "append to a field of a non-variable")
			}
			ri, ok4 := r.X.(*ast.Ident)
			if !ok4 || ri.Name != li.Name || l.Sel.Name != "items" || r.Sel.Name != "items" || !t.locals[li.Name] {
				t.fail(x, "append to a field other than items")
			}
			if _, ptr := t.info.Types[l.X].Type.Underlying().(*types.Pointer); !ptr {
				t.fail(x, "append to the items of a Group held by value")
			}
			if len(call.Args) != 2 || call.Ellipsis.IsValid() {
				t.fail(x, "append of other than one item")
			}
			return &stmt{op: "SAppendItems", name: t.ir(li.Name), e: t.expr(call.Args[1]), at: x}
		}
		t.fail(x, "assignment outside the IR")
	case *ast.ExprStmt:
		call, ok := x.X.(*ast.CallExpr)
		if !ok {
			t.fail(x, "expression statement")
		}
		if fn, ok := call.Fun.(*ast.Ident); ok && t.funcs[fn.Name] && t.locals[fn.Name] {
			if _, ok := t.info.Uses[fn].(*types.Var); ok {
				return &stmt{op: "SCallParam", name: t.ir(fn.Name), args: t.args(call), at: x}
			}
		}
		// a helper called for its effect
		if e := t.expr(call); e.op == "inline" {
			return &stmt{op: "SEval", e: e, at: x}
		}
		t.fail(x, "statement call of other than a function parameter or an unexported helper")
	case *ast.ReturnStmt:
		if len(x.Results) != 1 {
			t.fail(x, "return of other than one value")
		}
		return &stmt{op: "SReturn", e: t.expr(x.Results[0]), at: x}
	}
	t.fail(s, "statement %T outside the IR", s)
	return nil
}

// body translates a straight-line function body; `return` only as the last statement.
func (t *translator) body(b *ast.BlockStmt) []*stmt {
	var ss []*stmt
	for i, s := range b.List {
		if _, ok := s.(*ast.ReturnStmt); ok && i != len(b.List)-1 {
			t.fail(s, "return before the end of the body")
		}
		ss = append(ss, t.stmt(s))
	}
	return ss
}
