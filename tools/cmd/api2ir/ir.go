package main

// The builder IR of coq/Spec/ApiShape.v as Go values, and its printer.  The translator
// (main.go) builds these, the inliner (inline.go) rewrites them, print* emits Coq terms.

import (
	"fmt"
	"go/ast"
	"go/types"
)

type expr struct {
	op   string // constructor name of ApiShape.expr, or "inline" (a pending helper call, never printed)
	s    string // EVar/ESpread/EStr/EConst: the name or text; ESel: the variable; calls: the symbol
	s2   string // ESel: the field
	b    bool   // EBool
	kids []*expr
	// ECallMeth: kids[0] is the receiver, the rest are the arguments; EGroupLit: the six
	// fields name open close separator multi items; EToken: typ content; other calls and
	// lists: the arguments / elements

	zero   bool        // an omitted composite-literal field (printed as the old translator did)
	ptrSel bool        // ESel through a pointer (reads memory: not a constant of the call)
	call   *inlineCall // op == "inline"
}

// inlineCall: a call of an unexported function or method of package jen, waiting to be
// replaced by the callee's body.
type inlineCall struct {
	fn      *types.Func
	decl    *ast.FuncDecl
	hasRecv bool // the node's kids are: the receiver (if hasRecv), then one argument per parameter (a variadic tail already packed)
	chain   []*types.Func
	at      string // position of the call
	what    string // printed callee, for messages
}

type stmt struct {
	op    string // SDefine SAppendSelf SAppendItems SCallParam SReturn, or "SEval" (helper call as a statement; never printed)
	name  string // SDefine: x; SAppendSelf: s; SAppendItems: g; SCallParam: f
	e     *expr  // SDefine, SAppendItems, SReturn, SEval
	args  []*expr
	synth bool // SDefine binding a helper's receiver / parameter (candidate for substitution)
	at    ast.Node
}

func mk(op string, kids ...*expr) *expr { return &expr{op: op, kids: kids} }
func evar(x string) *expr               { return &expr{op: "EVar", s: x} }

// isAtom: evaluating e has no effect, allocates nothing and does not depend on the store:
// a local (locals are never reassigned in the IR), a literal, a package constant, or a field
// read from a struct VALUE held in a local.
func isAtom(e *expr) bool {
	switch e.op {
	case "ENil", "EVar", "ESpread", "EStr", "EBool", "EConst":
		return true
	case "ESel":
		return !e.ptrSel
	}
	return false
}

func printArgs(es []*expr) string {
	var out []string
	for _, e := range es {
		out = append(out, printExpr(e))
	}
	return clist(out)
}

func paren(e *expr) string {
	if e.zero {
		switch e.op {
		case "ENil":
			return "ENil"
		case "EStr":
			return "(EStr [])"
		case "EBool":
			return "(EBool false)"
		}
	}
	return "(" + printExpr(e) + ")"
}

func printExpr(e *expr) string {
	switch e.op {
	case "ENil", "ENewStatement", "EDictLit":
		return e.op
	case "EVar", "ESpread", "EStr", "EConst":
		return e.op + " " + cstr(e.s)
	case "EBool":
		return fmt.Sprintf("EBool %v", e.b)
	case "ESel":
		return "ESel " + cstr(e.s) + " " + cstr(e.s2)
	case "ECallFn", "ECallParam", "EPure":
		return e.op + " " + cstr(e.s) + " " + printArgs(e.kids)
	case "ECallMeth":
		return "ECallMeth " + paren(e.kids[0]) + " " + cstr(e.s) + " " + printArgs(e.kids[1:])
	case "EGroupLit":
		return fmt.Sprintf("EGroupLit %s %s %s %s %s %s", paren(e.kids[0]), paren(e.kids[1]), paren(e.kids[2]),
			paren(e.kids[3]), paren(e.kids[4]), paren(e.kids[5]))
	case "EToken":
		return "EToken " + paren(e.kids[0]) + " " + paren(e.kids[1])
	case "EComment", "ETag":
		return e.op + " " + paren(e.kids[0])
	case "ECodeList", "EStmtLit":
		return e.op + " " + printArgs(e.kids)
	}
	panic("api2ir: internal error: printing " + e.op)
}

func printStmt(s *stmt) string {
	switch s.op {
	case "SDefine":
		return "SDefine " + cstr(s.name) + " (" + printExpr(s.e) + ")"
	case "SAppendSelf", "SCallParam":
		return s.op + " " + cstr(s.name) + " " + printArgs(s.args)
	case "SAppendItems":
		return "SAppendItems " + cstr(s.name) + " (" + printExpr(s.e) + ")"
	case "SReturn":
		return "SReturn (" + printExpr(s.e) + ")"
	}
	panic("api2ir: internal error: printing " + s.op)
}

// roots: the expressions of a statement in evaluation order.
func (s *stmt) roots() []**expr {
	switch s.op {
	case "SDefine", "SAppendItems", "SReturn", "SEval":
		return []**expr{&s.e}
	}
	out := make([]**expr, len(s.args))
	for i := range s.args {
		out[i] = &s.args[i]
	}
	return out
}
