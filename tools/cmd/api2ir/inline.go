package main

// Inlining of unexported helpers, and the substitution of the parameter bindings it
// introduces.  The rules are stated in the header of main.go (they are trusted).

import (
	"fmt"
	"go/ast"
	"go/types"
)

const (
	maxInlineDepth = 8   // helpers inlined inside helpers
	maxInlineCalls = 200 // expansions per exported function (a runaway guard)
)

// site: an occurrence of a sub-expression in a statement.
type site struct {
	slot   **expr
	top    bool // the whole operand of SDefine / SReturn / SEval
	leftOK bool // everything the statement evaluates before it is an atom (isAtom)
}

// findSite returns the FIRST sub-expression, in evaluation order (operands before the
// operation, left to right), for which match holds.
func findSite(s *stmt, match func(*expr) bool) *site {
	roots := s.roots()
	for i, r := range roots {
		ok := true
		for _, l := range roots[:i] {
			if !isAtom(*l) {
				ok = false
			}
		}
		if st := findIn(r, match, ok); st != nil {
			st.top = st.slot == r && (s.op == "SDefine" || s.op == "SReturn" || s.op == "SEval")
			return st
		}
	}
	return nil
}

func findIn(slot **expr, match func(*expr) bool, leftOK bool) *site {
	e := *slot
	// struct literals: Go evaluates the elements in source order, the IR in field order, so
	// ALL the other fields have to be atoms, not only those to the left
	all := e.op == "EGroupLit" || e.op == "EToken"
	for i := range e.kids {
		ok := leftOK
		for j := range e.kids {
			if j != i && (j < i || all) && !isAtom(e.kids[j]) {
				ok = false
			}
		}
		if st := findIn(&e.kids[i], match, ok); st != nil {
			return st
		}
	}
	if match(e) {
		return &site{slot: slot, leftOK: leftOK}
	}
	return nil
}

func failAt(where string, format string, a ...interface{}) {
	panic(trErr{fmt.Sprintf(format, a...) + " at " + where})
}

// expandBody replaces every pending helper call of a body, first in evaluation order first,
// by the callee's body; the callee's own helper calls are expanded in turn.
func (c *rowCtx) expandBody(ss []*stmt) []*stmt {
	isInline := func(e *expr) bool { return e.op == "inline" }
	var out []*stmt
	queue := ss
	n := 0
	for len(queue) > 0 {
		s := queue[0]
		st := findSite(s, isInline)
		if st == nil {
			out = append(out, s)
			queue = queue[1:]
			continue
		}
		node := *st.slot
		call := node.call
		if n++; n > maxInlineCalls {
			failAt(call.at, "more than %d helper calls to inline", maxInlineCalls)
		}
		if !st.leftOK {
			failAt(call.at, "call of helper %s is evaluated after an operand that is itself a call or an allocation", call.what)
		}
		pre, result := c.expandCall(node)
		keep := true
		switch {
		case st.top && s.op == "SEval":
			if result == nil || isAtom(result) {
				keep = false // nothing left to evaluate
			} else {
				// the result is discarded but still evaluated
				s = &stmt{op: "SDefine", name: c.fresh("ret_" + call.fn.Name()), e: result, at: s.at}
			}
		case result == nil:
			failAt(call.at, "helper %s has no result but is used as a value", call.what)
		case st.top || isAtom(result):
			*st.slot = result
			if st.top && s.op == "SDefine" && isAtom(result) {
				// `x := h(..)` where h returns one of its locals, a parameter or a constant:
				// x is now another name for that atom
				s.synth = true
			}
		default:
			// a nested call: its result is computed before the statement it occurs in (all
			// that precedes it there are atoms) and named
			tmp := c.fresh("ret_" + call.fn.Name())
			pre = append(pre, &stmt{op: "SDefine", name: tmp, e: result, at: s.at})
			*st.slot = evar(tmp)
		}
		rest := queue[1:]
		queue = append([]*stmt{}, pre...)
		if keep {
			queue = append(queue, s)
		}
		queue = append(queue, rest...)
	}
	return out
}

// expandCall: `h(a1, .., an)` / `r.h(a1, .., an)` becomes
//
//	recv' := r; p1' := a1; ..; pn' := an; <body of h over the primed names>
//
// and the operand of h's final return (nil if h returns nothing).
func (c *rowCtx) expandCall(node *expr) (pre []*stmt, result *expr) {
	call := node.call
	fd := call.decl
	for _, f := range call.chain {
		if f == call.fn {
			failAt(call.at, "helper %s is recursive", call.what)
		}
	}
	if len(call.chain) >= maxInlineDepth {
		failAt(call.at, "helper %s is nested more than %d helpers deep", call.what, maxInlineDepth)
	}
	nres := 0
	if fd.Type.Results != nil {
		for _, f := range fd.Type.Results.List {
			if len(f.Names) > 0 {
				failAt(call.at, "helper %s has named results", call.what)
			}
			nres++
		}
	}
	if nres > 1 {
		failAt(call.at, "helper %s has more than one result", call.what)
	}
	t := &translator{ctx: c, info: c.info, pkg: c.pkg, locals: map[string]bool{}, funcs: map[string]bool{},
		ren: map[string]string{}, chain: append(append([]*types.Func{}, call.chain...), call.fn)}
	k := 0
	bind := func(name string, isFunc bool) {
		var irn string
		if name == "" || name == "_" {
			irn = c.fresh("unused")
		} else {
			if t.locals[name] {
				failAt(call.at, "helper %s declares %s twice", call.what, name)
			}
			irn = t.declare(name)
			if isFunc {
				t.funcs[name] = true
			}
		}
		pre = append(pre, &stmt{op: "SDefine", name: irn, e: node.kids[k], synth: true, at: fd})
		k++
	}
	if call.hasRecv {
		name := ""
		if len(fd.Recv.List) == 1 && len(fd.Recv.List[0].Names) == 1 {
			name = fd.Recv.List[0].Names[0].Name
		}
		bind(name, false)
	}
	for _, p := range fd.Type.Params.List {
		isFunc := isFuncType(c.info.Types[p.Type].Type)
		if _, ok := p.Type.(*ast.Ellipsis); ok {
			isFunc = false
		}
		if len(p.Names) == 0 {
			bind("_", false)
		}
		for _, n := range p.Names {
			bind(n.Name, isFunc)
		}
	}
	if k != len(node.kids) {
		failAt(call.at, "helper %s: arguments and parameters do not match", call.what)
	}
	var body []*stmt
	func() {
		defer func() {
			if r := recover(); r != nil {
				te, ok := r.(trErr)
				if !ok {
					panic(r)
				}
				panic(trErr{fmt.Sprintf("helper %s (called at %s) cannot be inlined: %s", call.what, call.at, te.msg)})
			}
		}()
		body = t.body(fd.Body)
	}()
	if nres == 1 {
		if len(body) == 0 || body[len(body)-1].op != "SReturn" {
			failAt(call.at, "helper %s does not end in a return", call.what)
		}
		result = body[len(body)-1].e
		body = body[:len(body)-1]
	}
	c.decisions = append(c.decisions, fmt.Sprintf("%s at %s inlined (declared at %s, depth %d)", call.what, call.at, pos(fd), len(call.chain)+1))
	return append(pre, body...), result
}

// ------------------------------------------------------------ substitution of bindings

type uses struct{ vars, other int } // EVar occurrences; ESpread / ESel / statement-position / callee occurrences

func walk(e *expr, f func(*expr)) {
	for _, k := range e.kids {
		walk(k, f)
	}
	f(e)
}

func countUses(p string, ss []*stmt) (u uses) {
	for _, s := range ss {
		switch s.op {
		case "SAppendSelf", "SAppendItems", "SCallParam":
			if s.name == p {
				u.other++
			}
		}
		for _, r := range s.roots() {
			walk(*r, func(e *expr) {
				switch e.op {
				case "EVar":
					if e.s == p {
						u.vars++
					}
				case "ESpread", "ESel", "ECallParam":
					if e.s == p {
						u.other++
					}
				}
			})
		}
	}
	return u
}

// rename p to the variable y everywhere; replace EVar p by a copy of e.
func substitute(p string, e *expr, ss []*stmt) {
	for _, s := range ss {
		switch s.op {
		case "SAppendSelf", "SAppendItems", "SCallParam":
			if s.name == p {
				s.name = e.s
			}
		}
		for _, r := range s.roots() {
			substIn(r, p, e)
		}
	}
}

func substIn(slot **expr, p string, e *expr) {
	x := *slot
	for i := range x.kids {
		substIn(&x.kids[i], p, e)
	}
	switch x.op {
	case "EVar":
		if x.s == p {
			c := *e
			c.zero = false
			*slot = &c
		}
	case "ESpread", "ESel", "ECallParam":
		if x.s == p {
			x.s = e.s // only reached when e is EVar
			if x.op == "ESel" {
				x.ptrSel = x.ptrSel || e.ptrSel
			}
		}
	}
}

// normalise removes the bindings `p := e` that inlining introduced for a helper's receiver
// and parameters, and `x := h(..)` whose inlined value is an atom (synth), where that cannot
// change what the body computes:
//
//	(a) e is an atom (a local, a literal, a constant, nil, a field of a struct value): p is
//	    replaced by e everywhere; if p also occurs as `p...`, `p.f`, `*p = append(*p, ..)`,
//	    `p.items = append(..)` or is called, only when e is a local;
//	(b) otherwise (e is a call or an allocation): only if p occurs exactly once, as a plain
//	    operand of the NEXT statement, and everything that statement evaluates before that
//	    operand is an atom - e is then evaluated at the same point of the execution as before.
//
// Nothing else is touched; in particular the locals the programmer wrote stay.
func normalise(ss []*stmt) []*stmt {
	for changed := true; changed; {
		changed = false
		for i := len(ss) - 1; i >= 0; i-- {
			s := ss[i]
			if s.op != "SDefine" || !s.synth {
				continue
			}
			p, e, rest := s.name, s.e, ss[i+1:]
			u := countUses(p, rest)
			ok := false
			switch {
			case isAtom(e) && e.op != "ESpread":
				if u.other == 0 || e.op == "EVar" {
					substitute(p, e, rest)
					ok = true
				}
			case u.vars == 1 && u.other == 0 && len(rest) > 0:
				st := findSite(rest[0], func(x *expr) bool { return x.op == "EVar" && x.s == p })
				if st != nil && st.leftOK {
					*st.slot = e
					ok = true
				}
			}
			if ok {
				ss = append(ss[:i:i], ss[i+1:]...)
				changed = true
			}
		}
	}
	return ss
}
