// gennames2coq builds jennifer's gennames tool from the repository's current working tree,
// runs it the way jen/hints.go is produced (`gennames -standard -novendor`, which calls
// `go list` inside GOROOT/src of the installed toolchain: no network needed), parses the Go
// file it writes with go/parser and prints the path -> name table as Coq definitions.
//
// Usage: gennames2coq [repo]      (default /repo; output on stdout)
//
// Whatever prevents the tool from being built or run (or an output that is not the
// expected `var X = map[string]string{"p": "n", ...}`) is not an error of this translator:
// the table is printed empty and the reason becomes the single element of
// gennames_problems, so that the obligations stated over this file fail at coqc time.
package main

import (
	"bytes"
	"context"
	"fmt"
	"go/ast"
	"go/parser"
	"go/token"
	"os"
	"os/exec"
	"path/filepath"
	"runtime"
	"sort"
	"strconv"
	"strings"
	"time"

	"veriftools/coqfmt"
)

const (
	varName = "VerifGennamesTable"
	pkgName = "verifgennames"
)

func die(format string, a ...interface{}) {
	fmt.Fprintf(os.Stderr, "gennames2coq: "+format+"\n", a...)
	os.Exit(2)
}

// setenv returns env with the given KEY=value pairs replacing earlier settings of KEY.
func setenv(env []string, kv ...string) []string {
	var out []string
	for _, e := range env {
		keep := true
		for _, x := range kv {
			if strings.HasPrefix(e, x[:strings.Index(x, "=")+1]) {
				keep = false
			}
		}
		if keep {
			out = append(out, e)
		}
	}
	return append(out, kv...)
}

func clip(s string) string {
	s = strings.TrimSpace(s)
	if len(s) > 1500 {
		s = s[:1500] + "..."
	}
	return s
}

type pair struct{ path, name string }

// produce builds and runs gennames and returns the table it printed, or the reason why
// there is none.
func produce(repo, tmp string) ([]pair, string) {
	ctx, cancel := context.WithTimeout(context.Background(), 8*time.Minute)
	defer cancel()

	bin := filepath.Join(tmp, "gennames")
	build := exec.CommandContext(ctx, "go", "build", "-o", bin, "./gennames")
	build.Dir = repo
	build.Env = setenv(os.Environ(), "GOFLAGS=-mod=mod", "GOPROXY=off")
	if out, err := build.CombinedOutput(); err != nil {
		return nil, fmt.Sprintf("cannot build ./gennames in %s: %v: %s", repo, err, clip(string(out)))
	}

	outFile := filepath.Join(tmp, "names.go")
	run := exec.CommandContext(ctx, bin, "-standard", "-novendor", "-output", outFile, "-package", pkgName, "-name", varName)
	run.Dir = tmp
	run.Env = setenv(os.Environ(), "GOFLAGS=-mod=mod", "GOPROXY=off")
	var stderr bytes.Buffer
	run.Stderr = &stderr
	run.Stdout = &stderr
	if err := run.Run(); err != nil {
		return nil, fmt.Sprintf("gennames -standard -novendor failed: %v: %s", err, clip(stderr.String()))
	}
	src, err := os.ReadFile(outFile)
	if err != nil {
		return nil, fmt.Sprintf("gennames wrote no output file: %v", err)
	}

	fset := token.NewFileSet()
	f, err := parser.ParseFile(fset, "names.go", src, 0)
	if err != nil {
		return nil, fmt.Sprintf("the file printed by gennames does not parse: %v", err)
	}
	if f.Name.Name != pkgName {
		return nil, fmt.Sprintf("the file printed by gennames declares package %s, asked for %s", f.Name.Name, pkgName)
	}
	var lit *ast.CompositeLit
	nvars := 0
	for _, d := range f.Decls {
		gd, ok := d.(*ast.GenDecl)
		if !ok || gd.Tok != token.VAR {
			continue
		}
		for _, sp := range gd.Specs {
			vs := sp.(*ast.ValueSpec)
			for i, n := range vs.Names {
				if n.Name != varName {
					continue
				}
				nvars++
				if len(vs.Values) == len(vs.Names) {
					lit, _ = vs.Values[i].(*ast.CompositeLit)
				}
			}
		}
	}
	if nvars != 1 || lit == nil {
		return nil, fmt.Sprintf("the file printed by gennames does not define var %s as a composite literal (definitions found: %d)", varName, nvars)
	}
	if mt, ok := lit.Type.(*ast.MapType); !ok || !isIdent(mt.Key, "string") || !isIdent(mt.Value, "string") {
		return nil, fmt.Sprintf("var %s is not a map[string]string literal", varName)
	}
	var table []pair
	seen := map[string]bool{}
	for _, e := range lit.Elts {
		kv, ok := e.(*ast.KeyValueExpr)
		if !ok {
			return nil, "an element of the table is not a key: value pair"
		}
		k, ok1 := strLit(kv.Key)
		v, ok2 := strLit(kv.Value)
		if !ok1 || !ok2 {
			return nil, fmt.Sprintf("an element of the table is not a pair of string literals (at %s)", fset.Position(kv.Pos()))
		}
		if seen[k] {
			return nil, fmt.Sprintf("path %q occurs twice in the table", k)
		}
		seen[k] = true
		table = append(table, pair{k, v})
	}
	sort.Slice(table, func(i, j int) bool { return table[i].path < table[j].path })
	return table, ""
}

func isIdent(e ast.Expr, name string) bool {
	id, ok := e.(*ast.Ident)
	return ok && id.Name == name
}

func strLit(e ast.Expr) (string, bool) {
	bl, ok := e.(*ast.BasicLit)
	if !ok || bl.Kind != token.STRING {
		return "", false
	}
	s, err := strconv.Unquote(bl.Value)
	return s, err == nil
}

func main() {
	repo := "/repo"
	if len(os.Args) > 1 {
		repo = os.Args[1]
	}
	if st, err := os.Stat(filepath.Join(repo, "gennames")); err != nil || !st.IsDir() {
		die("%s has no gennames directory", repo)
	}
	tmp, err := os.MkdirTemp("", "gennames2coq-")
	if err != nil {
		die("%v", err)
	}
	table, problem := produce(repo, tmp)
	os.RemoveAll(tmp)

	out := os.Stdout
	fmt.Fprintf(out, "(* GENERATED by tools/cmd/gennames2coq: gennames built from %s, run as gennames -standard -novendor on %s - do not edit *)\n",
		strings.Map(func(r rune) rune {
			if r == '"' || r == '*' || r < 0x20 || r > 0x7e {
				return '_'
			}
			return r
		}, repo), runtime.Version())
	fmt.Fprintln(out, "From Jen Require Import Base.Bytes.")
	fmt.Fprintln(out)
	var rows []string
	if problem == "" {
		for _, p := range table {
			rows = append(rows, fmt.Sprintf("(%s, %s)", coqfmt.Str(p.path), coqfmt.Str(p.name)))
		}
	}
	fmt.Fprintf(out, "(* path -> package name, as printed by the tool, sorted by path *)\nDefinition gennames_table : list (str * str) := %s.\n\n", coqfmt.List(rows, "  "))
	var ps []string
	if problem != "" {
		// keep the reason readable in coqc's messages: plain ASCII prints as (S "...")
		problem = strings.Map(func(r rune) rune {
			switch {
			case r == '"':
				return '\''
			case r == '\n' || r == '\t' || r == '\r':
				return ' '
			case r < 0x20 || r > 0x7e:
				return '?'
			}
			return r
		}, problem)
		ps = append(ps, coqfmt.Str(problem))
	}
	fmt.Fprintf(out, "(* why the tool could not be built / run / read; must be empty *)\nDefinition gennames_problems : list str := %s.\n", coqfmt.List(ps, "  "))
}
