// globals2coq reads package jen (current working tree, non-test files, build tag verif
// off), type-checks it with go/types and prints Coq definitions describing the package's
// global state - the premises of C09 (Files do not interfere):
//
//	package_vars         : list (str * bool)
//	    one row per package-level `var` (the blank identifier excluded); true iff some
//	    occurrence of the variable OUTSIDE its own declaration could write it or hand out
//	    a reference through which it can be written
//	package_var_uses     : list (str * list str)
//	    per variable, the occurrences ("file.go:line: reason") that set the flag
//	package_consts_count : nat
//	init_funcs           : list str    "file.go:line" of every `func init()`
//	func_fields          : list str    "Type.field: type" for every struct field whose type is
//	                                   (or is a slice/array/map/pointer/chan of) a func type, in
//	                                   any type declared in the package (also inside functions)
//	global_sync          : list str    "file.go:line: what" for every use of an object of
//	                                   package sync or sync/atomic (also their imports), every
//	                                   `go` statement, channel type, send, receive, select
//	globals_problems     : list str    things the scanner could not classify; must be empty
//
// How an occurrence of a package-level variable x is classified.  Take the largest access
// path built over the identifier with parentheses, field selection `.f`, indexing `[k]`,
// dereference `*`, slicing `[a:b]` and type assertion; look at where that path stands:
//
//	written:  left side of any assignment (`x = ..`, `x[k] = ..`, `x.f = ..`, `x += ..`,
//	          `x = append(x, ..)`), `x++ / x--`, key or value variable of a `range` with `=`,
//	          operand of `&`, first argument of delete / append / copy / clear,
//	          receiver of a method with a pointer receiver (address taken implicitly), receiver of
//	          any method when the path's type can reach shared memory (see below)
//	read:     argument of len / cap, operand of `range`, operand of a comparison or other
//	          binary / unary operator, switch tag, condition; the function position of a call
//	escapes:  ANY other position (argument of a call or conversion, right side of an
//	          assignment or definition, initialiser, return value, element of a composite
//	          literal, channel send, operand of a `range` that binds the element to a variable,
//	          ...) counts as written when the type of the path can reach shared memory, i.e.
//	          contains a pointer, slice, map, channel, func or interface (a callee or an
//	          alias could mutate what the variable refers to); it is a read when the type is
//	          built from basic types (strings are immutable), arrays and structs only.
//
// The scan is deliberately conservative: hoisting `regexp.MustCompile(..)` to a package-level
// variable and calling a method on it sets the flag (a *regexp.Regexp is a pointer), and the
// obligation C09_no_mutable_globals then asks for a human decision.
package main

import (
	"fmt"
	"go/ast"
	"go/build"
	"go/build/constraint"
	"go/importer"
	"go/parser"
	"go/token"
	"go/types"
	"os"
	"path/filepath"
	"runtime"
	"sort"
	"strings"

	"veriftools/coqfmt"
)

func die(format string, a ...interface{}) {
	fmt.Fprintf(os.Stderr, "globals2coq: "+format+"\n", a...)
	os.Exit(2)
}

var fset = token.NewFileSet()

// buildTagOK: does the file take part in an ordinary build (no custom tags such as verif)?
func buildTagOK(f *ast.File) bool {
	for _, cg := range f.Comments {
		if cg.Pos() >= f.Package {
			break
		}
		for _, c := range cg.List {
			if !constraint.IsGoBuild(c.Text) && !constraint.IsPlusBuild(c.Text) {
				continue
			}
			x, err := constraint.Parse(c.Text)
			if err != nil {
				die("%s: %v", pos(c), err)
			}
			ok := x.Eval(func(tag string) bool {
				if tag == runtime.GOOS || tag == runtime.GOARCH || tag == "gc" || tag == "unix" {
					return true
				}
				return strings.HasPrefix(tag, "go1.")
			})
			if !ok {
				return false
			}
		}
	}
	return true
}

func pos(n ast.Node) string {
	p := fset.Position(n.Pos())
	return fmt.Sprintf("%s:%d", filepath.Base(p.Filename), p.Line)
}

// sharedReach: can a value of type t reach memory shared with other holders of the value?
func sharedReach(t types.Type, seen map[types.Type]bool) bool {
	if t == nil {
		return true
	}
	if seen[t] {
		return false
	}
	seen[t] = true
	switch u := t.Underlying().(type) {
	case *types.Basic:
		return u.Kind() == types.UnsafePointer || u.Kind() == types.UntypedNil
	case *types.Array:
		return sharedReach(u.Elem(), seen)
	case *types.Struct:
		for i := 0; i < u.NumFields(); i++ {
			if sharedReach(u.Field(i).Type(), seen) {
				return true
			}
		}
		return false
	case *types.Tuple:
		for i := 0; i < u.Len(); i++ {
			if sharedReach(u.At(i).Type(), seen) {
				return true
			}
		}
		return false
	default: // pointer, slice, map, chan, signature, interface, type parameter
		return true
	}
}

func reach(t types.Type) bool { return sharedReach(t, map[types.Type]bool{}) }

// hasFunc: is t a func type or a slice/array/map/pointer/chan of one?
func hasFunc(t types.Type, depth int) bool {
	if t == nil || depth > 8 {
		return false
	}
	switch u := t.Underlying().(type) {
	case *types.Signature:
		return true
	case *types.Slice:
		return hasFunc(u.Elem(), depth+1)
	case *types.Array:
		return hasFunc(u.Elem(), depth+1)
	case *types.Pointer:
		return hasFunc(u.Elem(), depth+1)
	case *types.Chan:
		return hasFunc(u.Elem(), depth+1)
	case *types.Map:
		return hasFunc(u.Key(), depth+1) || hasFunc(u.Elem(), depth+1)
	}
	return false
}

type scanner struct {
	pkg      *types.Package
	info     *types.Info
	vars     map[*types.Var]int // package-level variable -> index in rows
	rows     []*varRow
	declID   map[*ast.Ident]bool // identifiers that are the declaring occurrence
	sync     []string
	problems []string
}

type varRow struct {
	name  string
	decl  string
	typ   string
	flags []string // occurrences that set the flag
	reads int
}

func (s *scanner) isBuiltin(fun ast.Expr, names ...string) bool {
	for {
		p, ok := fun.(*ast.ParenExpr)
		if !ok {
			break
		}
		fun = p.X
	}
	id, ok := fun.(*ast.Ident)
	if !ok {
		return false
	}
	if _, isb := s.info.Uses[id].(*types.Builtin); !isb {
		return false
	}
	for _, n := range names {
		if id.Name == n {
			return true
		}
	}
	return false
}

func (s *scanner) typeOf(e ast.Expr) types.Type {
	if tv, ok := s.info.Types[e]; ok {
		return tv.Type
	}
	if id, ok := e.(*ast.Ident); ok {
		if o := s.info.Uses[id]; o != nil {
			return o.Type()
		}
	}
	return nil
}

// classify one occurrence of a package-level variable; stack = ancestors of id (outermost first)
func (s *scanner) classify(id *ast.Ident, row *varRow, stack []ast.Node) {
	flag := func(n ast.Node, why string) { row.flags = append(row.flags, pos(n)+": "+why) }
	var e ast.Expr = id
	i := len(stack) - 1
	// grow the access path
	for i >= 0 {
		grown := false
		switch p := stack[i].(type) {
		case *ast.ParenExpr:
			grown = true
		case *ast.StarExpr:
			grown = true
		case *ast.TypeAssertExpr:
			grown = p.X == e
		case *ast.IndexExpr:
			grown = p.X == e
		case *ast.SliceExpr:
			grown = p.X == e
		case *ast.SelectorExpr:
			if p.X == e {
				if sel, ok := s.info.Selections[p]; ok && sel.Kind() == types.FieldVal {
					grown = true
				}
			}
		}
		if !grown {
			break
		}
		e = stack[i].(ast.Expr)
		i--
	}
	if i < 0 {
		s.problems = append(s.problems, pos(id)+": "+row.name+" in an unknown position")
		flag(id, "unknown position")
		return
	}
	t := s.typeOf(e)
	escape := func(what string) {
		if reach(t) {
			ts := "?"
			if t != nil {
				ts = types.TypeString(t, types.RelativeTo(s.pkg))
			}
			flag(e, what+" (type "+ts+" can reach shared memory)")
		} else {
			row.reads++
		}
	}
	switch p := stack[i].(type) {
	case *ast.AssignStmt:
		for _, l := range p.Lhs {
			if l == e {
				flag(e, "assigned ("+p.Tok.String()+")")
				return
			}
		}
		escape("right side of an assignment")
	case *ast.IncDecStmt:
		flag(e, "inc/dec ("+p.Tok.String()+")")
	case *ast.UnaryExpr:
		switch p.Op {
		case token.AND:
			flag(e, "address taken")
		case token.ARROW:
			flag(e, "channel receive")
		default:
			row.reads++
		}
	case *ast.BinaryExpr:
		row.reads++
	case *ast.CallExpr:
		if p.Fun == e {
			row.reads++ // calling a func-typed variable reads it
			return
		}
		first := len(p.Args) > 0 && p.Args[0] == e
		switch {
		case s.isBuiltin(p.Fun, "len", "cap"):
			row.reads++
		case s.isBuiltin(p.Fun, "delete", "append", "copy", "clear") && first:
			flag(e, "first argument of "+p.Fun.(*ast.Ident).Name)
		default:
			escape("argument of a call or conversion")
		}
	case *ast.SelectorExpr:
		// p.X == e and the selection is a method (field selections were absorbed above)
		sel, ok := s.info.Selections[p]
		if !ok || p.X != e {
			s.problems = append(s.problems, pos(p)+": unresolved selector on "+row.name)
			flag(p, "unresolved selector")
			return
		}
		ptrRecv := false
		if sig, ok := sel.Obj().Type().(*types.Signature); ok && sig.Recv() != nil {
			_, ptrRecv = sig.Recv().Type().(*types.Pointer)
		}
		_, isPtr := t.Underlying().(*types.Pointer)
		switch {
		case ptrRecv && !isPtr:
			flag(p, "method "+p.Sel.Name+" with pointer receiver (address taken)")
		case reach(t):
			flag(p, "method "+p.Sel.Name+" on a value that can reach shared memory")
		default:
			row.reads++
		}
	case *ast.RangeStmt:
		switch {
		case p.Key == e || p.Value == e:
			flag(e, "range variable (assigned)")
		case p.X == e:
			bound := false
			if v, ok := p.Value.(*ast.Ident); p.Value != nil && !(ok && v.Name == "_") {
				bound = true
			}
			var elem, key types.Type
			switch u := t.Underlying().(type) {
			case *types.Slice:
				elem = u.Elem()
			case *types.Array:
				elem = u.Elem()
			case *types.Map:
				elem, key = u.Elem(), u.Key()
			case *types.Pointer:
				if a, ok := u.Elem().Underlying().(*types.Array); ok {
					elem = a.Elem()
				}
			case *types.Chan:
				flag(e, "range over a channel (receive)")
				return
			}
			kbound := false
			if k, ok := p.Key.(*ast.Ident); p.Key != nil && !(ok && k.Name == "_") {
				kbound = true
			}
			if (bound && elem != nil && reach(elem)) || (kbound && key != nil && reach(key)) {
				flag(e, "range binds elements that can reach shared memory")
			} else {
				row.reads++
			}
		default:
			row.reads++ // inside the body; cannot happen for the path itself
		}
	case *ast.IfStmt, *ast.ForStmt, *ast.SwitchStmt, *ast.CaseClause, *ast.ExprStmt:
		row.reads++
	case *ast.IndexExpr:
		// the path is the index, not the indexed value
		escape("index of another expression")
	case *ast.SendStmt:
		if p.Chan == e {
			flag(e, "channel send")
		} else {
			escape("value sent on a channel")
		}
	case *ast.ReturnStmt:
		escape("returned")
	case *ast.ValueSpec:
		escape("initialiser of another variable")
	case *ast.KeyValueExpr, *ast.CompositeLit:
		escape("element of a composite literal")
	case *ast.TypeSwitchStmt:
		escape("type switch")
	case *ast.DeferStmt, *ast.GoStmt:
		escape("deferred / go call")
	default:
		escape(fmt.Sprintf("used in a %T", p))
	}
}

// matchFile: is this file part of the package as the go tool builds it here (GOOS, GOARCH,
// release tags, file name suffixes, //go:build and +build lines; no extra tags, so files
// guarded by the `verif` tag are left out)?  go/build decides, the same way `go build` does.
func matchFile(path string) bool {
	ok, err := build.Default.MatchFile(filepath.Dir(path), filepath.Base(path))
	if err != nil {
		die("%s: %v", path, err)
	}
	return ok
}

func main() {
	if len(os.Args) < 2 {
		die("usage: globals2coq <repo>")
	}
	repo := os.Args[1]
	dir := filepath.Join(repo, "jen")
	names, err := filepath.Glob(filepath.Join(dir, "*.go"))
	if err != nil {
		die("%v", err)
	}
	sort.Strings(names)
	var files []*ast.File
	var scanned, excluded []string
	for _, n := range names {
		if strings.HasSuffix(n, "_test.go") {
			continue
		}
		f, err := parser.ParseFile(fset, n, nil, parser.ParseComments)
		if err != nil {
			die("%v", err)
		}
		if f.Name.Name != "jen" {
			die("%s: package %s, expected jen", n, f.Name.Name)
		}
		if matchFile(n) {
			files = append(files, f)
			scanned = append(scanned, filepath.Base(n))
		} else {
			excluded = append(excluded, filepath.Base(n))
		}
	}
	if len(files) == 0 {
		die("no Go files in %s", dir)
	}
	info := &types.Info{
		Types:      map[ast.Expr]types.TypeAndValue{},
		Uses:       map[*ast.Ident]types.Object{},
		Defs:       map[*ast.Ident]types.Object{},
		Selections: map[*ast.SelectorExpr]*types.Selection{},
	}
	conf := types.Config{Importer: importer.ForCompiler(fset, "source", nil)}
	pkg, err := conf.Check("github.com/dave/jennifer/jen", fset, files, info)
	if err != nil {
		die("package jen does not type-check: %v", err)
	}
	s := &scanner{pkg: pkg, info: info, vars: map[*types.Var]int{}, declID: map[*ast.Ident]bool{}}

	// ---- declarations: package-level vars, consts, init functions -------------------
	nconsts := 0
	var inits []string
	for _, f := range files {
		for _, d := range f.Decls {
			switch d := d.(type) {
			case *ast.GenDecl:
				for _, sp := range d.Specs {
					vs, ok := sp.(*ast.ValueSpec)
					if !ok {
						continue
					}
					for _, id := range vs.Names {
						if d.Tok == token.CONST {
							nconsts++
							continue
						}
						if id.Name == "_" {
							continue
						}
						v, ok := info.Defs[id].(*types.Var)
						if !ok {
							s.problems = append(s.problems, pos(id)+": no object for var "+id.Name)
							continue
						}
						s.declID[id] = true
						s.vars[v] = len(s.rows)
						s.rows = append(s.rows, &varRow{name: id.Name, decl: pos(id),
							typ: types.TypeString(v.Type(), types.RelativeTo(pkg))})
					}
				}
			case *ast.FuncDecl:
				if d.Recv == nil && d.Name.Name == "init" {
					inits = append(inits, pos(d))
				}
			}
		}
	}

	// ---- occurrences of package-level variables, sync / goroutine / channel uses ------
	var funcFields []string
	for _, f := range files {
		for _, im := range f.Imports {
			if im.Path.Value == `"sync"` || im.Path.Value == `"sync/atomic"` {
				s.sync = append(s.sync, pos(im)+": import "+strings.Trim(im.Path.Value, `"`))
			}
		}
		var stack []ast.Node
		ast.Inspect(f, func(x ast.Node) bool {
			if x == nil {
				stack = stack[:len(stack)-1]
				return true
			}
			switch n := x.(type) {
			case *ast.Ident:
				if o := info.Uses[n]; o != nil {
					if v, ok := o.(*types.Var); ok {
						if k, ok := s.vars[v]; ok {
							s.classify(n, s.rows[k], stack)
						}
					}
					if o.Pkg() != nil && (o.Pkg().Path() == "sync" || o.Pkg().Path() == "sync/atomic") {
						s.sync = append(s.sync, pos(n)+": "+o.Pkg().Path()+"."+o.Name())
					}
				}
			case *ast.GoStmt:
				s.sync = append(s.sync, pos(n)+": go statement")
			case *ast.ChanType:
				s.sync = append(s.sync, pos(n)+": channel type")
			case *ast.SendStmt:
				s.sync = append(s.sync, pos(n)+": channel send")
			case *ast.SelectStmt:
				s.sync = append(s.sync, pos(n)+": select")
			case *ast.UnaryExpr:
				if n.Op == token.ARROW {
					s.sync = append(s.sync, pos(n)+": channel receive")
				}
			case *ast.TypeSpec:
				tn, ok := info.Defs[n.Name].(*types.TypeName)
				if !ok {
					break
				}
				if st, ok := tn.Type().Underlying().(*types.Struct); ok {
					for i := 0; i < st.NumFields(); i++ {
						fl := st.Field(i)
						if hasFunc(fl.Type(), 0) {
							funcFields = append(funcFields, fmt.Sprintf("%s.%s: %s", n.Name.Name, fl.Name(),
								types.TypeString(fl.Type(), types.RelativeTo(pkg))))
						}
						if reachesSync(fl.Type()) {
							s.sync = append(s.sync, fmt.Sprintf("%s: field %s.%s of a sync type", pos(n), n.Name.Name, fl.Name()))
						}
					}
				}
			}
			stack = append(stack, x)
			return true
		})
	}
	sort.Strings(funcFields)

	// ---- output ------------------------------------------------------------------------
	out := os.Stdout
	fmt.Fprintf(out, "(* GENERATED by tools/cmd/globals2coq from %s - do not edit *)\n", repo)
	fmt.Fprintf(out, "(* scanned: %s *)\n", strings.Join(scanned, " "))
	fmt.Fprintf(out, "(* excluded by build constraint: %s *)\n", strings.Join(excluded, " "))
	fmt.Fprintln(out, "From Jen Require Import Base.Bytes.")
	fmt.Fprintln(out)
	var es, us []string
	for _, r := range s.rows {
		es = append(es, fmt.Sprintf("(%s, %s)  (* %s  %s  reads: %d *)", coqfmt.Str(r.name), coqfmt.Bool(len(r.flags) > 0),
			r.decl, commentSafe(r.typ), r.reads))
		var fs []string
		for _, f := range r.flags {
			fs = append(fs, coqfmt.Str(f))
		}
		us = append(us, fmt.Sprintf("(%s, %s)", coqfmt.Str(r.name), coqfmt.List(fs, "    ")))
	}
	fmt.Fprintln(out, "(* every package-level var of package jen; true = some occurrence outside its declaration")
	fmt.Fprintln(out, "   may write it or hand out a reference through which it can be written *)")
	fmt.Fprintf(out, "Definition package_vars : list (str * bool) := %s.\n\n", listWithComments(es, "  "))
	fmt.Fprintln(out, "(* the occurrences that set the flag *)")
	fmt.Fprintf(out, "Definition package_var_uses : list (str * list str) := %s.\n\n", coqfmt.List(us, "  "))
	fmt.Fprintf(out, "Definition package_consts_count : nat := %d.\n\n", nconsts)
	fmt.Fprintf(out, "Definition init_funcs : list str := %s.\n\n", coqfmt.List(strs(inits), "  "))
	fmt.Fprintln(out, "(* struct fields of func type in types declared in package jen *)")
	fmt.Fprintf(out, "Definition func_fields : list str := %s.\n\n", coqfmt.List(strs(funcFields), "  "))
	fmt.Fprintln(out, "(* uses of sync.*, sync/atomic.*, go statements, channels *)")
	fmt.Fprintf(out, "Definition global_sync : list str := %s.\n\n", coqfmt.List(strs(s.sync), "  "))
	fmt.Fprintf(out, "(* occurrences the scanner could not classify; must be empty *)\nDefinition globals_problems : list str := %s.\n",
		coqfmt.List(strs(s.problems), "  "))
}

// reachesSync: does the type mention a type of package sync or sync/atomic (shallowly)?
func reachesSync(t types.Type) bool {
	for d := 0; d < 8 && t != nil; d++ {
		if n, ok := t.(*types.Named); ok {
			if p := n.Obj().Pkg(); p != nil && (p.Path() == "sync" || p.Path() == "sync/atomic") {
				return true
			}
		}
		switch u := t.(type) {
		case *types.Pointer:
			t = u.Elem()
		case *types.Slice:
			t = u.Elem()
		case *types.Array:
			t = u.Elem()
		case *types.Map:
			t = u.Elem()
		default:
			return false
		}
	}
	return false
}

func strs(l []string) []string {
	var r []string
	for _, x := range l {
		r = append(r, coqfmt.Str(x))
	}
	return r
}

func commentSafe(s string) string {
	s = strings.ReplaceAll(s, "(*", "( *")
	s = strings.ReplaceAll(s, "*)", "* )")
	return strings.ReplaceAll(s, `"`, "'")
}

// listWithComments prints a Coq list whose elements carry a trailing comment: the
// separator has to go before the comment.
func listWithComments(elems []string, indent string) string {
	if len(elems) == 0 {
		return "[]"
	}
	var b strings.Builder
	b.WriteString("[\n")
	for i, e := range elems {
		k := strings.Index(e, "  (*")
		body, cm := e, ""
		if k >= 0 {
			body, cm = e[:k], e[k:]
		}
		b.WriteString(indent + body)
		if i < len(elems)-1 {
			b.WriteString(";")
		}
		b.WriteString(cm + "\n")
	}
	b.WriteString(indent + "]")
	return b.String()
}
