// globals2coq reads package jen (current working tree, non-test files; every file compiled with
// cgo on or off, with or without -race - see "File set" below; the verif tag off), type-checks
// it with go/types and prints Coq definitions describing the package's global state - the
// premises of C09 (Files do not interfere).  It only REPORTS; what is acceptable (which types,
// which imports, which excluded files) is decided in coq/Props/C09.v:
//
//	package_vars         : list (str * bool)
//	    one row per package-level `var` (the blank identifier excluded); true iff some
//	    occurrence of the variable OUTSIDE its own declaration could write it or hand out
//	    a reference through which it can be written
//	package_var_uses     : list (str * list str)
//	    per variable, the occurrences ("file.go:line: reason") that set the flag
//	package_consts_count : nat
//	init_funcs           : list str    "file.go:line" of every `func init()`
//	func_fields          : list str    "Type.field: type" for every struct field whose type is
//	                                   (or is a slice/array/map/pointer/chan of) a func type, in
//	                                   any type declared in the package (also inside functions)
//	global_sync          : list str    "file.go:line: what" for every use of an object of
//	                                   package sync or sync/atomic (also their imports), every
//	                                   `go` statement, channel type, send, receive, select
//	globals_problems     : list str    things the scanner could not classify; must be empty
//
// How an occurrence of a package-level variable x is classified.  Take the largest access
// path built over the identifier with parentheses, field selection `.f`, indexing `[k]`,
// dereference `*`, slicing `[a:b]` and type assertion; look at where that path stands:
//
//	written:  left side of any assignment (`x = ..`, `x[k] = ..`, `x.f = ..`, `x += ..`,
//	          `x = append(x, ..)`), `x++ / x--`, key or value variable of a `range` with `=`,
//	          operand of `&`, first argument of delete / append / copy / clear,
//	          receiver of a method with a pointer receiver (address taken implicitly),
//	          receiver of any method when the path's type can reach shared memory (see below),
//	          the function position of a call (a closure may carry state)
//	read:     argument of len / cap, operand of `range`, operand of a comparison or other
//	          binary / unary operator, switch tag, condition
//	escapes:  ANY other position (argument of a call or conversion, right side of an
//	          assignment or definition, initialiser, return value, element of a composite
//	          literal, channel send, operand of a `range` that binds the element to a variable,
//	          ...) counts as written when the type of the path can reach shared memory, i.e.
//	          contains a pointer, slice, map, channel, func or interface (a callee or an
//	          alias could mutate what the variable refers to); it is a read when the type is
//	          built from basic types (strings are immutable), arrays and structs only.
//
// Occurrences of package-level variables of OTHER packages (unicode.Categories, io.EOF,
// os.Args, ...; through a qualified identifier or a dot import) go through the same
// classification and are listed in foreign_vars / foreign_var_uses: package jen must not keep
// state in somebody else's variable.  Calling a func-typed path (`x()`, `x[k]()`, `x.f()`) is
// flagged as well: a func value is a closure and may carry state the scan cannot see.
//
// Further definitions (the file set and what the scan cannot look into):
//
//	package_var_types : list (str * (str * bool))
//	    per package-level variable its type, printed with FULL package paths (a type named
//	    `string` declared in jen prints as github.com/dave/jennifer/jen.string), and whether a
//	    value of the type can reach shared memory (pointer, slice, map, chan, func, interface,
//	    unsafe.Pointer anywhere inside); the Coq side decides which reaching types are allowed
//	foreign_vars      : list (str * bool)       "pkgpath.Name", flag as in package_vars
//	foreign_var_uses  : list (str * list str)
//	foreign_funcs     : list (str * str)        (package path, name) of every package-level
//	                                            function of another package that jen mentions
//	jen_imports       : list str                every import path of the scanned files ("C" too)
//	excluded_go_files : list str                non-test .go files of jen/ NOT compiled under at
//	                                            least one of {cgo on, off} x {race, no race}
//	non_go_sources    : list str                .s .c .h .syso ... files in jen/
//	bodiless_funcs    : list str                func declarations without body, //go:linkname
//
// File set (tools/internal/srcset): the scan reads the UNION of the files compiled under
// {cgo on, cgo off} x {race, no race} for this GOOS/GOARCH/toolchain - CGO_ENABLED of the
// environment is not consulted.  The union is type-checked as one package; if that fails (a
// `cgo` file and its `!cgo` twin declare the same names) every distinct configuration is
// type-checked and scanned on its own and the rows are merged (a variable is flagged when some
// configuration flags it).  The build context is rooted at <repo>, so in-module imports
// resolve wherever the translator is started; import "C" is accepted by the type checker
// (FakeImportC) and shows up in jen_imports.
//
// The scan is deliberately conservative: hoisting `regexp.MustCompile(..)` to a package-level
// variable and calling a method on it sets the flag (a *regexp.Regexp is a pointer), and the
// obligation C09_no_mutable_globals then asks for a human decision.
package main

import (
	"fmt"
	"go/ast"
	"go/importer"
	"go/parser"
	"go/token"
	"go/types"
	"os"
	"path/filepath"
	"sort"
	"strings"

	"veriftools/coqfmt"
	"veriftools/internal/srcset"
)

func die(format string, a ...interface{}) {
	fmt.Fprintf(os.Stderr, "globals2coq: "+format+"\n", a...)
	os.Exit(2)
}

var fset = token.NewFileSet()

func pos(n ast.Node) string {
	p := fset.Position(n.Pos())
	return fmt.Sprintf("%s:%d", filepath.Base(p.Filename), p.Line)
}

// sharedReach: can a value of type t reach memory shared with other holders of the value?
func sharedReach(t types.Type, seen map[types.Type]bool) bool {
	if t == nil {
		return true
	}
	if seen[t] {
		return false
	}
	seen[t] = true
	switch u := t.Underlying().(type) {
	case *types.Basic:
		return u.Kind() == types.UnsafePointer || u.Kind() == types.UntypedNil
	case *types.Array:
		return sharedReach(u.Elem(), seen)
	case *types.Struct:
		for i := 0; i < u.NumFields(); i++ {
			if sharedReach(u.Field(i).Type(), seen) {
				return true
			}
		}
		return false
	case *types.Tuple:
		for i := 0; i < u.Len(); i++ {
			if sharedReach(u.At(i).Type(), seen) {
				return true
			}
		}
		return false
	default: // pointer, slice, map, chan, signature, interface, type parameter
		return true
	}
}

func reach(t types.Type) bool { return sharedReach(t, map[types.Type]bool{}) }

// hasFunc: is t a func type or a slice/array/map/pointer/chan of one?
func hasFunc(t types.Type, depth int) bool {
	if t == nil || depth > 8 {
		return false
	}
	switch u := t.Underlying().(type) {
	case *types.Signature:
		return true
	case *types.Slice:
		return hasFunc(u.Elem(), depth+1)
	case *types.Array:
		return hasFunc(u.Elem(), depth+1)
	case *types.Pointer:
		return hasFunc(u.Elem(), depth+1)
	case *types.Chan:
		return hasFunc(u.Elem(), depth+1)
	case *types.Map:
		return hasFunc(u.Key(), depth+1) || hasFunc(u.Elem(), depth+1)
	}
	return false
}

type scanner struct {
	pkg      *types.Package
	info     *types.Info
	vars     map[*types.Var]int // package-level variable -> index in rows
	rows     []*varRow
	fvars    map[string]int // "pkgpath.Name" of a package-level variable of another package -> index in frows
	frows    []*varRow
	declID   map[*ast.Ident]bool // identifiers that are the declaring occurrence
	sync     []string
	problems []string
}

type varRow struct {
	name  string
	decl  string
	typ   string
	full  string   // the type with full package paths
	reach bool     // the type can reach shared memory
	flags []string // occurrences that set the flag
	reads int
}

func (s *scanner) isBuiltin(fun ast.Expr, names ...string) bool {
	for {
		p, ok := fun.(*ast.ParenExpr)
		if !ok {
			break
		}
		fun = p.X
	}
	id, ok := fun.(*ast.Ident)
	if !ok {
		return false
	}
	if _, isb := s.info.Uses[id].(*types.Builtin); !isb {
		return false
	}
	for _, n := range names {
		if id.Name == n {
			return true
		}
	}
	return false
}

func (s *scanner) typeOf(e ast.Expr) types.Type {
	if tv, ok := s.info.Types[e]; ok {
		return tv.Type
	}
	if id, ok := e.(*ast.Ident); ok {
		if o := s.info.Uses[id]; o != nil {
			return o.Type()
		}
	}
	return nil
}

// classify one occurrence of a package-level variable; stack = ancestors of id (outermost first)
func (s *scanner) classify(id *ast.Ident, row *varRow, stack []ast.Node) {
	flag := func(n ast.Node, why string) { row.flags = append(row.flags, pos(n)+": "+why) }
	var e ast.Expr = id
	i := len(stack) - 1
	// grow the access path
	for i >= 0 {
		grown := false
		switch p := stack[i].(type) {
		case *ast.ParenExpr:
			grown = true
		case *ast.StarExpr:
			grown = true
		case *ast.TypeAssertExpr:
			grown = p.X == e
		case *ast.IndexExpr:
			grown = p.X == e
		case *ast.SliceExpr:
			grown = p.X == e
		case *ast.SelectorExpr:
			if p.X == e {
				if sel, ok := s.info.Selections[p]; ok && sel.Kind() == types.FieldVal {
					grown = true
				}
			} else if p.Sel == e {
				// qualified identifier pkg.Name: the selector IS the variable
				if x, ok := p.X.(*ast.Ident); ok {
					if _, isPkg := s.info.Uses[x].(*types.PkgName); isPkg {
						grown = true
					}
				}
			}
		}
		if !grown {
			break
		}
		e = stack[i].(ast.Expr)
		i--
	}
	if i < 0 {
		s.problems = append(s.problems, pos(id)+": "+row.name+" in an unknown position")
		flag(id, "unknown position")
		return
	}
	t := s.typeOf(e)
	escape := func(what string) {
		if reach(t) {
			ts := "?"
			if t != nil {
				ts = types.TypeString(t, types.RelativeTo(s.pkg))
			}
			flag(e, what+" (type "+ts+" can reach shared memory)")
		} else {
			row.reads++
		}
	}
	switch p := stack[i].(type) {
	case *ast.AssignStmt:
		for _, l := range p.Lhs {
			if l == e {
				flag(e, "assigned ("+p.Tok.String()+")")
				return
			}
		}
		escape("right side of an assignment")
	case *ast.IncDecStmt:
		flag(e, "inc/dec ("+p.Tok.String()+")")
	case *ast.UnaryExpr:
		switch p.Op {
		case token.AND:
			flag(e, "address taken")
		case token.ARROW:
			flag(e, "channel receive")
		default:
			row.reads++
		}
	case *ast.BinaryExpr:
		row.reads++
	case *ast.CallExpr:
		if p.Fun == e {
			// a func value is a closure: it may carry state that no scan of the variable sees
			flag(e, "called (a func value may carry state)")
			return
		}
		first := len(p.Args) > 0 && p.Args[0] == e
		switch {
		case s.isBuiltin(p.Fun, "len", "cap"):
			row.reads++
		case s.isBuiltin(p.Fun, "delete", "append", "copy", "clear") && first:
			flag(e, "first argument of "+p.Fun.(*ast.Ident).Name)
		default:
			escape("argument of a call or conversion")
		}
	case *ast.SelectorExpr:
		// p.X == e and the selection is a method (field selections were absorbed above)
		sel, ok := s.info.Selections[p]
		if !ok || p.X != e {
			s.problems = append(s.problems, pos(p)+": unresolved selector on "+row.name)
			flag(p, "unresolved selector")
			return
		}
		ptrRecv := false
		if sig, ok := sel.Obj().Type().(*types.Signature); ok && sig.Recv() != nil {
			_, ptrRecv = sig.Recv().Type().(*types.Pointer)
		}
		_, isPtr := t.Underlying().(*types.Pointer)
		switch {
		case ptrRecv && !isPtr:
			flag(p, "method "+p.Sel.Name+" with pointer receiver (address taken)")
		case reach(t):
			flag(p, "method "+p.Sel.Name+" on a value that can reach shared memory")
		default:
			row.reads++
		}
	case *ast.RangeStmt:
		switch {
		case p.Key == e || p.Value == e:
			flag(e, "range variable (assigned)")
		case p.X == e:
			bound := false
			if v, ok := p.Value.(*ast.Ident); p.Value != nil && !(ok && v.Name == "_") {
				bound = true
			}
			var elem, key types.Type
			switch u := t.Underlying().(type) {
			case *types.Slice:
				elem = u.Elem()
			case *types.Array:
				elem = u.Elem()
			case *types.Map:
				elem, key = u.Elem(), u.Key()
			case *types.Pointer:
				if a, ok := u.Elem().Underlying().(*types.Array); ok {
					elem = a.Elem()
				}
			case *types.Chan:
				flag(e, "range over a channel (receive)")
				return
			}
			kbound := false
			if k, ok := p.Key.(*ast.Ident); p.Key != nil && !(ok && k.Name == "_") {
				kbound = true
			}
			if (bound && elem != nil && reach(elem)) || (kbound && key != nil && reach(key)) {
				flag(e, "range binds elements that can reach shared memory")
			} else {
				row.reads++
			}
		default:
			row.reads++ // inside the body; cannot happen for the path itself
		}
	case *ast.IfStmt, *ast.ForStmt, *ast.SwitchStmt, *ast.CaseClause, *ast.ExprStmt:
		row.reads++
	case *ast.IndexExpr:
		// the path is the index, not the indexed value
		escape("index of another expression")
	case *ast.SendStmt:
		if p.Chan == e {
			flag(e, "channel send")
		} else {
			escape("value sent on a channel")
		}
	case *ast.ReturnStmt:
		escape("returned")
	case *ast.ValueSpec:
		escape("initialiser of another variable")
	case *ast.KeyValueExpr, *ast.CompositeLit:
		escape("element of a composite literal")
	case *ast.TypeSwitchStmt:
		escape("type switch")
	case *ast.DeferStmt, *ast.GoStmt:
		escape("deferred / go call")
	default:
		escape(fmt.Sprintf("used in a %T", p))
	}
}

// result of scanning one type-checked set of files
type result struct {
	rows, frows []*varRow
	consts      []string // positions of the constant declarations
	inits       []string
	funcFields  []string
	sync        []string
	problems    []string
	ffuncs      [][2]string // (package path, name) of package-level functions of other packages
}

const jenPath = "github.com/dave/jennifer/jen"

// scanFiles type-checks the files as package jen and scans them.
func scanFiles(files []*ast.File) (*result, error) {
	info := &types.Info{
		Types:      map[ast.Expr]types.TypeAndValue{},
		Uses:       map[*ast.Ident]types.Object{},
		Defs:       map[*ast.Ident]types.Object{},
		Selections: map[*ast.SelectorExpr]*types.Selection{},
	}
	conf := types.Config{Importer: importer.ForCompiler(fset, "source", nil), FakeImportC: true}
	pkg, err := conf.Check(jenPath, fset, files, info)
	if err != nil {
		return nil, err
	}
	s := &scanner{pkg: pkg, info: info, vars: map[*types.Var]int{}, fvars: map[string]int{}, declID: map[*ast.Ident]bool{}}
	r := &result{}

	// ---- declarations: package-level vars, consts, init functions -------------------
	for _, f := range files {
		for _, d := range f.Decls {
			switch d := d.(type) {
			case *ast.GenDecl:
				for _, sp := range d.Specs {
					vs, ok := sp.(*ast.ValueSpec)
					if !ok {
						continue
					}
					for _, id := range vs.Names {
						if d.Tok == token.CONST {
							r.consts = append(r.consts, pos(id))
							continue
						}
						if id.Name == "_" {
							continue
						}
						v, ok := info.Defs[id].(*types.Var)
						if !ok {
							s.problems = append(s.problems, pos(id)+": no object for var "+id.Name)
							continue
						}
						s.declID[id] = true
						s.vars[v] = len(s.rows)
						s.rows = append(s.rows, &varRow{name: id.Name, decl: pos(id),
							typ:  types.TypeString(v.Type(), types.RelativeTo(pkg)),
							full: types.TypeString(v.Type(), nil), reach: reach(v.Type())})
					}
				}
			case *ast.FuncDecl:
				if d.Recv == nil && d.Name.Name == "init" {
					r.inits = append(r.inits, pos(d))
				}
			}
		}
	}

	// ---- occurrences of package-level variables, sync / goroutine / channel uses ------
	seenFunc := map[[2]string]bool{}
	for _, f := range files {
		for _, im := range f.Imports {
			if im.Path.Value == `"sync"` || im.Path.Value == `"sync/atomic"` {
				s.sync = append(s.sync, pos(im)+": import "+strings.Trim(im.Path.Value, `"`))
			}
		}
		var stack []ast.Node
		ast.Inspect(f, func(x ast.Node) bool {
			if x == nil {
				stack = stack[:len(stack)-1]
				return true
			}
			switch n := x.(type) {
			case *ast.Ident:
				if o := info.Uses[n]; o != nil {
					if v, ok := o.(*types.Var); ok {
						if k, ok := s.vars[v]; ok {
							s.classify(n, s.rows[k], stack)
						} else if v.Pkg() != nil && v.Pkg() != pkg && !v.IsField() && v.Parent() == v.Pkg().Scope() {
							// a package-level variable of ANOTHER package
							key := v.Pkg().Path() + "." + v.Name()
							k, ok := s.fvars[key]
							if !ok {
								k = len(s.frows)
								s.fvars[key] = k
								s.frows = append(s.frows, &varRow{name: key, decl: pos(n),
									typ:  types.TypeString(v.Type(), types.RelativeTo(pkg)),
									full: types.TypeString(v.Type(), nil), reach: reach(v.Type())})
							}
							s.classify(n, s.frows[k], stack)
						}
					}
					if fn, ok := o.(*types.Func); ok && fn.Pkg() != nil && fn.Pkg() != pkg {
						if sig, ok := fn.Type().(*types.Signature); ok && sig.Recv() == nil {
							key := [2]string{fn.Pkg().Path(), fn.Name()}
							if !seenFunc[key] {
								seenFunc[key] = true
								r.ffuncs = append(r.ffuncs, key)
							}
						}
					}
					if o.Pkg() != nil && (o.Pkg().Path() == "sync" || o.Pkg().Path() == "sync/atomic") {
						s.sync = append(s.sync, pos(n)+": "+o.Pkg().Path()+"."+o.Name())
					}
				}
			case *ast.GoStmt:
				s.sync = append(s.sync, pos(n)+": go statement")
			case *ast.ChanType:
				s.sync = append(s.sync, pos(n)+": channel type")
			case *ast.SendStmt:
				s.sync = append(s.sync, pos(n)+": channel send")
			case *ast.SelectStmt:
				s.sync = append(s.sync, pos(n)+": select")
			case *ast.UnaryExpr:
				if n.Op == token.ARROW {
					s.sync = append(s.sync, pos(n)+": channel receive")
				}
			case *ast.TypeSpec:
				tn, ok := info.Defs[n.Name].(*types.TypeName)
				if !ok {
					break
				}
				if st, ok := tn.Type().Underlying().(*types.Struct); ok {
					for i := 0; i < st.NumFields(); i++ {
						fl := st.Field(i)
						if hasFunc(fl.Type(), 0) {
							r.funcFields = append(r.funcFields, fmt.Sprintf("%s.%s: %s", n.Name.Name, fl.Name(),
								types.TypeString(fl.Type(), types.RelativeTo(pkg))))
						}
						if reachesSync(fl.Type()) {
							s.sync = append(s.sync, fmt.Sprintf("%s: field %s.%s of a sync type", pos(n), n.Name.Name, fl.Name()))
						}
					}
				}
			}
			stack = append(stack, x)
			return true
		})
	}
	r.rows, r.frows, r.sync, r.problems = s.rows, s.frows, s.sync, s.problems
	return r, nil
}

// merge adds the findings of b to a: rows are identified by name and declaring position
// (foreign rows by name), a flag set in either stays set, lists are united in order.
func merge(a, b *result) {
	mergeRows := func(dst *[]*varRow, src []*varRow, foreign bool) {
		for _, r := range src {
			var hit *varRow
			for _, d := range *dst {
				if d.name == r.name && (foreign || d.decl == r.decl) {
					hit = d
					break
				}
			}
			if hit == nil {
				*dst = append(*dst, r)
				continue
			}
			hit.flags = union(hit.flags, r.flags)
			if r.reads > hit.reads {
				hit.reads = r.reads
			}
			if r.full != hit.full {
				hit.flags = union(hit.flags, []string{r.decl + ": type " + r.full + " in another configuration"})
			}
			hit.reach = hit.reach || r.reach
		}
	}
	mergeRows(&a.rows, b.rows, false)
	mergeRows(&a.frows, b.frows, true)
	a.consts = union(a.consts, b.consts)
	a.inits = union(a.inits, b.inits)
	a.funcFields = union(a.funcFields, b.funcFields)
	a.sync = union(a.sync, b.sync)
	a.problems = union(a.problems, b.problems)
	for _, f := range b.ffuncs {
		dup := false
		for _, g := range a.ffuncs {
			dup = dup || f == g
		}
		if !dup {
			a.ffuncs = append(a.ffuncs, f)
		}
	}
}

func union(a, b []string) []string {
	seen := map[string]bool{}
	for _, x := range a {
		seen[x] = true
	}
	for _, x := range b {
		if !seen[x] {
			seen[x] = true
			a = append(a, x)
		}
	}
	return a
}

func main() {
	if len(os.Args) < 2 {
		die("usage: globals2coq <repo>")
	}
	repo := os.Args[1]
	// in-module imports resolve from <repo>/go.mod, wherever the translator was started
	if err := srcset.UseRepo(repo); err != nil {
		die("%v", err)
	}
	set, err := srcset.Load(repo)
	if err != nil {
		die("%v", err)
	}
	if len(set.Union) == 0 {
		die("no Go files in %s", set.Dir)
	}
	parsed := map[string]*ast.File{}
	importSet := map[string]bool{}
	var bodiless []string
	for _, name := range set.Union {
		f, err := parser.ParseFile(fset, filepath.Join(set.Dir, name), nil, parser.ParseComments)
		if err != nil {
			die("%v", err)
		}
		if f.Name.Name != "jen" {
			die("%s: package %s, expected jen", name, f.Name.Name)
		}
		parsed[name] = f
		for _, im := range f.Imports {
			importSet[strings.Trim(im.Path.Value, "`\"")] = true
		}
		bodiless = append(bodiless, srcset.BodilessIn(fset, f)...)
	}
	astFiles := func(names []string) []*ast.File {
		var l []*ast.File
		for _, n := range names {
			l = append(l, parsed[n])
		}
		return l
	}
	mode := "the union of all configurations, type-checked as one package"
	res, uerr := scanFiles(astFiles(set.Union))
	if uerr != nil {
		// the union is not one package (e.g. a cgo file and its !cgo twin): scan every distinct
		// configuration on its own and merge
		if set.Uniform() {
			die("package jen does not type-check: %v", uerr)
		}
		cnames, lists := set.DistinctConfigs()
		mode = "per configuration (" + strings.Join(cnames, "; ") + "), the union does not type-check: " + uerr.Error()
		res = nil
		for i, l := range lists {
			r, err := scanFiles(astFiles(l))
			if err != nil {
				die("package jen does not type-check under %s: %v", cnames[i], err)
			}
			if res == nil {
				res = r
			} else {
				merge(res, r)
			}
		}
	}
	sort.Strings(res.funcFields)
	sort.Slice(res.ffuncs, func(i, j int) bool {
		if res.ffuncs[i][0] != res.ffuncs[j][0] {
			return res.ffuncs[i][0] < res.ffuncs[j][0]
		}
		return res.ffuncs[i][1] < res.ffuncs[j][1]
	})
	var imports []string
	for p := range importSet {
		imports = append(imports, p)
	}
	sort.Strings(imports)

	// ---- output ------------------------------------------------------------------------
	out := os.Stdout
	fmt.Fprintf(out, "(* GENERATED by tools/cmd/globals2coq from %s - do not edit *)\n", repo)
	fmt.Fprintf(out, "(* scanned: %s *)\n", strings.Join(set.Union, " "))
	fmt.Fprintf(out, "(* scan mode: %s *)\n", commentSafe(mode))
	fmt.Fprintln(out, "From Jen Require Import Base.Bytes.")
	fmt.Fprintln(out)
	rowsOut := func(rows []*varRow) (es, us, ts []string) {
		for _, r := range rows {
			es = append(es, fmt.Sprintf("(%s, %s)  (* %s  %s  reads: %d *)", coqfmt.Str(r.name), coqfmt.Bool(len(r.flags) > 0),
				r.decl, commentSafe(r.typ), r.reads))
			var fs []string
			for _, f := range r.flags {
				fs = append(fs, coqfmt.Str(f))
			}
			us = append(us, fmt.Sprintf("(%s, %s)", coqfmt.Str(r.name), coqfmt.List(fs, "    ")))
			ts = append(ts, fmt.Sprintf("(%s, (%s, %s))", coqfmt.Str(r.name), coqfmt.Str(r.full), coqfmt.Bool(r.reach)))
		}
		return
	}
	es, us, ts := rowsOut(res.rows)
	fmt.Fprintln(out, "(* every package-level var of package jen; true = some occurrence outside its declaration")
	fmt.Fprintln(out, "   may write it or hand out a reference through which it can be written *)")
	fmt.Fprintf(out, "Definition package_vars : list (str * bool) := %s.\n\n", listWithComments(es, "  "))
	fmt.Fprintln(out, "(* the occurrences that set the flag *)")
	fmt.Fprintf(out, "Definition package_var_uses : list (str * list str) := %s.\n\n", coqfmt.List(us, "  "))
	fmt.Fprintln(out, "(* the type of every package-level var (full package paths) and whether a value of the type")
	fmt.Fprintln(out, "   can reach shared memory (pointer, slice, map, chan, func, interface inside) *)")
	fmt.Fprintf(out, "Definition package_var_types : list (str * (str * bool)) := %s.\n\n", coqfmt.List(ts, "  "))
	fes, fus, _ := rowsOut(res.frows)
	fmt.Fprintln(out, "(* package-level vars of OTHER packages that package jen mentions; same flag *)")
	fmt.Fprintf(out, "Definition foreign_vars : list (str * bool) := %s.\n\n", listWithComments(fes, "  "))
	fmt.Fprintf(out, "Definition foreign_var_uses : list (str * list str) := %s.\n\n", coqfmt.List(fus, "  "))
	var ffs []string
	for _, f := range res.ffuncs {
		ffs = append(ffs, fmt.Sprintf("(%s, %s)", coqfmt.Str(f[0]), coqfmt.Str(f[1])))
	}
	fmt.Fprintln(out, "(* package-level functions of other packages that package jen mentions: (import path, name) *)")
	fmt.Fprintf(out, "Definition foreign_funcs : list (str * str) := %s.\n\n", coqfmt.List(ffs, "  "))
	fmt.Fprintf(out, "Definition package_consts_count : nat := %d.\n\n", len(res.consts))
	fmt.Fprintf(out, "Definition init_funcs : list str := %s.\n\n", coqfmt.List(strs(res.inits), "  "))
	fmt.Fprintln(out, "(* struct fields of func type in types declared in package jen *)")
	fmt.Fprintf(out, "Definition func_fields : list str := %s.\n\n", coqfmt.List(strs(res.funcFields), "  "))
	fmt.Fprintln(out, "(* uses of sync.*, sync/atomic.*, go statements, channels *)")
	fmt.Fprintf(out, "Definition global_sync : list str := %s.\n\n", coqfmt.List(strs(res.sync), "  "))
	fmt.Fprintln(out, "(* every import path of the scanned files *)")
	fmt.Fprintf(out, "Definition jen_imports : list str := %s.\n\n", coqfmt.List(strs(imports), "  "))
	fmt.Fprintln(out, "(* non-test .go files of jen/ that are NOT compiled under at least one of")
	fmt.Fprintln(out, "   {cgo on, cgo off} x {race, no race} on this GOOS/GOARCH (custom tags, other platforms, _x.go) *)")
	fmt.Fprintf(out, "Definition excluded_go_files : list str := %s.\n\n", coqfmt.List(strs(set.Excluded), "  "))
	fmt.Fprintln(out, "(* files of jen/ that are not Go but that the go tool compiles or links into the package *)")
	fmt.Fprintf(out, "Definition non_go_sources : list str := %s.\n\n", coqfmt.List(strs(set.NonGo), "  "))
	fmt.Fprintln(out, "(* function declarations without a body, go:linkname directives *)")
	fmt.Fprintf(out, "Definition bodiless_funcs : list str := %s.\n\n", coqfmt.List(strs(bodiless), "  "))
	fmt.Fprintf(out, "(* occurrences the scanner could not classify; must be empty *)\nDefinition globals_problems : list str := %s.\n",
		coqfmt.List(strs(res.problems), "  "))
}

// reachesSync: does the type mention a type of package sync or sync/atomic (shallowly)?
func reachesSync(t types.Type) bool {
	for d := 0; d < 8 && t != nil; d++ {
		if n, ok := t.(*types.Named); ok {
			if p := n.Obj().Pkg(); p != nil && (p.Path() == "sync" || p.Path() == "sync/atomic") {
				return true
			}
		}
		switch u := t.(type) {
		case *types.Pointer:
			t = u.Elem()
		case *types.Slice:
			t = u.Elem()
		case *types.Array:
			t = u.Elem()
		case *types.Map:
			t = u.Elem()
		default:
			return false
		}
	}
	return false
}

func strs(l []string) []string {
	var r []string
	for _, x := range l {
		r = append(r, coqfmt.Str(x))
	}
	return r
}

func commentSafe(s string) string {
	s = strings.ReplaceAll(s, "(*", "( *")
	s = strings.ReplaceAll(s, "*)", "* )")
	return strings.ReplaceAll(s, `"`, "'")
}

// listWithComments prints a Coq list whose elements carry a trailing comment: the
// separator has to go before the comment.
func listWithComments(elems []string, indent string) string {
	if len(elems) == 0 {
		return "[]"
	}
	var b strings.Builder
	b.WriteString("[\n")
	for i, e := range elems {
		k := strings.Index(e, "  (*")
		body, cm := e, ""
		if k >= 0 {
			body, cm = e[:k], e[k:]
		}
		b.WriteString(indent + body)
		if i < len(elems)-1 {
			b.WriteString(";")
		}
		b.WriteString(cm + "\n")
	}
	b.WriteString(indent + "]")
	return b.String()
}
