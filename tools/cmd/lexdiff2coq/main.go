// lexdiff: differential tie between the scanner model GoStd/Tokens.v (golex) and go/scanner.
//
// It runs go/scanner over a fixed list of hand-written texts, a few hundred pseudo-random
// "soups" of operators / words / numbers / strings / comments put side by side with and
// without blanks (fixed seed), and any texts given as hex lines in the files named on the
// command line (e.g. the unformatted output of real jennifer), and writes a Coq file
//
//	Definition lexdiff_cases : list (str * option (list tok)) := [ (text, expected); ... ].
//	Example lexdiff_agree : forallb (fun c => otoks_eqb (golex (fst c)) (snd c)) lexdiff_cases = true.
//
// expected = Some tokens when go/scanner reports no error and every token is of a class of
// the model; None otherwise.  The automatic semicolons (token ";" with literal "\n") are
// dropped: the model has no semicolon insertion.  The model is conservative on purpose, and
// the same rules are applied here to go/scanner's answer (expected None):
//   - an INT literal that is not a plain decimal (0x.., 0b.., 0o.., 1_0, leading 0) or that is
//     directly followed by a letter, digit, `_` or `.`;
//   - a non-ASCII identifier, FLOAT, IMAG, CHAR, a raw STRING, ILLEGAL;
//   - any scanner error.
//
// usage: lexdiff [-n N] [-tsv] [hexfile ...]   (Coq file, or with -tsv: hex(text) TAB tokens)
package main

import (
	"bufio"
	"encoding/hex"
	"flag"
	"fmt"
	"go/scanner"
	"go/token"
	"math/rand"
	"os"
	"strings"
)

type tk struct {
	class string // KIdent KKeyword KInt KString KOp
	text  string
}

func isLetter(c byte) bool { return c == '_' || 'a' <= c && c <= 'z' || 'A' <= c && c <= 'Z' }
func isDigit(c byte) bool  { return '0' <= c && c <= '9' }

func expect(src []byte) ([]tk, bool) {
	fset := token.NewFileSet()
	file := fset.AddFile("x.go", fset.Base(), len(src))
	nerr := 0
	var s scanner.Scanner
	s.Init(file, src, func(token.Position, string) { nerr++ }, 0)
	var out []tk
	ok := true
	for {
		pos, t, lit := s.Scan()
		if t == token.EOF {
			break
		}
		off := file.Offset(pos)
		switch {
		case t == token.SEMICOLON && lit == "\n":
			// automatic semicolon: not a token of the text
		case t == token.IDENT:
			for i := 0; i < len(lit); i++ {
				if lit[i] >= 0x80 {
					ok = false
				}
			}
			out = append(out, tk{"KIdent", lit})
		case t.IsKeyword():
			out = append(out, tk{"KKeyword", t.String()})
		case t == token.INT:
			for i := 0; i < len(lit); i++ {
				if !isDigit(lit[i]) {
					ok = false
				}
			}
			if len(lit) > 1 && lit[0] == '0' {
				ok = false
			}
			if e := off + len(lit); e < len(src) && (isLetter(src[e]) || isDigit(src[e]) || src[e] == '.') {
				ok = false
			}
			out = append(out, tk{"KInt", lit})
		case t == token.STRING:
			if lit[0] != '"' {
				ok = false
			}
			out = append(out, tk{"KString", lit})
		case t.IsOperator():
			out = append(out, tk{"KOp", t.String()})
		default: // FLOAT IMAG CHAR ILLEGAL COMMENT
			ok = false
		}
	}
	if nerr > 0 {
		ok = false
	}
	return out, ok
}

var hand = []string{
	// GoStd/Tokens.v golex_examples
	"a+++b", "a + +b", "x<-1", "x< -1", "a&^b &^= c & ^d", "a... .. b", "iffy if",
	"f(\"a//b\\\"\")/*c*/ // d", "a / /b", "a //b", "1.", "x.5", "12ab", "0x1", "07", "0", "'a'",
	"\"abc", "/* x", "/*/", "\xc3\xa9",
	// Props/C01_tokens.v: adjacencies and the hypothesis examples
	"a - - b", "x & ^ y", "p < -1", "<- -1", "* p ++", "a / * p", "a (2 ...)", "1 . x", "if", "a+b", " ()",
	"a [:=b]", "a [:-1]", "a [::]",
	// the same without blanks
	"a--b", "x&^y", "p<-1", "<--1", "*p++", "a/*p", "a(2...)", "1.x", "a[:-1]", "a[::]",
	// more
	"", " ", "\n", "\t\r\n", ";", ";\n;", "a\nb", "return\n}", "x++\ny--", "<<=>>=&^=...", "<<<<==", ">>>=>", "&&&&^&^^=",
	"|||=", "!!=", "===", ":=:", "::=", "~~", "....", ". . .", "..", ".", "a.b.c", "a .b", "1 ...", "1...", "1 .", "1 .5",
	"/**/", "/***/", "/* * / */x", "/*/ */y", "//", "//\n", "// c\nx", "x//c", "x/ /c", "x/=/y", "x/==y",
	"\"\"", "\"\\\"\"", "\"\\\\\"", "\"\\n\"", "\"\\q\"", "\"\\x41\"", "\"\\400\"", "\"\\377\"", "\"\\u00e9\"", "\"\\ud800\"",
	"\"\\U0010ffff\"", "\"\\U00110000\"", "\"a\nb\"", "\"é\"", "\"a\"\"b\"", "\"a\"b", "x\"a\"", "1\"a\"", "`raw`", "'\\''",
	"_", "_1", "a1b2", "A_Z", "x1 1x", "0 00 0_0 0b1 0o7 1e3 1i 1.0 1_000", "00", "10 01",
	"func f(){}", "map[string][]int{}", "case 1,-2:", "default:", "break L", "go func(){}()", "chan<- int", "<-chan int",
	"a<-b", "a< -b", "a<- -b", "a<--b", "i++ +j", "i+++j", "i+ ++j", "i---j", "i- --j", "x&&&y", "x& &y", "x&^&y",
	"#", "$", "?", "@", "\\", "a#b", "a\x00b", "\x0c", "\x0b", "é", "aé", "×",
	"package p\n\n\nfunc f (p * int,m map[string] [] int) int {\nvar s = \"// not\"\n}",
}

var pieces = []string{
	"+", "-", "*", "/", "%", "&", "|", "^", "<<", ">>", "&^", "+=", "-=", "*=", "/=", "%=", "&=", "|=", "^=", "<<=", ">>=",
	"&^=", "&&", "||", "<-", "++", "--", "==", "<", ">", "=", "!", "~", "!=", "<=", ">=", ":=", "...", "(", ")", "[", "]",
	"{", "}", ",", ";", ".", ":",
	"+", "-", "<", "&", "^", "/", "*", ".", "=", ":", "|", ">", "!", // the mergeable ones, more often
	"a", "b", "x1", "_y", "if", "for", "func", "iffy", "go", "goto", "nil", "true", "Z",
	"0", "1", "12", "345", "9",
	"007", "0x1f", "1.5", "1e3",
	"\"s\"", "\"a//b\"", "\"\\\"\"", "\"/*\"",
	"/* c */", "// c\n", "/**/",
	"'a'", "`r`", "#", "é",
}

var seps = []string{"", "", "", "", " ", " ", "\n", "\t", "  ", " \n"}

func soups(n int, seed int64) []string {
	r := rand.New(rand.NewSource(seed))
	var out []string
	for i := 0; i < n; i++ {
		var b strings.Builder
		m := 2 + r.Intn(7)
		for j := 0; j < m; j++ {
			var p string
			if r.Intn(10) < 9 {
				p = pieces[r.Intn(len(pieces)-4)] // rarely the pieces outside the model
			} else {
				p = pieces[r.Intn(len(pieces))]
			}
			b.WriteString(p)
			b.WriteString(seps[r.Intn(len(seps))])
		}
		out = append(out, b.String())
	}
	// raw byte soups over a small alphabet
	alpha := "+-*/%&|^<>=!~:.,;()[]{} ab1_0\"\n"
	for i := 0; i < n/4; i++ {
		m := 1 + r.Intn(10)
		bs := make([]byte, m)
		for j := range bs {
			bs[j] = alpha[r.Intn(len(alpha))]
		}
		out = append(out, string(bs))
	}
	return out
}

func coqBytes(s string) string {
	if len(s) == 0 {
		return "[]"
	}
	var b strings.Builder
	b.WriteString("[")
	for i := 0; i < len(s); i++ {
		if i > 0 {
			b.WriteString(";")
		}
		fmt.Fprintf(&b, "x%02x", s[i])
	}
	b.WriteString("]")
	return b.String()
}

func main() {
	n := flag.Int("n", 240, "number of random soups (plus n/4 raw byte soups)")
	tsv := flag.Bool("tsv", false, "print hex(text) TAB tokens instead of a Coq file")
	flag.Parse()
	cases := append([]string{}, hand...)
	cases = append(cases, soups(*n, 20261002)...)
	var extra []string
	for _, fn := range flag.Args() {
		f, err := os.Open(fn)
		if err != nil {
			fmt.Fprintln(os.Stderr, err)
			os.Exit(1)
		}
		sc := bufio.NewScanner(f)
		sc.Buffer(make([]byte, 1<<20), 1<<26)
		for sc.Scan() {
			line := strings.TrimSpace(sc.Text())
			if line == "" {
				continue
			}
			bs, err := hex.DecodeString(line)
			if err != nil {
				fmt.Fprintln(os.Stderr, fn, err)
				os.Exit(1)
			}
			extra = append(extra, string(bs))
		}
		f.Close()
	}
	cases = append(cases, extra...)
	seen := map[string]bool{}
	w := bufio.NewWriter(os.Stdout)
	defer w.Flush()
	nsome, nnone := 0, 0
	var lines []string
	for _, c := range cases {
		if seen[c] {
			continue
		}
		seen[c] = true
		toks, ok := expect([]byte(c))
		if *tsv {
			if !ok {
				fmt.Fprintf(w, "%s\tERR\n", hex.EncodeToString([]byte(c)))
			} else {
				var ps []string
				for _, t := range toks {
					ps = append(ps, t.class+":"+hex.EncodeToString([]byte(t.text)))
				}
				fmt.Fprintf(w, "%s\t%s\n", hex.EncodeToString([]byte(c)), strings.Join(ps, " "))
			}
			continue
		}
		if !ok {
			nnone++
			lines = append(lines, fmt.Sprintf("  (%s, None)", coqBytes(c)))
			continue
		}
		nsome++
		var ps []string
		for _, t := range toks {
			ps = append(ps, fmt.Sprintf("(%s,%s)", t.class, coqBytes(t.text)))
		}
		lines = append(lines, fmt.Sprintf("  (%s, Some [%s])", coqBytes(c), strings.Join(ps, ";")))
	}
	if *tsv {
		return
	}
	fmt.Fprintf(w, "(* GENERATED by lexdiff from go/scanner (%s) - do not edit.\n", "go/scanner of the local toolchain")
	fmt.Fprintf(w, "   %d texts: %d that go/scanner splits into tokens of the model's classes without error,\n", nsome+nnone, nsome)
	fmt.Fprintf(w, "   %d that it rejects or reads outside them (expected None).  %d of the texts came from files. *)\n", nnone, len(extra))
	fmt.Fprintf(w, "From Jen Require Import Base.Bytes GoStd.Tokens.\n\n")
	fmt.Fprintf(w, "Definition lexdiff_cases : list (str * option (list tok)) := [\n%s\n].\n\n", strings.Join(lines, ";\n"))
	fmt.Fprintf(w, `Definition tclass_eqb (a b : tclass) : bool :=
  match a, b with
  | KIdent, KIdent | KKeyword, KKeyword | KInt, KInt | KString, KString | KOp, KOp => true
  | _, _ => false
  end.
Definition tok_eqb (a b : tok) : bool := tclass_eqb (fst a) (fst b) && str_eqb (snd a) (snd b).
Fixpoint toks_eqb (a b : list tok) : bool :=
  match a, b with
  | [], [] => true
  | x :: a', y :: b' => tok_eqb x y && toks_eqb a' b'
  | _, _ => false
  end.
Definition otoks_eqb (a b : option (list tok)) : bool :=
  match a, b with
  | Some x, Some y => toks_eqb x y
  | None, None => true
  | _, _ => false
  end.

(* the model and go/scanner agree on every text, both ways *)
Example lexdiff_agree : forallb (fun c => otoks_eqb (golex (fst c)) (snd c)) lexdiff_cases = true.
Proof. vm_compute. reflexivity. Qed.

Example lexdiff_count : length lexdiff_cases = %d%%nat.
Proof. reflexivity. Qed.
`, nsome+nnone)
}
