package main

// The exact shapes of jen/generated.go (rule 1 of main.go's header).

import (
	"fmt"
	"go/ast"
	"go/token"
	"sort"
	"strings"
)

type shapeErr struct{ msg string }

func bad(format string, a ...interface{}) { panic(shapeErr{fmt.Sprintf(format, a...)}) }

func must(ok bool, format string, a ...interface{}) {
	if !ok {
		bad(format, a...)
	}
}

func isIdent(e ast.Expr, name string) bool {
	id, ok := e.(*ast.Ident)
	return ok && id.Name == name
}

func isStarOf(e ast.Expr, name string) bool {
	st, ok := e.(*ast.StarExpr)
	return ok && isIdent(st.X, name)
}

// genParams: the parameter list of a generated function.
type genParams struct {
	names    []string
	variadic bool // one `name ...Code`
	callback bool // one `f func(*Group)`
}

func (p genParams) sig() string {
	switch {
	case p.variadic:
		return "...Code"
	case p.callback:
		return "func(*Group)"
	}
	return fmt.Sprintf("%d x Code", len(p.names))
}

func readParams(ft *ast.FuncType) genParams {
	var p genParams
	must(ft.TypeParams == nil, "has type parameters")
	must(ft.Results != nil && len(ft.Results.List) == 1 && len(ft.Results.List[0].Names) == 0 &&
		isStarOf(ft.Results.List[0].Type, "Statement"), "result is not *Statement")
	special := 0
	for _, f := range ft.Params.List {
		must(len(f.Names) > 0, "unnamed parameter")
		for _, n := range f.Names {
			must(n.Name != "_", "blank parameter")
			p.names = append(p.names, n.Name)
		}
		switch t := f.Type.(type) {
		case *ast.Ident:
			must(t.Name == "Code", "parameter type %s", t.Name)
		case *ast.Ellipsis:
			must(isIdent(t.Elt, "Code") && len(f.Names) == 1, "variadic parameter is not one ...Code")
			p.variadic = true
			special++
		case *ast.FuncType:
			must(t.TypeParams == nil && t.Results == nil && len(t.Params.List) == 1 && len(t.Params.List[0].Names) == 0 &&
				isStarOf(t.Params.List[0].Type, "Group") && len(f.Names) == 1, "callback parameter is not one func(*Group)")
			p.callback = true
			special++
		default:
			bad("parameter type is not Code, ...Code or func(*Group)")
		}
	}
	must(special == 0 || len(p.names) == 1, "a variadic or callback parameter must be the only parameter")
	seen := map[string]bool{}
	for _, n := range p.names {
		must(!seen[n], "parameter %s twice", n)
		seen[n] = true
	}
	return p
}

// argsAre: the argument list is exactly the parameters in order (p... for the variadic one).
func argsAre(c *ast.CallExpr, p genParams) bool {
	if len(c.Args) != len(p.names) || (c.Ellipsis != token.NoPos) != p.variadic {
		return false
	}
	for i, a := range c.Args {
		if !isIdent(a, p.names[i]) {
			return false
		}
	}
	return true
}

func recvOf(fd *ast.FuncDecl) (name, typ string) {
	if fd.Recv == nil {
		return "", ""
	}
	must(len(fd.Recv.List) == 1 && len(fd.Recv.List[0].Names) == 1, "receiver is not `x *T`")
	st, ok := fd.Recv.List[0].Type.(*ast.StarExpr)
	must(ok, "receiver is not a pointer")
	id, ok := st.X.(*ast.Ident)
	must(ok, "receiver type is not a plain name")
	return fd.Recv.List[0].Names[0].Name, id.Name
}

// fresh: a local variable of a generated body may not collide with anything the body mentions.
func fresh(x string, recv string, p genParams, method string) {
	must(x != "_" && x != recv && x != method, "local variable %s collides", x)
	for _, n := range p.names {
		must(x != n, "local variable %s collides with a parameter", x)
	}
	for _, n := range []string{"append", "newStatement", "Group", "token", "Code", "Statement", "true", "false"} {
		must(x != n && recv != n, "identifier %s is redefined", n)
		for _, q := range p.names {
			must(q != n, "parameter named %s", n)
		}
	}
	must(recv != method, "receiver named like the method")
	for _, q := range p.names {
		must(q != method && q != recv, "parameter %s collides", q)
	}
}

// define: `x := rhs`
func define(s ast.Stmt) (string, ast.Expr) {
	as, ok := s.(*ast.AssignStmt)
	must(ok && as.Tok == token.DEFINE && len(as.Lhs) == 1 && len(as.Rhs) == 1, "first statement is not `x := ...`")
	id, ok := as.Lhs[0].(*ast.Ident)
	must(ok, "first statement is not `x := ...`")
	return id.Name, as.Rhs[0]
}

// fields: the key: value pairs of a composite literal, each key at most once.
func fields(cl *ast.CompositeLit, want ...string) map[string]ast.Expr {
	m := map[string]ast.Expr{}
	for _, el := range cl.Elts {
		kv, ok := el.(*ast.KeyValueExpr)
		must(ok, "literal element without key")
		k, ok := kv.Key.(*ast.Ident)
		must(ok, "literal key is not a field name")
		_, dup := m[k.Name]
		must(!dup, "field %s twice", k.Name)
		m[k.Name] = kv.Value
	}
	var got []string
	for k := range m {
		got = append(got, k)
	}
	sort.Strings(got)
	w := append([]string(nil), want...)
	sort.Strings(w)
	must(strings.Join(got, ",") == strings.Join(w, ","), "literal has the fields {%s}, the generated shape has {%s}", strings.Join(got, ","), strings.Join(w, ","))
	return m
}

func wantStr(m map[string]ast.Expr, k string) string {
	s, ok := strLit(m[k])
	must(ok, "%s is not a string literal", k)
	return s
}

// checkPackageForm: `return newStatement().M(params)`
func checkPackageForm(fd *ast.FuncDecl, p genParams) {
	fresh("\x00", "", p, fd.Name.Name)
	b := fd.Body.List
	must(len(b) == 1, "package function has %d statements, the generated shape is `return newStatement().%s(...)`", len(b), fd.Name.Name)
	rs, ok := b[0].(*ast.ReturnStmt)
	must(ok && len(rs.Results) == 1, "package function is not one return")
	c, ok := rs.Results[0].(*ast.CallExpr)
	must(ok, "package function does not return a call")
	sel, ok := c.Fun.(*ast.SelectorExpr)
	must(ok && sel.Sel.Name == fd.Name.Name, "package function does not delegate to the Statement method of its own name")
	ns, ok := sel.X.(*ast.CallExpr)
	must(ok && isIdent(ns.Fun, "newStatement") && len(ns.Args) == 0, "package function does not start from newStatement()")
	must(argsAre(c, p), "package function does not pass exactly its parameters, in order")
}

// checkGroupForm: `x := M(params); g.items = append(g.items, x); return x`
func checkGroupForm(fd *ast.FuncDecl, recv string, p genParams) {
	b := fd.Body.List
	must(len(b) == 3, "Group method has %d statements, the generated shape is `s := %s(...); g.items = append(g.items, s); return s`", len(b), fd.Name.Name)
	x, rhs := define(b[0])
	fresh(x, recv, p, fd.Name.Name)
	c, ok := rhs.(*ast.CallExpr)
	must(ok && isIdent(c.Fun, fd.Name.Name), "Group method does not call the package function of its own name")
	must(argsAre(c, p), "Group method does not pass exactly its parameters, in order")
	isItems := func(e ast.Expr) bool {
		sel, ok := e.(*ast.SelectorExpr)
		return ok && isIdent(sel.X, recv) && sel.Sel.Name == "items"
	}
	as, ok := b[1].(*ast.AssignStmt)
	must(ok && as.Tok == token.ASSIGN && len(as.Lhs) == 1 && len(as.Rhs) == 1 && isItems(as.Lhs[0]), "second statement is not `g.items = ...`")
	ap, ok := as.Rhs[0].(*ast.CallExpr)
	must(ok && isIdent(ap.Fun, "append") && len(ap.Args) == 2 && ap.Ellipsis == token.NoPos && isItems(ap.Args[0]) && isIdent(ap.Args[1], x),
		"second statement is not `g.items = append(g.items, %s)`", x)
	rs, ok := b[2].(*ast.ReturnStmt)
	must(ok && len(rs.Results) == 1 && isIdent(rs.Results[0], x), "last statement is not `return %s`", x)
}

// checkStatementForm returns the table row of a Statement method.
func checkStatementForm(fd *ast.FuncDecl, recv string, p genParams) (*groupRow, *tokRow) {
	m := fd.Name.Name
	b := fd.Body.List
	must(len(b) >= 1, "empty body")
	x, rhs := define(b[0])
	fresh(x, recv, p, m)
	isGroup := false
	if ue, ok := rhs.(*ast.UnaryExpr); ok && ue.Op == token.AND {
		rhs = ue.X
		isGroup = true
	}
	cl, ok := rhs.(*ast.CompositeLit)
	must(ok, "the value is not built by a &Group{...} or token{...} literal (a helper call?): tables2coq reads literals only, the row is dropped")
	if isGroup {
		must(isIdent(cl.Type, "Group"), "literal is not &Group{...}")
	} else {
		must(isIdent(cl.Type, "token"), "literal is not token{...} or &Group{...}")
	}
	// the tail: [f(x);] *s = append(*s, x); return s
	n := 3
	if p.callback {
		n = 4
	}
	must(len(b) == n, "body has %d statements, the generated shape has exactly %d (literal, %sappend, return)", len(b), n,
		map[bool]string{true: "callback, ", false: ""}[p.callback])
	if p.callback {
		es, ok := b[1].(*ast.ExprStmt)
		must(ok, "second statement is not the callback call")
		c, ok := es.X.(*ast.CallExpr)
		must(ok && isIdent(c.Fun, p.names[0]) && len(c.Args) == 1 && isIdent(c.Args[0], x) && c.Ellipsis == token.NoPos,
			"second statement is not `%s(%s)`", p.names[0], x)
	}
	as, ok := b[n-2].(*ast.AssignStmt)
	must(ok && as.Tok == token.ASSIGN && len(as.Lhs) == 1 && len(as.Rhs) == 1 && isStarOf(as.Lhs[0], recv), "append statement is not `*%s = ...`", recv)
	ap, ok := as.Rhs[0].(*ast.CallExpr)
	must(ok && isIdent(ap.Fun, "append") && len(ap.Args) == 2 && ap.Ellipsis == token.NoPos && isStarOf(ap.Args[0], recv) && isIdent(ap.Args[1], x),
		"append statement is not `*%s = append(*%s, %s)`", recv, recv, x)
	rs, ok := b[n-1].(*ast.ReturnStmt)
	must(ok && len(rs.Results) == 1 && isIdent(rs.Results[0], recv), "last statement is not `return %s`", recv)

	if !isGroup {
		must(len(p.names) == 0, "a token method has parameters")
		f := fields(cl, "typ", "content")
		id, ok := f["typ"].(*ast.Ident)
		must(ok, "typ is not an identifier")
		return nil, &tokRow{method: m, typ: id.Name, text: wantStr(f, "content")}
	}
	r := &groupRow{method: m, variadic: p.variadic, nparams: len(p.names), isFunc: p.callback}
	var f map[string]ast.Expr
	if p.callback {
		f = fields(cl, "name", "open", "close", "separator", "multi")
	} else {
		f = fields(cl, "items", "name", "open", "close", "separator", "multi")
		if p.variadic {
			must(isIdent(f["items"], p.names[0]), "items is not the variadic parameter %s", p.names[0])
		} else {
			il, ok := f["items"].(*ast.CompositeLit)
			must(ok, "items is not []Code{...}")
			at, ok := il.Type.(*ast.ArrayType)
			must(ok && at.Len == nil && isIdent(at.Elt, "Code"), "items is not []Code{...}")
			must(len(il.Elts) == len(p.names), "items has %d elements for %d parameters", len(il.Elts), len(p.names))
			for i, e := range il.Elts {
				must(isIdent(e, p.names[i]), "items is not []Code{%s} (the parameters in order)", strings.Join(p.names, ", "))
			}
		}
	}
	r.name, r.open, r.close, r.sep = wantStr(f, "name"), wantStr(f, "open"), wantStr(f, "close"), wantStr(f, "separator")
	mb, ok := boolLit(f["multi"])
	must(ok, "multi is not a bool literal")
	r.multi = mb
	return r, nil
}

func readGenerated(gen *ast.File) (rows []groupRow, toks []tokRow, problems []string) {
	type forms struct{ s, p, g string } // parameter signatures; "" = absent
	seen := map[string]*forms{}
	var order []string
	get := func(m string) *forms {
		if seen[m] == nil {
			seen[m] = &forms{}
			order = append(order, m)
		}
		return seen[m]
	}
	for _, d := range gen.Decls {
		fd, ok := d.(*ast.FuncDecl)
		if !ok {
			problems = append(problems, "generated.go: a declaration that is not a function")
			continue
		}
		label := fd.Name.Name
		func() {
			defer func() {
				if e := recover(); e != nil {
					se, ok := e.(shapeErr)
					if !ok {
						panic(e)
					}
					problems = append(problems, "generated.go: "+label+": not the generated shape: "+se.msg)
				}
			}()
			must(fd.Body != nil, "no body")
			recv, typ := recvOf(fd)
			if typ != "" {
				label = "(*" + typ + ")." + fd.Name.Name
			}
			p := readParams(fd.Type)
			f := get(fd.Name.Name)
			switch typ {
			case "":
				must(f.p == "", "declared twice")
				f.p = "?"
				checkPackageForm(fd, p)
				f.p = p.sig()
			case "Group":
				must(f.g == "", "declared twice")
				f.g = "?"
				checkGroupForm(fd, recv, p)
				f.g = p.sig()
			case "Statement":
				must(f.s == "", "declared twice")
				f.s = "?"
				r, t := checkStatementForm(fd, recv, p)
				f.s = p.sig()
				if r != nil {
					rows = append(rows, *r)
				} else {
					toks = append(toks, *t)
				}
			default:
				bad("receiver type %s", typ)
			}
		}()
	}
	for _, m := range order {
		f := seen[m]
		if f.s == "" || f.p == "" || f.g == "" {
			problems = append(problems, fmt.Sprintf("generated.go: %s: the three forms (package function, Group method, Statement method) are not all present", m))
		} else if f.s != "?" && f.p != "?" && f.g != "?" && (f.s != f.p || f.s != f.g) {
			problems = append(problems, fmt.Sprintf("generated.go: %s: the three forms have different parameter lists (%s / %s / %s)", m, f.p, f.g, f.s))
		}
	}
	return
}
