// tables2coq reads jennifer's source (current working tree) with go/parser and prints
// Coq definitions of its data: the construct table as compiled (jen/generated.go), the
// construct table as specified (genjen/data.go), the one-token constructs, the reserved
// word list, the standard-library hint table - and, since the fourth referee, how the code
// of package jen USES these tables (shapes.go, uses.go).
//
// Everything below is TRUSTED (it is a reading of Go source, not checked by Coq); what Coq
// checks is the printed result (coq/Spec/TableUses.v, Proofs/SyntaxProofs.v tables_agree).
//
// 1. jen/generated.go (shapes.go).  Every declaration of the file must be a function with
//    result *Statement whose parameters are `name Code`..., ONE `name ...Code`, or ONE
//    `f func(*Group)`, and whose body is EXACTLY one of the five shapes genjen/render.go emits
//    (comments are not statements; the order of the literal's fields is free, each field once):
//      Statement/group  x := &Group{items: <P>, name: "..", open: "..", close: "..", separator: "..", multi: <bool>}
//                       *s = append(*s, x); return s
//                       where <P> is the variadic parameter itself, or []Code{p1, ..., pn} = all
//                       parameters in order;
//      Statement/Func   x := &Group{name, open, close, separator, multi}; f(x); *s = append(*s, x); return s
//      Statement/token  x := token{typ: <ident>, content: ".."}; *s = append(*s, x); return s   (no parameters)
//      package          return newStatement().M(p1, ..., pn[...])
//      Group            x := M(p1, ..., pn[...]); g.items = append(g.items, x); return x
//    and every Statement method M has exactly one package function M and one Group method M with
//    the same parameter list (and conversely).  Any deviation is a table_problem naming the
//    function, and the row is NOT printed (so a construct written through a helper such as
//    newGroup(...) is reported twice: as a problem and as a missing row).
// 2. IsReservedWord (jen/reserved.go) must be literally
//      func IsReservedWord(a string) bool { for _, n := range reserved { if a == n { return true } }; return false }
//    (`n == a` is accepted too); (*File).isValidAlias(a string) bool must contain, as a statement
//    of its body, `if IsReservedWord(a) { return false }`; the statements of isValidAlias up to
//    and including that one are printed (isvalidalias_head, parameters renamed $1.., receiver $r).
// 3. The choice of the import name (uses.go): the one function that mentions standardLibraryHints
//    must contain a CHOICE CHAIN in one of two forms
//      A (in (*File).register)   if [v := e;] c1 { N = n1; A = a1 } else if ... else { N = nk; A = ak }
//      B (whole body of an unexported method H of *File with one parameter and two results, which
//         register calls once, at statement level, as `N, A := f.H(path)` with its own receiver and
//         parameter, and which nothing else in the package mentions)
//                                 if [v := e;] c1 { return n1, a1 } ... return nk, ak
//    It is printed as name_choice: the list of (condition, name, alias) source texts, parameters
//    renamed $1.., receiver $r, and a variable v of an if-initialiser `v := e` REPLACED by e when
//    e is built from identifiers, selectors and index expressions only (no call: reading it twice
//    is the same as reading it once) and v is not N or A.  Coq fixes the three arms.
// 4. table_uses: EVERY identifier named standardLibraryHints, reserved, guessAlias or
//    IsReservedWord in the non-test .go files of jen/ (all of them, whatever their build tags),
//    with the enclosing function and a role: decl | range-in-IsReservedWord |
//    guard-in-isValidAlias | choice | package-name-in-NewFilePath (the call guessAlias(p) on
//    NewFilePath's own parameter, anywhere in NewFilePath).  Anything else - a write
//    (assignment, ++, range variable, delete/append/copy/clear), an address-of, a further
//    reader, a selector or a local declaration with one of these names - is printed with a role
//    that Coq rejects and is also a problem.
// 5. Any func init() in these files is a problem, and so is a package-level declaration of
//    append, len, true, false, string or bool (the shapes above rely on their predeclared meaning).
// Problems are printed three times: table_problems (everything that concerns the construct
// tables + the literals + 5 + writes; C01), reserved_problems (C05), hints_problems (C18).
package main

import (
	"bytes"
	"fmt"
	"go/ast"
	"go/parser"
	"go/printer"
	"go/token"
	"os"
	"path/filepath"
	"sort"
	"strconv"
	"strings"

	"veriftools/coqfmt"
)

func die(format string, a ...interface{}) {
	fmt.Fprintf(os.Stderr, "tables2coq: "+format+"\n", a...)
	os.Exit(2)
}

var fset = token.NewFileSet()

func parseFile(path string) *ast.File {
	f, err := parser.ParseFile(fset, path, nil, parser.ParseComments)
	if err != nil {
		die("%v", err)
	}
	return f
}

func strLit(e ast.Expr) (string, bool) {
	bl, ok := e.(*ast.BasicLit)
	if !ok || bl.Kind != token.STRING {
		return "", false
	}
	s, err := strconv.Unquote(bl.Value)
	if err != nil {
		return "", false
	}
	return s, true
}

func boolLit(e ast.Expr) (bool, bool) {
	id, ok := e.(*ast.Ident)
	if !ok {
		return false, false
	}
	switch id.Name {
	case "true":
		return true, true
	case "false":
		return false, true
	}
	return false, false
}

type groupRow struct {
	method                 string
	name, open, close, sep string
	multi                  bool
	variadic               bool
	nparams                int
	isFunc                 bool // ...Func variant (callback)
}

type tokRow struct{ method, typ, text string }

// text prints a node as source text on one line (white space collapsed), with the identifiers
// in subst replaced (not the selector of x.sel, not the key of a key: value pair).
func text(n ast.Node, subst map[string]string) string {
	type saved struct {
		id   *ast.Ident
		name string
	}
	var undo []saved
	skip := map[*ast.Ident]bool{}
	ast.Inspect(n, func(m ast.Node) bool {
		switch x := m.(type) {
		case *ast.SelectorExpr:
			skip[x.Sel] = true
		case *ast.KeyValueExpr:
			if id, ok := x.Key.(*ast.Ident); ok {
				skip[id] = true
			}
		case *ast.Ident:
			if r, ok := subst[x.Name]; ok && !skip[x] {
				undo = append(undo, saved{x, x.Name})
				x.Name = r
			}
		}
		return true
	})
	var buf bytes.Buffer
	if err := printer.Fprint(&buf, fset, n); err != nil {
		die("printing: %v", err)
	}
	for _, u := range undo {
		u.id.Name = u.name
	}
	return strings.Join(strings.Fields(buf.String()), " ")
}

func coqStrs(l []string) string {
	var ps []string
	for _, p := range l {
		ps = append(ps, coqfmt.Str(p))
	}
	return coqfmt.List(ps, "  ")
}

func main() {
	if len(os.Args) < 2 {
		die("usage: tables2coq <repo>")
	}
	repo := os.Args[1]
	out := os.Stdout
	fmt.Fprintf(out, "(* GENERATED by tools/cmd/tables2coq from %s - do not edit *)\n", repo)
	fmt.Fprintln(out, "From Jen Require Import Base.Bytes.")
	fmt.Fprintln(out)
	fmt.Fprintln(out, "Record group_row := { gr_method : str; gr_name : str; gr_open : str; gr_close : str; gr_sep : str; gr_multi : bool; gr_variadic : bool; gr_nparams : nat; gr_func : bool }.")
	fmt.Fprintln(out, "Record token_row := { tr_method : str; tr_type : str; tr_text : str }.")
	fmt.Fprintln(out)

	var problems []string  // construct tables and literals (C01)
	var rproblems []string // reserved words (C05)
	var hproblems []string // hint table (C18)

	// ---- jen/generated.go: compiled construct table -------------------------------
	gen := parseFile(filepath.Join(repo, "jen", "generated.go"))
	rows, toks, gp := readGenerated(gen)
	problems = append(problems, gp...)
	var es []string
	for _, r := range rows {
		es = append(es, fmt.Sprintf("{| gr_method := %s; gr_name := %s; gr_open := %s; gr_close := %s; gr_sep := %s; gr_multi := %s; gr_variadic := %s; gr_nparams := %d; gr_func := %s |}",
			coqfmt.Str(r.method), coqfmt.Str(r.name), coqfmt.Str(r.open), coqfmt.Str(r.close), coqfmt.Str(r.sep), coqfmt.Bool(r.multi), coqfmt.Bool(r.variadic), r.nparams, coqfmt.Bool(r.isFunc)))
	}
	fmt.Fprintf(out, "Definition group_table : list group_row := %s.\n\n", coqfmt.List(es, "  "))
	es = nil
	for _, t := range toks {
		es = append(es, fmt.Sprintf("{| tr_method := %s; tr_type := %s; tr_text := %s |}", coqfmt.Str(t.method), coqfmt.Str(t.typ), coqfmt.Str(t.text)))
	}
	fmt.Fprintf(out, "Definition token_table : list token_row := %s.\n\n", coqfmt.List(es, "  "))

	// ---- genjen/data.go: specified construct table --------------------------------
	data := parseFile(filepath.Join(repo, "genjen", "data.go"))
	var drows []groupRow
	var kws, ids []string
	for _, d := range data.Decls {
		gd, ok := d.(*ast.GenDecl)
		if !ok || gd.Tok != token.VAR {
			continue
		}
		for _, sp := range gd.Specs {
			vs := sp.(*ast.ValueSpec)
			if len(vs.Names) != 1 || len(vs.Values) != 1 {
				continue
			}
			cl, ok := vs.Values[0].(*ast.CompositeLit)
			if !ok {
				continue
			}
			switch vs.Names[0].Name {
			case "keywords", "identifiers":
				for _, e := range cl.Elts {
					s, ok := strLit(e)
					if !ok {
						problems = append(problems, "data.go: non-literal in "+vs.Names[0].Name)
					}
					if vs.Names[0].Name == "keywords" {
						kws = append(kws, s)
					} else {
						ids = append(ids, s)
					}
				}
			case "groups":
				for _, e := range cl.Elts {
					ecl, ok := e.(*ast.CompositeLit)
					if !ok {
						problems = append(problems, "data.go: groups element is not a composite literal")
						continue
					}
					var r groupRow
					prevent := false
					for _, el := range ecl.Elts {
						kv := el.(*ast.KeyValueExpr)
						k := kv.Key.(*ast.Ident).Name
						switch k {
						case "name":
							r.method, _ = strLit(kv.Value)
						case "opening":
							r.open, _ = strLit(kv.Value)
						case "closing":
							r.close, _ = strLit(kv.Value)
						case "separator":
							r.sep, _ = strLit(kv.Value)
						case "multi":
							r.multi, _ = boolLit(kv.Value)
						case "variadic":
							r.variadic, _ = boolLit(kv.Value)
						case "preventFunc":
							prevent, _ = boolLit(kv.Value)
						case "parameters":
							if pcl, ok := kv.Value.(*ast.CompositeLit); ok {
								r.nparams = len(pcl.Elts)
							}
						case "comment":
						default:
							problems = append(problems, "data.go: unknown field "+k)
						}
					}
					r.name = strings.ToLower(r.method)
					drows = append(drows, r)
					if r.variadic && !prevent {
						fr := r
						fr.method = r.method + "Func"
						fr.isFunc = true
						fr.variadic = false
						fr.nparams = 1
						drows = append(drows, fr)
					}
				}
			}
		}
	}
	es = nil
	for _, r := range drows {
		es = append(es, fmt.Sprintf("{| gr_method := %s; gr_name := %s; gr_open := %s; gr_close := %s; gr_sep := %s; gr_multi := %s; gr_variadic := %s; gr_nparams := %d; gr_func := %s |}",
			coqfmt.Str(r.method), coqfmt.Str(r.name), coqfmt.Str(r.open), coqfmt.Str(r.close), coqfmt.Str(r.sep), coqfmt.Bool(r.multi), coqfmt.Bool(r.variadic), r.nparams, coqfmt.Bool(r.isFunc)))
	}
	fmt.Fprintf(out, "Definition data_group_table : list group_row := %s.\n\n", coqfmt.List(es, "  "))
	es = nil
	up := func(v string) string { return strings.ToUpper(v[:1]) + v[1:] }
	for _, v := range ids {
		es = append(es, fmt.Sprintf("{| tr_method := %s; tr_type := %s; tr_text := %s |}", coqfmt.Str(up(v)), coqfmt.Str("identifierToken"), coqfmt.Str(v)))
	}
	for _, v := range kws {
		es = append(es, fmt.Sprintf("{| tr_method := %s; tr_type := %s; tr_text := %s |}", coqfmt.Str(up(v)), coqfmt.Str("keywordToken"), coqfmt.Str(v)))
	}
	fmt.Fprintf(out, "Definition data_token_table : list token_row := %s.\n\n", coqfmt.List(es, "  "))

	// ---- reserved.go ---------------------------------------------------------------
	res := parseFile(filepath.Join(repo, "jen", "reserved.go"))
	var reserved []string
	foundReserved := false
	both := func(l *[]string, p string) {
		problems = append(problems, p)
		*l = append(*l, p)
	}
	for _, d := range res.Decls {
		gd, ok := d.(*ast.GenDecl)
		if !ok || gd.Tok != token.VAR {
			continue
		}
		for _, sp := range gd.Specs {
			vs := sp.(*ast.ValueSpec)
			if len(vs.Names) == 1 && vs.Names[0].Name == "reserved" && len(vs.Values) == 1 {
				cl, ok := vs.Values[0].(*ast.CompositeLit)
				if !ok {
					both(&rproblems, "reserved is not a composite literal")
					continue
				}
				foundReserved = true
				for _, e := range cl.Elts {
					s, ok := strLit(e)
					if !ok {
						both(&rproblems, "reserved: non-literal element")
					}
					reserved = append(reserved, coqfmt.Str(s))
				}
			}
		}
	}
	if !foundReserved {
		both(&rproblems, "var reserved not found in jen/reserved.go")
	}
	fmt.Fprintf(out, "Definition reserved : list str := %s.\n\n", coqfmt.List(reserved, "  "))

	// ---- hints.go --------------------------------------------------------------------
	hf := parseFile(filepath.Join(repo, "jen", "hints.go"))
	var hints []string
	foundHints := false
	for _, d := range hf.Decls {
		gd, ok := d.(*ast.GenDecl)
		if !ok || gd.Tok != token.VAR {
			continue
		}
		for _, sp := range gd.Specs {
			vs := sp.(*ast.ValueSpec)
			if len(vs.Names) == 1 && vs.Names[0].Name == "standardLibraryHints" && len(vs.Values) == 1 {
				cl, ok := vs.Values[0].(*ast.CompositeLit)
				if !ok {
					both(&hproblems, "standardLibraryHints is not a composite literal")
					continue
				}
				foundHints = true
				type kvp struct{ k, v string }
				var kvs []kvp
				for _, e := range cl.Elts {
					kv, ok := e.(*ast.KeyValueExpr)
					if !ok {
						both(&hproblems, "standardLibraryHints: element is not key: value")
						continue
					}
					k, ok1 := strLit(kv.Key)
					v, ok2 := strLit(kv.Value)
					if !ok1 || !ok2 {
						both(&hproblems, "standardLibraryHints: non-literal entry")
					}
					kvs = append(kvs, kvp{k, v})
				}
				sort.SliceStable(kvs, func(i, j int) bool { return kvs[i].k < kvs[j].k })
				for _, p := range kvs {
					hints = append(hints, fmt.Sprintf("(%s, %s)", coqfmt.Str(p.k), coqfmt.Str(p.v)))
				}
			}
		}
	}
	if !foundHints {
		both(&hproblems, "var standardLibraryHints not found in jen/hints.go")
	}
	fmt.Fprintf(out, "Definition std_hints : list (str * str) := %s.\n\n", coqfmt.List(hints, "  "))

	// ---- how package jen uses the tables ---------------------------------------------
	u := scanUses(filepath.Join(repo, "jen"))
	problems = append(problems, u.common...)
	rproblems = append(rproblems, u.common...)
	hproblems = append(hproblems, u.common...)
	rproblems = append(rproblems, u.reserved...)
	hproblems = append(hproblems, u.hints...)

	es = nil
	for _, r := range u.rows {
		es = append(es, fmt.Sprintf("(%s, %s, %s)", coqfmt.Str(r.ident), coqfmt.Str(r.fn), coqfmt.Str(r.role)))
	}
	fmt.Fprintf(out, "(* every identifier with the name of a table or of its reader in the .go files of jen/ (not _test): (identifier, function, role) *)\nDefinition table_uses : list (str * str * str) := %s.\n\n", coqfmt.List(es, "  "))
	es = nil
	for _, a := range u.choice {
		es = append(es, fmt.Sprintf("(%s, %s, %s)", coqfmt.Str(a.cond), coqfmt.Str(a.name), coqfmt.Str(a.alias)))
	}
	fmt.Fprintf(out, "(* the choice of an import's name: (condition, name, alias) per arm; $r receiver, $1 parameter *)\nDefinition name_choice : list (str * str * str) := %s.\n", coqfmt.List(es, "  "))
	fmt.Fprintf(out, "Definition name_choice_link : str := %s.\n\n", coqfmt.Str(u.link))
	fmt.Fprintf(out, "(* the statements of File.isValidAlias up to the reserved-word test *)\nDefinition isvalidalias_head : list str := %s.\n\n", coqStrs(u.head))

	fmt.Fprintf(out, "(* shapes the translator could not read; must be empty *)\nDefinition table_problems : list str := %s.\n", coqStrs(problems))
	fmt.Fprintf(out, "Definition reserved_problems : list str := %s.\n", coqStrs(rproblems))
	fmt.Fprintf(out, "Definition hints_problems : list str := %s.\n", coqStrs(hproblems))
}
