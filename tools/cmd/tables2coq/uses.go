package main

// How package jen uses the reserved-word list and the hint table (rules 2-5 of main.go's header).

import (
	"fmt"
	"go/ast"
	"go/token"
	"path/filepath"
	"sort"
	"strings"
)

type useRow struct{ ident, fn, role string }
type arm struct{ cond, name, alias string }

type uses struct {
	rows   []useRow
	choice []arm
	link   string
	head   []string
	// problems
	common, reserved, hints []string
}

// the tracked names and the property they belong to
var tracked = map[string]string{
	"standardLibraryHints": "hints", "guessAlias": "hints",
	"reserved": "reserved", "IsReservedWord": "reserved",
}

// predeclared identifiers that the shapes read by this translator rely on: a package-level
// declaration of one of these names in package jen would change what the shapes mean
var universeUsed = map[string]bool{"append": true, "true": true, "false": true, "string": true, "bool": true, "len": true}

var goodRoles = map[string]bool{
	"decl": true, "range-in-IsReservedWord": true, "guard-in-isValidAlias": true,
	"choice": true, "package-name-in-NewFilePath": true,
}

type pkgScan struct {
	files  []*ast.File
	names  []string
	funcs  map[string]*ast.FuncDecl // "Recv.name" ("" receiver for functions)
	claims map[*ast.Ident]string
	top    map[string]ast.Node // tracked name -> its package-level declaration
}

func funcKey(fd *ast.FuncDecl) string {
	r := ""
	if fd.Recv != nil && len(fd.Recv.List) == 1 {
		t := fd.Recv.List[0].Type
		if st, ok := t.(*ast.StarExpr); ok {
			t = st.X
		}
		if id, ok := t.(*ast.Ident); ok {
			r = id.Name
		} else {
			r = "?"
		}
	}
	return r + "." + fd.Name.Name
}

func funcLabel(fd *ast.FuncDecl) string {
	k := funcKey(fd)
	if strings.HasPrefix(k, ".") {
		return k[1:]
	}
	star := ""
	if _, ok := fd.Recv.List[0].Type.(*ast.StarExpr); ok {
		star = "*"
	}
	return "(" + star + strings.Replace(k, ".", ").", 1)
}

// paramSubst: receiver -> $r, parameters -> $1, $2, ...
func paramSubst(fd *ast.FuncDecl) (map[string]string, []string) {
	s := map[string]string{}
	if fd.Recv != nil && len(fd.Recv.List) == 1 && len(fd.Recv.List[0].Names) == 1 {
		s[fd.Recv.List[0].Names[0].Name] = "$r"
	}
	var ps []string
	for _, f := range fd.Type.Params.List {
		for _, n := range f.Names {
			ps = append(ps, n.Name)
			s[n.Name] = fmt.Sprintf("$%d", len(ps))
		}
	}
	return s, ps
}

func oneStringParam(fd *ast.FuncDecl) bool {
	l := fd.Type.Params.List
	return len(l) == 1 && len(l[0].Names) == 1 && isIdent(l[0].Type, "string")
}

func returnsOnly(s ast.Stmt, lit string) bool {
	b, ok := s.(*ast.BlockStmt)
	if !ok || len(b.List) != 1 {
		return false
	}
	rs, ok := b.List[0].(*ast.ReturnStmt)
	return ok && len(rs.Results) == 1 && isIdent(rs.Results[0], lit)
}

func (p *pkgScan) claimIn(n ast.Node, role string) {
	ast.Inspect(n, func(m ast.Node) bool {
		if id, ok := m.(*ast.Ident); ok && tracked[id.Name] != "" {
			p.claims[id] = role
		}
		return true
	})
}

// IsReservedWord: literally the loop over reserved.
func (p *pkgScan) checkIsReservedWord() (err string) {
	defer func() {
		if e := recover(); e != nil {
			se, ok := e.(shapeErr)
			if !ok {
				panic(e)
			}
			err = "IsReservedWord is not literally `for _, n := range reserved { if a == n { return true } }; return false`: " + se.msg
		}
	}()
	fd := p.funcs[".IsReservedWord"]
	must(fd != nil && fd.Body != nil, "function not found")
	must(oneStringParam(fd) && fd.Type.TypeParams == nil, "parameters are not (a string)")
	must(fd.Type.Results != nil && len(fd.Type.Results.List) == 1 && len(fd.Type.Results.List[0].Names) == 0 && isIdent(fd.Type.Results.List[0].Type, "bool"), "result is not bool")
	a := fd.Type.Params.List[0].Names[0].Name
	b := fd.Body.List
	must(len(b) == 2, "%d statements", len(b))
	rg, ok := b[0].(*ast.RangeStmt)
	must(ok && rg.Tok == token.DEFINE && isIdent(rg.Key, "_") && rg.Value != nil, "first statement is not `for _, n := range`")
	n, ok := rg.Value.(*ast.Ident)
	must(ok && n.Name != "_" && n.Name != a && n.Name != "reserved" && n.Name != "true" && n.Name != "false", "loop variable")
	must(a != "reserved" && a != "true" && a != "false" && a != "_", "parameter name")
	x, ok := rg.X.(*ast.Ident)
	must(ok && x.Name == "reserved", "does not range over reserved")
	must(len(rg.Body.List) == 1, "loop body has %d statements", len(rg.Body.List))
	ifs, ok := rg.Body.List[0].(*ast.IfStmt)
	must(ok && ifs.Init == nil && ifs.Else == nil, "loop body is not one if without else")
	be, ok := ifs.Cond.(*ast.BinaryExpr)
	must(ok && be.Op == token.EQL && ((isIdent(be.X, a) && isIdent(be.Y, n.Name)) || (isIdent(be.X, n.Name) && isIdent(be.Y, a))), "condition is not `%s == %s`", a, n.Name)
	must(returnsOnly(ifs.Body, "true"), "the if does not `return true`")
	rs, ok := b[1].(*ast.ReturnStmt)
	must(ok && len(rs.Results) == 1 && isIdent(rs.Results[0], "false"), "last statement is not `return false`")
	p.claims[x] = "range-in-IsReservedWord"
	return ""
}

// isValidAlias: the statements up to `if IsReservedWord(a) { return false }`.
func (p *pkgScan) checkIsValidAlias() (head []string, err string) {
	defer func() {
		if e := recover(); e != nil {
			se, ok := e.(shapeErr)
			if !ok {
				panic(e)
			}
			head, err = nil, "(*File).isValidAlias does not contain the statement `if IsReservedWord(a) { return false }` on its parameter: "+se.msg
		}
	}()
	fd := p.funcs["File.isValidAlias"]
	must(fd != nil && fd.Body != nil, "method not found")
	must(oneStringParam(fd), "parameters are not (a string)")
	must(fd.Type.Results != nil && len(fd.Type.Results.List) == 1 && isIdent(fd.Type.Results.List[0].Type, "bool"), "result is not bool")
	field := fd.Type.Params.List[0]
	a := field.Names[0].Name
	subst, _ := paramSubst(fd)
	for _, s := range fd.Body.List {
		head = append(head, text(s, subst))
		ifs, ok := s.(*ast.IfStmt)
		if !ok || ifs.Init != nil || ifs.Else != nil || !returnsOnly(ifs.Body, "false") {
			continue
		}
		c, ok := ifs.Cond.(*ast.CallExpr)
		if !ok || len(c.Args) != 1 || c.Ellipsis != token.NoPos {
			continue
		}
		f, ok := c.Fun.(*ast.Ident)
		arg, ok2 := c.Args[0].(*ast.Ident)
		if !ok || !ok2 || f.Name != "IsReservedWord" || arg.Name != a || arg.Obj == nil || arg.Obj.Decl != ast.Node(field) {
			continue
		}
		p.claims[f] = "guard-in-isValidAlias"
		return head, ""
	}
	bad("no such statement at the top level of the body")
	return
}

// pureRead: identifiers, selectors, index expressions, literals.
func pureRead(e ast.Expr) bool {
	switch x := e.(type) {
	case *ast.Ident, *ast.BasicLit:
		return true
	case *ast.ParenExpr:
		return pureRead(x.X)
	case *ast.SelectorExpr:
		return pureRead(x.X)
	case *ast.IndexExpr:
		return pureRead(x.X) && pureRead(x.Index)
	}
	return false
}

type chainCtx struct {
	inits []ast.Expr
}

// withInit extends subst with the if-initialiser `v := e`.
func (c *chainCtx) withInit(init ast.Stmt, subst map[string]string) map[string]string {
	if init == nil {
		return subst
	}
	as, ok := init.(*ast.AssignStmt)
	must(ok && as.Tok == token.DEFINE && len(as.Lhs) == 1 && len(as.Rhs) == 1, "if-initialiser is not `v := e`")
	v, ok := as.Lhs[0].(*ast.Ident)
	must(ok && v.Name != "_", "if-initialiser is not `v := e`")
	must(pureRead(as.Rhs[0]), "if-initialiser %s is not built from identifiers, selectors and index expressions", text(as.Rhs[0], nil))
	c.inits = append(c.inits, as.Rhs[0])
	_, taken := subst[v.Name]
	must(!taken, "if-initialiser redefines %s", v.Name)
	s := map[string]string{}
	for k, x := range subst {
		s[k] = x
	}
	s[v.Name] = text(as.Rhs[0], subst)
	return s
}

func mentions(n ast.Node, names ...string) bool {
	found := false
	skip := map[*ast.Ident]bool{} // field names are not variables
	ast.Inspect(n, func(m ast.Node) bool {
		if sel, ok := m.(*ast.SelectorExpr); ok {
			skip[sel.Sel] = true
		}
		if id, ok := m.(*ast.Ident); ok && !skip[id] {
			for _, x := range names {
				if id.Name == x {
					found = true
				}
			}
		}
		return true
	})
	return found
}

// chainA: if [v := e;] c { N = n; A = a } else if ... else { N = n; A = a }
func chainA(ifs *ast.IfStmt, subst map[string]string) (arms []arm, err string) {
	defer func() {
		if e := recover(); e != nil {
			se, ok := e.(shapeErr)
			if !ok {
				panic(e)
			}
			arms, err = nil, se.msg
		}
	}()
	var c chainCtx
	N, A := "", ""
	body := func(b *ast.BlockStmt, s map[string]string) (string, string) {
		var lhs []string
		var rhs []ast.Expr
		for _, st := range b.List {
			as, ok := st.(*ast.AssignStmt)
			must(ok && as.Tok == token.ASSIGN && len(as.Lhs) == len(as.Rhs), "an arm contains something other than assignments")
			must(len(as.Lhs) == 1 || len(b.List) == 1, "an arm mixes parallel and single assignments")
			for i := range as.Lhs {
				id, ok := as.Lhs[i].(*ast.Ident)
				must(ok, "an arm assigns to something other than a variable")
				lhs = append(lhs, id.Name)
				rhs = append(rhs, as.Rhs[i])
			}
		}
		must(len(lhs) == 2 && lhs[0] != lhs[1], "an arm does not assign exactly two variables")
		if N == "" {
			N, A = lhs[0], lhs[1]
		}
		if lhs[0] == A && lhs[1] == N {
			// `A = a; N = n`: the two assignments commute only if a does not read N and n does not read A
			must(!mentions(rhs[0], N, A) && !mentions(rhs[1], N, A), "an arm reads the variables it assigns")
			lhs[0], lhs[1], rhs[0], rhs[1] = lhs[1], lhs[0], rhs[1], rhs[0]
		}
		must(lhs[0] == N && lhs[1] == A, "the arms assign different variables")
		must(!mentions(rhs[0], N, A) && !mentions(rhs[1], N, A), "an arm reads the variables it assigns")
		return text(rhs[0], s), text(rhs[1], s)
	}
	cur := ifs
	for {
		subst = c.withInit(cur.Init, subst)
		n, a := body(cur.Body, subst)
		arms = append(arms, arm{text(cur.Cond, subst), n, a})
		must(!mentions(cur.Cond, N, A), "a condition reads the variables being chosen")
		switch e := cur.Else.(type) {
		case *ast.IfStmt:
			cur = e
			continue
		case *ast.BlockStmt:
			n, a := body(e, subst)
			arms = append(arms, arm{"", n, a})
		default:
			bad("the chain has no final else")
		}
		break
	}
	for _, e := range c.inits {
		must(!mentions(e, N, A), "an if-initialiser reads the variables being chosen")
	}
	must(subst[N] == "" && subst[A] == "", "the chosen variables are parameters or if-variables")
	return arms, ""
}

// chainB: if [v := e;] c { return n, a } ... return n, a   (the whole body)
func chainB(fd *ast.FuncDecl, subst map[string]string) (arms []arm, err string) {
	defer func() {
		if e := recover(); e != nil {
			se, ok := e.(shapeErr)
			if !ok {
				panic(e)
			}
			arms, err = nil, se.msg
		}
	}()
	nres := 0
	if fd.Type.Results != nil {
		for _, f := range fd.Type.Results.List {
			k := len(f.Names)
			if k == 0 {
				k = 1
			}
			nres += k
			for _, n := range f.Names {
				must(!mentions(fd.Body, n.Name), "the named result %s is used in the body", n.Name)
			}
		}
	}
	must(nres == 2, "the function does not have two results")
	ret := func(s ast.Stmt, sub map[string]string) (string, string) {
		rs, ok := s.(*ast.ReturnStmt)
		must(ok && len(rs.Results) == 2, "a statement is neither `if c { return n, a }` nor `return n, a`")
		return text(rs.Results[0], sub), text(rs.Results[1], sub)
	}
	b := fd.Body.List
	must(len(b) >= 1, "empty body")
	for _, s := range b[:len(b)-1] {
		ifs, ok := s.(*ast.IfStmt)
		must(ok && ifs.Else == nil && len(ifs.Body.List) == 1, "a statement is not `if c { return n, a }`")
		var c chainCtx
		sub := c.withInit(ifs.Init, subst)
		n, a := ret(ifs.Body.List[0], sub)
		arms = append(arms, arm{text(ifs.Cond, sub), n, a})
	}
	n, a := ret(b[len(b)-1], subst)
	arms = append(arms, arm{"", n, a})
	return arms, ""
}

func (p *pkgScan) countIdent(name string) int {
	k := 0
	for _, f := range p.files {
		ast.Inspect(f, func(m ast.Node) bool {
			if id, ok := m.(*ast.Ident); ok && id.Name == name {
				k++
			}
			return true
		})
	}
	return k
}

func (p *pkgScan) checkChoice() (arms []arm, link string, err string) {
	var users []*ast.FuncDecl
	for _, f := range p.files {
		for _, d := range f.Decls {
			if fd, ok := d.(*ast.FuncDecl); ok && fd.Body != nil && mentions(fd, "standardLibraryHints") {
				users = append(users, fd)
			}
		}
	}
	if len(users) != 1 {
		return nil, "none", fmt.Sprintf("standardLibraryHints is mentioned by %d functions (the choice of the import name must be the only reader)", len(users))
	}
	fd := users[0]
	subst, params := paramSubst(fd)
	reg := p.funcs["File.register"]
	if reg == nil || reg.Body == nil || !oneStringParam(reg) || reg.Recv == nil || len(reg.Recv.List[0].Names) != 1 {
		return nil, "none", "(*File).register(path string) not found"
	}
	if fd == reg {
		var errs []string
		for _, s := range fd.Body.List {
			ifs, ok := s.(*ast.IfStmt)
			if !ok || !mentions(ifs, "standardLibraryHints") {
				continue
			}
			arms, e := chainA(ifs, subst)
			if e == "" {
				p.claimIn(ifs, "choice")
				return arms, "direct", ""
			}
			errs = append(errs, e)
		}
		return nil, "none", "register: no statement `if c1 { name = ..; alias = .. } else if ... else { .. }` reads standardLibraryHints (" + strings.Join(errs, "; ") + ")"
	}
	// a helper: the whole body is the chain, and register calls it once on its own parameter
	label := funcLabel(fd)
	if funcKey(fd) != "File."+fd.Name.Name || ast.IsExported(fd.Name.Name) || len(params) != 1 || !oneStringParam(fd) || subst[fd.Recv.List[0].Names[0].Name] != "$r" {
		return nil, "none", label + " reads standardLibraryHints but is neither register nor an unexported method of *File with one string parameter"
	}
	arms, e := chainB(fd, subst)
	if e != "" {
		return nil, "none", label + ": the body is not `if c { return n, a } ... return n, a`: " + e
	}
	p.claimIn(fd.Body, "choice")
	rr, rp := reg.Recv.List[0].Names[0].Name, reg.Type.Params.List[0].Names[0].Name
	calls := 0
	for _, s := range reg.Body.List {
		as, ok := s.(*ast.AssignStmt)
		if !ok || as.Tok != token.DEFINE || len(as.Lhs) != 2 || len(as.Rhs) != 1 {
			continue
		}
		c, ok := as.Rhs[0].(*ast.CallExpr)
		if !ok || len(c.Args) != 1 || !isIdent(c.Args[0], rp) || c.Ellipsis != token.NoPos {
			continue
		}
		sel, ok := c.Fun.(*ast.SelectorExpr)
		if ok && isIdent(sel.X, rr) && sel.Sel.Name == fd.Name.Name && !isIdent(as.Lhs[0], "_") && !isIdent(as.Lhs[1], "_") {
			calls++
		}
	}
	if calls != 1 || p.countIdent(fd.Name.Name) != 2 {
		return arms, "none", fmt.Sprintf("%s holds the choice of the import name, but register does not call it exactly once as `name, alias := %s.%s(%s)` at statement level, or something else mentions it (%d mentions in the package)",
			label, rr, fd.Name.Name, rp, p.countIdent(fd.Name.Name))
	}
	return arms, "helper", ""
}

// otherRole describes an unclaimed occurrence from its ancestors (innermost last).
func otherRole(stack []ast.Node) string {
	i := len(stack) - 1
	child := stack[i]
climb:
	for i--; i >= 0; i-- {
		switch x := stack[i].(type) {
		case *ast.ParenExpr:
			child = x
			continue
		case *ast.IndexExpr:
			if x.X == child {
				child = x
				continue
			}
		case *ast.SliceExpr:
			if x.X == child {
				child = x
				continue
			}
		}
		break climb
	}
	if i < 0 {
		return "other"
	}
	switch x := stack[i].(type) {
	case *ast.AssignStmt:
		for _, l := range x.Lhs {
			if l == child {
				return "write"
			}
		}
	case *ast.IncDecStmt:
		return "write"
	case *ast.RangeStmt:
		if (x.Key == child || x.Value == child) && x.Tok == token.ASSIGN {
			return "write"
		}
	case *ast.UnaryExpr:
		if x.Op == token.AND {
			return "address-of"
		}
	case *ast.CallExpr:
		if f, ok := x.Fun.(*ast.Ident); ok && len(x.Args) > 0 && x.Args[0] == child {
			switch f.Name {
			case "delete", "append", "copy", "clear":
				return "write"
			}
		}
	case *ast.SelectorExpr:
		if x.Sel == child {
			return "other: selector"
		}
	}
	return "other"
}

func scanUses(dir string) *uses {
	u := &uses{link: "none"}
	p := &pkgScan{funcs: map[string]*ast.FuncDecl{}, claims: map[*ast.Ident]string{}, top: map[string]ast.Node{}}
	paths, err := filepath.Glob(filepath.Join(dir, "*.go"))
	if err != nil {
		die("%v", err)
	}
	sort.Strings(paths)
	for _, path := range paths {
		if strings.HasSuffix(path, "_test.go") {
			continue
		}
		p.files = append(p.files, parseFile(path))
		p.names = append(p.names, filepath.Base(path))
	}
	// package-level declarations
	for i, f := range p.files {
		for _, d := range f.Decls {
			switch x := d.(type) {
			case *ast.FuncDecl:
				k := funcKey(x)
				if p.funcs[k] != nil {
					u.common = append(u.common, "function "+k+" is declared twice (build tags?)")
				}
				p.funcs[k] = x
				if x.Recv == nil && x.Name.Name == "init" {
					u.common = append(u.common, p.names[i]+": func init() - the tables must not be touched at start-up")
				}
				if x.Recv == nil && universeUsed[x.Name.Name] {
					u.common = append(u.common, p.names[i]+": package jen redefines "+x.Name.Name)
				}
				if x.Recv == nil && (x.Name.Name == "guessAlias" || x.Name.Name == "IsReservedWord") {
					p.claims[x.Name] = "decl"
					p.top[x.Name.Name] = x
				}
			case *ast.GenDecl:
				for _, sp := range x.Specs {
					switch y := sp.(type) {
					case *ast.TypeSpec:
						if universeUsed[y.Name.Name] {
							u.common = append(u.common, p.names[i]+": package jen redefines "+y.Name.Name)
						}
					case *ast.ValueSpec:
						for _, n := range y.Names {
							if universeUsed[n.Name] {
								u.common = append(u.common, p.names[i]+": package jen redefines "+n.Name)
							}
						}
					}
				}
				if x.Tok != token.VAR {
					continue
				}
				for _, sp := range x.Specs {
					vs := sp.(*ast.ValueSpec)
					for _, n := range vs.Names {
						if (n.Name == "reserved" || n.Name == "standardLibraryHints") && len(vs.Names) == 1 {
							p.claims[n] = "decl"
							p.top[n.Name] = vs
						}
					}
				}
			}
		}
	}
	if e := p.checkIsReservedWord(); e != "" {
		u.reserved = append(u.reserved, e)
	}
	head, e := p.checkIsValidAlias()
	u.head = head
	if e != "" {
		u.reserved = append(u.reserved, e)
	}
	arms, link, e := p.checkChoice()
	u.choice, u.link = arms, link
	if e != "" {
		u.hints = append(u.hints, e)
	}
	// NewFilePath(p) may call guessAlias(p)
	if fd := p.funcs[".NewFilePath"]; fd != nil && fd.Body != nil && oneStringParam(fd) {
		field := fd.Type.Params.List[0]
		ast.Inspect(fd.Body, func(m ast.Node) bool {
			c, ok := m.(*ast.CallExpr)
			if !ok || len(c.Args) != 1 || c.Ellipsis != token.NoPos {
				return true
			}
			f, ok := c.Fun.(*ast.Ident)
			a, ok2 := c.Args[0].(*ast.Ident)
			if ok && ok2 && f.Name == "guessAlias" && a.Obj != nil && a.Obj.Decl == ast.Node(field) {
				p.claims[f] = "package-name-in-NewFilePath"
			}
			return true
		})
	}
	// every occurrence
	for i, f := range p.files {
		for _, d := range f.Decls {
			fn := "(package level)"
			if fd, ok := d.(*ast.FuncDecl); ok {
				fn = funcLabel(fd)
			}
			var stack []ast.Node
			ast.Inspect(d, func(m ast.Node) bool {
				if m == nil {
					stack = stack[:len(stack)-1]
					return true
				}
				stack = append(stack, m)
				id, ok := m.(*ast.Ident)
				if !ok || tracked[id.Name] == "" {
					return true
				}
				role := p.claims[id]
				if id.Obj != nil && id.Obj.Decl != nil {
					if dn, ok := id.Obj.Decl.(ast.Node); !ok || dn != p.top[id.Name] {
						role = "other: refers to a local or second declaration of that name"
					}
				}
				if role == "" {
					role = otherRole(stack)
				}
				u.rows = append(u.rows, useRow{id.Name, fn, role})
				if !goodRoles[role] {
					msg := fmt.Sprintf("%s: %s: %s is used in a way that is not one of the known readers (%s)", p.names[i], fn, id.Name, role)
					if role == "write" || role == "address-of" {
						u.common = append(u.common, msg)
					} else if tracked[id.Name] == "reserved" {
						u.reserved = append(u.reserved, msg)
					} else {
						u.hints = append(u.hints, msg)
					}
				}
				return true
			})
		}
	}
	return u
}
