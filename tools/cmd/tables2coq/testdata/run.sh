#!/bin/bash
# Quick rehearsal of the diffs in this directory WITHOUT the whole ./check: for each diff, a scratch
# worktree of /repo is patched, tables2coq is run on it, and the three table obligations are
# compiled against the printed Tables.v in a scratch Coq directory:
#   C01  the conjunct `table_problems = []` of tables_agree (Proofs/SyntaxProofs.v) together with
#        group_table = data_group_table /\ token_table = data_token_table
#   C05  reserved_tied (Spec/TableUses.v)      C18  hints_tied (Spec/TableUses.v)
# usage: testdata/run.sh [diff ...]     (default: all diffs here; "clean" = the unpatched tree)
# Needs: go, coqc, git; writes only under ${SCRATCH:-/var/tmp/tables2coq-testdata}.
set -u
HERE=$(cd "$(dirname "$0")" && pwd); VERIF=$(cd "$HERE/../../../.." && pwd)
S=${SCRATCH:-/var/tmp/tables2coq-testdata}; mkdir -p $S/cq/Base $S/cq/Gen $S/cq/Spec
export GOFLAGS=-mod=mod GOPROXY=off GOSUMDB=off GOTOOLCHAIN=local
(cd $VERIF/tools && go build -o $S/tables2coq ./cmd/tables2coq) || exit 2
cp $VERIF/coq/Base/Bytes.v $S/cq/Base/; cp $VERIF/coq/Spec/TableUses.v $S/cq/Spec/
(cd $S/cq && coqc -Q . Jen Base/Bytes.v) || exit 2
cat > $S/cq/C01part.v <<'EOV'
From Jen Require Import Base.Bytes Gen.Tables.
Goal group_table = data_group_table /\ token_table = data_token_table /\ table_problems = [].
Proof. repeat split; vm_compute; reflexivity. Qed.
EOV
awk '/^Lemma hints_tied/{exit} {print}' $S/cq/Spec/TableUses.v > $S/cq/C05part.v
awk '/^Lemma reserved_tied/{skip=1} /^Lemma hints_tied/{skip=0} !skip{print}' $S/cq/Spec/TableUses.v > $S/cq/C18part.v
[ $# -eq 0 ] && set -- clean $HERE/*.diff
for d in "$@"; do
  git -C /repo worktree remove --force $S/wt >/dev/null 2>&1
  git -C /repo worktree add --detach -q $S/wt HEAD || exit 2
  if [ "$d" != clean ]; then git -C $S/wt apply "$(realpath $d)" || { echo "$(basename $d): PATCH DOES NOT APPLY"; continue; }; fi
  if ! (cd $S/wt && go build ./jen/ ) >/dev/null 2>&1; then echo "$(basename $d): patched tree does not compile"; fi
  $S/tables2coq $S/wt > $S/cq/Gen/Tables.v || { echo "$(basename $d): translator failed"; continue; }
  r=""
  (cd $S/cq && coqc -Q . Jen Gen/Tables.v >/dev/null 2>&1) || r="Tables.v does not compile"
  for p in C01 C05 C18; do
    if (cd $S/cq && coqc -Q . Jen ${p}part.v >/dev/null 2>&1); then r="$r $p=accepted"; else r="$r $p=REJECTED"; fi
  done
  printf "%-46s %s\n" "$(basename $d .diff)" "$r"
done
git -C /repo worktree remove --force $S/wt >/dev/null 2>&1
