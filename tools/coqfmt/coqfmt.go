// Package coqfmt prints Go values as Coq terms over the Jen.Base.Bytes vocabulary.
package coqfmt

import (
	"fmt"
	"strings"
)

// Str prints a Go string as a Coq term of type str (list byte).
func Str(s string) string {
	plain := true
	for i := 0; i < len(s); i++ {
		c := s[i]
		if c < 0x20 || c > 0x7e || c == '"' {
			plain = false
			break
		}
	}
	if plain {
		return `(S "` + s + `")`
	}
	var b strings.Builder
	b.WriteString("[")
	for i := 0; i < len(s); i++ {
		if i > 0 {
			b.WriteString("; ")
		}
		fmt.Fprintf(&b, "x%02x", s[i])
	}
	b.WriteString("]")
	return b.String()
}

// Bool prints a Coq bool.
func Bool(v bool) string {
	if v {
		return "true"
	}
	return "false"
}

// List prints a Coq list with one element per line.
func List(elems []string, indent string) string {
	if len(elems) == 0 {
		return "[]"
	}
	return "[\n" + indent + strings.Join(elems, ";\n"+indent) + "\n" + indent + "]"
}
