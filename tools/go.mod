module veriftools

go 1.20
