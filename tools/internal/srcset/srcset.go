// Package srcset decides WHICH files of <repo>/jen a translator has to read.
//
// `go build` compiles a different set of files depending on the configuration: CGO_ENABLED
// (the `cgo` tag), -race (the `race` tag), GOOS, GOARCH, release tags, custom -tags.  ./check
// exports CGO_ENABLED=0, users build with cgo on; a `//go:build cgo` file next to a `!cgo`
// twin is invisible to a translator that asks build.Default alone.  srcset evaluates every
// non-test .go file of the directory under ALL of
//
//	{cgo on, cgo off} x {race, no race}     (GOOS, GOARCH, compiler, release tags of this toolchain)
//
// with go/build's own MatchFile (the function `go build` uses) plus the go tool's rule that a
// file importing "C" is left out when cgo is off, never reading CGO_ENABLED from the
// environment, and returns
//
//	Union     the .go files compiled under AT LEAST ONE configuration - what a translator scans
//	Excluded  the .go files left out under AT LEAST ONE configuration (also: every file whose
//	          name starts with "_" or ".", every file for another GOOS/GOARCH, every file behind
//	          a custom tag such as verif)
//	PerConfig the file list of each configuration (equal lists are the normal case)
//	NonGo     directory entries that are not .go files but that the go tool treats as source
//	          of the package (.s .S .sx .c .cc .cpp .cxx .m .h .hh .hpp .hxx .f .F .for .f90
//	          .swig .swigcxx .syso), whatever their build constraints
//	Bodiless  "file.go:line: func f has no body" for every function declaration without a body
//	          (implemented in assembly or by the linker) and "file.go:line: //go:linkname ..."
//	          for every go:linkname directive, in files of Union
//
// Every non-test .go file is therefore in Union (scanned), in Excluded (reported), or both:
// there is no third possibility, whatever tag a constraint mentions.  _test.go files are not
// part of the library and are skipped.
//
// UseRepo roots the default build context at the repository, so that the "source" importer
// (go/importer, go/build) resolves in-module import paths (github.com/dave/jennifer/...)
// through the repository's go.mod wherever the translator was started.
package srcset

import (
	"fmt"
	"go/ast"
	"go/build"
	"go/parser"
	"go/token"
	"os"
	"path/filepath"
	"sort"
	"strings"
)

// Config is one build configuration.
type Config struct {
	Cgo, Race bool
}

func (c Config) String() string {
	s := "cgo=off"
	if c.Cgo {
		s = "cgo=on"
	}
	if c.Race {
		return s + ",race"
	}
	return s + ",norace"
}

// Configs are the configurations every file is evaluated under.
var Configs = []Config{{false, false}, {true, false}, {false, true}, {true, true}}

// nonGoExt: extensions go/build records as source of a package besides .go.
var nonGoExt = map[string]bool{
	".s": true, ".S": true, ".sx": true, ".c": true, ".cc": true, ".cpp": true, ".cxx": true,
	".m": true, ".h": true, ".hh": true, ".hpp": true, ".hxx": true, ".f": true, ".F": true,
	".for": true, ".f90": true, ".swig": true, ".swigcxx": true, ".syso": true,
}

// Set is the result of Load.  File names are base names, sorted.
type Set struct {
	Dir       string
	Union     []string
	Excluded  []string
	PerConfig map[Config][]string
	NonGo     []string
	Bodiless  []string
}

func context(c Config) *build.Context {
	ctxt := build.Default // copy
	ctxt.CgoEnabled = c.Cgo
	ctxt.BuildTags = nil
	ctxt.ToolTags = append([]string(nil), build.Default.ToolTags...)
	if c.Race {
		ctxt.BuildTags = []string{"race"}
	}
	ctxt.UseAllFiles = false
	return &ctxt
}

// UseRepo roots go/build's default context (used by importer.ForCompiler(fset, "source", nil))
// at the repository: module-aware resolution of import paths then starts from <repo>/go.mod
// and not from the translator's working directory.
func UseRepo(repo string) error {
	abs, err := filepath.Abs(repo)
	if err != nil {
		return err
	}
	build.Default.Dir = abs
	return nil
}

// Load evaluates the files of <repo>/jen.
func Load(repo string) (*Set, error) {
	return LoadDir(filepath.Join(repo, "jen"))
}

// LoadDir evaluates the files of one directory.
func LoadDir(dir string) (*Set, error) {
	ents, err := os.ReadDir(dir)
	if err != nil {
		return nil, err
	}
	s := &Set{Dir: dir, PerConfig: map[Config][]string{}}
	for _, c := range Configs {
		s.PerConfig[c] = nil
	}
	for _, e := range ents {
		name := e.Name()
		if e.IsDir() {
			continue
		}
		ext := filepath.Ext(name)
		if nonGoExt[ext] {
			s.NonGo = append(s.NonGo, name)
			continue
		}
		if ext != ".go" || strings.HasSuffix(name, "_test.go") {
			continue
		}
		in, out := false, false
		usesC, err := importsC(filepath.Join(dir, name))
		if err != nil {
			return nil, err
		}
		for _, c := range Configs {
			ok, err := context(c).MatchFile(dir, name)
			if err != nil {
				return nil, fmt.Errorf("%s: %v", filepath.Join(dir, name), err)
			}
			// MatchFile looks at the name and the constraints only; go/build.Import (and the go
			// tool) additionally leave out a file that imports "C" when cgo is off
			if usesC && !c.Cgo {
				ok = false
			}
			if ok {
				in = true
				s.PerConfig[c] = append(s.PerConfig[c], name)
			} else {
				out = true
			}
		}
		if in {
			s.Union = append(s.Union, name)
		}
		if out {
			s.Excluded = append(s.Excluded, name)
		}
	}
	sort.Strings(s.Union)
	sort.Strings(s.Excluded)
	sort.Strings(s.NonGo)
	for _, c := range Configs {
		sort.Strings(s.PerConfig[c])
	}
	// bodiless function declarations and go:linkname directives in the files of Union
	fset := token.NewFileSet()
	for _, name := range s.Union {
		f, err := parser.ParseFile(fset, filepath.Join(dir, name), nil, parser.ParseComments)
		if err != nil {
			return nil, err
		}
		s.Bodiless = append(s.Bodiless, BodilessIn(fset, f)...)
	}
	return s, nil
}

// importsC: does the file import the pseudo-package "C"?  A file that does not parse up to its
// imports is an error (the go tool would not build the package either).
func importsC(path string) (bool, error) {
	f, err := parser.ParseFile(token.NewFileSet(), path, nil, parser.ImportsOnly)
	if err != nil {
		return false, err
	}
	for _, im := range f.Imports {
		if im.Path.Value == `"C"` || im.Path.Value == "`C`" {
			return true, nil
		}
	}
	return false, nil
}

// BodilessIn lists the function declarations without a body and the go:linkname directives of
// one parsed file (parsed with parser.ParseComments).
func BodilessIn(fset *token.FileSet, f *ast.File) []string {
	var out []string
	at := func(p token.Pos) string {
		q := fset.Position(p)
		return fmt.Sprintf("%s:%d", filepath.Base(q.Filename), q.Line)
	}
	for _, d := range f.Decls {
		if fd, ok := d.(*ast.FuncDecl); ok && fd.Body == nil {
			out = append(out, fmt.Sprintf("%s: func %s has no body", at(fd.Pos()), fd.Name.Name))
		}
	}
	for _, cg := range f.Comments {
		for _, c := range cg.List {
			if strings.HasPrefix(c.Text, "//go:linkname") {
				out = append(out, fmt.Sprintf("%s: %s", at(c.Pos()), strings.TrimSpace(c.Text)))
			}
		}
	}
	return out
}

// Uniform: do all configurations compile the same files?
func (s *Set) Uniform() bool {
	first := s.PerConfig[Configs[0]]
	for _, c := range Configs[1:] {
		l := s.PerConfig[c]
		if len(l) != len(first) {
			return false
		}
		for i := range l {
			if l[i] != first[i] {
				return false
			}
		}
	}
	return true
}

// DistinctConfigs returns one file list per DIFFERENT file set (with the name of the first
// configuration that has it), in the order of Configs.
func (s *Set) DistinctConfigs() (names []string, lists [][]string) {
	seen := map[string]bool{}
	for _, c := range Configs {
		key := strings.Join(s.PerConfig[c], "\x00")
		if seen[key] {
			continue
		}
		seen[key] = true
		names = append(names, c.String())
		lists = append(lists, s.PerConfig[c])
	}
	return
}

// Paths turns base names into paths inside the directory.
func (s *Set) Paths(names []string) []string {
	out := make([]string, len(names))
	for i, n := range names {
		out[i] = filepath.Join(s.Dir, n)
	}
	return out
}

// Files is the drop-in replacement for `Glob(<repo>/jen/*.go)` + `_test.go` filter +
// build.Default.MatchFile: the paths of the files of <repo>/jen compiled under at least one
// configuration, sorted.  It also roots the build context at the repository (UseRepo).
// A translator that type-checks the result as ONE package fails (exits non-zero, ./check
// reports every property that depends on it) when two configurations have files that
// redeclare each other; that the configurations do not differ at all is the obligation
// C09_one_file_set (Props/C09.v, Gen/Globals.v excluded_go_files).
func Files(repo string) ([]string, error) {
	if err := UseRepo(repo); err != nil {
		return nil, err
	}
	s, err := Load(repo)
	if err != nil {
		return nil, err
	}
	if len(s.Union) == 0 {
		return nil, fmt.Errorf("no Go files in %s", s.Dir)
	}
	return s.Paths(s.Union), nil
}
