#!/usr/bin/env python3
"""lib/mutsweep.py - systematic first-order mutation sweep (rehearsal tool; not part of any check).

  phase1 [--workers N]            every mutant of jen/*.go (lib/gomutate): build, then jennifer's own
                                  test suite; survivors (compile + 153 tests pass) are stored as patches
                                  under $SWEEP/surv/, the table in $SWEEP/phase1.json
  phase2 [--workers N] [--limit K] [--only substr]
                                  every survivor against the checks of the properties its file is
                                  anchored in (then all the others), on scratch copies of /verif and
                                  scratch worktrees of /repo (VERIF_REPO); stops at the first check that
                                  reports a VIOLATION; table in $SWEEP/phase2.json
  report                          Markdown summary (kill rates per file and operator; the survivors)

Nothing is written to /repo or /verif (except by `report --store`, which writes
/verif/seeded/mutation-sweep.json).  SWEEP defaults to /var/tmp/mutsweep.
"""
import os, sys, json, subprocess, shutil, tempfile, concurrent.futures as cf, time

V = os.path.dirname(os.path.dirname(os.path.abspath(__file__)))
SWEEP = os.environ.get("SWEEP", "/var/tmp/mutsweep")
ENV = dict(os.environ, GOFLAGS="-mod=mod", GOPROXY="off", GOSUMDB="off", GOTOOLCHAIN="local")
FILES = ["file.go", "group.go", "statement.go", "tokens.go", "lit.go", "dict.go", "tag.go", "comments.go",
         "jen.go", "custom.go", "add.go", "do.go", "reserved.go"]
ALL = ["C%02d" % i for i in range(1, 21)]
ORDER = {
    "file.go": ["C05", "C03", "C06", "C04", "C08", "C18", "C19", "C09", "C02", "C07"],
    "group.go": ["C13", "C02", "C01", "C15", "C14", "C10", "C08", "C16"],
    "statement.go": ["C13", "C02", "C20", "C14", "C10", "C01", "C08"],
    "tokens.go": ["C01", "C11", "C12", "C02", "C06", "C13"],
    "lit.go": ["C11", "C12", "C14"],
    "dict.go": ["C16", "C07", "C13", "C02"],
    "tag.go": ["C17", "C07", "C13"],
    "comments.go": ["C15", "C19", "C02"],
    "jen.go": ["C10", "C15", "C19", "C04", "C03", "C02", "C07"],
    "custom.go": ["C13", "C14", "C01"],
    "add.go": ["C14", "C13"], "do.go": ["C14", "C13"],
    "reserved.go": ["C05"],
}

def sh(cmd, cwd=None, env=None, timeout=None):
    try:
        p = subprocess.run(cmd, cwd=cwd, env=env or ENV, capture_output=True, text=True, errors="replace", timeout=timeout)
        return p.returncode, p.stdout + p.stderr
    except subprocess.TimeoutExpired as e:
        return 124, "TIMEOUT"

def gomutate():
    b = os.path.join(SWEEP, "gomutate")
    rc, out = sh(["go", "build", "-o", b, "."], cwd=os.path.join(V, "lib", "gomutate"))
    if rc != 0:
        sys.exit(out)
    return b

def worktree(i):
    d = os.path.join(SWEEP, "wt%d" % i)
    if not os.path.isdir(d):
        subprocess.run(["git", "-C", "/repo", "worktree", "add", "--detach", "-q", d, "HEAD"], check=True)
    subprocess.run(["git", "-C", d, "checkout", "-q", "--", "."], check=True)
    return d

def phase1(workers):
    os.makedirs(os.path.join(SWEEP, "surv"), exist_ok=True)
    gm = gomutate()
    todo = []
    for f in FILES:
        rc, out = sh([gm, "-list", f], cwd="/repo/jen")
        for l in out.splitlines():
            i, pos, op, detail = l.split("\t")
            todo.append({"file": f, "id": int(i), "pos": pos, "op": op, "detail": detail})
    print(len(todo), "mutants")
    import queue
    q = queue.Queue()
    for i in range(workers):
        q.put(i)
    def one(m):
        w = q.get()
        try:
            d = worktree(w)
            path = os.path.join(d, "jen", m["file"])
            rc, out = sh([gm, "-apply", str(m["id"]), m["file"]], cwd="/repo/jen")
            open(path, "w").write(out)
            rc, out = sh(["go", "build", "./..."], cwd=d, timeout=300)
            if rc != 0:
                m["result"] = "stillborn"
            else:
                rc, out = sh(["go", "vet", "./jen"], cwd=d, timeout=300)
                rc, out = sh(["go", "test", "-count=1", "./..."], cwd=d, timeout=180)
                if rc != 0:
                    m["result"] = "killed-by-tests" if rc != 124 else "killed-by-tests(timeout)"
                else:
                    m["result"] = "survivor"
                    rc, diff = sh(["git", "diff"], cwd=d)
                    name = "%s-%03d" % (m["file"].replace(".go", ""), m["id"])
                    open(os.path.join(SWEEP, "surv", name + ".diff"), "w").write(diff)
                    m["patch"] = name
            subprocess.run(["git", "-C", d, "checkout", "-q", "--", "."], check=True)
            return m
        finally:
            q.put(w)
    with cf.ThreadPoolExecutor(workers) as ex:
        res = list(ex.map(one, todo))
    json.dump(res, open(os.path.join(SWEEP, "phase1.json"), "w"), indent=1)
    from collections import Counter
    print(Counter(r["result"] for r in res))
    for i in range(workers):
        subprocess.run(["git", "-C", "/repo", "worktree", "remove", "--force", os.path.join(SWEEP, "wt%d" % i)], capture_output=True)

def verif_copy(i):
    d = os.path.join(SWEEP, "verif%d" % i)
    if not os.path.isdir(d):
        subprocess.run(["rsync", "-a", "--exclude", ".git", "--exclude", "replay", "--exclude", "seeded", "--exclude", "harness", V + "/", d + "/"], check=True)
        # the harness as COMMITTED (helpers may be editing the working tree)
        p1 = subprocess.Popen(["git", "-C", V, "archive", "HEAD", "harness"], stdout=subprocess.PIPE)
        subprocess.run(["tar", "-x", "-C", d], stdin=p1.stdout, check=True)
        p1.wait()
    return d

def phase2(workers, limit, only, allchecks=False):
    res1 = json.load(open(os.path.join(SWEEP, "phase1.json")))
    surv = [m for m in res1 if m["result"] == "survivor" and (not only or only in m["patch"])]
    if limit:
        surv = surv[:limit]
    out_path = os.path.join(SWEEP, "phase2.json")
    done = {}
    if os.path.exists(out_path):
        done = {m["patch"]: m for m in json.load(open(out_path))}
    import queue, threading
    q = queue.Queue()
    for i in range(workers):
        q.put(i)
    lock = threading.Lock()
    def one(m):
        if m["patch"] in done and "verdict" in done[m["patch"]]:
            return done[m["patch"]]
        w = q.get()
        try:
            vd = verif_copy(w)
            rp = os.path.join(SWEEP, "rwt%d" % w)
            subprocess.run(["git", "-C", "/repo", "worktree", "remove", "--force", rp], capture_output=True)
            subprocess.run(["git", "-C", "/repo", "worktree", "add", "--detach", "-q", rp, "HEAD"], check=True)
            pr = subprocess.run(["git", "-C", rp, "apply", "--recount", "-C1", os.path.join(SWEEP, "surv", m["patch"] + ".diff")], capture_output=True, text=True)
            if pr.returncode != 0:
                m["verdict"] = "patch-does-not-apply"
                subprocess.run(["git", "-C", "/repo", "worktree", "remove", "--force", rp], capture_output=True)
                with lock:
                    done[m["patch"]] = m
                return m
            env = dict(ENV, VERIF_REPO=rp)
            order = ORDER[m["file"]] + ([c for c in ALL if c not in ORDER[m["file"]]] if allchecks else [])
            m["runs"] = []
            m["verdict"] = "survived-all" if allchecks else "survived-anchored-checks"
            t0 = time.time()
            for pid in order:
                rc, out = sh([os.path.join(vd, "check"), pid, "--tier", "quick"], cwd=vd, env=env, timeout=1500)
                lines = [l for l in out.splitlines() if l.startswith("VIOLATION")]
                kind = ""
                if lines:
                    try:
                        b = json.load(open(lines[0].split("replay=")[1].split()[0]))
                        kind = b.get("kind", "")
                        f = b.get("failure") or {}
                        m["detail"] = ((f.get("detail") or "")[:300], (b.get("broken") or [""])[0][:200])
                    except Exception:
                        kind = "?"
                m["runs"].append([pid, rc, kind])
                if rc == 124:
                    m["verdict"] = "timeout in " + pid
                    m["by"] = pid
                    break
                if lines:
                    m["verdict"] = "detected"
                    m["by"] = pid
                    m["kind"] = kind
                    m["in_anchor_list"] = pid in ORDER[m["file"]]
                    break
                if rc != 0:
                    m["runs"][-1].append(out[-300:])
            m["seconds"] = round(time.time() - t0)
            subprocess.run(["git", "-C", "/repo", "worktree", "remove", "--force", rp], capture_output=True)
            with lock:
                done[m["patch"]] = m
                json.dump(list(done.values()), open(out_path, "w"), indent=1)
            print(m["patch"], m["pos"], m["op"], m["detail"] if isinstance(m.get("detail"), str) else "", "=>", m["verdict"], m.get("by", ""), m.get("kind", ""), m["seconds"], "s", flush=True)
            return m
        finally:
            q.put(w)
    with cf.ThreadPoolExecutor(workers) as ex:
        list(ex.map(one, surv))
    for i in range(workers):
        shutil.rmtree(os.path.join(SWEEP, "verif%d" % i), ignore_errors=True)
    subprocess.run(["git", "-C", "/repo", "worktree", "prune"])

def report(store):
    from collections import Counter, defaultdict
    r1 = json.load(open(os.path.join(SWEEP, "phase1.json")))
    r2 = {m["patch"]: m for m in json.load(open(os.path.join(SWEEP, "phase2.json")))} if os.path.exists(os.path.join(SWEEP, "phase2.json")) else {}
    rows = defaultdict(Counter)
    for m in r1:
        k = m["result"]
        if k == "survivor":
            v = r2.get(m["patch"], {}).get("verdict", "not-run")
            k = "survivor:" + v
            if v == "detected":
                k += ":" + r2[m["patch"]].get("kind", "")
        rows[m["file"]][k] += 1
        rows["TOTAL"][k] += 1
    keys = sorted({k for c in rows.values() for k in c})
    print("| file | " + " | ".join(keys) + " |")
    print("|---|" + "---|" * len(keys))
    for f in FILES + ["TOTAL"]:
        print("| %s | " % f + " | ".join(str(rows[f][k]) for k in keys) + " |")
    print()
    for p, m in sorted(r2.items()):
        if m.get("verdict") != "detected":
            print("*", p, m["pos"], m["op"], m.get("verdict"))
    if store:
        json.dump({"phase1": r1, "phase2": list(r2.values())}, open(os.path.join(V, "seeded", "mutation-sweep.json"), "w"), indent=1)

if __name__ == "__main__":
    a = sys.argv[1:]
    def opt(name, default=None, conv=str):
        if name in a:
            i = a.index(name); v = conv(a[i + 1]); del a[i:i + 2]; return v
        return default
    os.makedirs(SWEEP, exist_ok=True)
    if a[0] == "phase1":
        phase1(opt("--workers", 8, int))
    elif a[0] == "phase2":
        phase2(opt("--workers", 4, int), opt("--limit", 0, int), opt("--only"), "--all" in a)
    elif a[0] == "report":
        report("--store" in a)
