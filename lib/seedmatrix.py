#!/usr/bin/env python3
"""Prints the detection matrix of the seeded changes under /verif/seeded as Markdown."""
import json, glob, os
V = os.path.dirname(os.path.dirname(os.path.abspath(__file__)))
print("| seeded change | breaks | what it is (one line) | needs | result of the checks run against it |")
print("|---|---|---|---|---|")
for d in sorted(glob.glob(os.path.join(V, "seeded", "*", "meta.json"))):
    m = json.load(open(d)); name = os.path.basename(os.path.dirname(d))
    det = "; ".join("%s: %s" % kv for kv in sorted((m.get("detection") or {}).items()))
    cl = lambda s: " ".join(str(s or "").split()).replace("|", "/")
    print("| %s | %s | %s | %s | %s |" % (name, m.get("breaks_property", "?"), cl(m.get("summary"))[:230], cl(m.get("needs"))[:200], det))
