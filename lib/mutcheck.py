#!/usr/bin/env python3
"""lib/mutcheck.py <patch.diff> <ID> [<ID> ...] [--tier quick|thorough] [--keep]
Rehearsal of a seeded change WITHOUT touching /repo or /verif: copies /verif to a scratch
directory, makes a scratch worktree of /repo, applies the patch there and runs the copied
./check with VERIF_REPO pointing at it.  Prints one line per property: the VIOLATION /
KNOWN-FINDING lines and the summary line.  The official procedure (git -C /repo apply ...;
./check ...; git -C /repo checkout -- .) gives the same result; this one can run while other
work goes on."""
import os, subprocess, sys, shutil, tempfile, json
V = os.path.dirname(os.path.dirname(os.path.abspath(__file__)))
args = sys.argv[1:]
tier = "quick"
keep = "--keep" in args
if keep: args.remove("--keep")
if "--tier" in args:
    i = args.index("--tier"); tier = args[i+1]; del args[i:i+2]
patch, ids = os.path.abspath(args[0]), args[1:]
root = tempfile.mkdtemp(prefix="verif-mut-", dir=os.environ.get("VERIF_SCRATCH", "/var/tmp"))
vm, rp = os.path.join(root, "verif"), os.path.join(root, "repo")
try:
    subprocess.run(["rsync", "-a", "--exclude", ".git", "--exclude", "replay", "--exclude", "seeded", V + "/", vm + "/"], check=True)
    subprocess.run(["git", "-C", "/repo", "worktree", "add", "--detach", "-q", rp, "HEAD"], check=True)
    r = subprocess.run(["git", "-C", rp, "apply", patch], capture_output=True, text=True)
    if r.returncode != 0:
        # the patch was written against an older commit: merge it
        r = subprocess.run(["git", "-C", rp, "apply", "--3way", patch], capture_output=True, text=True)
    if r.returncode != 0:
        print("PATCH DOES NOT APPLY:", r.stderr); sys.exit(2)
    env = dict(os.environ, VERIF_REPO=rp)
    for pid in ids:
        p = subprocess.run([os.path.join(vm, "check"), pid, "--tier", tier], env=env, capture_output=True, text=True, cwd=vm)
        lines = [l for l in p.stdout.splitlines() if l.startswith(("VIOLATION", "KNOWN-FINDING", pid + ":"))]
        print("%s exit=%d | %s" % (pid, p.returncode, " | ".join(l[:300] for l in lines) or (p.stdout + p.stderr)[-600:]))
        for l in lines:
            if l.startswith("VIOLATION") and "replay=" in l:
                path = l.split("replay=")[1].split()[0]
                try:
                    b = json.load(open(path))
                    f = b.get("failure") or {}
                    print("   kind=%s broken=%s" % (b.get("kind"), [x[:200] for x in b.get("broken", [])][:2]))
                    print("   failure: %s %s" % (f.get("kind"), (f.get("detail") or "")[:400].replace("\n", " / ")))
                    print("   history: %s" % (f.get("history") or "")[:300])
                except Exception as e:
                    print("   (replay unreadable: %s)" % e)
finally:
    subprocess.run(["git", "-C", "/repo", "worktree", "remove", "--force", rp], capture_output=True)
    if not keep:
        shutil.rmtree(root, ignore_errors=True)
    else:
        print("kept", root)
