#!/usr/bin/env python3
"""lib/seedrerun.py [--workers N] [--all-checks] [name-substring ...]
Re-runs the checks recorded in each /verif/seeded/<name>/meta.json `detection` (or all twenty with
--all-checks) against the stored patch, through lib/mutcheck.py (scratch copies only), and rewrites
`detection` and `rerun` (date, /verif commit, /repo commit) in meta.json."""
import os, sys, json, glob, subprocess, concurrent.futures as cf, datetime
V = os.path.dirname(os.path.dirname(os.path.abspath(__file__)))
a = sys.argv[1:]
workers = 3
allc = "--all-checks" in a
if allc: a.remove("--all-checks")
if "--workers" in a:
    i = a.index("--workers"); workers = int(a[i+1]); del a[i:i+2]
def head(d): return subprocess.run(["git", "-C", d, "rev-parse", "--short", "HEAD"], capture_output=True, text=True).stdout.strip()
vh, rh = head(V), head("/repo")
seeds = sorted(os.path.dirname(p) for p in glob.glob(os.path.join(V, "seeded", "*", "meta.json")))
seeds = [s for s in seeds if os.path.exists(os.path.join(s, "patch.diff")) and (not a or any(x in os.path.basename(s) for x in a))]
def one(s):
    mp = os.path.join(s, "meta.json"); m = json.load(open(mp))
    ids = ["C%02d" % i for i in range(1, 21)] if (allc or str(m.get("breaks_property")).startswith(("None", "none"))) else sorted((m.get("detection") or {}).keys())
    own = os.path.basename(s).split("-")[0]
    if own.startswith("C") and own in ids:
        ids.remove(own); ids.insert(0, own)
    p = subprocess.run([sys.executable, os.path.join(V, "lib", "mutcheck.py"), os.path.join(s, "patch.diff")] + ids, capture_output=True, text=True, errors="replace")
    det, cur = {}, None
    for l in p.stdout.splitlines():
        w = l.split()
        if w and w[0] in ids and len(w) > 1 and w[1].startswith("exit="):
            cur = w[0]
            if "VIOLATION" in l:
                det[cur] = "detected"
            elif w[1] == "exit=0":
                det[cur] = "not detected" if own.startswith("C") else "no alarm"
            else:
                det[cur] = "check failed: " + l[:200]
        elif cur and l.strip().startswith("kind=no-failing-input-found") and det.get(cur) == "detected":
            det[cur] = "detected (no-failing-input-found)"
    if "PATCH DOES NOT APPLY" in p.stdout:
        det = {"error": "patch does not apply"}
    m["detection"] = det
    m["rerun"] = {"date": datetime.date.today().isoformat(), "verif": vh, "repo": rh}
    json.dump(m, open(mp, "w"), indent=1, ensure_ascii=False)
    print(os.path.basename(s), det, flush=True)
with cf.ThreadPoolExecutor(workers) as ex:
    list(ex.map(one, seeds))
