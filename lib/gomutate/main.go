// gomutate lists or applies first-order mutants of Go source files (textual edits at AST positions).
//
//	gomutate -list file.go ...          prints one line per mutant: <id>\t<file>:<line>:<col>\t<operator>\t<detail>
//	gomutate -apply <id> file.go        prints the mutated file to stdout (id as printed by -list for that file)
//
// Operators: negate-cond, binop (== != < <= > >= && || + -), del-stmt (expression statements,
// assignments, inc/dec, if without else, continue/break), bool-lit (true<->false), int-lit (n -> n+1),
// str-lit (non-empty -> "", "" -> "x"), ret-swap is not needed (covered by negate/bool-lit).
// Used only by the rehearsal (lib/mutsweep.py); not part of any check.
package main

import (
	"flag"
	"fmt"
	"go/ast"
	"go/parser"
	"go/token"
	"os"
	"sort"
	"strconv"
)

type edit struct {
	pos, end int // byte offsets
	text     string
}
type mutant struct {
	line, col int
	op, detail string
	edits     []edit
}

func mutants(fset *token.FileSet, f *ast.File, src []byte) []mutant {
	var ms []mutant
	off := func(p token.Pos) int { return fset.Position(p).Offset }
	add := func(p token.Pos, op, detail string, es ...edit) {
		ps := fset.Position(p)
		ms = append(ms, mutant{ps.Line, ps.Column, op, detail, es})
	}
	swap := map[token.Token][]string{
		token.EQL: {"!="}, token.NEQ: {"=="}, token.LSS: {"<=", ">="}, token.LEQ: {"<"}, token.GTR: {">=", "<="}, token.GEQ: {">"},
		token.LAND: {"||"}, token.LOR: {"&&"}, token.ADD: {"-"}, token.SUB: {"+"},
	}
	negate := func(c ast.Expr, what string) {
		add(c.Pos(), "negate-cond", what, edit{off(c.Pos()), off(c.Pos()), "!("}, edit{off(c.End()), off(c.End()), ")"})
	}
	ast.Inspect(f, func(n ast.Node) bool {
		switch x := n.(type) {
		case *ast.IfStmt:
			negate(x.Cond, "if")
			if x.Else == nil {
				add(x.Pos(), "del-stmt", "if-block", edit{off(x.Pos()), off(x.End()), "{}"})
			}
		case *ast.ForStmt:
			if x.Cond != nil {
				negate(x.Cond, "for")
			}
		case *ast.BinaryExpr:
			for _, r := range swap[x.Op] {
				if x.Op == token.ADD {
					// string concatenation cannot become '-': skip when either side is a string literal
					if bl, ok := x.X.(*ast.BasicLit); ok && bl.Kind == token.STRING {
						continue
					}
					if bl, ok := x.Y.(*ast.BasicLit); ok && bl.Kind == token.STRING {
						continue
					}
				}
				add(x.OpPos, "binop", x.Op.String()+" -> "+r, edit{off(x.OpPos), off(x.OpPos) + len(x.Op.String()), r})
			}
		case *ast.BlockStmt:
			for _, s := range x.List {
				switch st := s.(type) {
				case *ast.ExprStmt, *ast.IncDecStmt:
					add(s.Pos(), "del-stmt", "expr", edit{off(s.Pos()), off(s.End()), "{}"})
				case *ast.AssignStmt:
					if st.Tok != token.DEFINE {
						add(s.Pos(), "del-stmt", "assign", edit{off(s.Pos()), off(s.End()), "{}"})
					}
				case *ast.BranchStmt:
					if st.Tok == token.CONTINUE || st.Tok == token.BREAK {
						add(s.Pos(), "del-stmt", st.Tok.String(), edit{off(s.Pos()), off(s.End()), "{}"})
					}
				}
			}
		case *ast.Ident:
			if x.Name == "true" && x.Obj == nil {
				add(x.Pos(), "bool-lit", "true -> false", edit{off(x.Pos()), off(x.End()), "false"})
			} else if x.Name == "false" && x.Obj == nil {
				add(x.Pos(), "bool-lit", "false -> true", edit{off(x.Pos()), off(x.End()), "true"})
			}
		case *ast.BasicLit:
			switch x.Kind {
			case token.INT:
				if v, err := strconv.ParseInt(x.Value, 0, 64); err == nil {
					add(x.Pos(), "int-lit", fmt.Sprintf("%d -> %d", v, v+1), edit{off(x.Pos()), off(x.End()), strconv.FormatInt(v+1, 10)})
				}
			case token.STRING:
				if s, err := strconv.Unquote(x.Value); err == nil {
					if s == "" {
						add(x.Pos(), "str-lit", `"" -> "x"`, edit{off(x.Pos()), off(x.End()), `"x"`})
					} else {
						add(x.Pos(), "str-lit", strconv.Quote(s)+` -> ""`, edit{off(x.Pos()), off(x.End()), `""`})
					}
				}
			}
		case *ast.ImportSpec:
			return false
		case *ast.StructType:
			return false // no tags
		}
		return true
	})
	sort.SliceStable(ms, func(i, j int) bool {
		if ms[i].line != ms[j].line {
			return ms[i].line < ms[j].line
		}
		return ms[i].col < ms[j].col
	})
	return ms
}

func main() {
	list := flag.Bool("list", false, "list mutants")
	apply := flag.Int("apply", -1, "apply mutant id")
	flag.Parse()
	for _, name := range flag.Args() {
		src, err := os.ReadFile(name)
		if err != nil {
			fmt.Fprintln(os.Stderr, err)
			os.Exit(2)
		}
		fset := token.NewFileSet()
		f, err := parser.ParseFile(fset, name, src, parser.ParseComments)
		if err != nil {
			fmt.Fprintln(os.Stderr, err)
			os.Exit(2)
		}
		ms := mutants(fset, f, src)
		if *list {
			for i, m := range ms {
				fmt.Printf("%d\t%s:%d:%d\t%s\t%s\n", i, name, m.line, m.col, m.op, m.detail)
			}
		}
		if *apply >= 0 {
			if *apply >= len(ms) {
				fmt.Fprintln(os.Stderr, "no such mutant")
				os.Exit(2)
			}
			es := ms[*apply].edits
			sort.Slice(es, func(i, j int) bool { return es[i].pos > es[j].pos })
			out := append([]byte{}, src...)
			for _, e := range es {
				out = append(out[:e.pos], append([]byte(e.text), out[e.end:]...)...)
			}
			os.Stdout.Write(out)
		}
	}
}
