module gomutate

go 1.21
