#!/usr/bin/env python3
"""Regenerates MANIFEST.json from lib/claims.json (per-property texts)."""
import json, os
V = os.path.dirname(os.path.dirname(os.path.abspath(__file__)))
props = [json.loads(l) for l in open(os.path.join(V, "properties.jsonl"))]
claims = json.load(open(os.path.join(V, "lib", "claims.json")))
m = {
 "version": 1,
 "setup_cmd": "./check setup",
 "hooks": {"guard": "verif", "enable": "go build -tags verif (the harness module replaces github.com/dave/jennifer by /repo)",
           "baseline_off_cmd": "cd /repo && go test -vet=off -count=1 ./...",
           "source_commits": claims["hook_commits"], "add_only": True},
 "engines": [{"name": "coq-proof+correspondence", "path": "check", "serves_properties": sorted(claims["checks"].keys()),
              "kind_free_text": "Coq 8.16.1 theorems over a Gallina model (coq/), tables regenerated from the source on every run (tools/), differential correspondence of the extracted model against the implementation plus implementation-side oracles (harness/)"}],
 "checks": [], "not_applicable": [],
 "notes": "All checks: ./check <ID> --tier quick|thorough; see DESIGN.md. known_findings.json lists recorded findings and fixed defects.",
}
for p in props:
    pid = p["id"]
    c = claims["checks"].get(pid)
    if not c:
        m["not_applicable"].append({"property_id": pid, "reason": claims["pending"].get(pid, "check under construction in this round; will be claimed at level proof (DESIGN.md section 5)")})
        continue
    m["checks"].append({
        "property_id": pid,
        "quick_cmd": "./check %s --tier quick" % pid,
        "thorough_cmd": "./check %s --tier thorough" % pid,
        "evidence_file": "/verif/evidence/%s.json" % pid,
        "replay_cmd_template": "./check --replay {path}",
        "engine": "coq-proof+correspondence",
        "level_claimed": {"category": "proof", "text": c["text"], "design_ref": c.get("design_ref", "DESIGN.md 5 (%s)" % pid)},
        "level_note": c["note"],
        "technique": c["technique"],
    })
json.dump(m, open(os.path.join(V, "MANIFEST.json"), "w"), indent=1)
print("claimed:", [c["property_id"] for c in m["checks"]])
