#!/usr/bin/env python3
"""lib/seedflow.py <ID> <mN> <check ids...>
Confirms a seeded change delivered under $SEED_ROOT/<ID>/out/<mN>/ in a fresh scratch worktree
(demo passes without the change; with it the existing suite still passes and the demo
fails), rehearses the given checks against it (lib/mutcheck.py) and stores it as
/verif/seeded/<ID>-<mN>/ with the results in meta.json."""
import json, os, shutil, subprocess, sys, tempfile, glob
V = os.path.dirname(os.path.dirname(os.path.abspath(__file__)))
pid, m, checks = sys.argv[1], sys.argv[2], sys.argv[3:]
ROOT = os.environ.get("SEED_ROOT", "/tmp/seed2")
TAG = os.environ.get("SEED_TAG", "r2")
src = "%s/%s/out/%s" % (ROOT, pid, m)
ENV = dict(os.environ, GOFLAGS="-mod=mod", GOPROXY="off", GOSUMDB="off", GOTOOLCHAIN="local")
def sh(cmd, cwd):
    p = subprocess.run(cmd, cwd=cwd, env=ENV, shell=True, capture_output=True, text=True, errors="replace")
    return p.returncode, (p.stdout + p.stderr)[-1500:]
root = tempfile.mkdtemp(prefix="verif-seed-", dir="/var/tmp")
wt = os.path.join(root, "repo")
res = {}
try:
    subprocess.run(["git", "-C", "/repo", "worktree", "add", "--detach", "-q", wt, "HEAD"], check=True)
    demos = [f for f in os.listdir(src) if f.endswith(".go")]
    needs_race = "-race" in open(os.path.join(src, "meta.json")).read() if os.path.exists(os.path.join(src, "meta.json")) else False
    def place():
        for d in demos:
            if d.endswith("_test.go"):
                shutil.copy(os.path.join(src, d), os.path.join(wt, "jen", "zz_" + d))
            else:
                os.makedirs(os.path.join(wt, "zzdemo"), exist_ok=True)
                shutil.copy(os.path.join(src, d), os.path.join(wt, "zzdemo", "main.go"))
    def run_demo():
        out = []
        rc = 0
        if any(d.endswith("_test.go") for d in demos):
            r, o = sh(("CGO_ENABLED=1 go test -race" if needs_race else "go test") + " -vet=off -count=1 ./jen 2>&1 | tail -15", wt); out.append(o)
            rc |= 0 if ("ok " in o and "FAIL" not in o) else 1
        if any(not d.endswith("_test.go") for d in demos):
            r, o = sh("go run ./zzdemo 2>&1 | tail -15; exit ${PIPESTATUS[0]}", wt); out.append(o); rc |= (1 if r else 0)
        return rc, "\n".join(out)
    place()
    res["demo_without_change"] = run_demo()
    for f in glob.glob(os.path.join(wt, "jen", "zz_*")): os.remove(f)
    shutil.rmtree(os.path.join(wt, "zzdemo"), ignore_errors=True)
    r = subprocess.run(["git", "-C", wt, "apply", os.path.join(src, "patch.diff")], capture_output=True, text=True)
    if r.returncode != 0:
        r = subprocess.run(["git", "-C", wt, "apply", "--3way", os.path.join(src, "patch.diff")], capture_output=True, text=True)
    res["patch_applies"] = (r.returncode, r.stderr)
    res["suite_with_change"] = sh("go build ./... && go test -vet=off -count=1 ./... 2>&1 | tail -5", wt)
    place()
    res["demo_with_change"] = run_demo()
finally:
    subprocess.run(["git", "-C", "/repo", "worktree", "remove", "--force", wt], capture_output=True)
    shutil.rmtree(root, ignore_errors=True)
ok = (res["demo_without_change"][0] == 0 and res["patch_applies"][0] == 0 and
      res["suite_with_change"][0] == 0 and "FAIL" not in res["suite_with_change"][1] and res["demo_with_change"][0] != 0)
print("confirmed" if ok else "NOT CONFIRMED", json.dumps({k: (v[0], v[1][-300:]) for k, v in res.items()}, indent=1))
if not ok:
    sys.exit(1)
mc = subprocess.run([sys.executable, os.path.join(V, "lib", "mutcheck.py"), os.path.join(src, "patch.diff")] + checks,
                    capture_output=True, text=True)
print(mc.stdout[-6000:], mc.stderr[-1000:])
dst = os.path.join(V, "seeded", "%s-%s%s" % (pid, TAG, m))
os.makedirs(dst, exist_ok=True)
for f in os.listdir(src):
    shutil.copy(os.path.join(src, f), os.path.join(dst, f))
meta = json.load(open(os.path.join(src, "meta.json"))) if os.path.exists(os.path.join(src, "meta.json")) else {}
meta["breaks_property"] = pid
meta["confirmed_by_main_session"] = {k: {"exit": v[0], "tail": v[1][-400:]} for k, v in res.items()}
meta["checks_run"] = {"command": "lib/mutcheck.py patch.diff " + " ".join(checks), "output": mc.stdout[-4000:]}
det = {}
for line in mc.stdout.splitlines():
    for c in checks:
        if line.startswith(c + " exit="):
            det[c] = "detected" if "exit=1" in line else "not detected"
            if "no-failing-input-found" in line: det[c] += " (no-failing-input-found)"
meta["detection"] = det
json.dump(meta, open(os.path.join(dst, "meta.json"), "w"), indent=1)
print("stored", dst, det)
