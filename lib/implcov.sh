#!/bin/bash
# lib/implcov.sh [tier]  - diagnostic, not a check: statement coverage of package jen by the
# generator streams of all properties (go build -cover).  Prints the uncovered blocks; on the
# pinned tree these are only the bodies of `if err != nil` after writes to in-memory buffers,
# a null tag's render and the `nullToken // notest` case.
set -e
export GOFLAGS=-mod=mod GOPROXY=off GOSUMDB=off GOTOOLCHAIN=local CGO_ENABLED=0
V=$(cd "$(dirname "$0")/.." && pwd); T=${1:-quick}
D=$(mktemp -d "${TMPDIR:-/var/tmp}/verif-cov-XXXX"); trap 'rm -rf "$D"' EXIT
mkdir "$D/data"
(cd "$V/harness" && cp /repo/go.sum . && go build -tags verif -cover -coverpkg=github.com/dave/jennifer/jen,verifharness/... -o "$D/h" .)
for p in $("$D/h" -list); do GOCOVERDIR="$D/data" "$D/h" -prop $p -tier $T -seed ${VERIF_SEED:-1} -out "$D/rep.json" -model "$V/ocaml/model_driver" >/dev/null 2>&1 || true; done
(cd "$V/harness" && go tool covdata textfmt -i="$D/data" -pkg=github.com/dave/jennifer/jen -o "$D/cov.txt" && go tool cover -func="$D/cov.txt" | tail -1)
awk 'NR>1 {split($1,a,":"); if ($3==0) print a[1], a[2]}' "$D/cov.txt" | sort -u | while read f r; do s=${r%%,*}; l=${s%%.*}; b=$(basename $f); echo "$b:$l: $(sed -n ${l}p /repo/jen/$b | cut -c1-110)"; done | sort -t: -k1,1 -k2,2n | uniq
