// racejob is the race-detector side of property C09.  It is built by the harness at run
// time with `go build -race -tags verif` and regenerates the job sets of the invocation
// from (seed, tier) through package props; every job set is run with one goroutine and one
// hist.World per job (the jobs share no Code values: whatever they share is jennifer's
// own), several times under different GOMAXPROCS, and every job's observations are
// compared with the same job run alone.  With GORACE="halt_on_error=1 exitcode=66" the
// runtime prints the report and exits 66 on the first data race.
//
//	exit 0  no race, all outputs equal      exit 66  race report (by the runtime)
//	exit 3  outputs differ                  exit 4   other job sets than the harness has
package main

import (
	"flag"
	"fmt"
	"os"
	"sync"

	"verifharness/hist"
	"verifharness/props"
)

// control: the same fan-out as the real run plus one deliberate unsynchronised write.
func control() {
	sets := props.C09JobSets(1, "quick")
	files, jobs := props.C09Jobs(sets[0].Hist)
	shared := 0
	var wg sync.WaitGroup
	for _, f := range files {
		wg.Add(1)
		go func(h hist.History) {
			defer wg.Done()
			hist.NewWorld().Exec(h)
			shared++ // deliberate data race
		}(jobs[f])
	}
	wg.Wait()
	fmt.Println("control finished without a report, counter", shared)
}

func main() {
	hist.InitDone() // package initialisation is over: see hist/memwatch.go
	seed := flag.Int64("seed", 1, "seed of the job sets")
	tier := flag.String("tier", "quick", "quick | thorough")
	reps := flag.Int("reps", 0, "goroutine runs per job set (0: 3 quick, 5 thorough)")
	digest := flag.String("digest", "", "expected digest of the job sets")
	ctl := flag.Bool("control", false, "run the positive control (a deliberate race)")
	flag.Parse()
	if *ctl {
		control()
		return
	}
	if *reps == 0 {
		*reps = 3
		if *tier == "thorough" {
			*reps = 5
		}
	}
	sets := props.C09JobSets(*seed, *tier)
	d := props.C09Digest(sets)
	fmt.Println("digest", d)
	if *digest != "" && d != *digest {
		fmt.Println("job sets differ from the harness' (digest wanted " + *digest + ")")
		os.Exit(4)
	}
	jobs := 0
	for i, s := range sets {
		if msg := props.C09ConcurrentCheck(s.Hist, *reps); msg != "" {
			fmt.Printf("job set %d: %s\n", i, msg)
			os.Exit(3)
		}
		fs, _ := props.C09Jobs(s.Hist)
		jobs += len(fs)
	}
	fmt.Printf("ok sets=%d jobs=%d goroutine-runs-per-set=%d\n", len(sets), jobs, *reps)
}
