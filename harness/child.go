package main

import (
	"os"

	"verifharness/hist"
	"verifharness/props"
)

// Child mode (cross-process repetition, see props/xproc.go): `harness -child-exec <prop>
// <tier> <subseed>` regenerates the cases of the property, runs them once on the
// implementation and prints one digest line per case.  In normal mode this init only
// records the path of the binary so that properties can re-execute it.
func init() {
	if len(os.Args) >= 2 && os.Args[1] == "-child-exec" {
		hist.InitDone() // the child does its work from this init: the initialisation limit of hist/memwatch.go does not apply
		os.Exit(props.ChildMain(os.Args[2:], os.Stdout))
	}
	if exe, err := os.Executable(); err == nil {
		props.ChildExe = exe
	}
}
