module verifharness

go 1.20

require github.com/dave/jennifer v0.0.0

replace github.com/dave/jennifer => /repo
