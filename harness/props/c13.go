package props

import (
	"fmt"
	"go/parser"
	"go/token"
	"math/rand"
	"reflect"
	"sort"
	"strings"

	"github.com/dave/jennifer/jen"

	"verifharness/hist"
	"verifharness/term"
)

// C13: nil and Null() items vanish from lists; Empty() keeps its separator.
//
// Every case renders a tree twice: once with nullish items injected ("injected") and once
// without ("clean"); the observations come in consecutive pairs (injected, clean).  The
// oracle demands byte equality inside every pair (and no panic); Compare is the full
// projection against the model.
type c13 struct{}

func init() { Register(c13{}) }

func (c13) ID() string { return "C13" }

// ---------------------------------------------------------------------------------------
// the list constructs

// c13Doc is the oracle's own knowledge of the separators, written from the README / the
// doc comments of the methods (not read from the implementation): separator, one item per
// line, has a closing token.  A variadic method that is not listed here is still swept
// (equality with/without injection) but its separators are not counted (tag sep=unknown).
var c13Doc = map[string]struct {
	Sep      string
	Multi    bool
	HasClose bool
}{
	"Call": {",", false, true}, "Params": {",", false, true}, "List": {",", false, false}, "Values": {",", false, true},
	"Index": {":", false, true}, "Block": {"", true, true}, "Defs": {"", true, true}, "Case": {",", false, true},
	"Types": {",", false, true}, "Union": {"|", false, false}, "Return": {",", false, false},
	"If": {";", false, false}, "For": {";", false, false}, "Switch": {";", false, false},
	"Interface": {"", true, true}, "Struct": {"", true, true},
	"Append": {",", false, true}, "Min": {",", false, true}, "Max": {",", false, true}, "Make": {",", false, true},
	"Print": {",", false, true}, "Println": {",", false, true},
}

// c13Custom: option sets for Custom, including multi, delimiter-less and separator-less.
var c13Custom = []jen.Options{
	{Open: "(", Close: ")", Separator: ",", Multi: false},
	{Open: "<", Close: ">", Separator: ";", Multi: false},
	{Open: "", Close: "", Separator: ",", Multi: false},
	{Open: "{", Close: "}", Separator: "", Multi: true},
	{Open: "(", Close: ")", Separator: ",", Multi: true},
	{Open: "", Close: "", Separator: "|", Multi: true},
	{Open: "[", Close: "]", Separator: "", Multi: false},
}

type c13Cons struct {
	Name     string // tag
	Method   string // jen method, "Custom", or "stmt" (the statement chain itself)
	Opts     jen.Options
	Sep      string
	Multi    bool
	HasClose bool
	Known    bool // the oracle knows the separator
}

func c13Constructs() []c13Cons {
	var out []c13Cons
	for _, m := range VariadicGroups {
		c := c13Cons{Name: m, Method: m}
		if d, ok := c13Doc[m]; ok {
			c.Sep, c.Multi, c.HasClose, c.Known = d.Sep, d.Multi, d.HasClose, true
		}
		out = append(out, c)
	}
	for i, o := range c13Custom {
		out = append(out, c13Cons{Name: fmt.Sprintf("Custom%d", i), Method: "Custom", Opts: o,
			Sep: o.Separator, Multi: o.Multi, HasClose: o.Close != "", Known: true})
	}
	// the statement chain: items separated by one space (the model's theorem covers it; the
	// Case/Default + Block adjacency, which is a stated exception, cannot arise with
	// identifier items)
	out = append(out, c13Cons{Name: "stmt", Method: "stmt", Sep: " ", Known: true})
	return out
}

// ---------------------------------------------------------------------------------------
// nullish items

var c13Kinds = []string{"nil", "nilstmt", "nilgroup", "null", "emptystmt", "nullsonly", "emptytag", "nulldict"}

// c13Nullish builds a fresh nullish item of the given kind (variant selects among the
// shapes of the kind).  stmtLevel: the item is appended to a statement chain (token-level
// forms are used where they exist), otherwise it is an item of a group.
func c13Nullish(kind string, variant int, stmtLevel bool) term.Node {
	switch kind {
	case "nil":
		return term.Nil{}
	case "nilstmt":
		return term.NilStmt{}
	case "nilgroup":
		return term.NilGroup{}
	case "null":
		if stmtLevel {
			return term.Null()
		}
		return term.S(term.Null())
	case "emptystmt":
		return term.S()
	case "nullsonly":
		vs := 9
		switch variant % vs {
		case 0:
			return term.S(term.Null(), term.Null())
		case 1:
			return term.S(term.Nil{}) // Add(nil)
		case 2:
			return term.S(term.G("List", term.S(term.Null()), term.Nil{}))
		case 3:
			return term.S(term.G("Union", term.Nil{}, term.S()))
		case 4:
			return term.S(term.G("List"))
		case 5:
			return term.S(term.Custom(jen.Options{Separator: ";"}, term.S(term.Null()), term.NilStmt{}))
		case 6:
			return term.S(term.S(), term.NilStmt{}, term.NilGroup{})
		case 7:
			if stmtLevel {
				return term.G("Union")
			}
			return term.S(term.G("Union"))
		default:
			return term.S(term.G("List", term.S(term.G("Union", term.S(term.Null()))), term.S(term.Tag{})))
		}
	case "emptytag":
		var t term.Tag
		if variant%2 == 1 {
			t = term.Tag{KV: [][2]string{}}
		}
		if stmtLevel {
			return t
		}
		return term.S(t)
	case "nulldict":
		switch variant % 4 {
		case 0:
			return &term.Dict{}
		case 1:
			return &term.Dict{Pairs: [][2]term.Node{{term.S(term.Id("k")), term.S(term.Null())}}}
		case 2:
			return &term.Dict{Pairs: [][2]term.Node{{term.Nil{}, term.S(term.Lit(1))}, {term.S(term.Id("k")), term.Nil{}}}}
		default:
			return term.S(&term.Dict{}) // Add(Dict{})
		}
	}
	panic("c13: bad kind " + kind)
}

type c13Inj struct {
	Kind    string
	Variant int
}

// ---------------------------------------------------------------------------------------
// building one list

// c13List describes one list: arity n, which real items are Empty(), what is injected in
// each of the n+1 slots (slot s precedes item s; slot n follows the last item).
type c13List struct {
	Cons  c13Cons
	N     int
	Empty []bool
	Inj   [][]c13Inj
}

func c13ItemName(i int) string {
	if i > 9 {
		panic("c13: arity above 9")
	}
	return fmt.Sprintf("i%d", i)
}

// items builds fresh nodes. plain: items fit the construct's formatted context.
func (l *c13List) items(inject, plain bool) []term.Node {
	stmtLevel := l.Cons.Method == "stmt"
	var out []term.Node
	for s := 0; s <= l.N; s++ {
		if inject && s < len(l.Inj) {
			for _, k := range l.Inj[s] {
				out = append(out, c13Nullish(k.Kind, k.Variant, stmtLevel))
			}
		}
		if s == l.N {
			break
		}
		empty := s < len(l.Empty) && l.Empty[s]
		switch {
		case stmtLevel && empty:
			out = append(out, term.Named("Empty"))
		case stmtLevel:
			out = append(out, term.Id(c13ItemName(s)))
		case empty:
			out = append(out, term.S(term.Named("Empty")))
		case plain && l.Cons.Method == "Defs":
			out = append(out, term.S(term.Id(c13ItemName(s)), term.Id("int")))
		case plain && l.Cons.Method == "Block":
			out = append(out, term.S(term.Id(c13ItemName(s)), term.G("Call")))
		default:
			out = append(out, term.S(term.Id(c13ItemName(s))))
		}
	}
	return out
}

// bare is the construct alone (for a NoFormat file: the raw text is the list and nothing else).
func (l *c13List) bare(inject bool) *term.Stmt {
	its := l.items(inject, false)
	switch l.Cons.Method {
	case "stmt":
		return term.S(its...)
	case "Custom":
		return term.S(term.Custom(l.Cons.Opts, its...))
	}
	return term.S(term.G(l.Cons.Method, its...))
}

// plain puts the construct into a context in which it is (for most arities) valid Go, so
// that the formatted Statement.Render succeeds; where it does not, both renders return a
// format error carrying the raw text, which is compared all the same.
func (l *c13List) plain(inject bool) *term.Stmt {
	its := l.items(inject, true)
	m := l.Cons.Method
	var g term.Node
	switch m {
	case "stmt":
		return term.S(its...)
	case "Custom":
		g = term.Custom(l.Cons.Opts, its...)
	default:
		g = term.G(m, its...)
	}
	assign := func(xs ...term.Node) *term.Stmt {
		return term.S(append([]term.Node{term.Id("_"), term.Op("=")}, xs...)...)
	}
	switch m {
	case "Call", "Custom":
		return assign(term.Id("f"), g)
	case "Append", "Min", "Max", "Make", "Print", "Println":
		return assign(g)
	case "Params":
		return term.S(term.Named("Func"), term.Id("f"), g, term.G("Block"))
	case "List":
		return assign(term.Id("f"), term.G("Call", term.S(g)))
	case "Values":
		return assign(term.Id("T"), g)
	case "Index":
		return assign(term.Id("a"), g)
	case "Block", "Return":
		return term.S(g)
	case "Defs":
		return term.S(term.Named("Var"), g)
	case "Case":
		return term.S(term.G("Switch"), term.G("Block", term.S(g, term.G("Block", term.S(term.Id("f"), term.G("Call"))))))
	case "Types":
		return assign(term.Id("F"), g, term.G("Call"))
	case "Union":
		return term.S(term.Named("Type"), term.Id("T"), term.G("Interface", term.S(g)))
	case "If", "For", "Switch":
		return term.S(g, term.G("Block"))
	case "Interface", "Struct":
		return term.S(term.Named("Type"), term.Id("T"), g)
	}
	return term.S(g)
}

func (l *c13List) injected() int {
	n := 0
	for _, s := range l.Inj {
		n += len(s)
	}
	return n
}

// names of the non-null items in order; "" stands for an Empty() item.
func (l *c13List) names() []string {
	out := make([]string, l.N)
	for i := range out {
		if i < len(l.Empty) && l.Empty[i] {
			continue
		}
		out[i] = c13ItemName(i)
	}
	return out
}

func c13FileHist(inj, clean []*term.Stmt, formatted bool, imports bool) hist.History {
	var h hist.History
	for f, decls := range [][]*term.Stmt{inj, clean} {
		h = append(h, hist.Op{Kind: "newfile", F: f, A: "p"})
		if !formatted {
			h = append(h, hist.Op{Kind: "noformat", F: f, Flag: true})
		}
		for _, d := range decls {
			h = append(h, hist.Op{Kind: "fadd", F: f, Code: d})
		}
		h = append(h, hist.Op{Kind: "render", F: f})
		if imports {
			h = append(h, hist.Op{Kind: "imports", F: f})
		}
	}
	return h
}

// listCase: mode "file" renders the bare construct in two NoFormat files (raw bytes; the
// separator structure is checked), mode "plain" renders it in context with the formatted
// Statement.Render.
func (l *c13List) listCase(mode, stream string) *Case {
	var h hist.History
	if mode == "file" {
		h = c13FileHist([]*term.Stmt{l.bare(true)}, []*term.Stmt{l.bare(false)}, false, false)
	} else {
		h = hist.History{{Kind: "rplain", Code: l.plain(true)}, {Kind: "rplain", Code: l.plain(false)}}
	}
	ne := 0
	for _, e := range l.Empty {
		if e {
			ne++
		}
	}
	tags := []string{"construct=" + l.Cons.Name, fmt.Sprintf("arity=%d", l.N), "mode=" + mode, fmt.Sprintf("injected=%d", min3(l.injected(), 6))}
	kinds := map[string]bool{}
	for s, ks := range l.Inj {
		for _, k := range ks {
			kinds[k.Kind] = true
		}
		if len(ks) > 0 {
			switch {
			case l.N == 0:
				tags = append(tags, "pos=only")
			case s == 0:
				tags = append(tags, "pos=first")
			case s == l.N:
				tags = append(tags, "pos=last")
			default:
				tags = append(tags, "pos=middle")
			}
		}
		if len(ks) > 1 {
			tags = append(tags, "multiplicity>1")
		}
	}
	for k := range kinds {
		tags = append(tags, "kind="+k)
	}
	if ne > 0 {
		tags = append(tags, "with-Empty")
		if ne == l.N {
			tags = append(tags, "all-Empty")
		}
		if l.Empty[0] {
			// the FIRST non-null item of the list is Empty(): it writes nothing, and the separator
			// after it must still be written
			tags = append(tags, "leading-Empty")
			if len(l.Inj) > 0 && len(l.Inj[0]) > 0 {
				tags = append(tags, "leading-Empty-after-nulls")
			}
		}
	}
	if l.N >= 5 && l.injected() > 0 {
		tags = append(tags, "null-in-arity>=5")
	}
	if !l.Cons.Known {
		tags = append(tags, "sep=unknown")
	}
	sort.Strings(tags)
	tags = uniqStrings(tags)
	return &Case{Hist: h, Stream: stream, Tags: tags,
		// non-trivial: at least one nullish item was really put into the injected version
		NonTrivial: l.injected() > 0,
		Meta:       map[string]interface{}{"kind": "list", "mode": mode, "names": l.names(), "cons": l.Cons}}
}

func min3(a, b int) int {
	if a < b {
		return a
	}
	return b
}

func uniqStrings(s []string) []string {
	var out []string
	for i, x := range s {
		if i == 0 || x != s[i-1] {
			out = append(out, x)
		}
	}
	return out
}

// ---------------------------------------------------------------------------------------
// generator

func (c13) Generate(r *rand.Rand, t string) []*Case {
	var out []*Case
	cons := c13Constructs()
	thorough := t == "thorough"
	rk := func() c13Inj { return c13Inj{Kind: c13Kinds[r.Intn(len(c13Kinds))], Variant: r.Intn(36)} }

	// (1) every construct x arity x single position x kind, raw bytes. quick: arity 0..5;
	// thorough: arity 0..8.  The variant of the kind rotates with a per-kind counter so that all
	// shapes of "nullsonly" / "nulldict" / "emptytag" are met in every construct.
	maxSingle := tier(t, 5, 8)
	ctr := map[string]int{} // per kind
	for _, c := range cons {
		for n := 0; n <= maxSingle; n++ {
			for s := 0; s <= n; s++ {
				for _, k := range c13Kinds {
					inj := make([][]c13Inj, n+1)
					inj[s] = []c13Inj{{Kind: k, Variant: ctr[k]}}
					ctr[k]++
					l := &c13List{Cons: c, N: n, Inj: inj}
					out = append(out, l.listCase("file", "sweep-single"))
				}
			}
		}
	}

	// (2) every construct x arity x every non-empty subset of the n+1 positions, kinds and
	// multiplicities (1..3 per position) random; alternating raw file / formatted plain
	// render; in a quarter of the cases some real items are Empty().
	maxSub := tier(t, 6, 8)
	reps := tier(t, 2, 4)
	for _, c := range cons {
		for n := 0; n <= maxSub; n++ {
			for mask := 1; mask < 1<<(n+1); mask++ {
				for rep := 0; rep < reps; rep++ {
					inj := make([][]c13Inj, n+1)
					for s := 0; s <= n; s++ {
						if mask&(1<<s) == 0 {
							continue
						}
						mult := 1
						if r.Intn(4) == 0 {
							mult = 2 + r.Intn(2)
						}
						for j := 0; j < mult; j++ {
							inj[s] = append(inj[s], rk())
						}
					}
					l := &c13List{Cons: c, N: n, Inj: inj}
					if n > 0 && r.Intn(4) == 0 {
						l.Empty = make([]bool, n)
						for i := range l.Empty {
							l.Empty[i] = r.Intn(3) == 0
						}
					}
					mode := "file"
					if (mask+rep+n)%2 == 0 {
						mode = "plain"
					}
					out = append(out, l.listCase(mode, "sweep-subsets"))
				}
			}
		}
	}

	// (3) Empty(): every construct x arity 1..5 (thorough 1..7) x every non-empty subset of
	// the items turned into Empty(), once without and once with random injection; raw bytes.
	maxE := tier(t, 5, 7)
	for _, c := range cons {
		for n := 1; n <= maxE; n++ {
			for mask := 1; mask < 1<<n; mask++ {
				for v := 0; v < 2; v++ {
					l := &c13List{Cons: c, N: n, Empty: make([]bool, n), Inj: make([][]c13Inj, n+1)}
					for i := 0; i < n; i++ {
						l.Empty[i] = mask&(1<<i) != 0
					}
					if v == 1 {
						for s := 0; s <= n; s++ {
							if r.Intn(2) == 0 {
								l.Inj[s] = append(l.Inj[s], rk())
							}
						}
						if l.injected() == 0 {
							l.Inj[r.Intn(n+1)] = []c13Inj{rk()}
						}
					}
					cs := l.listCase("file", "empty")
					// the Empty() cases are about the separators: they count even without injection
					cs.NonTrivial = true
					out = append(out, cs)
				}
			}
		}
	}
	// the two examples of the README, formatted: a[:x] and for ; c; {}
	for _, l := range []*c13List{
		{Cons: consByName(cons, "Index"), N: 2, Empty: []bool{true, false}, Inj: [][]c13Inj{{{Kind: "null"}}, {{Kind: "nil"}}, nil}},
		{Cons: consByName(cons, "For"), N: 3, Empty: []bool{true, false, true}, Inj: [][]c13Inj{nil, {{Kind: "null"}}, nil, {{Kind: "nilstmt"}}}},
	} {
		cs := l.listCase("plain", "empty")
		if l.Cons.Name == "Index" {
			cs.Meta["want"] = "_ = a[:i1]" // (gofmt rewrites `for ;i1; {}` to `for i1 {}`: For is judged on the raw bytes above)
		}
		out = append(out, cs)
	}

	// leading Empty(): the documented shapes with their raw bytes fixed, nil / Null() items
	// before the Empty() in every combination of kinds (quick: one kind pair per shape and
	// rotation; the sweep above covers every construct, these pin the bytes).
	lead := []struct {
		cons  string
		empty []bool
		want  string
	}{
		{"Index", []bool{true, false}, "[:i1]"},           // a[:x]
		{"Index", []bool{true, false, false}, "[:i1:i2]"}, // a[:2:3]
		{"Index", []bool{true, true}, "[:]"},              // a[:]
		{"Index", []bool{true, true, false}, "[::i2]"},    //
		{"For", []bool{true, false, true}, "for ;i1;"},    // for ; c ; {}
		{"For", []bool{true, true, false}, "for ;;i2"},    //
		{"If", []bool{true, false}, "if ;i1"},             //
		{"Switch", []bool{true, false}, "switch ;i1"},     //
		{"Call", []bool{true, false}, "(,i1)"},            // (not Go; the separator rule is the same)
		{"List", []bool{true, false}, ",i1"},              //
		{"Return", []bool{true, false}, "return ,i1"},     //
		{"Union", []bool{true, false, false}, "|i1|i2"},   //
		{"Custom1", []bool{true, false}, "<;i1>"},         //
		{"Custom2", []bool{true, true, false}, ",,i2"},    //
	}
	for li, sh := range lead {
		for v := 0; v < len(c13Kinds); v++ {
			n := len(sh.empty)
			l := &c13List{Cons: consByName(cons, sh.cons), N: n, Empty: sh.empty, Inj: make([][]c13Inj, n+1)}
			// 1..2 nullish items before the leading Empty(), sometimes more elsewhere
			l.Inj[0] = []c13Inj{{Kind: c13Kinds[v], Variant: li + v}}
			if (li+v)%2 == 0 {
				l.Inj[0] = append(l.Inj[0], c13Inj{Kind: c13Kinds[(v+3)%len(c13Kinds)], Variant: li})
			}
			if (li+v)%3 == 0 {
				l.Inj[1+r.Intn(n)] = []c13Inj{rk()}
			}
			cs := l.listCase("file", "empty")
			cs.NonTrivial = true
			cs.Meta["wantraw"] = sh.want
			out = append(out, cs)
		}
	}

	// render-twice: one tree rendered two or three times in one history
	nt := tier(t, 2500, 40000)
	for i := 0; i < nt; i++ {
		out = append(out, c13TwiceCase(r, cons, i))
	}

	// (4) fixed-arity constructs (the other built-in calls, Parens, Assert, Map, ...): no
	// item can be added, so every argument is replaced by a nullish item of one kind in
	// the first render and by a nullish item of another kind in the second.
	for _, m := range FixedGroups {
		for i, k := range c13Kinds {
			a := term.S(term.G(m, c13Nullish(k, i, false)))
			b := term.S(term.G(m, c13Nullish(c13Kinds[(i+3)%len(c13Kinds)], i+1, false)))
			out = append(out, &Case{Stream: "fixed-arity", NonTrivial: true, Tags: []string{"construct=" + m, "kind=" + k},
				Hist: c13FileHist([]*term.Stmt{a}, []*term.Stmt{b}, false, false),
				Meta: map[string]interface{}{"kind": "pairs"}})
		}
	}

	// two-argument built-ins (Complex, Copy, Delete; found by reflection): one argument
	// nullish, the other real, on either side: both render name(i0)
	for _, m := range c13TwoArg() {
		for i, k := range c13Kinds {
			a := term.S(term.G(m, c13Nullish(k, i, false), term.S(term.Id("i0"))))
			b := term.S(term.G(m, term.S(term.Id("i0")), c13Nullish(c13Kinds[(i+5)%len(c13Kinds)], i+1, false)))
			out = append(out, &Case{Stream: "fixed-arity", NonTrivial: true, Tags: []string{"construct=" + m, "kind=" + k},
				Hist: c13FileHist([]*term.Stmt{a}, []*term.Stmt{b}, false, false),
				Meta: map[string]interface{}{"kind": "pairs"}})
		}
	}

	// (6) the Group form of Null (g.Null() inside ...Func callbacks), slots filled later by
	// chaining (c13_group.go)
	out = append(out, c13gFixed()...)
	ng := tier(t, 1500, 30000)
	for i := 0; i < ng; i++ {
		out = append(out, c13gRandom(r, i%3 == 0))
	}
	// (7) Custom groups with only one delimiter are never null (c13_custom.go)
	out = append(out, c13HalfCases()...)

	// (8) maps and Dicts of the caller that change after they were passed in (c13_live.go)
	for i, n := 0, tier(t, 2500, 60000); i < n; i++ {
		out = append(out, c13LiveListCase(r, cons))
	}
	for i, n := 0, tier(t, 800, 20000); i < n; i++ {
		out = append(out, c13LiveProgramCase(r))
	}

	// (5) programs
	np := tier(t, 3000, 60000)
	for i := 0; i < np; i++ {
		out = append(out, c13ProgramCase(r, thorough))
	}

	// (6) zero-length variadic calls followed by chaining (c13_zero.go)
	out = append(out, c13zGenerate(r, t)...)
	return out
}

// ---------------------------------------------------------------------------------------
// render-twice

// c13TwiceCase: ONE tree (the same jen values) is rendered two or three times in one
// history, and so is its twin without null items.  The tree holds a list with nullish items
// BEFORE real items (slot 0 always, other slots at random).  Ways of rendering:
//
//	plain   Statement.Render (formatted; a fresh File each time)
//	file    File.Render of a NoFormat File holding the statement (the same File every time)
//	rcode   Statement.RenderWithFile with that File (formatted)
//
// Sequences: plain x2..3, file x2..3, plain+file, file+plain, plain+file+plain, file+rcode+file,
// rcode+rcode.  In "dictkey" cases the list sits inside a Dict KEY (a key is rendered twice
// within one render: once for its sort text, once into the output); in "program" cases the
// tree is a whole formatted File of 1..4 declarations rendered 2..3 times.
//
// Observations: the k renders of the injected tree, then the k renders of the clean twin.
// Oracle: render i of the injected tree = render i of the twin; every render equals the
// first render made in the same way (same bytes, nothing accumulates or shifts).
func c13TwiceCase(r *rand.Rand, cons []c13Cons, i int) *Case {
	seqs := [][]string{
		{"plain", "plain"}, {"plain", "plain", "plain"}, {"file", "file"}, {"file", "file", "file"},
		{"plain", "file"}, {"file", "plain"}, {"plain", "file", "plain"}, {"file", "rcode", "file"}, {"rcode", "rcode"},
	}
	ways := seqs[r.Intn(len(seqs))]
	tags := []string{"rendered-twice", "ways=" + strings.Join(ways, "+"), fmt.Sprintf("renders=%d", len(ways))}
	var inj, clean *term.Stmt
	injected := 0
	switch k := r.Intn(8); {
	case k == 0:
		// a whole program: formatted File rendered several times
		p := &c13Prog{r: r, paths: []string{"fmt", "a.b/d", "c.b/d"}}
		z := &c13Injector{R: r, Rate: 25, On: true}
		var ds, is []*term.Stmt
		for j := 1 + r.Intn(4); j > 0; j-- {
			d := p.decl()
			ds = append(ds, d)
			is = append(is, z.Stmt(d))
		}
		injected = z.Count
		nr := 2 + r.Intn(2)
		var h hist.History
		for f, decls := range [][]*term.Stmt{is, ds} {
			h = append(h, hist.Op{Kind: "newfile", F: f, A: "p"})
			for _, d := range decls {
				h = append(h, hist.Op{Kind: "fadd", F: f, Code: d})
			}
			for j := 0; j < nr; j++ {
				h = append(h, hist.Op{Kind: "render", F: f})
			}
		}
		ws := make([]string, nr)
		for j := range ws {
			ws[j] = "file"
		}
		tags = []string{"rendered-twice", "ways=program-file", fmt.Sprintf("renders=%d", nr), fmt.Sprintf("injected=%d", min3((injected+4)/5*5, 30))}
		sort.Strings(tags)
		return &Case{Hist: h, Stream: "render-twice", Tags: tags,
			// non-trivial: at least one nullish item sits in a list that is rendered more than once
			NonTrivial: injected > 0,
			Meta:       map[string]interface{}{"kind": "twice", "ways": ws}}
	default:
		// one list construct of arity 1..5 with nullish items before the first real item
		c := cons[r.Intn(len(cons))]
		n := 1 + r.Intn(5)
		l := &c13List{Cons: c, N: n, Inj: make([][]c13Inj, n+1)}
		rk := func() c13Inj { return c13Inj{Kind: c13Kinds[r.Intn(len(c13Kinds))], Variant: r.Intn(36)} }
		for m := 1 + r.Intn(2); m > 0; m-- {
			l.Inj[0] = append(l.Inj[0], rk())
		}
		for s := 1; s <= n; s++ {
			if r.Intn(3) == 0 {
				l.Inj[s] = append(l.Inj[s], rk())
			}
		}
		if r.Intn(6) == 0 {
			l.Empty = make([]bool, n)
			l.Empty[r.Intn(n)] = true
		}
		injected = l.injected()
		tags = append(tags, "construct="+c.Name, fmt.Sprintf("arity=%d", n))
		if k == 1 && c.Method != "stmt" {
			// the list inside a Dict key: T{ f <list> : 1, k2: 2 }
			wrap := func(st *term.Stmt) *term.Stmt {
				d := &term.Dict{Pairs: [][2]term.Node{
					{term.S(term.Id("k"), st.Items[0]), term.S(term.Lit(1))},
					{term.S(term.Id("k2")), term.S(term.Lit(2))}}}
				return term.S(term.Id("_"), term.Op("="), term.Id("T"), term.G("Values", d))
			}
			inj, clean = wrap(l.bare(true)), wrap(l.bare(false))
			tags = append(tags, "null-list-in-dict-key")
		} else {
			inj, clean = l.plain(true), l.plain(false)
		}
	}
	var h hist.History
	for f, st := range []*term.Stmt{inj, clean} {
		hasFile := false
		for _, w := range ways {
			if w != "plain" && !hasFile {
				hasFile = true
				h = append(h, hist.Op{Kind: "newfile", F: f, A: "p"}, hist.Op{Kind: "noformat", F: f, Flag: true},
					hist.Op{Kind: "fadd", F: f, Code: st})
			}
			switch w {
			case "plain":
				h = append(h, hist.Op{Kind: "rplain", Code: st})
			case "file":
				h = append(h, hist.Op{Kind: "render", F: f})
			case "rcode":
				h = append(h, hist.Op{Kind: "rcode", F: f, Code: st})
			}
		}
	}
	sort.Strings(tags)
	return &Case{Hist: h, Stream: "render-twice", Tags: uniqStrings(tags),
		NonTrivial: injected > 0,
		Meta:       map[string]interface{}{"kind": "twice", "ways": ways}}
}

// c13TwoArg: methods func(Code, Code) *Statement of *jen.Statement.
func c13TwoArg() []string {
	st := reflect.TypeOf(&jen.Statement{})
	codeT := reflect.TypeOf((*jen.Code)(nil)).Elem()
	var out []string
	for i := 0; i < st.NumMethod(); i++ {
		t := st.Method(i).Type
		if t.NumIn() == 3 && !t.IsVariadic() && t.In(1) == codeT && t.In(2) == codeT && t.NumOut() == 1 && t.Out(0) == st {
			out = append(out, st.Method(i).Name)
		}
	}
	sort.Strings(out)
	return out
}

func consByName(cons []c13Cons, n string) c13Cons {
	for _, c := range cons {
		if c.Name == n {
			return c
		}
	}
	panic("c13: no construct " + n)
}

// ---------------------------------------------------------------------------------------
// injection into whole programs

var c13Variadic map[string]bool

func c13IsList(m string) bool {
	if c13Variadic == nil {
		c13Variadic = map[string]bool{"Custom": true}
		for _, v := range VariadicGroups {
			c13Variadic[v] = true
		}
	}
	return c13Variadic[m]
}

// c13Injector copies a tree (fresh nodes throughout) and, when On, inserts nullish items
// into the item lists of list constructs with probability Rate % per position.
//
// Not injected (outside the property's domain):
//   - a Values group holding a Dict (`Values(Dict, x)` panics by design whenever a second
//     item is present: recorded open finding "values-dict-plus-item-panics");
//   - statement chains (an item between Case(...)/Default() and the following Block changes
//     the brace rule; the statement chain is not one of the property's list constructs);
//   - fixed-arity groups and Dicts.
type c13Injector struct {
	R     *rand.Rand
	Rate  int
	On    bool
	Count int            // nullish items inserted
	Where map[string]int // by construct
}

func (z *c13Injector) nullish() term.Node {
	return c13Nullish(c13Kinds[z.R.Intn(len(c13Kinds))], z.R.Intn(36), false)
}

func (z *c13Injector) Copy(n term.Node) term.Node {
	switch x := n.(type) {
	case *term.Stmt:
		if x == nil {
			return x
		}
		return z.Stmt(x)
	case *term.Group:
		g := &term.Group{Method: x.Method, Opts: x.Opts, Path: x.Path, Name: x.Name}
		inject := z.On && c13IsList(x.Method)
		if x.Method == "Values" {
			for _, it := range x.Items {
				if _, ok := it.(*term.Dict); ok {
					inject = false
				}
			}
		}
		for s := 0; s <= len(x.Items); s++ {
			if inject {
				for z.R.Intn(100) < z.Rate {
					g.Items = append(g.Items, z.nullish())
					z.Count++
					if z.Where != nil {
						z.Where[x.Method]++
					}
				}
			}
			if s < len(x.Items) {
				g.Items = append(g.Items, z.Copy(x.Items[s]))
			}
		}
		return g
	case *term.Dict:
		d := &term.Dict{}
		for _, p := range x.Pairs {
			d.Pairs = append(d.Pairs, [2]term.Node{z.Copy(p[0]), z.Copy(p[1])})
		}
		return d
	}
	return n // tokens, tags, comments, nils: values
}

func (z *c13Injector) Stmt(s *term.Stmt) *term.Stmt {
	out := &term.Stmt{}
	for _, it := range s.Items {
		out.Items = append(out.Items, z.Copy(it))
	}
	return out
}

// c13Prog draws small syntactically valid programs.
type c13Prog struct {
	r     *rand.Rand
	paths []string
	ctr   int
}

func (p *c13Prog) id(prefix string) string {
	p.ctr++
	return fmt.Sprintf("%s%d", prefix, p.ctr)
}

func (p *c13Prog) expr(d int) *term.Stmt {
	r := p.r
	k := r.Intn(12)
	if d <= 0 {
		k = r.Intn(4)
	}
	switch k {
	case 0:
		return term.S(term.Id(pick(r, []string{"a", "b", "x", "n", "s"})))
	case 1:
		return term.S(term.Lit(r.Intn(100)))
	case 2:
		return term.S(term.Lit(pick(r, []string{"", "s", "a b", "é"})))
	case 3:
		if len(p.paths) > 0 {
			return term.S(term.Qual(pick(r, p.paths), p.id("V")))
		}
		return term.S(term.Id("v"))
	case 4, 5:
		return term.S(term.Id(pick(r, []string{"f", "g", "h"})), term.G("Call", p.exprs(r.Intn(4), d-1)...))
	case 6:
		switch r.Intn(4) {
		case 0:
			return term.S(term.Id("a"), term.G("Index", p.expr(d-1)))
		case 1:
			return term.S(term.Id("a"), term.G("Index", term.S(term.Named("Empty")), p.expr(d-1)))
		case 2:
			return term.S(term.Id("a"), term.G("Index", p.expr(d-1), term.S(term.Named("Empty"))))
		default:
			return term.S(term.Id("a"), term.G("Index", p.expr(d-1), p.expr(d-1), p.expr(d-1)))
		}
	case 7:
		return term.S(term.G("Index"), term.Named("Int"), term.G("Values", p.exprs(r.Intn(5), d-1)...))
	case 8:
		return term.S(term.G(pick(r, []string{"Append", "Min", "Max", "Make", "Print", "Println"}), p.exprs(1+r.Intn(3), d-1)...))
	case 9:
		return term.S(term.G(pick(r, []string{"Len", "Cap", "New", "Parens"}), p.expr(d-1)))
	case 10:
		return term.S(p.expr(d-1), term.Op(pick(r, []string{"+", "-", "*", "==", "<", "&&"})), p.expr(d-1))
	default:
		// a generic instantiation and a function literal
		if r.Intn(2) == 0 {
			return term.S(term.Id("G"), term.G("Types", term.S(term.Named("Int")), term.S(term.Named("String"))), term.G("Call", p.exprs(r.Intn(3), d-1)...))
		}
		return term.S(term.Named("Func"), term.G("Params", p.params(r.Intn(3))...), term.G("Block", p.stmts(r.Intn(3), d-1)...))
	}
}

func (p *c13Prog) exprs(n, d int) []term.Node {
	var out []term.Node
	for i := 0; i < n; i++ {
		out = append(out, p.expr(d))
	}
	return out
}

func (p *c13Prog) params(n int) []term.Node {
	var out []term.Node
	for i := 0; i < n; i++ {
		out = append(out, term.S(term.Id(p.id("p")), term.Named(pick(p.r, []string{"Int", "String", "Bool", "Error"}))))
	}
	return out
}

func (p *c13Prog) simple() *term.Stmt {
	r := p.r
	switch r.Intn(3) {
	case 0:
		return term.S(term.Id(p.id("v")), term.Op(":="), p.expr(1))
	case 1:
		return term.S(term.Id("f"), term.G("Call", p.exprs(r.Intn(3), 1)...))
	default:
		return term.S(term.Id("n"), term.Op("++"))
	}
}

func (p *c13Prog) stmts(n, d int) []term.Node {
	var out []term.Node
	for i := 0; i < n; i++ {
		out = append(out, p.stmt(d))
	}
	return out
}

func (p *c13Prog) stmt(d int) *term.Stmt {
	r := p.r
	k := r.Intn(10)
	if d <= 0 {
		k = r.Intn(4)
	}
	cond := func() *term.Stmt { return term.S(p.expr(1), term.Op("<"), p.expr(1)) }
	switch k {
	case 0, 1:
		return p.simple()
	case 2:
		n := 1 + r.Intn(3)
		var l []term.Node
		for i := 0; i < n; i++ {
			l = append(l, term.S(term.Id(p.id("w"))))
		}
		return term.S(term.G("List", l...), term.Op(":="), term.G("List", p.exprs(n, 1)...))
	case 3:
		return term.S(term.G("Return", p.exprs(r.Intn(3), 1)...))
	case 4:
		st := term.S()
		if r.Intn(2) == 0 {
			st.Items = append(st.Items, term.G("If", p.simple(), cond()))
		} else {
			st.Items = append(st.Items, term.G("If", cond()))
		}
		st.Items = append(st.Items, term.G("Block", p.stmts(r.Intn(3), d-1)...))
		if r.Intn(3) == 0 {
			st.Items = append(st.Items, term.Named("Else"), term.G("Block", p.stmts(r.Intn(3), d-1)...))
		}
		return st
	case 5:
		var hd *term.Group
		switch r.Intn(4) {
		case 0:
			hd = term.G("For")
		case 1:
			hd = term.G("For", cond())
		case 2:
			hd = term.G("For", p.simple(), cond(), term.S(term.Id("n"), term.Op("++")))
		default:
			hd = term.G("For", term.S(term.Named("Empty")), cond(), term.S(term.Named("Empty")))
		}
		return term.S(hd, term.G("Block", p.stmts(r.Intn(3), d-1)...))
	case 6:
		var hd *term.Group
		switch r.Intn(3) {
		case 0:
			hd = term.G("Switch")
		case 1:
			hd = term.G("Switch", p.expr(1))
		default:
			hd = term.G("Switch", p.simple(), p.expr(1))
		}
		var arms []term.Node
		for i := 0; i < r.Intn(4); i++ {
			arms = append(arms, term.S(term.G("Case", p.exprs(1+r.Intn(3), 1)...), term.G("Block", p.stmts(r.Intn(3), d-1)...)))
		}
		if r.Intn(2) == 0 {
			arms = append(arms, term.S(term.Named("Default"), term.G("Block", p.stmts(r.Intn(3), d-1)...)))
		}
		return term.S(hd, term.G("Block", arms...))
	case 7:
		var defs []term.Node
		for i := 0; i < 1+r.Intn(3); i++ {
			defs = append(defs, term.S(term.Id(p.id("u")), term.Op("="), p.expr(1)))
		}
		return term.S(term.Named("Var"), term.G("Defs", defs...))
	case 8:
		return term.S(term.G("Block", p.stmts(r.Intn(3), d-1)...))
	default:
		return term.S(term.Named("Defer"), term.Named("Func"), term.G("Params"), term.G("Block", p.stmts(r.Intn(3), d-1)...), term.G("Call"))
	}
}

func (p *c13Prog) decl() *term.Stmt {
	r := p.r
	switch r.Intn(7) {
	case 0, 1:
		st := term.S(term.Named("Func"), term.Id(p.id("F")))
		if r.Intn(4) == 0 {
			st.Items = append(st.Items, term.G("Types", term.S(term.Id("T"), term.Named("Any")), term.S(term.Id("U"), term.G("Union", term.S(term.Op("~"), term.Named("Int")), term.S(term.Named("String"))))))
		}
		st.Items = append(st.Items, term.G("Params", p.params(r.Intn(4))...))
		switch r.Intn(3) {
		case 0:
			st.Items = append(st.Items, term.Named("Int"))
		case 1:
			st.Items = append(st.Items, term.G("Params", term.S(term.Named("Int")), term.S(term.Named("Error"))))
		}
		st.Items = append(st.Items, term.G("Block", p.stmts(r.Intn(5), 2)...))
		return st
	case 2:
		var fields []term.Node
		for i := 0; i < r.Intn(5); i++ {
			f := term.S(term.Id(p.id("A")), term.Named(pick(r, []string{"Int", "String", "Bool"})))
			if r.Intn(3) == 0 {
				f.Items = append(f.Items, term.Tag{KV: [][2]string{{"json", "x"}}})
			}
			fields = append(fields, f)
		}
		return term.S(term.Named("Type"), term.Id(p.id("S")), term.G("Struct", fields...))
	case 3:
		var ms []term.Node
		for i := 0; i < r.Intn(4); i++ {
			ms = append(ms, term.S(term.Id(p.id("M")), term.G("Params", p.params(r.Intn(3))...), term.Named("Error")))
		}
		if r.Intn(3) == 0 {
			ms = append(ms, term.S(term.G("Union", term.S(term.Op("~"), term.Named("Int")), term.S(term.Named("String")), term.S(term.Named("Bool")))))
		}
		return term.S(term.Named("Type"), term.Id(p.id("I")), term.G("Interface", ms...))
	case 4:
		var defs []term.Node
		for i := 0; i < 1+r.Intn(4); i++ {
			defs = append(defs, term.S(term.Id(p.id("c")), term.Op("="), p.expr(2)))
		}
		return term.S(term.Named(pick(r, []string{"Var", "Const"})), term.G("Defs", defs...))
	case 5:
		return term.S(term.Named("Var"), term.Id(p.id("m")), term.Op("="), term.G("Map", term.S(term.Named("String"))), term.Named("Int"),
			term.G("Values", &term.Dict{Pairs: [][2]term.Node{{term.S(term.Lit("a")), p.expr(1)}, {term.S(term.Lit("b")), p.expr(1)}}}))
	default:
		return term.S(term.Named("Var"), term.Id(p.id("e")), term.Op("="), p.expr(3))
	}
}

var c13Paths = []string{"fmt", "os", "strings", "a.b/d", "c.b/d", "x.y/pkg", "math/rand", "crypto/rand"}

func c13ProgramCase(r *rand.Rand, thorough bool) *Case {
	var paths []string
	for _, p := range c13Paths {
		if r.Intn(3) == 0 {
			paths = append(paths, p)
		}
	}
	var decls []*term.Stmt
	p := &c13Prog{r: r, paths: paths}
	g := &Gen{R: r, Paths: paths}
	nd := 1 + r.Intn(5)
	for i := 0; i < nd; i++ {
		switch r.Intn(6) {
		case 0:
			decls = append(decls, g.SimpleDecl(i))
		default:
			decls = append(decls, p.decl())
		}
	}
	if len(paths) > 0 && r.Intn(2) == 0 {
		var refs []int
		for i := 0; i < 1+r.Intn(4); i++ {
			refs = append(refs, r.Intn(len(paths)))
		}
		decls = append(decls, RefBody(r, paths, refs, nil)...)
	}
	z := &c13Injector{R: r, Rate: 20, On: true, Where: map[string]int{}}
	var inj []*term.Stmt
	fileNulls := 0
	for _, d := range decls {
		// the File is itself a list (one item per line): null statements vanish there too
		if r.Intn(5) == 0 {
			inj = append(inj, term.S(c13Nullish(pick(r, []string{"null", "emptystmt", "nullsonly", "emptytag"}), r.Intn(36), true)))
			fileNulls++
		}
		inj = append(inj, z.Stmt(d))
	}
	tags := []string{fmt.Sprintf("decls=%d", nd), fmt.Sprintf("injected=%d", min3((z.Count+4)/5*5, 30))}
	for m := range z.Where {
		tags = append(tags, "into="+m)
	}
	if fileNulls > 0 {
		tags = append(tags, "into=File")
	}
	sort.Strings(tags)
	return &Case{Hist: c13FileHist(inj, decls, true, true), Stream: "program", Tags: tags,
		// non-trivial: at least one nullish item was inserted somewhere in the program
		NonTrivial: z.Count+fileNulls > 0,
		Meta:       map[string]interface{}{"kind": "program", "inj": inj, "clean": decls}}
}

// Shrink (program stream): drop one declaration from both versions.
func (c13) Shrink(c *Case) []*Case {
	if c.Meta["kind"] != "program" {
		return nil
	}
	inj, _ := c.Meta["inj"].([]*term.Stmt)
	clean, _ := c.Meta["clean"].([]*term.Stmt)
	if len(inj) != len(clean) || len(clean) < 2 {
		return nil // file-level null statements break the alignment: not shrunk
	}
	var out []*Case
	for k := range clean {
		i2 := append(append([]*term.Stmt{}, inj[:k]...), inj[k+1:]...)
		c2 := append(append([]*term.Stmt{}, clean[:k]...), clean[k+1:]...)
		out = append(out, &Case{Hist: c13FileHist(i2, c2, true, true), Stream: c.Stream, Tags: c.Tags, NonTrivial: c.NonTrivial,
			Meta: map[string]interface{}{"kind": "program", "inj": i2, "clean": c2}})
	}
	return out
}

// ---------------------------------------------------------------------------------------
// regressions

func (c13) Regressions() []*Case {
	x := func() *term.Stmt { return term.S(term.Id("x")) }
	pair := func(a, b *term.Stmt) hist.History {
		return hist.History{{Kind: "rplain", Code: a}, {Kind: "rplain", Code: b}}
	}
	var h hist.History
	// fixed defect 090378a: these dereferenced nil on the pinned tree
	h = append(h, pair(term.S(term.G("List", term.Nil{}, x())), term.S(term.G("List", x())))...)
	h = append(h, pair(term.S(term.G("Union", term.Nil{}, x())), term.S(term.G("Union", x())))...)
	h = append(h, pair(term.S(term.G("Types", term.Nil{})), term.S(term.G("Types")))...)
	h = append(h, pair(term.S(term.Id("f"), term.G("Call", term.S(term.Nil{}), x())), term.S(term.Id("f"), term.G("Call", x())))...)
	h = append(h, pair(term.S(term.Id("T"), term.G("Values", &term.Dict{Pairs: [][2]term.Node{{term.S(term.Id("k")), term.Nil{}}}})), term.S(term.Id("T"), term.G("Values")))...)
	return []*Case{{Name: "nil-in-nullness-loops", Hist: h, Stream: "regression", NonTrivial: true,
		Meta: map[string]interface{}{"kind": "pairs", "wants": []string{"x", "x", "", "f(x)", "T{}"}}}}
}

// ---------------------------------------------------------------------------------------
// projection and oracle

func (c13) Compare(c *Case, exp, got []hist.Obs) string { return CompareAll(exp, got) }

// c13SameRender: two render observations show the same bytes. A format error carries the
// raw text, which is compared instead.
func c13SameRender(a, b hist.Obs) string {
	for _, o := range []hist.Obs{a, b} {
		switch o.Kind {
		case "panic":
			return "render panicked: " + o.Msg
		case "write", "fmterr":
		default:
			return "unexpected observation " + o.String()
		}
	}
	if a.Kind != b.Kind {
		return fmt.Sprintf("with null items: %s\nwithout: %s", a, b)
	}
	if a.Out != b.Out {
		return fmt.Sprintf("null items changed the output:\n with:    %q\n without: %q", a.Out, b.Out)
	}
	return ""
}

func c13SameImports(a, b hist.Obs) string {
	if a.Kind != "imports" || b.Kind != "imports" {
		return "missing imports observation"
	}
	if !hist.SameObs(a, b) {
		return fmt.Sprintf("null items changed the import table:\n with:    %s\n without: %s", a, b)
	}
	return ""
}

// c13Occurrences finds the item name in s. Item names are i0..i9 (arity <= 9, enforced by
// c13ItemName): the letter i followed by a digit occurs nowhere else in the rendered lists
// (not in a keyword, an opening token or a context), and no name is a prefix of another, so
// a plain substring search is exact even where items are concatenated without separator.
func c13Occurrences(s, name string) []int {
	var out []int
	for i := 0; i+len(name) <= len(s); i++ {
		if s[i:i+len(name)] == name {
			out = append(out, i)
		}
	}
	return out
}

// C13CheckList decides "exactly the remaining items, in order, with n-1 separators" on the
// raw text of ONE list whose real items are the identifiers names[i] ("" = an Empty()
// item: no text, but a separator).  sep / multi / hasClose describe the construct as
// documented.  With known == false only the order and uniqueness of the items is checked.
func C13CheckList(body string, names []string, sep string, multi, hasClose, known bool) string {
	type at struct{ idx, pos, end int }
	var real []at
	last := -1
	for i, n := range names {
		if n == "" {
			continue
		}
		occ := c13Occurrences(body, n)
		if len(occ) != 1 {
			return fmt.Sprintf("item %s occurs %d times in %q", n, len(occ), body)
		}
		if occ[0] < last {
			return fmt.Sprintf("item %s is out of order in %q", n, body)
		}
		last = occ[0]
		real = append(real, at{i, occ[0], occ[0] + len(n)})
	}
	if !known {
		return ""
	}
	m := len(names)
	unit := sep
	if multi {
		unit = sep + "\n"
	}
	// between two consecutive real items: one unit per step (Empty items in between are steps)
	for k := 1; k < len(real); k++ {
		gap := body[real[k-1].end:real[k].pos]
		want := strings.Repeat(unit, real[k].idx-real[k-1].idx)
		if gap != want {
			return fmt.Sprintf("between %s and %s: %q, want %q (in %q)", names[real[k-1].idx], names[real[k].idx], gap, want, body)
		}
	}
	if len(real) > 0 {
		lead := strings.Repeat(unit, real[0].idx)
		if multi {
			lead = "\n" + lead
		}
		if pre := body[:real[0].pos]; !strings.HasSuffix(pre, lead) {
			return fmt.Sprintf("before the first item: %q does not end with %q", pre, lead)
		}
		trail := strings.Repeat(unit, m-1-real[len(real)-1].idx)
		if post := body[real[len(real)-1].end:]; !strings.HasPrefix(post, trail) {
			return fmt.Sprintf("after the last item: %q does not start with %q", post, trail)
		}
	}
	// totals (this also covers lists made of Empty() items only)
	if sep != "" {
		want := 0
		if m > 0 {
			want = m - 1
			if multi && hasClose && sep == "," {
				want++ // a multi-line list separated by commas ends with ",\n"
			}
		}
		if got := strings.Count(body, sep); got != want {
			return fmt.Sprintf("%d separators %q for %d items (want %d) in %q", got, sep, m, want, body)
		}
	}
	if multi {
		want := 0
		if m > 0 {
			want = m
			if hasClose {
				want++
			}
		}
		if got := strings.Count(body, "\n"); got != want {
			return fmt.Sprintf("%d line breaks for %d items (want %d) in %q", got, m, want, body)
		}
	}
	return ""
}

// c13Body strips what a NoFormat File puts around its only statement.
func c13Body(out string) (string, bool) {
	const hd = "package p\n\n"
	if !strings.HasPrefix(out, hd) {
		return "", false
	}
	return strings.TrimPrefix(out[len(hd):], "\n"), true
}

func (c13) Oracle(c *Case, got []hist.Obs) string {
	switch c.Meta["kind"] {
	case "gnull":
		return c13gOracle(c, got)
	case "half":
		return c13HalfOracle(c, got)
	case "live":
		return c13LiveOracle(c, got)
	case "zero":
		return c13zOracle(c, got)
	case "list":
		if len(got) != 2 {
			return fmt.Sprintf("expected 2 observations, got %d", len(got))
		}
		if msg := c13SameRender(got[0], got[1]); msg != "" {
			return msg
		}
		names, _ := c.Meta["names"].([]string)
		cons, _ := c.Meta["cons"].(c13Cons)
		if c.Meta["mode"] == "file" {
			if got[1].Kind != "write" {
				return "a NoFormat render failed: " + got[1].String()
			}
			body, ok := c13Body(got[1].Out)
			if !ok {
				return fmt.Sprintf("unexpected file frame %q", got[1].Out)
			}
			if want, ok := c.Meta["wantraw"].(string); ok && body != want {
				return fmt.Sprintf("raw text %q, want %q", body, want)
			}
			return C13CheckList(body, names, cons.Sep, cons.Multi, cons.HasClose, cons.Known)
		}
		if want, ok := c.Meta["want"].(string); ok {
			if got[0].Kind != "write" || got[0].Out != want {
				return fmt.Sprintf("rendered %s, want %q", got[0], want)
			}
		}
		// formatted (or the raw text of a format error): items once each, in order
		return C13CheckList(got[0].Out, names, "", false, false, false)
	case "pairs":
		if len(got)%2 != 0 || len(got) == 0 {
			return fmt.Sprintf("expected pairs of observations, got %d", len(got))
		}
		wants, _ := c.Meta["wants"].([]string)
		for i := 0; i+1 < len(got); i += 2 {
			if msg := c13SameRender(got[i], got[i+1]); msg != "" {
				return fmt.Sprintf("pair %d: %s", i/2, msg)
			}
			if i/2 < len(wants) && (got[i].Kind != "write" || got[i].Out != wants[i/2]) {
				return fmt.Sprintf("pair %d: rendered %s, want %q", i/2, got[i], wants[i/2])
			}
		}
		return ""
	case "twice":
		ways, _ := c.Meta["ways"].([]string)
		k := len(ways)
		if len(got) != 2*k {
			return fmt.Sprintf("expected %d observations, got %d", 2*k, len(got))
		}
		first := map[string]int{}
		for i, w := range ways {
			if msg := c13SameRender(got[i], got[k+i]); msg != "" {
				return fmt.Sprintf("render %d (%s): %s", i, w, msg)
			}
			j, seen := first[w]
			if !seen {
				first[w] = i
				continue
			}
			if got[i].Kind != got[j].Kind || got[i].Out != got[j].Out {
				return fmt.Sprintf("render %d of the same tree (%s) differs from render %d:\n first: %s\n later: %s", i, w, j, got[j], got[i])
			}
		}
		return ""
	case "program":
		if len(got) != 4 {
			return fmt.Sprintf("expected 4 observations, got %d", len(got))
		}
		if msg := c13SameRender(got[0], got[2]); msg != "" {
			return msg
		}
		if got[0].Kind != "write" {
			return "the program does not format: " + got[0].String()
		}
		if _, err := parser.ParseFile(token.NewFileSet(), "x.go", got[0].Out, 0); err != nil {
			return "the output does not parse: " + err.Error()
		}
		return c13SameImports(got[1], got[3])
	}
	return "c13: case without kind"
}
