package props

import (
	"fmt"
	"io"
	"math/rand"
	"reflect"
	"sort"
	"strconv"
	"strings"

	"github.com/dave/jennifer/jen"

	"verifharness/hist"
	"verifharness/term"
)

// C20, streams render-context, null-then-filled, clone-site and clone-site-sweep ("context"
// histories): HOW the variables of a clone history are rendered and WHERE its clones are taken.
//
// The other C20 streams render every variable standalone (Statement.Render: a new File per
// render) and take every clone by a plain `x.Clone()` between two appends.  Here a history is a
// TREE of operations over statement variables and Files that the case keeps for its whole life:
//
//	new / append / clone             as in c20_snap.go (an appended item is a token, a fresh value,
//	                                 or a group whose items are variables - by reference - and
//	                                 fresh values)
//	newfile F                        NewFile(name) / NewFilePathName(path, name); the File is kept
//	fadd F V <- X                    V := files[F].Add(X): the File holds the wrapper statement that
//	                                 Group.Add returns, the wrapper is variable V (it is to X what a
//	                                 clone is: a new statement whose first item is X) and may be
//	                                 extended later
//	do V {body}                      vars[V].Do(func(s *Statement) { body }) - inside body the
//	                                 variable V stands for the callback's PARAMETER s, except in
//	                                 operations marked Outer (they go through the captured outer
//	                                 variable); also jen.Do(f) (V is new) and, inside a group
//	                                 callback, g.Do(f) (V is new and an item of the group)
//	gfunc V Group {body}             vars[V].<Group>Func(func(g *Group) { body }) for Block Call Index
//	                                 List Params Values (List has no delimiters: it is null when
//	                                 all its items are); also jen.<Group>Func(f) (V is new) and,
//	                                 inside a group callback, g.<Group>Func(f) (V is new and an item
//	                                 of the outer group); body holds, besides any other operation,
//	                                 gadd: g.Add(variable) / g.Add(fresh value); the *Group the
//	                                 callback receives is kept under a handle
//	render V how                     Statement.Render | GoString | fmt.Sprintf("%#v") (standalone:
//	                                 a new File) | RenderWithFile(w, files[F]) (the kept File) |
//	                                 files[F].Render / GoString (the File with what was added to it)
//	render G how                     the kept *Group of a finished callback on its own: Group.Render
//	                                 | GoString | RenderWithFile(w, files[F])
//
// so a clone can be taken anywhere: `c = s.Clone()` from the parameter inside a Do callback,
// `g.Add(orig.Clone())` inside a BlockFunc callback, clones of clones inside callbacks, clones
// stored there and extended (or their originals extended) after the callback has returned; and a
// variable can be rendered again and again through ONE File while it, or the statement it was
// cloned from, grows in between - in particular originals that are NULL (empty, Null(), only
// null items) when their clones are taken and first rendered, and filled later (statements
// only grow: the reverse cannot happen).
//
// Comparison with the model: choice (b) of the task - the ordinary history language with the
// SNAPSHOT of every variable at every render, as c08_fill.go does (the (heap) lines have no
// File):  RenderWithFile(w, F) is `(rcode F <snapshot> 0)` on a model File F that lives as long
// as the real one (the target is the snapshot of the statement, or of the group for a kept
// *Group); a standalone render is `(rplain <snapshot> 0)`; File.Render is rendered by a
// scratch model File that first replays the File's constructor and every earlier rcode of File
// F with the snapshot of THAT time (so it has the import table File F has now), then gets the
// snapshots of the wrappers and renders; afterwards File F renders the same body as one
// delimiter-less multi group, which registers what File.Render registered.  The replayed
// operations print observations that are not compared ("skip").  All renders are compared.
//
// Oracle: the list model of c20_snap.go (a statement is its original - as it is NOW - followed
// by its own items; a group holds variables as they are now), extended by a hand-written
// account of what a File does to a rendering: a Qual of the File's own path loses its
// qualifier, any other path is written with its alias (the paths used here have distinct
// names, so the alias is the last path element) and is registered; File.Render writes the
// package clause, the registered imports (sorted) and the non-null wrappers one per line.
// On top of the text: the output of a variable rendered the same way (standalone / through the
// same File) does not change unless something was appended to a statement it shows, and an
// unmodified clone renders like its original rendered the same way.
//
// Dependencies point from a statement to what it shows (its original, the variables inside its
// groups); the generator adds an edge only if it closes no cycle.

type c20xOp struct {
	Kind  string // new | append | clone | do | gfunc | gadd | newfile | fadd | render
	V     int
	From  int        // clone, fadd: the original
	Items []c20sItem // append
	Outer bool       // append, clone, gfunc inside a Do callback: through the captured outer variable, not the parameter
	Via   string     // do, gfunc: stmt (a method of vars[V]) | pkg (jen.Do / jen.<Group>Func: V is new) | group (g.Do / g.<Group>Func inside a group callback: V is new and an item of that group)
	Group string     // gfunc
	G     int        // gfunc: > 0: the *Group the callback receives is kept under this handle; render group / groupgostring / groupwithfile: the handle
	Body  []c20xOp   // do, gfunc
	Kid   c20sKid    // gadd
	How   string     // render: render | gostring | sprintf | withfile | file | filegostring | group | groupgostring | groupwithfile
	F     int        // newfile, fadd, render through a File
	Path  string     // newfile ("": NewFile(Name))
	Name  string
}

// c20xFlat is one step of the flattened (abstract) history: what the list model executes.
type c20xFlat struct {
	Kind  string // new | append | clone | newfile | fadd | render
	V     int
	From  int
	Items []c20sItem
	How   string
	F     int
	Path  string
	Name  string
	Top   int    // index of the top-level operation it belongs to
	Site  string // clone: where it was taken
	G     int    // append: the handle of the (one) group appended; render of a group: its handle
}

var c20xFuncGroups = []string{"Block", "Call", "Index", "List", "Params", "Values"}

// c20xFlatten turns the tree into the sequence of abstract steps (the term nodes of the
// groups are made here).
func c20xFlatten(ops []c20xOp) []c20xFlat {
	var out []c20xFlat
	type frame struct {
		kind  string // do | gfunc
		v     int
		kids  *[]c20sKid
		group string
	}
	var walk func(op c20xOp, top int, stack []frame)
	nodes := func(its []c20sItem) []c20sItem {
		its = append([]c20sItem{}, its...)
		for j := range its {
			if its[j].Plain == nil {
				its[j].node = term.G(its[j].Group)
			}
		}
		return its
	}
	walk = func(op c20xOp, top int, stack []frame) {
		switch op.Kind {
		case "new":
			out = append(out, c20xFlat{Kind: "new", V: op.V, Top: top})
		case "append":
			out = append(out, c20xFlat{Kind: "append", V: op.V, Items: nodes(op.Items), Top: top})
		case "clone":
			site := "top"
			if len(stack) > 0 {
				site = "in-" + stack[len(stack)-1].kind + "-of-other" // inside a callback, from a variable the callback is not about
				for _, fr := range stack {
					if fr.kind == "do" && fr.v == op.From {
						site = "do-param"
						if op.Outer {
							site = "do-outer"
						}
					}
				}
				if fr := stack[len(stack)-1]; fr.kind == "gfunc" {
					site = "in-" + fr.group + "Func"
					if fr.v == op.From {
						site = "in-" + fr.group + "Func-of-receiver"
					}
				}
			}
			out = append(out, c20xFlat{Kind: "clone", V: op.V, From: op.From, Top: top, Site: site})
		case "fadd":
			out = append(out, c20xFlat{Kind: "fadd", V: op.V, From: op.From, F: op.F, Top: top})
		case "newfile":
			out = append(out, c20xFlat{Kind: "newfile", F: op.F, Path: op.Path, Name: op.Name, Top: top})
		case "render":
			out = append(out, c20xFlat{Kind: "render", V: op.V, How: op.How, F: op.F, G: op.G, Top: top})
		case "do":
			if op.Via == "pkg" || op.Via == "group" {
				out = append(out, c20xFlat{Kind: "new", V: op.V, Top: top})
			}
			for _, b := range op.Body {
				walk(b, top, append(stack, frame{kind: "do", v: op.V}))
			}
			if op.Via == "group" {
				fr := stack[len(stack)-1]
				*fr.kids = append(*fr.kids, c20sKid{Ref: op.V})
			}
		case "gfunc":
			if op.Via == "pkg" || op.Via == "group" {
				out = append(out, c20xFlat{Kind: "new", V: op.V, Top: top})
			}
			var kids []c20sKid
			for _, b := range op.Body {
				walk(b, top, append(stack, frame{kind: "gfunc", v: op.V, kids: &kids, group: op.Group}))
			}
			out = append(out, c20xFlat{Kind: "append", V: op.V, Items: nodes([]c20sItem{{Group: op.Group, Kids: kids}}), G: op.G, Top: top})
			if op.Via == "group" {
				fr := stack[len(stack)-1]
				*fr.kids = append(*fr.kids, c20sKid{Ref: op.V})
			}
		case "gadd":
			fr := stack[len(stack)-1]
			k := op.Kid
			k.Wrap = true // Group.Add puts a new statement holding the value into the group
			*fr.kids = append(*fr.kids, k)
		default:
			panic("c20x: bad op " + op.Kind)
		}
	}
	for i, op := range ops {
		walk(op, i, nil)
	}
	return out
}

// ---- the oracle's account of Files ----

const c20xQ1, c20xQ2, c20xQ3 = "\x01", "\x02", "\x03"

// c20xQual: a Qual item; its text is a placeholder that c20xResolve writes out for a File.
func c20xQual(path, name string) c20Item {
	return c20Item{Node: term.Qual(path, name), Text: c20xQ1 + path + c20xQ2 + name + c20xQ3}
}

// the import paths used (distinct names; two of them standard library: no alias in the import block)
var c20xPaths = []string{"a.b/c", "x.y/zed", "fmt", "os"}

func c20xAlias(path string) (name string, alias bool) {
	switch path {
	case "fmt", "os":
		return path, false
	}
	return path[strings.LastIndex(path, "/")+1:], true
}

type c20xFile struct {
	name, path string
	reg        map[string]bool // registered import paths
	body       []int           // the wrapper variables File.Add returned
	gen        int             // grows with every registration and every Add
}

// c20xResolve writes the placeholders of a text out for File f (nil: a new File("")).
func c20xResolve(t string, f *c20xFile) string {
	if !strings.Contains(t, c20xQ1) {
		return t
	}
	var b strings.Builder
	for {
		i := strings.Index(t, c20xQ1)
		if i < 0 {
			b.WriteString(t)
			return b.String()
		}
		b.WriteString(t[:i])
		j := strings.Index(t, c20xQ2)
		k := strings.Index(t, c20xQ3)
		path, name := t[i+1:j], t[j+1:k]
		t = t[k+1:]
		if f != nil && f.path == path {
			b.WriteString(name)
			continue
		}
		if f != nil && !f.reg[path] {
			f.reg[path] = true
			f.gen++
		}
		a, _ := c20xAlias(path)
		b.WriteString(a + "." + name)
	}
}

func (f *c20xFile) imports() string {
	var paths []string
	for p := range f.reg {
		paths = append(paths, p)
	}
	sort.Strings(paths)
	line := func(p string) string {
		if a, alias := c20xAlias(p); alias {
			return a + " " + strconv.Quote(p)
		}
		return strconv.Quote(p)
	}
	switch len(paths) {
	case 0:
		return ""
	case 1:
		return "import " + line(paths[0]) + "\n\n"
	}
	s := "import (\n"
	for _, p := range paths {
		s += line(p) + "\n"
	}
	return s + ")\n\n"
}

// c20xState is the list model's state while a flattened history is replayed.
type c20xState struct {
	vars   []*c20sAbs
	files  map[int]*c20xFile
	groups map[int][2]int // handle -> variable, index among its own items
}

func (st *c20xState) apply(op c20xFlat) {
	at := func(v int) {
		for len(st.vars) <= v {
			st.vars = append(st.vars, nil)
		}
	}
	switch op.Kind {
	case "new":
		at(op.V)
		st.vars[op.V] = &c20sAbs{vars: &st.vars}
	case "clone", "fadd":
		at(op.V)
		st.vars[op.V] = &c20sAbs{parent: st.vars[op.From], vars: &st.vars}
		if op.Kind == "fadd" {
			f := st.files[op.F]
			f.body = append(f.body, op.V)
			f.gen++
		}
	case "append":
		if op.G > 0 {
			st.groups[op.G] = [2]int{op.V, len(st.vars[op.V].own)}
		}
		st.vars[op.V].own = append(st.vars[op.V].own, op.Items...)
	case "newfile":
		st.files[op.F] = &c20xFile{name: op.Name, path: op.Path, reg: map[string]bool{}}
	}
}

func c20xClass(op c20xFlat) string {
	switch op.How {
	case "withfile":
		return fmt.Sprint("with:", op.F)
	case "file", "filegostring":
		return fmt.Sprint("file:", op.F)
	case "groupwithfile":
		return fmt.Sprint("gwith:", op.F)
	case "group", "groupgostring":
		return "gplain"
	}
	return "plain"
}

func c20xIsGroup(op c20xFlat) bool { return strings.HasPrefix(op.How, "group") }

// raw is the text a render hands to go/format according to the list model (it registers, in
// the model File, what the render registers).
func (st *c20xState) raw(op c20xFlat) string {
	switch op.How {
	case "withfile":
		t, _ := st.vars[op.V].text()
		return c20xResolve(t, st.files[op.F])
	case "file", "filegostring":
		f := st.files[op.F]
		body := ""
		for _, v := range f.body {
			if t, null := st.vars[v].text(); !null {
				body += "\n" + c20xResolve(t, f)
			}
		}
		return "package " + f.name + "\n\n" + f.imports() + body
	}
	if c20xIsGroup(op) {
		// the group on its own: no statement around it (a Block keeps its braces)
		ref := st.groups[op.G]
		a := st.vars[ref[0]]
		t, _ := a.groupText(&a.own[ref[1]], nil)
		if op.How == "groupwithfile" {
			return c20xResolve(t, st.files[op.F])
		}
		return c20xResolve(t, nil)
	}
	t, _ := st.vars[op.V].text()
	return c20xResolve(t, nil)
}

func c20xWalk(flat []c20xFlat, visit func(i int, op c20xFlat, st *c20xState)) {
	st := &c20xState{files: map[int]*c20xFile{}, groups: map[int][2]int{}}
	for i, op := range flat {
		st.apply(op)
		visit(i, op, st)
	}
}

func c20xOracle(c *Case, got []hist.Obs) string {
	flat := c.Meta["flat"].([]c20xFlat)
	type seen struct {
		obs   hist.Obs
		valid bool
		v     int // the variable whose contents the output shows (a group: the statement it sits in)
	}
	last := map[string]*seen{} // class + "/" + variable (or "g" + handle)
	msg := ""
	k := 0
	next := func() (hist.Obs, bool) {
		for k < len(got) && got[k].Kind == "skip" {
			k++
		}
		if k >= len(got) {
			return hist.Obs{}, false
		}
		k++
		return got[k-1], true
	}
	c20xWalk(flat, func(i int, op c20xFlat, st *c20xState) {
		if msg != "" {
			return
		}
		switch op.Kind {
		case "append":
			if len(op.Items) == 0 {
				return
			}
			for j, x := range st.vars {
				if x == nil {
					continue
				}
				d := map[*c20sAbs]bool{}
				x.deps(d)
				if d[st.vars[op.V]] {
					for _, s := range last {
						if s.v == j {
							s.valid = false
						}
					}
				}
			}
		case "render":
			g, ok := next()
			if !ok {
				msg = fmt.Sprintf("step %d: no observation", i)
				return
			}
			class := c20xClass(op)
			what := fmt.Sprintf("variable %d (%s)", op.V, op.How)
			if strings.HasPrefix(class, "with:") {
				what = fmt.Sprintf("variable %d (RenderWithFile, kept File %d)", op.V, op.F)
			}
			if strings.HasPrefix(class, "file:") {
				what = fmt.Sprintf("kept File %d (%s) holding the variables %v", op.F, op.How, st.files[op.F].body)
			}
			owner := op.V
			if c20xIsGroup(op) {
				owner = st.groups[op.G][0]
				what = fmt.Sprintf("group %d, an item of variable %d (%s)", op.G, owner, op.How)
				if op.How == "groupwithfile" {
					what = fmt.Sprintf("group %d, an item of variable %d (RenderWithFile, kept File %d)", op.G, owner, op.F)
				}
			}
			if g.Kind == "panic" || g.Kind == "bad" {
				msg = fmt.Sprintf("step %d: %s: %s", i, what, c20Short(g.String()))
				return
			}
			raw := st.raw(op)
			f := c20Format(raw)
			switch {
			case g.Kind == "write" && f.ok:
				if g.Out != f.out {
					msg = fmt.Sprintf("step %d: %s renders %q, its list-model value is %q", i, what, c20Short(g.Out), c20Short(f.out))
				}
			case g.Kind == "fmterr" && !f.ok:
				if g.Out != raw {
					msg = fmt.Sprintf("step %d: %s renders (unformattable) %q, its list-model value is %q", i, what, c20Short(g.Out), c20Short(raw))
				}
			default:
				msg = fmt.Sprintf("step %d: %s: got %s, list-model value %q (formats: %v)", i, what, c20Short(g.String()), c20Short(raw), f.ok)
			}
			if msg != "" || strings.HasPrefix(class, "file:") {
				return
			}
			key := fmt.Sprint(class, "/", op.V)
			if c20xIsGroup(op) {
				key = fmt.Sprint(class, "/g", op.G)
			}
			if s := last[key]; s != nil && s.valid && !hist.SameObs(s.obs, g) {
				msg = fmt.Sprintf("step %d: output of %s changed from %s to %s although nothing was appended to it, to its originals or to a statement inside it", i, what, c20Short(s.obs.String()), c20Short(g.String()))
				return
			}
			// an unmodified clone (at any depth) renders like its original rendered the same way
			if rt, d := st.vars[op.V].root(); d > 0 && !c20xIsGroup(op) {
				for j, x := range st.vars {
					if x != rt {
						continue
					}
					if s := last[fmt.Sprint(class, "/", j)]; s != nil && s.valid && !hist.SameObs(s.obs, g) {
						msg = fmt.Sprintf("step %d: %s, an unmodified clone at depth %d of variable %d, renders %s; its original rendered the same way gave %s", i, what, d, j, c20Short(g.String()), c20Short(s.obs.String()))
						return
					}
				}
			}
			last[key] = &seen{obs: g, valid: true, v: owner}
		}
	})
	if msg == "" {
		if _, more := next(); more {
			msg = "more observations than renders"
		}
	}
	if msg != "" {
		if ops, ok := c.Meta["xops"].([]c20xOp); ok {
			msg += "\n  operations: " + c20Short(c20xDescribe(ops))
		}
	}
	return msg
}

// c20xCompare: every observation but the replayed ones.
func c20xCompare(exp, got []hist.Obs) string {
	if len(exp) != len(got) {
		return fmt.Sprintf("observation count differs: model %d, implementation %d", len(exp), len(got))
	}
	for i := range got {
		if got[i].Kind == "skip" {
			continue
		}
		if exp[i].Kind == "panic" && got[i].Kind == "panic" {
			return ""
		}
		if !hist.SameObs(exp[i], got[i]) {
			return fmt.Sprintf("observation %d differs:\n  model: %s\n  impl:  %s", i, exp[i], got[i])
		}
	}
	return ""
}

// ---- execution on the implementation ----

type c20xExec struct {
	ops    []c20xOp
	last   int // top-level index of the last render
	pos    int
	vars   []*jen.Statement
	files  map[int]*jen.File
	bd     *term.Builder
	param  map[int]*jen.Statement // inside Do callbacks: the parameter standing for a variable
	group  *jen.Group             // inside a group callback
	groups map[int]*jen.Group     // the groups kept under a handle
}

var c20xPkgFunc = map[string]func(func(*jen.Group)) *jen.Statement{"Block": jen.BlockFunc, "Call": jen.CallFunc, "Index": jen.IndexFunc,
	"List": jen.ListFunc, "Params": jen.ParamsFunc, "Values": jen.ValuesFunc}

func (ex *c20xExec) reset() {
	ex.pos, ex.vars, ex.files, ex.bd, ex.param, ex.group = 0, nil, map[int]*jen.File{}, term.NewBuilder(), map[int]*jen.Statement{}, nil
	ex.groups = map[int]*jen.Group{}
}

func (ex *c20xExec) get(v int, outer bool) *jen.Statement {
	if !outer {
		if p, ok := ex.param[v]; ok {
			return p
		}
	}
	if v < len(ex.vars) && ex.vars[v] != nil {
		return ex.vars[v]
	}
	if p, ok := ex.param[v]; ok {
		return p // jen.Do / g.Do: there is no outer variable before the call returns
	}
	panic(fmt.Sprintf("c20x: variable %d used before it exists", v))
}

func (ex *c20xExec) set(v int, s *jen.Statement) {
	for len(ex.vars) <= v {
		ex.vars = append(ex.vars, nil)
	}
	ex.vars[v] = s
}

func (ex *c20xExec) code(k c20sKid) jen.Code {
	if k.Ref >= 0 {
		return ex.get(k.Ref, false)
	}
	return ex.bd.Code(k.Item.Node)
}

func (ex *c20xExec) inDo(v int, body []c20xOp) func(*jen.Statement) {
	return func(p *jen.Statement) {
		old, had := ex.param[v]
		ex.param[v] = p
		defer func() {
			if had {
				ex.param[v] = old
			} else {
				delete(ex.param, v)
			}
		}()
		for _, b := range body {
			ex.run(b)
		}
	}
}

// run executes one operation that is not a render.
func (ex *c20xExec) run(op c20xOp) {
	switch op.Kind {
	case "new":
		if op.V%2 == 0 {
			ex.set(op.V, jen.Add())
		} else {
			ex.set(op.V, &jen.Statement{})
		}
	case "append":
		s := ex.get(op.V, op.Outer)
		for _, it := range op.Items {
			if it.Plain != nil {
				ex.bd.Append(s, it.Plain.Node)
				continue
			}
			m := reflect.ValueOf(s).MethodByName(it.Group)
			in := make([]reflect.Value, len(it.Kids))
			for j, k := range it.Kids {
				c := ex.code(k)
				in[j] = reflect.ValueOf(&c).Elem()
			}
			m.Call(in)
		}
	case "clone":
		ex.set(op.V, ex.get(op.From, op.Outer).Clone())
	case "newfile":
		if op.Path == "" {
			ex.files[op.F] = jen.NewFile(op.Name)
		} else {
			ex.files[op.F] = jen.NewFilePathName(op.Path, op.Name)
		}
	case "fadd":
		ex.set(op.V, ex.files[op.F].Add(ex.get(op.From, false)))
	case "do":
		switch op.Via {
		case "stmt":
			ex.get(op.V, op.Outer).Do(ex.inDo(op.V, op.Body))
		case "pkg":
			ex.set(op.V, jen.Do(ex.inDo(op.V, op.Body)))
		case "group":
			ex.set(op.V, ex.group.Do(ex.inDo(op.V, op.Body)))
		default:
			panic("c20x: bad Do " + op.Via)
		}
	case "gfunc":
		outerGroup := ex.group
		f := func(g *jen.Group) {
			old := ex.group
			ex.group = g
			defer func() { ex.group = old }()
			if op.G > 0 {
				ex.groups[op.G] = g
			}
			for _, b := range op.Body {
				ex.run(b)
			}
		}
		switch op.Via {
		case "pkg":
			ex.set(op.V, c20xPkgFunc[op.Group](f))
		case "group":
			res := reflect.ValueOf(outerGroup).MethodByName(op.Group + "Func").Call([]reflect.Value{reflect.ValueOf(f)})
			ex.set(op.V, res[0].Interface().(*jen.Statement))
		default:
			reflect.ValueOf(ex.get(op.V, op.Outer)).MethodByName(op.Group + "Func").Call([]reflect.Value{reflect.ValueOf(f)})
		}
	case "gadd":
		ex.group.Add(ex.code(op.Kid))
	default:
		panic("c20x: cannot run " + op.Kind)
	}
}

func c20xGoString(run func() string) hist.Obs {
	return c08fGoString(run)
}

func (ex *c20xExec) render(op c20xOp) hist.Obs {
	switch op.How {
	case "file", "filegostring":
		f := ex.files[op.F]
		if c20sContainsItself(reflect.ValueOf(f.Group), map[uintptr]bool{}) {
			return hist.Obs{Kind: "bad", Msg: "the File contains a statement that contains itself"}
		}
		if op.How == "file" {
			return c13RenderObs(func(w io.Writer) error { return f.Render(w) })
		}
		return c20xGoString(func() string { return f.GoString() })
	}
	if strings.HasPrefix(op.How, "group") {
		g := ex.groups[op.G]
		if c20sContainsItself(reflect.ValueOf(g), map[uintptr]bool{}) {
			return hist.Obs{Kind: "bad", Msg: "the group contains itself: the generator's dependency order was broken"}
		}
		switch op.How {
		case "group":
			return c13RenderObs(func(w io.Writer) error { return g.Render(w) })
		case "groupgostring":
			return c20xGoString(func() string { return g.GoString() })
		}
		f := ex.files[op.F]
		return c13RenderObs(func(w io.Writer) error { return g.RenderWithFile(w, f) })
	}
	s := ex.get(op.V, false)
	if c20sContainsItself(reflect.ValueOf(s), map[uintptr]bool{}) {
		return hist.Obs{Kind: "bad", Msg: "the statement contains itself: the generator's dependency order was broken"}
	}
	switch op.How {
	case "render":
		return c13RenderObs(func(w io.Writer) error { return s.Render(w) })
	case "gostring":
		return c20xGoString(func() string { return s.GoString() })
	case "sprintf":
		return c20xGoString(func() string { return fmt.Sprintf("%#v", s) })
	case "withfile":
		f := ex.files[op.F]
		return c13RenderObs(func(w io.Writer) error { return s.RenderWithFile(w, f) })
	}
	panic("c20x: bad render " + op.How)
}

// obs executes the history up to the top-level render i (the earlier renders too: a render
// through a kept File changes the File) and returns its observation.
func (ex *c20xExec) obs(i int) (o hist.Obs) {
	defer func() {
		if r := recover(); r != nil {
			o = hist.Obs{Kind: "panic", Msg: "while building: " + fmt.Sprint(r)}
			ex.bd = nil
		}
		if i == ex.last {
			ex.vars, ex.files, ex.groups, ex.bd = nil, nil, nil, nil
		}
	}()
	if ex.bd == nil || i < ex.pos {
		ex.reset()
	}
	for ; ex.pos < i; ex.pos++ {
		if op := ex.ops[ex.pos]; op.Kind == "render" {
			ex.render(op)
		} else {
			ex.run(op)
		}
	}
	ex.pos = i + 1
	return ex.render(ex.ops[i])
}

// ---- the case: the model's line, tags ----

var c20xBody = jen.Options{Multi: true}

func c20xCase(ops []c20xOp, stream string, extra []string) *Case {
	flat := c20xFlatten(ops)
	ex := &c20xExec{ops: ops}
	z := term.NewSer()
	var h hist.History
	set := map[string]bool{}
	for _, t := range extra {
		set[t] = true
	}
	skip := func() hist.Obs { return hist.Obs{Kind: "skip"} }
	quiet := func(line string) { h = append(h, hist.Op{Kind: "ext", A: line}) }
	skipped := func(line string) { h = append(h, hist.Op{Kind: "ext", A: line, Run: skip}) }
	real := func(line string, top int) {
		ex.last = top
		h = append(h, hist.Op{Kind: "ext", A: line, Run: func() hist.Obs { return ex.obs(top) }})
	}
	var snap func(vars []*c20sAbs, a *c20sAbs) *term.Stmt
	snapGroup := func(vars []*c20sAbs, it c20sItem) *term.Group {
		it.node.Items = it.node.Items[:0]
		for _, k := range it.Kids {
			var n term.Node
			if k.Ref >= 0 {
				n = snap(vars, vars[k.Ref])
			} else {
				n = k.Item.Node
			}
			if k.Wrap {
				n = term.S(n)
			}
			it.node.Items = append(it.node.Items, n)
		}
		return it.node
	}
	snap = func(vars []*c20sAbs, a *c20sAbs) *term.Stmt {
		st := term.S()
		if a.parent != nil {
			st.Items = append(st.Items, snap(vars, a.parent))
		}
		for _, it := range a.own {
			if it.Plain != nil {
				st.Items = append(st.Items, it.Plain.Node)
				continue
			}
			st.Items = append(st.Items, snapGroup(vars, it))
		}
		return st
	}
	type preOp struct {
		text func(fid int) string
		obs  bool
	}
	pre := map[int][]preOp{}
	scratch := 1 << 10
	// measurements
	cloned := map[int]bool{}
	hasClone, pending, observed := false, false, false
	maxDepth, nFormats, nRenders := 0, 0, 0
	nullSeen := map[string]bool{}   // class/variable: rendered while its original was null
	cbClone := map[int]int{}        // clones taken inside a callback -> top index
	cbGrown := map[int]bool{}       // ... whose originals (what they show) were appended to after the callback returned
	cbOwn := map[int]bool{}         // ... that were themselves appended to after the callback returned
	withRenders := map[string]int{} // class/variable -> number of renders
	fileRendered := map[int]bool{}
	c20xWalk(flat, func(i int, op c20xFlat, st *c20xState) {
		vars := st.vars
		switch op.Kind {
		case "newfile":
			o := hist.Op{Kind: "newfile", F: op.F, A: op.Name}
			if op.Path != "" {
				o = hist.Op{Kind: "newfilepathname", F: op.F, A: op.Path, B: op.Name}
				set["file-with-path"] = true
			}
			quiet(c08fOpText(o, op.F))
			pre[op.F] = append(pre[op.F], preOp{text: func(fid int) string { return c08fOpText(o, fid) }})
		case "clone", "fadd":
			hasClone = true
			cloned[op.From] = true
			d := 0
			for a := vars[op.V]; a.parent != nil; a = a.parent {
				d++
			}
			if d > maxDepth {
				maxDepth = d
			}
			if _, null := vars[op.From].text(); null {
				set["clone-of-null-original"] = true
			}
			if op.Kind == "fadd" {
				set["file-add"] = true
				break
			}
			set["clone-site="+op.Site] = true
			if op.Site != "top" {
				cbClone[op.V] = op.Top
				if vars[op.From].parent != nil {
					set["clone-of-clone-taken-in-callback"] = true
				}
			}
		case "append":
			if len(op.Items) == 0 {
				break
			}
			if hasClone && (vars[op.V].parent != nil || cloned[op.V]) {
				pending = true
			}
			for c, top := range cbClone {
				if op.Top <= top {
					continue
				}
				if c == op.V {
					cbOwn[c] = true
					continue
				}
				d := map[*c20sAbs]bool{}
				vars[c].deps(d)
				if d[vars[op.V]] {
					cbGrown[c] = true
				}
			}
		case "render":
			nRenders++
			if pending {
				observed = true
			}
			set["how="+op.How] = true
			class := c20xClass(op)
			if c20Format(st.raw(op)).ok {
				nFormats++
			}
			if c20xIsGroup(op) {
				ref := st.groups[op.G]
				s := z.Sexp(snapGroup(vars, vars[ref[0]].own[ref[1]]))
				set["group-rendered="+vars[ref[0]].own[ref[1]].Group] = true
				if op.How == "groupwithfile" {
					f := op.F
					real(fmt.Sprintf("(rcode %d %s 0)", f, s), op.Top)
					pre[f] = append(pre[f], preOp{text: func(fid int) string { return fmt.Sprintf("(rcode %d %s 0)", fid, s) }, obs: true})
				} else {
					real("(rplain "+s+" 0)", op.Top)
				}
				return
			}
			switch op.How {
			case "withfile":
				s := z.Sexp(snap(vars, vars[op.V]))
				f := op.F
				real(fmt.Sprintf("(rcode %d %s 0)", f, s), op.Top)
				pre[f] = append(pre[f], preOp{text: func(fid int) string { return fmt.Sprintf("(rcode %d %s 0)", fid, s) }, obs: true})
				if fileRendered[f] {
					set["withfile-after-file-render"] = true
				}
			case "file", "filegostring":
				scratch++
				f := op.F
				for _, p := range pre[f] {
					if p.obs {
						skipped(p.text(scratch))
					} else {
						quiet(p.text(scratch))
					}
				}
				var items []term.Node
				for _, v := range st.files[f].body {
					b := snap(vars, vars[v])
					quiet(fmt.Sprintf("(fadd %d %s)", scratch, z.Sexp(b)))
					items = append(items, b)
				}
				real(fmt.Sprintf("(render %d 0)", scratch), op.Top)
				s := z.Sexp(term.Custom(c20xBody, items...))
				skipped(fmt.Sprintf("(rcode %d %s 0)", f, s))
				pre[f] = append(pre[f], preOp{text: func(fid int) string { return fmt.Sprintf("(rcode %d %s 0)", fid, s) }, obs: true})
				fileRendered[f] = true
				if len(st.files[f].reg) > 0 {
					set["file-render-with-imports"] = true
				}
				return
			default:
				real("(rplain "+z.Sexp(snap(vars, vars[op.V]))+" 0)", op.Top)
			}
			a := vars[op.V]
			kind := strings.SplitN(class, ":", 2)[0] // plain | with
			key := fmt.Sprint(class, "/", op.V)
			withRenders[key]++
			if kind == "with" && withRenders[key] >= 2 {
				set["same-variable-same-file-again"] = true
			}
			if _, d := a.root(); d > 0 {
				set["unmodified-clone-rendered"] = true
			}
			if a.parent != nil {
				if _, null := a.parent.text(); null {
					nullSeen[key] = true
					set["clone-rendered-while-original-null:"+kind] = true
				} else if nullSeen[key] {
					set["null-then-filled:"+kind] = true
					if len(a.own) == 0 {
						set["null-then-filled-unmodified-clone:"+kind] = true
					}
				}
			}
			// a variable inside a group of the rendered one whose original was null / is filled now
			for _, it := range a.own {
				for _, kd := range it.Kids {
					if kd.Ref >= 0 && vars[kd.Ref].parent != nil {
						k2 := fmt.Sprint(class, "/in/", op.V, "/", kd.Ref)
						if _, null := vars[kd.Ref].parent.text(); null {
							nullSeen[k2] = true
						} else if nullSeen[k2] {
							set["null-then-filled-inside-group:"+kind] = true
						}
					}
				}
			}
			if _, in := cbClone[op.V]; in {
				if cbGrown[op.V] {
					set["callback-clone-rendered-after-original-grew"] = true
				}
				if cbOwn[op.V] {
					set["callback-clone-extended-later"] = true
				}
			}
		}
	})
	if nRenders > 0 {
		switch {
		case nFormats == 0:
			set["formattable-renders=none"] = true
		case nFormats == nRenders:
			set["formattable-renders=all"] = true
		default:
			set["formattable-renders=some"] = true
		}
	}
	set[fmt.Sprintf("clone-depth=%d", maxDepth)] = true
	var tags []string
	for t := range set {
		tags = append(tags, t)
	}
	sort.Strings(tags)
	// non-trivial as in c20Measure: a clone, a non-empty append after it to a clone or to a
	// cloned statement, a render after that
	return &Case{Hist: h, Stream: stream, Tags: tags, NonTrivial: hasClone && observed,
		Meta: map[string]interface{}{"kind": "ctx", "xops": ops, "flat": flat}}
}

// ---- generation ----

type c20xGen struct {
	r      *rand.Rand
	nv     int
	dep    map[int]map[int]bool // v -> what it shows directly (edges are added when an operation is GENERATED)
	isCl   []bool
	files  []int // kept Files
	body   map[int][]int
	expr   bool    // items keep the text an expression (op operand op operand ...)
	quals  bool    // Quals among the operands
	cb     float64 // share of steps that are callbacks
	styles []string
	nFile  int          // File.Render so far
	nG     int          // group handles given out
	hidden map[int]bool // variables that do not exist yet: the results of jen.<Group>Func / g.<Group>Func calls whose callbacks are being generated
}

func (g *c20xGen) reaches(from, to int, seen map[int]bool) bool {
	if from == to {
		return true
	}
	if seen[from] {
		return false
	}
	seen[from] = true
	for d := range g.dep[from] {
		if g.reaches(d, to, seen) {
			return true
		}
	}
	return false
}

// edge records that v shows w; false (and nothing recorded) if w already shows v.
func (g *c20xGen) edge(v, w int) bool {
	if g.reaches(w, v, map[int]bool{}) {
		return false
	}
	if g.dep[v] == nil {
		g.dep[v] = map[int]bool{}
	}
	g.dep[v][w] = true
	return true
}

func (g *c20xGen) newVar(clone bool) int {
	v := g.nv
	g.nv++
	g.isCl = append(g.isCl, clone)
	return v
}

var c20xUnary = []string{"+", "-", "*", "&", "^"}

func (g *c20xGen) operand() c20Item {
	r := g.r
	if g.quals && r.Intn(3) == 0 {
		return c20xQual(pick(r, c20xPaths), pick(r, []string{"T", "New", "X"}))
	}
	switch r.Intn(6) {
	case 0:
		v := r.Intn(100)
		return c20Item{Node: term.Lit(v), Text: strconv.Itoa(v)}
	default:
		s := pick(r, c20Ids)
		return c20Item{Node: term.Id(s), Text: s}
	}
}

// toks: n visible items (pairs `op operand` in expression mode), some null ones in between.
func (g *c20xGen) toks(n int) []c20sItem {
	r := g.r
	var out []c20sItem
	for j := 0; j < n; j++ {
		switch {
		case g.expr:
			op := pick(r, c20xUnary)
			out = append(out, c20sPlain(c20Item{Node: term.Op(op), Text: op}), c20sPlain(g.operand()))
			if r.Intn(5) == 0 {
				m := pick(r, []string{"Call", "Index"})
				a := g.operand()
				gr := c20Groups[m]
				out = append(out, c20sPlain(c20Item{Node: term.G(m, term.S(a.Node)), Text: gr[0] + a.Text + gr[1]}))
			}
		case g.quals && r.Intn(5) == 0:
			out = append(out, c20sPlain(g.operand()))
		default:
			out = append(out, c20sTok(r))
		}
		if r.Intn(8) == 0 {
			out = append(out, c20sPlain(g.nullItem()))
		}
	}
	return out
}

func (g *c20xGen) nullItem() c20Item {
	switch g.r.Intn(6) {
	case 0:
		return c20Item{Node: term.Nil{}, Null: true}
	case 1:
		return c20Item{Node: term.NilStmt{}, Null: true}
	case 2:
		return c20Item{Node: term.S(), Null: true}
	case 3:
		return c20Item{Node: term.S(term.Null(), term.S()), Null: true}
	}
	return c20Item{Node: term.Null(), Null: true}
}

func (g *c20xGen) fresh() c20Item {
	if g.quals && g.r.Intn(3) == 0 {
		q := g.operand()
		return c20Item{Node: term.S(q.Node), Text: q.Text}
	}
	return c20sExpr(g.r)
}

// anyVar: a variable, clones preferred half of the time.
func (g *c20xGen) anyVar(wantClone bool) int {
	v := g.r.Intn(g.nv)
	if wantClone {
		for tries := 0; tries < 4 && !g.isCl[v]; tries++ {
			v = g.r.Intn(g.nv)
		}
	}
	for g.hidden[v] {
		v = g.r.Intn(g.nv) // (variable 0 is never hidden)
	}
	return v
}

// cloneOps: c := from.Clone(), sometimes extended at once.
func (g *c20xGen) cloneOps(from int, outer bool) ([]c20xOp, int) {
	c := g.newVar(true)
	g.edge(c, from)
	ops := []c20xOp{{Kind: "clone", V: c, From: from, Outer: outer}}
	if g.r.Intn(3) == 0 {
		ops = append(ops, c20xOp{Kind: "append", V: c, Items: g.toks(1 + g.r.Intn(2))})
	}
	return ops, c
}

// groupItem: a group appended to v by an ordinary call, holding variables and fresh values.
func (g *c20xGen) groupItem(v int) c20sItem {
	r := g.r
	m := pick(r, []string{"Parens", "Call", "Index", "Values", "Params", "Block", "List"})
	it := c20sItem{Group: m}
	nk := 1
	if m != "Parens" {
		nk = 1 + r.Intn(3)
	}
	for j := 0; j < nk; j++ {
		ref := g.anyVar(r.Intn(2) == 0)
		if r.Intn(3) != 0 && g.edge(v, ref) {
			it.Kids = append(it.Kids, c20sKid{Ref: ref})
		} else {
			it.Kids = append(it.Kids, c20sKid{Ref: -1, Item: g.fresh()})
		}
	}
	return it
}

// doBody: what happens inside a Do callback on v.
func (g *c20xGen) doBody(v, depth int) []c20xOp {
	r := g.r
	var body []c20xOp
	for n := 1 + r.Intn(4); n > 0; n-- {
		switch k := r.Intn(10); {
		case k < 3:
			body = append(body, c20xOp{Kind: "append", V: v, Items: g.toks(1 + r.Intn(2)), Outer: r.Intn(8) == 0})
		case k < 7:
			// the clone of the callback's own statement, taken from the parameter
			ops, _ := g.cloneOps(v, r.Intn(8) == 0)
			body = append(body, ops...)
		case k < 8:
			ops, _ := g.cloneOps(g.anyVar(true), false)
			body = append(body, ops...)
		case k < 9 && depth < 2:
			body = append(body, g.callback(g.anyVar(false), depth+1)...)
		default:
			w := g.anyVar(false)
			body = append(body, c20xOp{Kind: "append", V: w, Items: g.toks(1)})
		}
	}
	return body
}

// gfuncOp: v.<Group>Func(func(g) { ... }) with clones taken inside.
func (g *c20xGen) gfuncOp(v, depth int, via string) c20xOp {
	r := g.r
	g.nG++
	op := c20xOp{Kind: "gfunc", V: v, Via: via, Group: pick(r, c20xFuncGroups), G: g.nG}
	if via != "stmt" {
		g.hidden[v] = true
		defer delete(g.hidden, v)
	}
	for n := 1 + r.Intn(3); n > 0; n-- {
		switch k := r.Intn(12); {
		case k < 6:
			// g.Add(x.Clone()...) - x anything that does not show v (the receiver itself: never)
			from := g.anyVar(r.Intn(2) == 0)
			if from == v || g.reaches(from, v, map[int]bool{}) {
				op.Body = append(op.Body, c20xOp{Kind: "gadd", Kid: c20sKid{Ref: -1, Item: g.fresh()}})
				break
			}
			ops, c := g.cloneOps(from, false)
			if r.Intn(4) == 0 { // a clone of the clone, both inside the callback
				more, c2 := g.cloneOps(c, false)
				ops = append(ops, more...)
				c = c2
			}
			g.edge(v, c)
			op.Body = append(op.Body, ops...)
			op.Body = append(op.Body, c20xOp{Kind: "gadd", Kid: c20sKid{Ref: c}})
		case k < 8:
			ref := g.anyVar(true)
			if g.edge(v, ref) {
				op.Body = append(op.Body, c20xOp{Kind: "gadd", Kid: c20sKid{Ref: ref}})
			} else {
				op.Body = append(op.Body, c20xOp{Kind: "gadd", Kid: c20sKid{Ref: -1, Item: g.fresh()}})
			}
		case k < 9:
			op.Body = append(op.Body, c20xOp{Kind: "gadd", Kid: c20sKid{Ref: -1, Item: g.fresh()}})
		case k < 10:
			// g.Do(func(s) {...}) / g.CallFunc(func(g2) {...}): a new statement inside the group
			n := g.newVar(false)
			g.edge(v, n)
			if r.Intn(2) == 0 || depth >= 2 {
				op.Body = append(op.Body, c20xOp{Kind: "do", V: n, Via: "group", Body: g.doBody(n, depth+1)})
			} else {
				op.Body = append(op.Body, g.gfuncOp(n, depth+1, "group"))
			}
		case k < 11 && depth < 2:
			w := g.anyVar(false)
			op.Body = append(op.Body, g.callback(w, depth+1)...)
		case via == "stmt":
			// the receiver grows inside its own callback (before the group is appended)
			op.Body = append(op.Body, c20xOp{Kind: "append", V: v, Items: g.toks(1)})
		default:
			op.Body = append(op.Body, c20xOp{Kind: "gadd", Kid: c20sKid{Ref: -1, Item: g.fresh()}})
		}
	}
	return op
}

// callback: one operation with a callback, about variable v.
func (g *c20xGen) callback(v, depth int) []c20xOp {
	r := g.r
	switch k := r.Intn(10); {
	case k < 5:
		return []c20xOp{{Kind: "do", V: v, Via: "stmt", Body: g.doBody(v, depth)}}
	case k < 6:
		n := g.newVar(false)
		return []c20xOp{{Kind: "do", V: n, Via: "pkg", Body: g.doBody(n, depth)}}
	case k < 7:
		return []c20xOp{g.gfuncOp(g.newVar(false), depth, "pkg")}
	default:
		return []c20xOp{g.gfuncOp(v, depth, "stmt")}
	}
}

func (g *c20xGen) renders(ops []c20xOp, p float64) []c20xOp {
	r := g.r
	for v := 0; v < g.nv; v++ {
		if r.Float64() >= p {
			continue
		}
		how := pick(r, g.styles)
		op := c20xOp{Kind: "render", V: v, How: how}
		if how == "withfile" {
			if len(g.files) == 0 {
				op.How = "render"
			} else {
				op.F = g.files[r.Intn(len(g.files))]
			}
		}
		ops = append(ops, op)
	}
	// (renders happen between top-level operations: every handle given out so far is of a finished callback)
	for h := 1; h <= g.nG; h++ {
		if r.Float64() >= p/2 {
			continue
		}
		op := c20xOp{Kind: "render", G: h}
		switch how := pick(r, g.styles); {
		case how == "withfile" && len(g.files) > 0:
			op.How, op.F = "groupwithfile", g.files[r.Intn(len(g.files))]
		case how == "render" || how == "withfile":
			op.How = "group"
		default:
			op.How = "groupgostring"
		}
		ops = append(ops, op)
	}
	for _, f := range g.files {
		if len(g.body[f]) > 0 && g.nFile < 4 && r.Intn(4) == 0 {
			g.nFile++
			ops = append(ops, c20xOp{Kind: "render", F: f, How: pick(r, []string{"file", "file", "filegostring"})})
		}
	}
	return ops
}

var c20xFileForms = [][2]string{{"", "main"}, {"", "p"}, {"x.y/zed", "zed"}, {"q.r/s", "s"}}

// c20xRandom draws one history.  style: shared (mostly RenderWithFile with the kept Files),
// mixed (all ways of rendering), plain (standalone renders only).
func c20xRandom(r *rand.Rand, steps int, style string, cb float64) []c20xOp {
	g := &c20xGen{r: r, dep: map[int]map[int]bool{}, body: map[int][]int{}, cb: cb, hidden: map[int]bool{}}
	g.expr = r.Intn(2) == 0
	g.quals = r.Intn(2) == 0
	var ops []c20xOp
	switch style {
	case "shared":
		g.styles = []string{"withfile", "withfile", "withfile", "withfile", "render", "gostring"}
	case "mixed":
		g.styles = []string{"withfile", "withfile", "render", "gostring", "sprintf"}
	default:
		g.styles = []string{"render", "render", "gostring", "sprintf"}
	}
	if style != "plain" {
		for f := 0; f < 1+r.Intn(2); f++ {
			form := c20xFileForms[r.Intn(len(c20xFileForms))]
			ops = append(ops, c20xOp{Kind: "newfile", F: f, Path: form[0], Name: form[1]})
			g.files = append(g.files, f)
		}
	}
	p := 0.5 + r.Float64()/2
	// one to three originals; about half of them null when their first clones are taken
	for n := 1 + r.Intn(3); n > 0; n-- {
		v := g.newVar(false)
		ops = append(ops, c20xOp{Kind: "new", V: v})
		switch k := r.Intn(10); {
		case k < 2: // empty
		case k < 5:
			var its []c20sItem
			for j := 1 + r.Intn(3); j > 0; j-- {
				its = append(its, c20sPlain(g.nullItem()))
			}
			ops = append(ops, c20xOp{Kind: "append", V: v, Items: its})
		default:
			first := c20sPlain(g.operand())
			ops = append(ops, c20xOp{Kind: "append", V: v, Items: append([]c20sItem{first}, g.toks(r.Intn(3))...)})
		}
		more, _ := g.cloneOps(v, false)
		ops = append(ops, more...)
	}
	ops = g.renders(ops, 1)
	for st := 0; st < steps; st++ {
		switch k := r.Float64(); {
		case k < cb:
			ops = append(ops, g.callback(g.anyVar(false), 0)...)
		case k < cb+0.15 && g.nv < 9:
			more, _ := g.cloneOps(g.anyVar(r.Intn(2) == 0), false)
			ops = append(ops, more...)
		case k < cb+0.22 && len(g.files) > 0 && g.nv < 9:
			f := g.files[r.Intn(len(g.files))]
			x := g.anyVar(r.Intn(2) == 0)
			w := g.newVar(true)
			g.edge(w, x)
			g.body[f] = append(g.body[f], w)
			ops = append(ops, c20xOp{Kind: "fadd", V: w, From: x, F: f})
		case k < cb+0.30:
			v := g.anyVar(r.Intn(2) == 0)
			its := g.toks(r.Intn(2))
			its = append(its, g.groupItem(v))
			ops = append(ops, c20xOp{Kind: "append", V: v, Items: append(its, g.toks(r.Intn(2))...)})
		case k < cb+0.36:
			ops = append(ops, c20xOp{Kind: "append", V: g.anyVar(false), Items: []c20sItem{c20sPlain(g.nullItem())}})
		default:
			// visible tokens; originals (the null ones get filled) twice as often as clones
			v := g.anyVar(false)
			if g.isCl[v] && r.Intn(2) == 0 {
				v = g.anyVar(false)
			}
			var its []c20sItem
			if !g.expr || r.Intn(3) == 0 {
				its = g.toks(1 + r.Intn(3))
			} else {
				// an operand first: a statement that was null so far starts an expression
				its = append([]c20sItem{c20sPlain(g.operand())}, g.toks(r.Intn(3))...)
			}
			ops = append(ops, c20xOp{Kind: "append", V: v, Items: its})
		}
		ops = g.renders(ops, p)
	}
	return g.renders(ops, 1)
}

// c20xNullFill: the sweep of the stream null-then-filled.
//
//	init   how the original is null: 0 empty, 1 Null(), 2 Null().Null(), 3 Add(Null()), 4 Add(nil), 5 Add(Add())
//	shape  what shows it: 0 unmodified clone, 1 clone with own tokens, 2 clone of clone, 3 clone
//	       inside Call(...) of another statement, 4 clone inside List(...), 5 the wrapper File.Add returns
//	how    0 RenderWithFile with the kept File, 1 the same with a File.Render of that File (it holds
//	       the variables) between filling and the second round, 2 standalone, 3 File.Render of the
//	       kept File holding the variables
//	fill   what the original receives: 0 identifier, 1 Qual, 2 a group, 3 a statement through Add
func c20xNullFill(init, shape, how, fill int) *Case {
	null := func(n term.Node) c20sItem { return c20sPlain(c20Item{Node: n, Null: true}) }
	var first []c20sItem
	switch init {
	case 1:
		first = []c20sItem{null(term.Null())}
	case 2:
		first = []c20sItem{null(term.Null()), null(term.Null())}
	case 3:
		first = []c20sItem{null(term.S(term.Null()))}
	case 4:
		first = []c20sItem{null(term.Nil{})}
	case 5:
		first = []c20sItem{null(term.S(term.S()))}
	}
	ops := []c20xOp{{Kind: "newfile", F: 0, Name: "main"}, {Kind: "new", V: 0}}
	if len(first) > 0 {
		ops = append(ops, c20xOp{Kind: "append", V: 0, Items: first})
	}
	id := func(s string) c20sItem { return c20sId(s) }
	var watch []int // the variables rendered besides the original
	switch shape {
	case 0:
		ops = append(ops, c20xOp{Kind: "clone", V: 1, From: 0})
		watch = []int{1}
	case 1:
		ops = append(ops, c20xOp{Kind: "clone", V: 1, From: 0}, c20xOp{Kind: "append", V: 1, Items: []c20sItem{c20sPlain(c20Item{Node: term.G("Values"), Text: "{}"})}})
		watch = []int{1}
	case 2:
		ops = append(ops, c20xOp{Kind: "clone", V: 1, From: 0}, c20xOp{Kind: "clone", V: 2, From: 1})
		watch = []int{1, 2}
	case 3, 4:
		m := "Call"
		if shape == 4 {
			m = "List"
		}
		ops = append(ops, c20xOp{Kind: "clone", V: 1, From: 0}, c20xOp{Kind: "new", V: 2},
			c20xOp{Kind: "append", V: 2, Items: []c20sItem{id("f"), {Group: m, Kids: []c20sKid{{Ref: 1}, {Ref: -1, Item: c20Item{Node: term.S(term.Id("k")), Text: "k"}}}}}})
		watch = []int{1, 2}
	case 5:
		ops = append(ops, c20xOp{Kind: "fadd", V: 1, From: 0, F: 0})
		watch = []int{1}
	}
	nv := 1 + len(watch)
	if (how == 1 || how == 3) && shape != 5 {
		// the File holds the watched variables
		for _, v := range watch {
			ops = append(ops, c20xOp{Kind: "fadd", V: nv, From: v, F: 0})
			nv++
		}
	}
	round := func() {
		switch how {
		case 0, 1:
			ops = append(ops, c20xOp{Kind: "render", V: 0, How: "withfile", F: 0})
			for _, v := range watch {
				ops = append(ops, c20xOp{Kind: "render", V: v, How: "withfile", F: 0})
			}
		case 2:
			ops = append(ops, c20xOp{Kind: "render", V: 0, How: "render"})
			for _, v := range watch {
				ops = append(ops, c20xOp{Kind: "render", V: v, How: "gostring"})
			}
		case 3:
			ops = append(ops, c20xOp{Kind: "render", How: "file", F: 0})
		}
	}
	round()
	var it c20sItem
	switch fill {
	case 0:
		it = id("t")
	case 1:
		it = c20sPlain(c20xQual("a.b/c", "T"))
	case 2:
		it = c20sPlain(c20Item{Node: term.G("Index", term.S(term.Lit(3))), Text: "[3]"})
	default:
		it = c20sPlain(c20Item{Node: term.S(term.Id("u"), term.Op("."), term.Id("w")), Text: "u . w"})
	}
	ops = append(ops, c20xOp{Kind: "append", V: 0, Items: []c20sItem{it}})
	if how == 1 {
		ops = append(ops, c20xOp{Kind: "render", How: "file", F: 0})
	}
	round()
	if how != 2 {
		for _, v := range watch {
			ops = append(ops, c20xOp{Kind: "render", V: v, How: "render"}) // and standalone
		}
	}
	return c20xCase(ops, "null-then-filled", []string{fmt.Sprintf("null-init=%d", init), fmt.Sprintf("null-shape=%d", shape), fmt.Sprintf("null-how=%d", how), fmt.Sprintf("null-fill=%d", fill)})
}

// c20xSite: the sweep of the stream clone-site-sweep.
//
//	site    0 Do on a statement, clone from the parameter; 1 the same, clone through the captured
//	        variable; 2 jen.Do; 3 g.Do inside a BlockFunc callback; 4.. the ...Func callbacks
//	        (g.Add(x.Clone()))
//	source  0 the callback's own statement (for the group callbacks: another original), 1 a clone
//	        (the result is a clone of a clone), 2 two levels taken inside the callback
//	after   0 the original grows after the callback returned, 1 the clone grows, 2 both, interleaved
func c20xSite(site, source, after int) *Case {
	id := func(s string) []c20sItem { return []c20sItem{c20sId(s)} }
	dot := func(s string) []c20sItem {
		return []c20sItem{c20sPlain(c20Item{Node: term.Op("."), Text: "."}), c20sId(s)}
	}
	ops := []c20xOp{{Kind: "new", V: 0}, {Kind: "append", V: 0, Items: id("a")}}
	nv := 1
	orig := 0 // the statement the clone in the callback is taken from
	if source == 1 {
		ops = append(ops, c20xOp{Kind: "clone", V: 1, From: 0}, c20xOp{Kind: "append", V: 1, Items: dot("b")})
		orig, nv = 1, 2
	}
	var clones []int
	take := func(from int, outer bool) []c20xOp {
		c := nv
		nv++
		clones = append(clones, c)
		out := []c20xOp{{Kind: "clone", V: c, From: from, Outer: outer}}
		if source == 2 {
			out = append(out, c20xOp{Kind: "clone", V: nv, From: c})
			clones = append(clones, nv)
			nv++
		}
		return out
	}
	grow := orig // what grows afterwards
	switch {
	case site <= 1:
		body := []c20xOp{{Kind: "append", V: orig, Items: dot("c")}}
		body = append(body, take(orig, site == 1)...)
		body = append(body, c20xOp{Kind: "append", V: orig, Items: dot("d")})
		ops = append(ops, c20xOp{Kind: "do", V: orig, Via: "stmt", Body: body})
	case site == 2 || site == 3:
		n := nv
		nv++
		body := []c20xOp{{Kind: "append", V: n, Items: id("n")}}
		if source == 1 {
			body = append(body, take(orig, false)...) // a clone of the existing clone, taken inside the callback
		}
		body = append(body, take(n, false)...)
		body = append(body, c20xOp{Kind: "append", V: n, Items: dot("d")})
		do := c20xOp{Kind: "do", V: n, Via: "pkg", Body: body}
		if site == 3 {
			do.Via = "group"
			holder := nv
			nv++
			ops = append(ops, c20xOp{Kind: "new", V: holder}, c20xOp{Kind: "append", V: holder, Items: id("h")},
				c20xOp{Kind: "gfunc", V: holder, Group: "Block", Body: []c20xOp{do}})
			clones = append(clones, holder)
		} else {
			ops = append(ops, do)
		}
		grow = n
	default:
		holder := nv
		nv++
		ops = append(ops, c20xOp{Kind: "new", V: holder}, c20xOp{Kind: "append", V: holder, Items: id("h")})
		body := take(orig, false)
		body = append(body, c20xOp{Kind: "append", V: clones[len(clones)-1], Items: dot("e")}, c20xOp{Kind: "gadd", Kid: c20sKid{Ref: clones[len(clones)-1]}},
			c20xOp{Kind: "gadd", Kid: c20sKid{Ref: -1, Item: c20Item{Node: term.S(term.Id("k")), Text: "k"}}})
		ops = append(ops, c20xOp{Kind: "gfunc", V: holder, Group: c20xFuncGroups[(site-4)%len(c20xFuncGroups)], Body: body})
		clones = append(clones, holder)
	}
	all := func() {
		for v := 0; v < nv; v++ {
			ops = append(ops, c20xOp{Kind: "render", V: v, How: []string{"render", "gostring", "sprintf"}[v%3]})
		}
	}
	all()
	c := clones[0]
	if after != 1 {
		ops = append(ops, c20xOp{Kind: "append", V: grow, Items: dot("x")})
		all()
	}
	if after != 0 {
		ops = append(ops, c20xOp{Kind: "append", V: c, Items: []c20sItem{c20sPlain(c20Item{Node: term.G("Call"), Text: "()"})}})
		all()
	}
	if after == 2 {
		ops = append(ops, c20xOp{Kind: "append", V: grow, Items: dot("y")}, c20xOp{Kind: "append", V: grow, Items: dot("z")})
		all()
		if len(clones) > 1 {
			ops = append(ops, c20xOp{Kind: "append", V: clones[1], Items: dot("w")})
			all()
		}
	}
	return c20xCase(ops, "clone-site-sweep", []string{fmt.Sprintf("site=%d", site), fmt.Sprintf("site-source=%d", source), fmt.Sprintf("site-after=%d", after)})
}

// c20xGenerate: quick 420 + 144 + 380 + 90 histories (about 2.5 s of the run); thorough 12000 +
// 576 + 10000 + 90 (about a minute).
func c20xGenerate(r *rand.Rand, t string) []*Case {
	var out []*Case
	n := tier(t, 420, 12000)
	for i := 0; i < n; i++ {
		style := "shared"
		if i%3 == 2 {
			style = "mixed"
		}
		out = append(out, c20xCase(c20xRandom(r, 4+r.Intn(9), style, 0.12), "render-context", nil))
	}
	for init := 0; init < 6; init++ {
		for shape := 0; shape < 6; shape++ {
			for how := 0; how < 4; how++ {
				for fill := 0; fill < 4; fill++ {
					if t == "thorough" || fill == (init+shape+how)%4 {
						out = append(out, c20xNullFill(init, shape, how, fill))
					}
				}
			}
		}
	}
	n = tier(t, 380, 10000)
	for i := 0; i < n; i++ {
		style := "plain"
		if i%4 == 3 {
			style = "mixed"
		}
		out = append(out, c20xCase(c20xRandom(r, 4+r.Intn(9), style, 0.45), "clone-site", nil))
	}
	for site := 0; site < 10; site++ {
		for source := 0; source < 3; source++ {
			for after := 0; after < 3; after++ {
				out = append(out, c20xSite(site, source, after))
			}
		}
	}
	return out
}

// c20xDescribe prints the tree of operations (for failure messages: the line the model reads
// holds snapshots, it does not show where a clone was taken or which File a render went through).
func c20xDescribe(ops []c20xOp) string {
	var parts []string
	items := func(its []c20sItem) string {
		var xs []string
		for _, it := range its {
			if it.Plain != nil {
				if it.Plain.Null {
					xs = append(xs, "<null>")
				} else {
					xs = append(xs, strconv.Quote(c20xResolve(it.Plain.Text, nil)))
				}
				continue
			}
			var ks []string
			for _, k := range it.Kids {
				if k.Ref >= 0 {
					ks = append(ks, fmt.Sprint("v", k.Ref))
				} else {
					ks = append(ks, strconv.Quote(c20xResolve(k.Item.Text, nil)))
				}
			}
			xs = append(xs, it.Group+"("+strings.Join(ks, ", ")+")")
		}
		return strings.Join(xs, " ")
	}
	outer := func(op c20xOp) string {
		if op.Outer {
			return " [through the captured variable]"
		}
		return ""
	}
	for _, op := range ops {
		switch op.Kind {
		case "new":
			parts = append(parts, fmt.Sprintf("v%d := new", op.V))
		case "append":
			parts = append(parts, fmt.Sprintf("v%d += %s%s", op.V, items(op.Items), outer(op)))
		case "clone":
			parts = append(parts, fmt.Sprintf("v%d := v%d.Clone()%s", op.V, op.From, outer(op)))
		case "newfile":
			parts = append(parts, fmt.Sprintf("f%d := File(%q, %q)", op.F, op.Path, op.Name))
		case "fadd":
			parts = append(parts, fmt.Sprintf("v%d := f%d.Add(v%d)", op.V, op.F, op.From))
		case "gadd":
			if op.Kid.Ref >= 0 {
				parts = append(parts, fmt.Sprintf("g.Add(v%d)", op.Kid.Ref))
			} else {
				parts = append(parts, fmt.Sprintf("g.Add(%q)", c20xResolve(op.Kid.Item.Text, nil)))
			}
		case "do":
			head := fmt.Sprintf("v%d.Do", op.V)
			switch op.Via {
			case "pkg":
				head = fmt.Sprintf("v%d := jen.Do", op.V)
			case "group":
				head = fmt.Sprintf("v%d := g.Do", op.V)
			}
			parts = append(parts, fmt.Sprintf("%s(func(v%d) { %s })", head, op.V, c20xDescribe(op.Body)))
		case "gfunc":
			head := fmt.Sprintf("v%d.%sFunc", op.V, op.Group)
			switch op.Via {
			case "pkg":
				head = fmt.Sprintf("v%d := jen.%sFunc", op.V, op.Group)
			case "group":
				head = fmt.Sprintf("v%d := g.%sFunc", op.V, op.Group)
			}
			parts = append(parts, fmt.Sprintf("%s(func(g /*g%d*/) { %s })%s", head, op.G, c20xDescribe(op.Body), outer(op)))
		case "render":
			switch op.How {
			case "withfile":
				parts = append(parts, fmt.Sprintf("v%d.RenderWithFile(f%d)", op.V, op.F))
			case "file":
				parts = append(parts, fmt.Sprintf("f%d.Render()", op.F))
			case "filegostring":
				parts = append(parts, fmt.Sprintf("f%d.GoString()", op.F))
			case "group":
				parts = append(parts, fmt.Sprintf("g%d.Render()", op.G))
			case "groupgostring":
				parts = append(parts, fmt.Sprintf("g%d.GoString()", op.G))
			case "groupwithfile":
				parts = append(parts, fmt.Sprintf("g%d.RenderWithFile(f%d)", op.G, op.F))
			default:
				parts = append(parts, fmt.Sprintf("v%d.%s()", op.V, op.How))
			}
		}
	}
	return strings.Join(parts, "; ")
}

// c20xUse collects the variables an operation (with what is inside its callback) defines and uses.
func c20xUse(op c20xOp, defs, refs map[int]bool) {
	// (Files are numbered -1-F, group handles 1<<20+G in the same maps)
	switch {
	case op.Kind == "newfile":
		defs[-1-op.F] = true
	case op.Kind == "fadd", op.Kind == "render" && (op.How == "withfile" || op.How == "file" || op.How == "filegostring" || op.How == "groupwithfile"):
		refs[-1-op.F] = true
	}
	if op.Kind == "gfunc" && op.G > 0 {
		defs[1<<20+op.G] = true
	}
	if op.Kind == "render" && strings.HasPrefix(op.How, "group") {
		refs[1<<20+op.G] = true
	}
	kids := func(its []c20sItem) {
		for _, it := range its {
			for _, k := range it.Kids {
				if k.Ref >= 0 {
					refs[k.Ref] = true
				}
			}
		}
	}
	switch op.Kind {
	case "new":
		defs[op.V] = true
	case "clone", "fadd":
		defs[op.V] = true
		refs[op.From] = true
	case "append":
		refs[op.V] = true
		kids(op.Items)
	case "render":
		if op.How != "file" && op.How != "filegostring" && !strings.HasPrefix(op.How, "group") {
			refs[op.V] = true
		}
	case "gadd":
		if op.Kid.Ref >= 0 {
			refs[op.Kid.Ref] = true
		}
	case "do", "gfunc":
		if op.Via == "pkg" || op.Via == "group" {
			defs[op.V] = true
		} else {
			refs[op.V] = true
		}
	}
	for _, b := range op.Body {
		c20xUse(b, defs, refs)
	}
}

func c20xClosed(ops []c20xOp) bool {
	defs, refs := map[int]bool{}, map[int]bool{}
	for _, op := range ops {
		c20xUse(op, defs, refs)
	}
	for v := range refs {
		if !defs[v] {
			return false
		}
	}
	return true
}

// c20xVariants: the histories with one operation removed (at any depth of callbacks), with
// one item of an append removed, and with one Do callback on a statement replaced by its body.
func c20xVariants(ops []c20xOp) [][]c20xOp {
	var out [][]c20xOp
	for i, op := range ops {
		without := append(append([]c20xOp{}, ops[:i]...), ops[i+1:]...)
		out = append(out, without)
		if op.Kind == "append" && len(op.Items) > 1 {
			for j := range op.Items {
				o := append([]c20xOp{}, ops...)
				o[i].Items = append(append([]c20sItem{}, op.Items[:j]...), op.Items[j+1:]...)
				out = append(out, o)
			}
		}
		if op.Kind == "do" && op.Via == "stmt" {
			flatBody := true
			for _, b := range op.Body {
				if b.Kind == "gadd" {
					flatBody = false
				}
			}
			if flatBody {
				o := append(append([]c20xOp{}, ops[:i]...), op.Body...)
				out = append(out, append(o, ops[i+1:]...))
			}
		}
		if len(op.Body) > 0 {
			for _, b := range c20xVariants(op.Body) {
				o := append([]c20xOp{}, ops...)
				o[i].Body = b
				out = append(out, o)
			}
		}
	}
	return out
}

// c20xShrink: cut the tail after a render; remove one operation (a render, an append, a
// callback or an operation inside one, a clone nobody uses ...), one item of an append; take a
// Do callback away and keep its body.
func c20xShrink(c *Case) []*Case {
	ops := c.Meta["xops"].([]c20xOp)
	var out []*Case
	for i := len(ops) - 1; i > 0; i-- {
		if ops[i].Kind == "render" {
			out = append(out, c20xCase(ops[:i], "shrunk", nil))
			break
		}
	}
	for _, v := range c20xVariants(ops) {
		if c20xClosed(v) {
			out = append(out, c20xCase(v, "shrunk", nil))
		}
	}
	return out
}
