package props

import (
	"math/rand"
	"strings"
	"testing"

	"verifharness/hist"
)

func c12CtxByName(t *testing.T, name string) *c12Context {
	for i := range c12Contexts {
		if c12Contexts[i].Name == name {
			return &c12Contexts[i]
		}
	}
	t.Fatalf("no context %s", name)
	return nil
}

// Every context, in every mode, with strings, runes and bytes: the oracle accepts what the
// implementation renders (skeleton, twin and Func form).
func TestC12ContextsOnTheImplementation(t *testing.T) {
	p := c12{}
	r := rand.New(rand.NewSource(5))
	for ci := range c12Contexts {
		cx := &c12Contexts[ci]
		for _, mode := range c12Modes {
			for _, kind := range []string{"lit", "rune", "byte"} {
				for rep := 0; rep < 4; rep++ {
					lits := c12CtxLits(r, cx.Slots, kind, func() string { return c12CtxString(r) })
					c := c12ContextCase(cx, lits, mode, true, "test")
					if m := p.Oracle(c, hist.NewWorld().Exec(c.Hist)); m != "" {
						t.Fatalf("context %s mode %s %v: %s\n%s", cx.Name, mode, lits, m, c.Hist.Sexp())
					}
					for _, cand := range p.Shrink(c) {
						if m := p.Oracle(cand, hist.NewWorld().Exec(cand.Hist)); m != "" {
							t.Fatalf("shrunk case of context %s: %s", cx.Name, m)
						}
					}
				}
			}
		}
	}
}

func TestC12ContextVerdicts(t *testing.T) {
	p := c12{}
	tab := []struct {
		ctx, mode string
		lits      []c1xLit
		out       string
		good      bool
	}{
		{"if-lit-block", "plain", []c1xLit{c12Str("default")}, "if mode == \"default\" {\n\treturn\n}", true},
		{"if-lit-block", "plain", []c1xLit{c12Str("default")}, "if mode == \"default\" return", false}, // the fixed defect 8235fd5, had it formatted
		{"if-lit-block", "file-nf", []c1xLit{c12Str("default")}, "package p\n\n\nfunc f () {\nif  mode == \"default\" {\nreturn \n}\n}", true},
		{"if-lit-block", "file-nf", []c1xLit{c12Str("default")}, "package p\n\n\nfunc f () {\nif  mode == \"default\" \nreturn \n\n}", false},
		{"dict-key", "plain", []c1xLit{c12Str("a  b")}, "var m = map[string]int{\"a  b\": 1}", true},
		{"dict-key", "plain", []c1xLit{c12Str("a  b")}, "var m = map[string]int{\"a b\": 1}", false}, // blanks of the key normalised (seed C12-r4m2)
		{"dict-key", "plain", []c1xLit{c12Str(" a")}, "var m = map[string]int{\"a\": 1}", false},
		{"dict-key", "plain", []c1xLit{c12Str("%d")}, "var m = map[string]int{\"%!d(MISSING)\": 1}", false},
		{"dict-keys-3", "plain", []c1xLit{c12Str("b"), c12Str("a"), c12Str("c")}, "var m = map[string]int{\n\t\"a\": 1,\n\t\"b\": 1,\n\t\"c\": 1,\n}", true},
		{"dict-keys-3", "plain", []c1xLit{c12Str("b"), c12Str("a"), c12Str("c")}, "var m = map[string]int{\n\t\"a\": 1,\n\t\"c\": 1,\n}", false},
		{"dict-value", "plain", []c1xLit{c12Str("https://x/y")}, "var m = map[string]string{k: \"https://x/y\"}", true},
		{"dict-value", "plain", []c1xLit{c12Str("https://x/y")}, "var m = map[string]string{k: \"https:\", //x/y\"\n}", false},
		{"index-assign", "plain", []c1xLit{c12Byte(7), c12Byte(8)}, "m[byte(0x7)] = byte(0x8)", true},
		{"index-assign", "plain", []c1xLit{c12Byte(7), c12Byte(8)}, "m[byte(7)] = uint8(0x08)", true},
		{"index-assign", "plain", []c1xLit{c12Byte(7), c12Byte(8)}, "m[7] = byte(0x8)", false},
		{"index-assign", "plain", []c1xLit{c12Byte(7), c12Byte(8)}, "m[byte(0x7)] = byte(0x9)", false},
		{"index-assign", "plain", []c1xLit{c12Byte(7), c12Byte(8)}, "m[byte(0x7)] = int8(0x8)", false},
		{"case-and-default", "plain", []c1xLit{c12Str("default"), c12Str("case")}, "switch v {\ncase \"default\":\n\tf()\ndefault:\n\tg(\"case\")\n}", true},
		{"case-and-default", "plain", []c1xLit{c12Str("default"), c12Str("case")}, "switch v {\ncase \"default\":\n\tf()\ndefault:\n\tg(\"case\":)\n}", false},
		{"comment-behind", "plain", []c1xLit{c12Str("*/")}, "x := \"*/\" // c", true},
		{"comment-behind", "plain", []c1xLit{c12Str("*/")}, "x := \"*/\"", false},
		{"tag", "plain", []c1xLit{c12Rune('`'), c12Rune('"')}, "type T struct {\n\tF ['`']int `json:\"f\"`\n\tG ['\"']string\n}", true},
		{"tag", "plain", []c1xLit{c12Rune('`'), c12Rune('"')}, "type T struct {\n\tF ['`']int \"json:\\\"f\\\"\"\n\tG ['\"']string\n}", false},
	}
	for _, e := range tab {
		c := c12ContextCase(c12CtxByName(t, e.ctx), e.lits, e.mode, false, "test")
		m := p.Oracle(c, c1xFakeWrite(e.out))
		if (m == "") != e.good {
			t.Errorf("context %s, literals %#v, output %q: accepted=%v, want %v (%s)", e.ctx, e.lits, e.out, m == "", e.good, m)
		}
	}
	// a render that fails (the fixed defect: the braces of the Block are gone, go/format refuses)
	c := c12LitDefaultBeforeBlock()
	if c.Name != "lit-default-before-block" {
		t.Error("name of the regression case")
	}
	if m := p.Oracle(c, []hist.Obs{{Kind: "fmterr", Out: "if  mode == \"default\" return"}}); m == "" {
		t.Error("format error accepted")
	}
	if m := p.Oracle(c, hist.NewWorld().Exec(c.Hist)); m != "" {
		t.Errorf("the regression case fails on this tree: %s", m)
	}
}

func TestC12TwinCheck(t *testing.T) {
	str := []c1xLit{c12Str("default")}
	id := []c1xLit{{Kind: "id", V: "block"}}
	tab := []struct {
		src, twin string
		lits      []c1xLit
		good      bool
	}{
		{"a = \"default\" {\np\n}", "a = \"zq0w\" {\np\n}", str, true},
		{"a = \"default\" \np\n", "a = \"zq0w\" {\np\n}", str, false}, // braces gone
		{"a = \"default\" {\np\n}", "a = \"zq0w\" {\np\n}\nq", str, false},
		{"a = \"default\" {\np\n}\nq", "a = \"zq0w\" {\np\n}", str, false},
		{"a = \"Default\" {\np\n}", "a = \"zq0w\" {\np\n}", str, false},
		{"a = default {\np\n}", "a = \"zq0w\" {\np\n}", str, false},
		{"a = block (p,q)", "a = zq0w (p,q)", id, true},
		{"a = block: (p,q)", "a = zq0w (p,q)", id, false},
		{"a = blocks (p,q)", "a = zq0w (p,q)", id, false},
		{"c 'C' {\n}\nd 'C' {\ne\n}", "c '一' {\n}\nd '一' {\ne\n}", []c1xLit{c12Rune('C')}, true}, // a marker may occur twice
		{"c 'C' {\n}\nd 'D' {\ne\n}", "c '一' {\n}\nd '一' {\ne\n}", []c1xLit{c12Rune('C')}, false},
		{"a = \"x\"", "a = \"y\"", []c1xLit{c12Str("x")}, false}, // harness: no marker
	}
	for _, e := range tab {
		m := c12TwinCheck(e.src, e.twin, e.lits)
		if (m == "") != e.good {
			t.Errorf("src %q twin %q: accepted=%v, want %v (%s)", e.src, e.twin, m == "", e.good, m)
		}
	}
}

// magic-content and size: generated, accepted on the implementation, and the dimensions are there.
func TestC12MagicAndSizeStreams(t *testing.T) {
	p := c12{}
	r := rand.New(rand.NewSource(9))
	tags := map[string]int{}
	magic := c12MagicCases(r, "quick")
	for i, c := range magic {
		for _, tg := range c.Tags {
			tags[tg]++
		}
		if i%7 != 0 {
			continue
		}
		if m := p.Oracle(c, hist.NewWorld().Exec(c.Hist)); m != "" {
			t.Fatalf("magic case %d %s: %s", i, c.Hist.Sexp(), m)
		}
	}
	for _, g := range append(append([]string{"Qual", "Custom0", "Values-Dict-key", "Values-Dict-value"}, VariadicGroups...), FixedGroups...) {
		if tags["group="+g] == 0 {
			t.Errorf("group kind %s not in the magic stream", g)
		}
	}
	for _, pos := range c12MagicPositions {
		if tags["pos="+pos] == 0 {
			t.Errorf("position %s not in the magic stream", pos)
		}
	}
	if tags["mode=plain"] == 0 || tags["kind=identifier"] == 0 || tags["kind=rune"] == 0 {
		t.Errorf("tags %v", tags)
	}
	// the Block rule of the fixed defect, seen through the twin: had Lit("default") removed the braces
	for _, c := range magic {
		x := c.Meta["ctx"].(*c12CtxCase)
		has := func(tag string) bool {
			for _, tg := range c.Tags {
				if tg == tag {
					return true
				}
			}
			return false
		}
		if x.Mode == "file-nf" && has("group=Block") && has("pos=before") && x.Lits[0].Kind == "lit" && x.Lits[0].V == "default" {
			got := hist.NewWorld().Exec(c.Hist)
			if len(got) != 1 || !strings.Contains(got[0].Out, "{") {
				continue
			}
			bad := got[0]
			bad.Out = strings.Replace(strings.Replace(bad.Out, "{", "", 1), "}", "", 1)
			if m := p.Oracle(c, []hist.Obs{bad}); m == "" {
				t.Errorf("braces removed after Lit(\"default\"): accepted (%q)", bad.Out)
			}
			tags["checked-block"]++
		}
	}
	if tags["checked-block"] == 0 {
		t.Error("no Lit(\"default\") in front of a Block in the magic stream")
	}
	size := c12SizeCases(r, "quick")
	big := 0
	for _, c := range size {
		lits := c.Meta["lits"].([]c1xLit)
		for _, l := range lits {
			if len(l.V.(string)) >= 1<<20 {
				big++
			}
		}
		got := hist.NewWorld().Exec(c.Hist)
		if m := p.Oracle(c, got); m != "" {
			t.Fatalf("size case: %s", m[:200])
		}
		// a file cut off in front of the long line (seed C12-r4m1)
		if c.Meta["shape"] == c1xBatchFile && len(got) == 1 {
			cut := got[0]
			if i := strings.Index(cut.Out, "var _ = \"head\""); i >= 0 {
				cut.Out = cut.Out[:i+len("var _ = \"head\"")] + "\n"
				if m := p.Oracle(c, []hist.Obs{cut}); m == "" {
					t.Error("truncated file accepted")
				}
			}
		}
	}
	if big != 3 || len(size) < 60 {
		t.Errorf("%d size cases, %d of 2^20", len(size), big)
	}
}
