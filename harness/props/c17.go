package props

import (
	"fmt"
	"go/ast"
	"go/parser"
	"go/token"
	"math/rand"
	"reflect"
	"sort"
	"strconv"

	"verifharness/hist"
	"verifharness/term"
)

// C17: struct tags round-trip through reflect.StructTag.
type c17 struct{}

func init() { Register(c17{}) }

func (c17) ID() string { return "C17" }

func tagCase(kv [][2]string, noformat bool, stream string) *Case {
	field := term.S(term.Id("F"), term.Named("String"), term.Tag{KV: kv})
	decl := term.S(term.Named("Type"), term.Id("T"), term.G("Struct", field))
	h := hist.History{
		{Kind: "newfile", F: 0, A: "p"},
		{Kind: "noformat", F: 0, Flag: noformat},
		{Kind: "fadd", F: 0, Code: decl},
		{Kind: "render", F: 0},
	}
	tags := []string{fmt.Sprintf("keys=%d", len(kv))}
	return &Case{Hist: h, Meta: map[string]interface{}{"kv": kv}, NonTrivial: len(kv) > 0, Tags: tags, Stream: stream}
}

func (c17) Generate(r *rand.Rand, t string) []*Case {
	var out []*Case
	n := tier(t, 4000, 300000)
	for i := 0; i < n; i++ {
		nk := r.Intn(9)
		if r.Intn(20) == 0 {
			nk = 0
		}
		seen := map[string]bool{}
		var kv [][2]string
		for len(kv) < nk {
			k := TagKey(r)
			if seen[k] {
				continue
			}
			seen[k] = true
			kv = append(kv, [2]string{k, AdvString(r)})
		}
		out = append(out, tagCase(kv, r.Intn(2) == 0, "random"))
	}
	// every single byte as a value, and every byte between two quotes
	for b := 0; b < 256; b++ {
		out = append(out, tagCase([][2]string{{"k", string([]byte{byte(b)})}}, true, "byte"))
		out = append(out, tagCase([][2]string{{"a", "x"}, {"k", "\"" + string([]byte{byte(b)}) + "\""}, {"z", ""}}, b%2 == 0, "byte"))
	}
	return out
}

func (c17) Compare(c *Case, exp, got []hist.Obs) string { return CompareAll(exp, got) }

func (c17) Oracle(c *Case, got []hist.Obs) string {
	kv := c.Meta["kv"].([][2]string)
	if len(got) != 1 || got[0].Kind != "write" {
		return fmt.Sprintf("render did not succeed: %v", got)
	}
	src := got[0].Out
	fset := token.NewFileSet()
	f, err := parser.ParseFile(fset, "x.go", src, 0)
	if err != nil {
		return "output does not parse: " + err.Error()
	}
	var field *ast.Field
	ast.Inspect(f, func(n ast.Node) bool {
		if st, ok := n.(*ast.StructType); ok && field == nil {
			if len(st.Fields.List) == 1 {
				field = st.Fields.List[0]
			}
		}
		return true
	})
	if field == nil {
		return "struct field not found in output"
	}
	if len(kv) == 0 {
		if field.Tag != nil {
			return "empty map rendered a tag: " + field.Tag.Value
		}
		return ""
	}
	if field.Tag == nil {
		return "tag missing from output"
	}
	body, err := strconv.Unquote(field.Tag.Value)
	if err != nil {
		return "tag literal does not unquote: " + err.Error()
	}
	st := reflect.StructTag(body)
	keys := make([]string, 0, len(kv))
	for _, p := range kv {
		v, ok := st.Lookup(p[0])
		if !ok {
			return fmt.Sprintf("key %q not found in tag %q", p[0], body)
		}
		if v != p[1] {
			return fmt.Sprintf("key %q: got %q want %q (tag %q)", p[0], v, p[1], body)
		}
		keys = append(keys, p[0])
	}
	// keys in sorted order: scan the conventional format
	sort.Strings(keys)
	pos := 0
	rest := body
	for _, k := range keys {
		want := k + ":\""
		if pos > 0 {
			want = " " + want
		}
		if len(rest) < len(want) || rest[:len(want)] != want {
			return fmt.Sprintf("keys not in sorted order at %q (tag %q)", k, body)
		}
		// skip the quoted value
		i := len(want)
		for i < len(rest) && rest[i] != '"' {
			if rest[i] == '\\' {
				i++
			}
			i++
		}
		rest = rest[i+1:]
		pos++
	}
	if rest != "" {
		return fmt.Sprintf("trailing text %q in tag %q", rest, body)
	}
	return ""
}

func (c17) Shrink(c *Case) []*Case {
	kv := c.Meta["kv"].([][2]string)
	nf := c.Hist[1].Flag
	var out []*Case
	for i := range kv {
		var kv2 [][2]string
		kv2 = append(kv2, kv[:i]...)
		kv2 = append(kv2, kv[i+1:]...)
		out = append(out, tagCase(kv2, nf, "shrunk"))
	}
	for i := range kv {
		v := kv[i][1]
		for j := 0; j < len(v); j++ {
			kv2 := append([][2]string{}, kv...)
			kv2[i] = [2]string{kv[i][0], v[:j] + v[j+1:]}
			out = append(out, tagCase(kv2, nf, "shrunk"))
		}
	}
	return out
}
