package props

import (
	"fmt"
	"go/ast"
	"go/parser"
	"go/token"
	"math/rand"

	"verifharness/hist"
	"verifharness/term"
)

// C17: struct tags round-trip through reflect.StructTag.
type c17 struct{}

func init() { Register(c17{}) }

func (c17) ID() string { return "C17" }

func tagCase(kv [][2]string, noformat bool, stream string) *Case {
	field := term.S(term.Id("F"), term.Named("String"), term.Tag{KV: kv})
	decl := term.S(term.Named("Type"), term.Id("T"), term.G("Struct", field))
	h := hist.History{
		{Kind: "newfile", F: 0, A: "p"},
		{Kind: "noformat", F: 0, Flag: noformat},
		{Kind: "fadd", F: 0, Code: decl},
		{Kind: "render", F: 0},
	}
	tags := []string{fmt.Sprintf("keys=%d", len(kv))}
	return &Case{Hist: h, Meta: map[string]interface{}{"kv": kv}, NonTrivial: len(kv) > 0, Tags: tags, Stream: stream}
}

func (c17) Generate(r *rand.Rand, t string) []*Case {
	var out []*Case
	n := tier(t, 4000, 300000)
	for i := 0; i < n; i++ {
		nk := r.Intn(9)
		if r.Intn(20) == 0 {
			nk = 0
		}
		seen := map[string]bool{}
		var kv [][2]string
		for len(kv) < nk {
			k := TagKey(r)
			if seen[k] {
				continue
			}
			seen[k] = true
			kv = append(kv, [2]string{k, AdvString(r)})
		}
		out = append(out, tagCase(kv, r.Intn(2) == 0, "random"))
	}
	// every single byte as a value, and every byte between two quotes
	for b := 0; b < 256; b++ {
		out = append(out, tagCase([][2]string{{"k", string([]byte{byte(b)})}}, true, "byte"))
		out = append(out, tagCase([][2]string{{"a", "x"}, {"k", "\"" + string([]byte{byte(b)}) + "\""}, {"z", ""}}, b%2 == 0, "byte"))
	}
	// pairs whose key+value spell the same text with the boundary elsewhere (c17_live.go)
	out = append(out, c17BoundaryCases(r, tier(t, 300, 20000))...)
	// maps of the caller that change after Tag(m) and between renders (c17_live.go)
	for i, n := 0, tier(t, 1500, 60000); i < n; i++ {
		out = append(out, c17LiveCase(r))
	}
	return out
}

func (c17) Compare(c *Case, exp, got []hist.Obs) string { return CompareAll(exp, got) }

func (c17) Oracle(c *Case, got []hist.Obs) string {
	if c.Meta["kind"] == "live" {
		return c17LiveOracle(c, got) // c17_live.go
	}
	kv := c.Meta["kv"].([][2]string)
	if len(got) != 1 || got[0].Kind != "write" {
		return fmt.Sprintf("render did not succeed: %v", got)
	}
	src := got[0].Out
	fset := token.NewFileSet()
	f, err := parser.ParseFile(fset, "x.go", src, 0)
	if err != nil {
		return "output does not parse: " + err.Error()
	}
	var field *ast.Field
	ast.Inspect(f, func(n ast.Node) bool {
		if st, ok := n.(*ast.StructType); ok && field == nil {
			if len(st.Fields.List) == 1 {
				field = st.Fields.List[0]
			}
		}
		return true
	})
	if field == nil {
		return "struct field not found in output"
	}
	return c17CheckField(field, kv)
}

func (c17) Shrink(c *Case) []*Case {
	kv, ok := c.Meta["kv"].([][2]string)
	if !ok {
		return nil // live-map cases (c17_live.go) are not shrunk
	}
	nf := c.Hist[1].Flag
	var out []*Case
	for i := range kv {
		var kv2 [][2]string
		kv2 = append(kv2, kv[:i]...)
		kv2 = append(kv2, kv[i+1:]...)
		out = append(out, tagCase(kv2, nf, "shrunk"))
	}
	for i := range kv {
		v := kv[i][1]
		for j := 0; j < len(v); j++ {
			kv2 := append([][2]string{}, kv...)
			kv2[i] = [2]string{kv[i][0], v[:j] + v[j+1:]}
			out = append(out, tagCase(kv2, nf, "shrunk"))
		}
	}
	return out
}
