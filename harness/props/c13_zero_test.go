package props

import "testing"

func TestC13ZeroMarkers(t *testing.T) {
	names := []string{"zq0x", "zq1x", "zq2x"}
	if e := C13ZeroMarkers("f(zq0x,zq1x(),[]zq2x)", names); e != "" {
		t.Errorf("good list rejected: %s", e)
	}
	for _, bad := range []string{"f(zq0x,zq2x)", "f(zq1x,zq0x,zq2x)", "f(zq0x,zq1x,zq1x,zq2x)", "", "f(zq0x,zq11x,zq2x)"} {
		if e := C13ZeroMarkers(bad, names); e == "" {
			t.Errorf("bad list %q accepted", bad)
		}
	}
}

// every way of putting an item into a group yields the item on the pinned tree, and the
// reference build never uses a Group-form zero-length call
func TestC13ZeroWays(t *testing.T) {
	for _, ctx := range c13zContexts() {
		for _, w := range c13zWays {
			sp := &c13zSpec{Ctx: ctx, Items: []c13zItem{{Way: "direct", Name: "zq0x"}, {Way: w, M: "Call", Name: "zq1x"}, {Way: "direct", Name: "zq2x"}}}
			if ctx == "Custom" {
				sp.CtxOpts = c13Custom[0]
			}
			c := c13zCase(sp, "t")
			c.Hist = nil // the chained build of the term is not part of this test
			if e := c13zOracle(c, nil); e != "" {
				t.Errorf("%s/%s: %s", ctx, w, e)
			}
		}
	}
}
