package props

import (
	"bytes"
	"context"
	"fmt"
	"go/ast"
	"go/build/constraint"
	"go/parser"
	"go/token"
	"hash/fnv"
	"io/fs"
	"math/rand"
	"os"
	"os/exec"
	"path"
	"path/filepath"
	"runtime"
	"runtime/debug"
	"sort"
	"strconv"
	"strings"
	"sync"
	"time"

	"verifharness/hist"
	"verifharness/term"
)

// C18: standard-library packages are referred to by their real names.
//
// Ground truth is read from the installed toolchain and from nothing else: the package
// clauses of the files under GOROOT/src (go/parser, PackageClauseOnly).  Neither
// jen/hints.go nor the gennames output nor any ImportName hint is trusted for a path that
// has a directory under GOROOT/src.
type c18 struct{}

func init() { Register(c18{}) }

func (c18) ID() string { return "C18" }

// ---- the installed toolchain's packages --------------------------------------------

// StdPkg is one importable package directory of GOROOT/src.
type StdPkg struct {
	Path, Name string
	// Default: the directory holds Go files for the configuration this harness runs in
	// (it is in goroot.go's StdNames, i.e. `go list std`).  Otherwise the package can only
	// be imported under other build settings (GOOS=js, -tags boringcrypto, -asan, ...): it
	// is still a package directory of the installed toolchain, so it is enumerated.
	Default bool
}

var (
	c18Once sync.Once
	c18Pkgs []StdPkg          // sorted by path
	c18Name map[string]string // path -> declared name
	c18Src  string
	c18Mu   sync.Mutex
	c18Dir  = map[string]string{} // cache of clauseName for paths outside c18Name ("" = none)
)

// clauseName reads the package clauses of the non-test Go files of dir. Files that exclude
// themselves from every build (`//go:build ignore`) and `package main` files (generators
// kept next to a library) are not counted. It returns "" when no name or more than one name
// remains.
func clauseName(dir string) string { return clauseNameOf(dir, false) }

// clauseNameOf with tests=true reads the _test.go files instead (for a directory that has
// nothing else: `go list` then reports the name of the test package, without the _test
// suffix of an external test package).
func clauseNameOf(dir string, tests bool) string {
	ents, err := os.ReadDir(dir)
	if err != nil {
		return ""
	}
	names := map[string]bool{}
	for _, e := range ents {
		n := e.Name()
		if e.IsDir() || !strings.HasSuffix(n, ".go") || strings.HasSuffix(n, "_test.go") != tests || strings.HasPrefix(n, "_") || strings.HasPrefix(n, ".") {
			continue
		}
		f, err := parser.ParseFile(token.NewFileSet(), filepath.Join(dir, n), nil, parser.PackageClauseOnly|parser.ParseComments)
		if err != nil {
			continue
		}
		never := false
		for _, cg := range f.Comments {
			for _, c := range cg.List {
				if c.Pos() < f.Package && constraint.IsGoBuild(c.Text) {
					if x, err := constraint.Parse(c.Text); err == nil && !x.Eval(func(tag string) bool { return tag != "ignore" }) {
						never = true
					}
				}
			}
		}
		if never || f.Name.Name == "main" {
			continue
		}
		if tests {
			names[strings.TrimSuffix(f.Name.Name, "_test")] = true
		} else {
			names[f.Name.Name] = true
		}
	}
	if len(names) != 1 {
		return ""
	}
	for n := range names {
		return n
	}
	return ""
}

func c18Load() {
	c18Once.Do(func() {
		src := filepath.Join(runtime.GOROOT(), "src")
		if r, err := filepath.EvalSymlinks(src); err == nil {
			src = r
		}
		c18Src = src
		c18Name = map[string]string{}
		filepath.WalkDir(src, func(p string, d fs.DirEntry, err error) error {
			if err != nil || !d.IsDir() {
				return nil
			}
			rel, _ := filepath.Rel(src, p)
			if rel == "." {
				return nil
			}
			base := filepath.Base(p)
			if base == "testdata" || base == "vendor" || base == "internal" || rel == "cmd" || strings.HasPrefix(base, "_") || strings.HasPrefix(base, ".") {
				return filepath.SkipDir
			}
			rel = filepath.ToSlash(rel)
			if rel == "builtin" { // documentation only; not in `go list std`
				return nil
			}
			name := clauseName(p)
			if dn, ok := StdNames[rel]; ok {
				// two independent readings (go/build with the run's configuration, and the
				// clause scan) must agree; if they do not, go/build is right for this run
				name = dn
			}
			if name == "" {
				return nil
			}
			_, def := StdNames[rel]
			c18Pkgs = append(c18Pkgs, StdPkg{Path: rel, Name: name, Default: def})
			c18Name[rel] = name
			return nil
		})
		sort.Slice(c18Pkgs, func(i, j int) bool { return c18Pkgs[i].Path < c18Pkgs[j].Path })
	})
}

// StdPackages returns every importable package directory of GOROOT/src (no internal/,
// vendor/, testdata, cmd/, package main, builtin; at least one non-test Go file).
func StdPackages() []StdPkg { c18Load(); return c18Pkgs }

// GorootName is the name declared by the package clause of GOROOT/src/<path>, for any
// directory there (also internal ones, which only the gennames table mentions).
func GorootName(p string) (string, bool) {
	c18Load()
	if n, ok := c18Name[p]; ok {
		return n, true
	}
	if p == "" || strings.Contains(p, "..") || strings.HasPrefix(p, "/") || path.Clean(p) != p {
		return "", false
	}
	c18Mu.Lock()
	defer c18Mu.Unlock()
	n, ok := c18Dir[p]
	if !ok {
		dir := filepath.Join(c18Src, filepath.FromSlash(p))
		if n = clauseName(dir); n == "" {
			n = clauseNameOf(dir, true) // a directory of tests only (not importable; gennames lists it)
		}
		c18Dir[p] = n
	}
	return n, n != ""
}

// ---- cases ---------------------------------------------------------------------------

// c18Case: a file whose i-th declaration is `var _ = <Qual(paths[i], "V<i>")>`, so that
// every rendered reference can be traced back to the path it was built with.
//
// Every case is rendered TWICE (tag rendered-twice): two File.Render operations, or - for
// the quarter of the cases selected by a hash of (stream, setup, paths), tag
// fragment-then-render - a Statement.RenderWithFile of a fragment `_ = f(<the same Quals>)`
// first and File.Render after.  The second output has to satisfy the same oracle as the
// first (imports still declared, qualifiers still bound), and a reference keeps its
// qualifier from one output to the next.
func c18Case(stream string, setup hist.History, paths []string, tags ...string) *Case {
	h := hist.History{{Kind: "newfile", F: 0, A: "p"}}
	h = append(h, setup...)
	var quals []term.Node
	for i, p := range paths {
		h = append(h, hist.Op{Kind: "fadd", F: 0, Code: term.S(term.Named("Var"), term.Id("_"), term.Op("="), term.Qual(p, fmt.Sprintf("V%d", i)))})
		quals = append(quals, term.S(term.Qual(p, fmt.Sprintf("V%d", i))))
	}
	hs := fnv.New32a()
	hs.Write([]byte(stream + " " + setup.Sexp() + " " + strings.Join(paths, " ")))
	tags = append(tags, "rendered-twice")
	if hs.Sum32()%4 == 0 && len(paths) > 0 && len(paths) <= 8 {
		frag := term.S(term.Id("_"), term.Op("="), term.Id("f"), term.G("Call", quals...))
		h = append(h, hist.Op{Kind: "rcode", F: 0, Code: frag}, hist.Op{Kind: "render", F: 0}, hist.Op{Kind: "imports", F: 0})
		tags = append(tags, "fragment-then-render")
	} else {
		h = append(h, hist.Op{Kind: "render", F: 0}, hist.Op{Kind: "render", F: 0}, hist.Op{Kind: "imports", F: 0})
	}
	// what the user told about package names (only believed for paths outside GOROOT/src)
	told := map[string]string{}
	for _, op := range setup {
		switch op.Kind {
		case "importname":
			told[op.A] = op.B
		case "importalias":
			delete(told, op.A)
		case "importnames":
			for _, kv := range op.Pairs {
				told[kv[0]] = kv[1]
			}
		}
	}
	c := &Case{Hist: h, Stream: stream, Meta: map[string]interface{}{"paths": paths, "told": told}, Tags: tags}
	// NonTrivial (measured on the case): at least one referenced path has a package clause
	// under GOROOT/src, i.e. the oracle has a real name to hold the output against.
	for _, p := range paths {
		if _, ok := GorootName(p); ok {
			c.NonTrivial = true
		}
	}
	// Feature tags measured on what the implementation does with the case: how many std
	// paths end up without / with an alias in the import block.
	plain, aliased := c18Measure(c)
	if plain >= 0 {
		c.Tags = append(c.Tags, fmt.Sprintf("std-unaliased=%d", plain), fmt.Sprintf("std-aliased=%d", aliased))
	}
	return c
}

func c18Measure(c *Case) (plain, aliased int) {
	defer func() {
		if recover() != nil {
			plain, aliased = -1, -1
		}
	}()
	got := hist.NewWorld().Exec(c.Hist)
	o, ok := lastWrite(got)
	if !ok || o.Kind != "write" {
		return -1, -1
	}
	f, err := parser.ParseFile(token.NewFileSet(), "x.go", o.Out, parser.ImportsOnly)
	if err != nil {
		return -1, -1
	}
	for _, is := range f.Imports {
		p, _ := strconv.Unquote(is.Path.Value)
		if _, ok := GorootName(p); ok {
			if is.Name == nil {
				plain++
			} else {
				aliased++
			}
		}
	}
	return
}

func withPrefix(on bool) hist.History {
	if on {
		return hist.History{{Kind: "prefix", F: 0, A: "pkg"}}
	}
	return nil
}

func onoff(b bool) string {
	if b {
		return "on"
	}
	return "off"
}

// collisionGroups: sets of std paths that compete for one identifier, because they declare
// the same name or end in the same path element (or one's name is the other's last element).
func collisionGroups() map[string][]string {
	by := map[string]map[string]bool{}
	add := func(k, p string) {
		if by[k] == nil {
			by[k] = map[string]bool{}
		}
		by[k][p] = true
	}
	for _, sp := range StdPackages() {
		add(sp.Name, sp.Path)
		add(path.Base(sp.Path), sp.Path)
	}
	out := map[string][]string{}
	for k, m := range by {
		if len(m) >= 2 {
			out[k] = sortedKeys(m)
		}
	}
	return out
}

func (c18) Generate(r *rand.Rand, t string) []*Case {
	var out []*Case
	pkgs := StdPackages()
	cfgTag := func(sp StdPkg) string {
		if sp.Default {
			return "config=default"
		}
		return "config=other-build-settings"
	}

	// 1. exhaustive: every importable std package alone in a file (finite space, complete)
	for _, prefix := range []bool{false, true} {
		for _, sp := range pkgs {
			out = append(out, c18Case("single", withPrefix(prefix), []string{sp.Path}, "exhaustive-single", "prefix="+onoff(prefix), cfgTag(sp)))
		}
	}

	// 1b. every std package first imported for its side effects (Anon) and then used by name:
	// the blank import must give way to a real name (exhaustive over the packages)
	for _, prefix := range []bool{false, true} {
		for _, sp := range pkgs {
			setup := append(withPrefix(prefix), hist.Op{Kind: "anon", F: 0, Strs: []string{sp.Path}})
			out = append(out, c18Case("anon-then-qual", setup, []string{sp.Path}, "anon-then-qual", "prefix="+onoff(prefix), cfgTag(sp)))
		}
	}

	// 2. every colliding pair of std packages, both orders
	groups := collisionGroups()
	var keys []string
	for k := range groups {
		keys = append(keys, k)
	}
	sort.Strings(keys)
	for _, k := range keys {
		g := groups[k]
		for _, a := range g {
			for _, b := range g {
				if a == b {
					continue
				}
				for _, prefix := range []bool{false, true} {
					out = append(out, c18Case("std-pair", withPrefix(prefix), []string{a, b}, "collide="+k, "prefix="+onoff(prefix)))
					// the same pair with one of them Anon'd first
					setup := append(withPrefix(prefix), hist.Op{Kind: "anon", F: 0, Strs: []string{b}})
					out = append(out, c18Case("std-pair-anon", setup, []string{a, b}, "collide="+k, "anon-then-qual", "prefix="+onoff(prefix)))
				}
			}
		}
	}

	// 3. a user path whose last element is the std package's name (and, where it differs,
	// its last path element), with that std package, both orders
	userFor := func(sp StdPkg) []string {
		us := []string{"example.com/u/" + sp.Name}
		if b := path.Base(sp.Path); b != sp.Name {
			us = append(us, "example.com/u/"+b)
		}
		return us
	}
	for _, sp := range pkgs {
		for _, u := range userFor(sp) {
			for _, prefix := range []bool{false, true} {
				out = append(out, c18Case("user-pair", withPrefix(prefix), []string{u, sp.Path}, "order=user-first", "prefix="+onoff(prefix)))
				out = append(out, c18Case("user-pair", withPrefix(prefix), []string{sp.Path, u}, "order=std-first", "prefix="+onoff(prefix)))
			}
		}
	}
	// the user path carries a hint that claims the std package's name
	for _, sp := range pkgs {
		u := "example.com/u/" + sp.Name
		for _, kind := range []string{"importname", "importalias"} {
			setup := hist.History{{Kind: kind, F: 0, A: u, B: sp.Name}}
			out = append(out, c18Case("user-pair-hinted", setup, []string{u, sp.Path}, "hint="+kind, "order=user-first"))
			out = append(out, c18Case("user-pair-hinted", setup, []string{sp.Path, u}, "hint="+kind, "order=std-first"))
		}
	}

	out = append(out, c18RedundantAlias()...)

	out = append(out, c18GennamesStub(r, t)...) // stream gennames-stub (c18_gennames.go)

	out = append(out, c18OpOrderCases(r, t)...) // stream op-order (below; enumeration in c06_hist.go)

	out = append(out, c18StandaloneCases(r, t)...) // stream standalone-sequence (c18_standalone.go)

	out = append(out, c18LayoutCases(r, t)...)  // stream import-layout (c18_layout.go)
	out = append(out, c18DictKeyCases(r, t)...) // stream dict-key (c18_layout.go, c03_dictkey.go)

	if t != "thorough" {
		return out
	}

	// 4. ordered triples: inside every collision group, and (user, std, user') around every package
	perm3 := [][3]int{{0, 1, 2}, {0, 2, 1}, {1, 0, 2}, {1, 2, 0}, {2, 0, 1}, {2, 1, 0}}
	for _, k := range keys {
		g := groups[k]
		pool := append(append([]string{}, g...), "example.com/u/"+k)
		for i := 0; i < len(pool); i++ {
			for j := i + 1; j < len(pool); j++ {
				for l := j + 1; l < len(pool); l++ {
					tri := []string{pool[i], pool[j], pool[l]}
					for _, pm := range perm3 {
						for _, prefix := range []bool{false, true} {
							out = append(out, c18Case("triple", withPrefix(prefix), []string{tri[pm[0]], tri[pm[1]], tri[pm[2]]}, "collide="+k, "prefix="+onoff(prefix)))
						}
					}
				}
			}
		}
	}
	for _, sp := range pkgs {
		tri := []string{sp.Path, "example.com/u/" + sp.Name, "other.org/v/" + sp.Name}
		for _, pm := range perm3 {
			prefix := r.Intn(2) == 0
			out = append(out, c18Case("triple-user", withPrefix(prefix), []string{tri[pm[0]], tri[pm[1]], tri[pm[2]]}, "prefix="+onoff(prefix)))
		}
	}

	// 5. the gennames tool: built from the working tree, run on the installed toolchain; its
	// table handed to ImportNames exactly as the README says, one package per file and once
	// as a whole
	table, err := RunGennames(RepoDir())
	if err != nil {
		c := &Case{Name: "gennames-run", Stream: "gennames", Hist: hist.History{{Kind: "newfile", F: 0, A: "p"}, {Kind: "render", F: 0}},
			Meta: map[string]interface{}{"paths": []string{}, "fail": "the gennames tool gives no table: " + err.Error()}}
		return append(out, c)
	}
	var tpaths []string
	for p := range table {
		tpaths = append(tpaths, p)
	}
	sort.Strings(tpaths)
	var all [][2]string
	for _, p := range tpaths {
		all = append(all, [2]string{p, table[p]})
	}
	for _, p := range tpaths {
		setup := hist.History{{Kind: "importnames", F: 0, Pairs: [][2]string{{p, table[p]}}}}
		tag := "gennames-entry=importable"
		if _, ok := c18Name[p]; !ok {
			tag = "gennames-entry=internal"
		}
		if _, ok := GorootName(p); ok && clauseName(filepath.Join(c18Src, filepath.FromSlash(p))) == "" {
			tag = "gennames-entry=tests-only-directory"
		}
		c := c18Case("gennames", setup, []string{p}, tag)
		c.Meta["strict"] = true
		out = append(out, c)
	}
	whole := c18Case("gennames", hist.History{{Kind: "importnames", F: 0, Pairs: all}}, tpaths, "gennames-whole-table")
	whole.Name = "gennames-whole-table"
	whole.Meta["strict"] = true
	out = append(out, whole)
	// coverage of the table (input distribution only; a missing entry is not a violation:
	// jennifer then writes an explicit alias)
	miss := 0
	for _, sp := range pkgs {
		if _, ok := table[sp.Path]; !ok && sp.Default {
			miss++
		}
	}
	whole.Tags = append(whole.Tags, fmt.Sprintf("gennames-entries=%d", len(table)), fmt.Sprintf("gennames-missing-default-std=%d", miss))
	return out
}

// c18RedundantAlias: ImportAlias(stdpath, <the name its package clause declares>) - an alias
// that says nothing new.  Stream redundant-alias (tag redundant-alias): every std package
// alone, prefix off/on.  Stream redundant-alias-collision (tag redundant-alias+collision):
// the same hint while ANOTHER path competes for that name - a user path whose last element
// is the name (x.y/<name>: its guessed alias; also registered through ImportName /
// ImportAlias(user, name)) for every std package, and every other std package of the same
// collision group (math/rand, then crypto/rand with ImportAlias("crypto/rand", "rand")),
// the competitor optionally carrying its own redundant alias - in both orders of first
// use, prefix off/on.  Whatever qualifier ends up written has to be provided by the import
// line: the plain real name needs no alias, anything else (rand1, pkg_rand, ...) needs the
// explicit alias.
func c18RedundantAlias() []*Case {
	var out []*Case
	red := func(sp StdPkg) hist.Op { return hist.Op{Kind: "importalias", F: 0, A: sp.Path, B: sp.Name} }
	pkgs := StdPackages()
	for _, prefix := range []bool{false, true} {
		for _, sp := range pkgs {
			out = append(out, c18Case("redundant-alias", append(withPrefix(prefix), red(sp)), []string{sp.Path}, "redundant-alias", "prefix="+onoff(prefix)))
		}
	}
	const st = "redundant-alias-collision"
	both := func(setup hist.History, a, b string, tags ...string) {
		out = append(out, c18Case(st, setup, []string{a, b}, append([]string{"redundant-alias+collision", "order=competitor-first"}, tags...)...))
		out = append(out, c18Case(st, setup, []string{b, a}, append([]string{"redundant-alias+collision", "order=std-first"}, tags...)...))
	}
	for _, sp := range pkgs {
		u := "x.y/" + sp.Name
		for _, prefix := range []bool{false, true} {
			px := "prefix=" + onoff(prefix)
			both(append(withPrefix(prefix), red(sp)), u, sp.Path, "competitor=user-guessed", px)
			both(append(withPrefix(prefix), hist.Op{Kind: "importname", F: 0, A: u, B: sp.Name}, red(sp)), u, sp.Path, "competitor=user-importname", px)
			both(append(withPrefix(prefix), red(sp), hist.Op{Kind: "importalias", F: 0, A: u, B: sp.Name}), u, sp.Path, "competitor=user-importalias", px)
		}
	}
	byPath := map[string]StdPkg{}
	for _, sp := range pkgs {
		byPath[sp.Path] = sp
	}
	groups := collisionGroups()
	var keys []string
	for k := range groups {
		keys = append(keys, k)
	}
	sort.Strings(keys)
	for _, k := range keys {
		for _, a := range groups[k] {
			for _, b := range groups[k] {
				if a == b {
					continue
				}
				for _, prefix := range []bool{false, true} {
					px := "prefix=" + onoff(prefix)
					// a is used first and takes the name; b carries the redundant alias
					out = append(out, c18Case(st, append(withPrefix(prefix), red(byPath[b])), []string{a, b}, "redundant-alias+collision", "competitor=std", "collide="+k, px))
					// a is used first AND carries the redundant alias; b comes second without hint
					out = append(out, c18Case(st, append(withPrefix(prefix), red(byPath[a])), []string{a, b}, "redundant-alias+collision", "competitor=std", "collide="+k, px))
					// both carry one
					out = append(out, c18Case(st, append(withPrefix(prefix), red(byPath[a]), red(byPath[b])), []string{a, b}, "redundant-alias+collision", "competitor=std+redundant-alias", "collide="+k, px))
				}
			}
		}
	}
	return out
}

// ---- stream op-order: hint / Anon operations before, between and after the renders -------
//
// The enumeration of c06_hist.go (which see) with a standard-library SUBJECT:
//
//	std          every importable package of GOROOT/src in turn (round-robin over the plans, so
//	             each package is the subject of several histories), nothing competing
//	std-collide  every ordered pair of every collision group in turn (math/rand and crypto/rand,
//	             text/template and html/template, ...): the other member is referenced first
//	std+user     a user path whose last element is the package's name is referenced first
//
// The operations tell the truth about a std package's name (ImportName / ImportNames give the
// name of the package clause: a File told a WRONG name for a std path is outside the property);
// ImportAlias gives an arbitrary alias or, every other time, the redundant one (the real name).
//
// Oracle (c18HistOracle): EVERY File.Render of the history is judged on its own against its own
// import block, and every fragment against the File's import table read right after it: a std
// path imported without alias is referred to by the name of its package clause and by nothing
// else (in particular not by a bare identifier); one imported under an alias by that alias; one
// imported as "." by bare identifiers; one imported as "_" not at all; no two imports bind one name.
// NonTrivial: the subject has a package clause under GOROOT/src (always, by construction).
func c18OpOrderCases(r *rand.Rand, t string) []*Case {
	var out []*Case
	thorough := t == "thorough"
	pkgs := StdPackages()
	byPath := map[string]StdPkg{}
	for _, sp := range pkgs {
		byPath[sp.Path] = sp
	}
	var pairs [][2]string
	groups := collisionGroups()
	var keys []string
	for k := range groups {
		keys = append(keys, k)
	}
	sort.Strings(keys)
	for _, k := range keys {
		for _, a := range groups[k] {
			for _, b := range groups[k] {
				if a != b {
					pairs = append(pairs, [2]string{a, b})
				}
			}
		}
	}
	opFor := func(pl *opOrderPlan, kind string, k int) hist.Op {
		p := pl.Paths[0]
		real := byPath[p].Name
		switch kind {
		case "dot":
			return hist.Op{Kind: "importalias", F: 0, A: p, B: "."}
		case "name":
			return hist.Op{Kind: "importname", F: 0, A: p, B: real}
		case "alias":
			if (len(out)+k)%2 == 0 {
				return hist.Op{Kind: "importalias", F: 0, A: p, B: real} // redundant alias
			}
			return hist.Op{Kind: "importalias", F: 0, A: p, B: []string{"zz", "yy", "ww"}[k%3]}
		case "names":
			return hist.Op{Kind: "importnames", F: 0, Pairs: [][2]string{{p, real}}}
		}
		return hist.Op{Kind: "anon", F: 0, Strs: []string{p}}
	}
	type variant struct {
		prefix  bool
		renders int
	}
	variants := []variant{{false, 3}}
	if thorough {
		variants = []variant{{false, 3}, {true, 3}, {false, 4}, {true, 4}}
	}
	ctr := 0 // round-robin position, shared by all kinds and variants
	for _, v := range variants {
		v := v
		for _, kind := range []string{"std", "std-collide", "std+user"} {
			kind := kind
			mk := func(n int) *opOrderPlan {
				ctr++
				pl := &opOrderPlan{Kind: kind}
				prefix := v.prefix
				if !thorough {
					prefix = n%2 == 1
				}
				switch kind {
				case "std":
					pl.Paths = []string{pkgs[ctr%len(pkgs)].Path}
				case "std-collide":
					pr := pairs[ctr%len(pairs)]
					pl.Paths = []string{pr[0], pr[1]}
					pl.Early = []int{1}
				default:
					sp := pkgs[ctr%len(pkgs)]
					pl.Paths = []string{sp.Path, "example.com/u/" + sp.Name}
					pl.Early = []int{1}
				}
				pl.Ctor = hist.History{{Kind: "newfile", F: 0, A: "p"}}
				if prefix {
					pl.Ctor = append(pl.Ctor, hist.Op{Kind: "prefix", F: 0, A: "pkg"})
				}
				pl.Tags = append(pl.Tags, "prefix="+onoff(prefix))
				if !byPath[pl.Paths[0]].Default {
					pl.Tags = append(pl.Tags, "config=other-build-settings")
				}
				return pl
			}
			for _, pl := range opOrderSpace(r, opOrderKinds, v.renders, thorough, mk, opFor) {
				h, measured := pl.history(r)
				tags := append(append([]string{fmt.Sprintf("renders=%d", pl.Renders)}, pl.Tags...), measured...)
				sort.Strings(tags)
				out = append(out, &Case{Hist: h, Stream: "op-order", NonTrivial: true, Tags: tags,
					Meta: map[string]interface{}{"paths": pl.Paths}})
			}
		}
	}
	return out
}

// c18HistOracle: see the stream's comment.  References are the V<i>_<j> identifiers of RefBody.
func c18HistOracle(c *Case, got []hist.Obs) string {
	paths, _ := c.Meta["paths"].([]string)
	rc := &RefCase{Paths: paths}
	told := map[string]map[string]bool{} // every name an ImportName(s) ever gave a path
	tell := func(p, n string) {
		if told[p] == nil {
			told[p] = map[string]bool{}
		}
		told[p][n] = true
	}
	// judge: the references of one output (qm) against the imports in force for it
	type imp struct {
		alias string // "" = none written
	}
	judge := func(what string, qm map[string]string, imps map[string]imp, out string) string {
		scope := map[string]string{}
		for _, p := range sortedKeys(func() map[string]bool {
			m := map[string]bool{}
			for p := range imps {
				m[p] = true
			}
			return m
		}()) {
			im := imps[p]
			var provides []string
			switch {
			case im.alias == "_" || im.alias == ".":
			case im.alias != "":
				provides = []string{im.alias}
			default:
				if n, ok := GorootName(p); ok {
					provides = []string{n}
				} else {
					provides = sortedKeys(told[p])
				}
			}
			for _, n := range provides {
				if q, clash := scope[n]; clash && q != p {
					return fmt.Sprintf("%s: imports %q and %q both bind the name %s\n%q", what, q, p, n, out)
				}
				scope[n] = p
			}
		}
		for _, p := range sortedKeys(c08Keys(qm)) {
			q := qm[p]
			real, std := GorootName(p)
			desc := fmt.Sprintf("path %q", p)
			if std {
				desc = fmt.Sprintf("standard-library path %q (package clause in GOROOT/src: %s)", p, real)
			}
			ref := q + ".X"
			if q == "" {
				ref = "a bare identifier"
			}
			im, ok := imps[p]
			switch {
			case !ok:
				return fmt.Sprintf("%s: %s is referred to by %s but not imported\n%q", what, desc, ref, out)
			case im.alias == "_":
				return fmt.Sprintf("%s: %s is imported as _ but referred to by %s\n%q", what, desc, ref, out)
			case im.alias == ".":
				if q != "" {
					return fmt.Sprintf("%s: %s is imported as . but referred to by %s\n%q", what, desc, ref, out)
				}
			case im.alias != "":
				if q != im.alias {
					return fmt.Sprintf("%s: %s is imported with the alias %s but referred to by %s\n%q", what, desc, im.alias, ref, out)
				}
			case std:
				if q != real {
					return fmt.Sprintf("%s: %s is imported without alias but is not referred to by its real name: it is written as %s\n%q", what, desc, ref, out)
				}
			default:
				if !told[p][q] || q == "" {
					return fmt.Sprintf("%s: %s is imported without alias and referred to by %s, a name nothing has told\n%q", what, desc, ref, out)
				}
			}
		}
		return ""
	}
	oi, nout := 0, 0
	var fragQM map[string]string
	fragOp, fragOut := 0, ""
	for i, op := range c.Hist {
		switch op.Kind {
		case "importname":
			tell(op.A, op.B)
		case "importnames":
			for _, kv := range op.Pairs {
				tell(kv[0], kv[1])
			}
		case "imports":
			if oi >= len(got) {
				return fmt.Sprintf("operation %d (imports) has no observation", i)
			}
			o := got[oi]
			oi++
			if o.Kind != "imports" {
				return fmt.Sprintf("operation %d (imports): unexpected observation %s", i, o)
			}
			if fragQM != nil {
				imps := map[string]imp{}
				for _, im := range o.Imports {
					if im.Alias {
						imps[im.Path] = imp{alias: im.Name}
					} else {
						imps[im.Path] = imp{}
						// without alias the table's own name is what a later import line relies on: it
						// must be the real one
						if real, std := GorootName(im.Path); std && im.Name != real {
							return fmt.Sprintf("operation %d: the File's import table registers standard-library path %q without alias under the name %s (package clause: %s)", i, im.Path, im.Name, real)
						}
					}
				}
				if m := judge(fmt.Sprintf("fragment rendered with the File (operation %d) against the File's import table", fragOp), fragQM, imps, fragOut); m != "" {
					return m
				}
				fragQM = nil
			}
		case "render", "rcode":
			if oi >= len(got) {
				return fmt.Sprintf("operation %d (%s) has no observation", i, op.Kind)
			}
			o := got[oi]
			oi++
			nout++
			if o.Kind != "write" || o.Failed {
				return fmt.Sprintf("output %d (operation %d, %s) was not rendered: %s", nout, i, op.Kind, o.String())
			}
			src := o.Out
			if op.Kind == "rcode" {
				var err error
				if src, err = c08Wrap(o.Out); err != nil {
					return fmt.Sprintf("operation %d (rcode): output does not parse: %v\n%q", i, err, o.Out)
				}
			}
			qm, err := rc.QualifierMap(src)
			if err != nil {
				return fmt.Sprintf("output %d (operation %d, %s): %v\n%q", nout, i, op.Kind, err, o.Out)
			}
			if op.Kind == "rcode" {
				fragQM, fragOp, fragOut = qm, i, o.Out
				continue
			}
			fragQM = nil
			pf, err := parser.ParseFile(token.NewFileSet(), "x.go", o.Out, parser.ImportsOnly)
			if err != nil {
				return fmt.Sprintf("output %d (operation %d): does not parse: %v", nout, i, err)
			}
			specs, err := parseImports(pf)
			if err != nil {
				return err.Error()
			}
			imps := map[string]imp{}
			for _, sp := range specs {
				if _, dup := imps[sp.path]; dup {
					return fmt.Sprintf("output %d (operation %d): path %q is imported twice\n%q", nout, i, sp.path, o.Out)
				}
				imps[sp.path] = imp{alias: sp.name}
			}
			if m := judge(fmt.Sprintf("output %d (operation %d, File.Render after %d earlier output(s))", nout, i, nout-1), qm, imps, o.Out); m != "" {
				return m
			}
		}
	}
	if nout == 0 {
		return "the history produced no render observation"
	}
	return ""
}

func (c18) Compare(c *Case, exp, got []hist.Obs) string {
	if c.Stream == "gennames-stub" {
		return c18StubCompare(c, exp, got) // c18_gennames.go
	}
	if _, ok := c.Meta["c18sa"]; ok {
		return c18StandaloneCompare(exp, got) // c18_standalone.go
	}
	if c.Meta["weak"] == true {
		return weakOrderCompare(exp, got) // stream dict-key, recorded finding dict-keys-register-in-map-order only
	}
	return CompareAll(exp, got)
}

func (c18) Oracle(c *Case, got []hist.Obs) string {
	if c.Stream == "gennames-stub" {
		return c18StubOracle(c, got) // c18_gennames.go
	}
	if c.Stream == "op-order" {
		return c18HistOracle(c, got)
	}
	if m, ok := c.Meta["c18sa"].(*c18saMeta); ok {
		return c18StandaloneOracle(m, got) // c18_standalone.go
	}
	if m, ok := c.Meta["fail"].(string); ok {
		return m
	}
	paths, _ := c.Meta["paths"].([]string)
	told, _ := c.Meta["told"].(map[string]string)
	if strict, _ := c.Meta["strict"].(bool); strict {
		// the table of `gennames -standard` speaks about GOROOT/src only: every entry must
		// have a package clause there to be held against, and no entry is taken on trust
		for _, p := range paths {
			if _, ok := GorootName(p); !ok {
				return fmt.Sprintf("gennames -standard lists %q, for which GOROOT/src has no package clause", p)
			}
		}
		told = nil
	}
	// every output of the history is judged on its own; a reference keeps its qualifier
	oi, nout := 0, 0
	var first map[int]string
	firstOp := 0
	for i, op := range c.Hist {
		switch op.Kind {
		case "imports", "save":
			oi++
			continue
		case "render", "rcode":
		default:
			continue
		}
		if oi >= len(got) {
			return fmt.Sprintf("operation %d (%s) has no observation", i, op.Kind)
		}
		o := got[oi]
		oi++
		nout++
		if o.Kind != "write" || o.Failed {
			return fmt.Sprintf("output %d (operation %d, %s) was not rendered: %s", nout, i, op.Kind, o.String())
		}
		src := o.Out
		if op.Kind == "render" {
			if m := C18Check(paths, told, src); m != "" {
				if nout > 1 {
					return fmt.Sprintf("output %d (operation %d, File.Render after %d earlier output(s)): %s", nout, i, nout-1, m)
				}
				return m
			}
		} else {
			src = "package p\nfunc _() {\n" + o.Out + "\n}"
		}
		qs, m := c18Quals(paths, src)
		if m != "" {
			return fmt.Sprintf("output %d (operation %d, %s): %s", nout, i, op.Kind, m)
		}
		if first == nil {
			first, firstOp = qs, i
			continue
		}
		for k := range paths {
			if first[k] != qs[k] {
				return fmt.Sprintf("reference V%d to path %q is qualified by %s in the output of operation %d and by %s in the output of operation %d (%s)", k, paths[k], first[k], firstOp, qs[k], i, op.Kind)
			}
		}
	}
	if nout == 0 {
		return "the history produced no render observation"
	}
	return ""
}

// c18Quals reads, from a file or a wrapped fragment, the qualifier of every reference V<i>
// (each must occur exactly once, as <identifier>.V<i>).
func c18Quals(paths []string, src string) (map[int]string, string) {
	f, err := parser.ParseFile(token.NewFileSet(), "x.go", src, 0)
	if err != nil {
		return nil, "output does not parse: " + err.Error()
	}
	out := map[int]string{}
	n := make([]int, len(paths))
	inSel := map[*ast.Ident]bool{}
	problem := ""
	ast.Inspect(f, func(nd ast.Node) bool {
		if se, ok := nd.(*ast.SelectorExpr); ok {
			if i, ok := c18Ref(se.Sel.Name); ok && i < len(paths) {
				inSel[se.Sel] = true
				n[i]++
				if x, ok := se.X.(*ast.Ident); ok {
					out[i] = x.Name
				} else if problem == "" {
					problem = fmt.Sprintf("reference %s is not qualified by an identifier", se.Sel.Name)
				}
			}
		}
		return true
	})
	ast.Inspect(f, func(nd ast.Node) bool {
		if id, ok := nd.(*ast.Ident); ok && !inSel[id] && problem == "" {
			if i, ok := c18Ref(id.Name); ok && i < len(paths) {
				problem = fmt.Sprintf("reference %s to path %q is written without a qualifier", id.Name, paths[i])
			}
		}
		return true
	})
	if problem != "" {
		return nil, problem
	}
	for i, k := range n {
		if k != 1 {
			return nil, fmt.Sprintf("reference V%d to path %q occurs %d times", i, paths[i], k)
		}
	}
	return out, ""
}

func c18Ref(name string) (int, bool) {
	if len(name) < 2 || name[0] != 'V' {
		return 0, false
	}
	i, err := strconv.Atoi(name[1:])
	return i, err == nil && i >= 0 && strconv.Itoa(i) == name[1:]
}

// C18Check decides the property on one rendered file whose reference V<i> was built with
// Qual(paths[i], "V<i>"). told holds the ImportName hints of the history: they are the
// user's word for the package name of a path OUTSIDE GOROOT/src and are ignored for a
// path that has a package clause there.
func C18Check(paths []string, told map[string]string, src string) string {
	fset := token.NewFileSet()
	f, err := parser.ParseFile(fset, "x.go", src, 0)
	if err != nil {
		return "output does not parse: " + err.Error()
	}
	type spec struct {
		alias    string // "" = none written
		provides string // the identifier this import binds ("" = unknowable)
	}
	specs := map[string]spec{}
	scope := map[string]string{} // identifier -> path
	for _, is := range f.Imports {
		p, err := strconv.Unquote(is.Path.Value)
		if err != nil {
			return "import path " + is.Path.Value + " does not unquote"
		}
		if _, dup := specs[p]; dup {
			return fmt.Sprintf("path %q is imported twice", p)
		}
		s := spec{}
		if is.Name != nil {
			s.alias = is.Name.Name
			s.provides = is.Name.Name
		} else if n, ok := GorootName(p); ok {
			s.provides = n
		} else if n := told[p]; n != "" {
			s.provides = n
		}
		specs[p] = s
		if s.provides != "" && s.provides != "_" && s.provides != "." {
			if q, clash := scope[s.provides]; clash {
				return fmt.Sprintf("imports %q and %q both bind the name %s", q, p, s.provides)
			}
			scope[s.provides] = p
		}
	}
	found := make([]int, len(paths))
	inSel := map[*ast.Ident]bool{}
	problem := ""
	ast.Inspect(f, func(n ast.Node) bool {
		se, ok := n.(*ast.SelectorExpr)
		if !ok || problem != "" {
			return problem == ""
		}
		i, ok := c18Ref(se.Sel.Name)
		if !ok || i >= len(paths) {
			return true
		}
		inSel[se.Sel] = true
		found[i]++
		x, ok := se.X.(*ast.Ident)
		if !ok {
			problem = fmt.Sprintf("reference %s is not qualified by an identifier", se.Sel.Name)
			return false
		}
		p := paths[i]
		s, imported := specs[p]
		real, std := GorootName(p)
		what := fmt.Sprintf("path %q", p)
		if std {
			what = fmt.Sprintf("standard-library path %q (package clause in GOROOT/src: %s)", p, real)
		}
		switch {
		case !imported:
			problem = fmt.Sprintf("%s is referenced as %s.%s but not imported", what, x.Name, se.Sel.Name)
		case s.alias == "_" || s.alias == ".":
			problem = fmt.Sprintf("%s is imported as %s but referenced as %s.%s", what, s.alias, x.Name, se.Sel.Name)
		case s.alias != "" && x.Name != s.alias:
			problem = fmt.Sprintf("%s is imported with the alias %s but qualified by %s", what, s.alias, x.Name)
		case s.alias == "" && !std && s.provides != "" && x.Name != s.provides:
			problem = fmt.Sprintf("%s is imported without an alias under the hinted name %s but qualified by %s", what, s.provides, x.Name)
		case s.alias == "" && !std && s.provides == "":
			problem = fmt.Sprintf("%s is imported without an alias although nothing tells its package name (qualified by %s)", what, x.Name)
		case s.alias == "" && std && x.Name != real:
			problem = fmt.Sprintf("%s is imported without an alias but qualified by %s, a name the import does not provide", what, x.Name)
		case scope[x.Name] != p:
			problem = fmt.Sprintf("%s is qualified by %s, which the import block binds to %q", what, x.Name, scope[x.Name])
		}
		return problem == ""
	})
	if problem != "" {
		return problem
	}
	ast.Inspect(f, func(n ast.Node) bool {
		if id, ok := n.(*ast.Ident); ok && !inSel[id] {
			if i, ok := c18Ref(id.Name); ok && i < len(paths) && problem == "" {
				problem = fmt.Sprintf("reference %s to path %q is written without a qualifier", id.Name, paths[i])
			}
		}
		return true
	})
	if problem != "" {
		return problem
	}
	for i, n := range found {
		if n != 1 {
			return fmt.Sprintf("reference V%d to path %q occurs %d times in the output", i, paths[i], n)
		}
	}
	return ""
}

// ---- the gennames tool ------------------------------------------------------------------

// RepoDir is the directory the jennifer module was taken from when this harness was built
// (the replace directive of harness/go.mod, read from the binary's build information).
func RepoDir() string {
	if d := os.Getenv("VERIF_REPO"); d != "" {
		return d
	}
	if bi, ok := debug.ReadBuildInfo(); ok {
		for _, d := range bi.Deps {
			if d.Path == "github.com/dave/jennifer" && d.Replace != nil && d.Replace.Path != "" {
				return d.Replace.Path
			}
		}
	}
	return "/repo"
}

func envWith(kv ...string) []string {
	var out []string
	for _, e := range os.Environ() {
		keep := true
		for _, x := range kv {
			if strings.HasPrefix(e, x[:strings.Index(x, "=")+1]) {
				keep = false
			}
		}
		if keep {
			out = append(out, e)
		}
	}
	return append(out, kv...)
}

// RunGennames builds gennames from repo's working tree, runs `gennames -standard
// -novendor` (which runs `go list` in GOROOT/src: offline) and reads the table it prints.
func RunGennames(repo string) (map[string]string, error) {
	tmp, err := os.MkdirTemp("", "verif-c18-gennames-")
	if err != nil {
		return nil, err
	}
	defer os.RemoveAll(tmp)
	ctx, cancel := context.WithTimeout(context.Background(), 5*time.Minute)
	defer cancel()
	bin := filepath.Join(tmp, "gennames")
	b := exec.CommandContext(ctx, "go", "build", "-o", bin, "./gennames")
	b.Dir = repo
	b.Env = envWith("GOFLAGS=-mod=mod", "GOPROXY=off")
	if out, err := b.CombinedOutput(); err != nil {
		return nil, fmt.Errorf("go build ./gennames in %s: %v: %s", repo, err, truncateStr(string(out), 1000))
	}
	file := filepath.Join(tmp, "names.go")
	run := exec.CommandContext(ctx, bin, "-standard", "-novendor", "-output", file, "-package", "names", "-name", "Table")
	run.Dir = tmp
	run.Env = envWith("GOFLAGS=-mod=mod", "GOPROXY=off")
	var eb bytes.Buffer
	run.Stderr, run.Stdout = &eb, &eb
	if err := run.Run(); err != nil {
		return nil, fmt.Errorf("gennames -standard -novendor: %v: %s", err, truncateStr(eb.String(), 1000))
	}
	src, err := os.ReadFile(file)
	if err != nil {
		return nil, err
	}
	return ParseNameTable(string(src), "Table")
}

func truncateStr(s string, n int) string {
	s = strings.TrimSpace(s)
	if len(s) > n {
		return s[:n] + "..."
	}
	return s
}

// ParseNameTable reads `var <name> = map[string]string{"path": "name", ...}` out of Go source.
func ParseNameTable(src, name string) (map[string]string, error) {
	f, err := parser.ParseFile(token.NewFileSet(), "names.go", src, 0)
	if err != nil {
		return nil, fmt.Errorf("the file printed by gennames does not parse: %v", err)
	}
	for _, d := range f.Decls {
		gd, ok := d.(*ast.GenDecl)
		if !ok || gd.Tok != token.VAR {
			continue
		}
		for _, sp := range gd.Specs {
			vs := sp.(*ast.ValueSpec)
			for i, n := range vs.Names {
				if n.Name != name || len(vs.Values) != len(vs.Names) {
					continue
				}
				lit, ok := vs.Values[i].(*ast.CompositeLit)
				if !ok {
					return nil, fmt.Errorf("var %s is not a composite literal", name)
				}
				out := map[string]string{}
				for _, e := range lit.Elts {
					kv, ok := e.(*ast.KeyValueExpr)
					if !ok {
						return nil, fmt.Errorf("var %s: element is not key: value", name)
					}
					kl, ok1 := kv.Key.(*ast.BasicLit)
					vl, ok2 := kv.Value.(*ast.BasicLit)
					if !ok1 || !ok2 || kl.Kind != token.STRING || vl.Kind != token.STRING {
						return nil, fmt.Errorf("var %s: element is not a pair of string literals", name)
					}
					k, err1 := strconv.Unquote(kl.Value)
					v, err2 := strconv.Unquote(vl.Value)
					if err1 != nil || err2 != nil {
						return nil, fmt.Errorf("var %s: string literal does not unquote", name)
					}
					if _, dup := out[k]; dup {
						return nil, fmt.Errorf("var %s: path %q occurs twice", name, k)
					}
					out[k] = v
				}
				return out, nil
			}
		}
	}
	return nil, fmt.Errorf("var %s not found in the file printed by gennames", name)
}
