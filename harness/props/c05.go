package props

import (
	"fmt"
	"go/token"
	"math/rand"
	"sort"
	"unicode"
	"unicode/utf8"

	"verifharness/hist"
)

// C05: import names are unique and legal for any path, hint and prefix.
type c05 struct{}

func init() { Register(c05{}) }

func (c05) ID() string { return "C05" }

var weirdElems = []string{"123", "9x", "c-d", "C.D", "世界", "é", "KK", "İx", "-", "", "x1", "x", "X", "x_1", "pkg", "a b", "a\tb", "\xff\xfe", "1", "0x10", "x.", ".x", "_", "__", "a$", "İ", "K9", "ǅ", "ß", "ı"}

func (c05) Generate(r *rand.Rand, t string) []*Case {
	var out []*Case
	// exhaustive: every keyword and every universe identifier as last path element, as
	// ImportName hint and as ImportAlias hint, with and without prefix
	var words []string
	for tk := token.Token(0); tk < 200; tk++ {
		if tk.IsKeyword() {
			words = append(words, tk.String())
		}
	}
	for w := range Universe {
		words = append(words, w)
	}
	sort.Strings(words)
	for _, w := range words {
		for role := 0; role < 3; role++ {
			for _, prefix := range []string{"", "pkg"} {
				paths := []string{"a.b/" + w, "x.y/other", "q.r/" + w}
				setup := hist.History{{Kind: "newfile", F: 0, A: "p"}}
				if prefix != "" {
					setup = append(setup, hist.Op{Kind: "prefix", F: 0, A: prefix})
				}
				switch role {
				case 1:
					setup = append(setup, hist.Op{Kind: "importname", F: 0, A: "x.y/other", B: w})
				case 2:
					setup = append(setup, hist.Op{Kind: "importalias", F: 0, A: "x.y/other", B: w})
				}
				rc, h := BuildRefCase(r, paths, setup, "", []int{0, 1, 2, 1, 0}, nil)
				h = append(h, hist.Op{Kind: "render", F: 0}, hist.Op{Kind: "imports", F: 0})
				out = append(out, &Case{Hist: h, Stream: "exhaustive-reserved", NonTrivial: true,
					Meta: map[string]interface{}{"rc": rc}, Tags: []string{fmt.Sprintf("role=%d", role)}})
			}
		}
	}
	// every short string over a representative alphabet as last path element (exhaustive up
	// to length 3, sampled at length 4 in quick and exhaustive in thorough): letters of both
	// cases, digits, underscore, punctuation, multi-byte runes incl. the two whose lower case
	// is ASCII, and a slash; alone and together with a second path with the same element
	alpha := []string{"a", "Z", "0", "9", "_", "-", ".", "\u00e9", "\u0130", "\u212a", "/"}
	var elems []string
	var build func(prefix string, depth int)
	build = func(prefix string, depth int) {
		if prefix != "" {
			elems = append(elems, prefix)
		}
		if depth == 0 {
			return
		}
		for _, a := range alpha {
			build(prefix+a, depth-1)
		}
	}
	build("", 3)
	for _, a := range alpha { // length 4
		for _, e := range elems {
			if len([]rune(e)) == 3 && (t == "thorough" || r.Intn(10) == 0) {
				elems = append(elems, a+e)
			}
		}
	}
	for i, e := range elems {
		paths := []string{"h.io/" + e}
		if i%3 == 0 {
			paths = append(paths, "g.io/x/"+e)
		}
		setup := hist.History{{Kind: "newfile", F: 0, A: "p"}}
		if i%5 == 0 {
			setup = append(setup, hist.Op{Kind: "prefix", F: 0, A: "pkg"})
		}
		refs := []int{0}
		if len(paths) > 1 {
			refs = []int{0, 1, 0}
		}
		rc, h := BuildRefCase(r, paths, setup, "", refs, nil)
		h = append(h, hist.Op{Kind: "noformat", F: 0, Flag: i%2 == 0}, hist.Op{Kind: "render", F: 0}, hist.Op{Kind: "imports", F: 0})
		out = append(out, &Case{Hist: h, Stream: "small-path-elements", NonTrivial: true, Meta: map[string]interface{}{"rc": rc},
			Tags: []string{fmt.Sprintf("elem-len=%d", len([]rune(e)))}})
	}

	out = append(out, c05UnicodeStream(r, t)...)

	// multisets of paths competing for one base name
	n := tier(t, 2000, 300000)
	for i := 0; i < n; i++ {
		base := pick(r, []string{"d", "rand", "fmt", "x", "pkg", "func", "int", "x1", "a1"})
		k := 2 + r.Intn(6)
		if i%20 == 0 {
			k = 10 + r.Intn(20)
		}
		var paths []string
		seen := map[string]bool{}
		for len(paths) < k {
			var p string
			switch r.Intn(6) {
			case 0:
				p = fmt.Sprintf("h%d.io/%s", r.Intn(40), base)
			case 1:
				p = fmt.Sprintf("h%d.io/%s/", r.Intn(40), base)
			case 2:
				p = fmt.Sprintf("h%d.io/%s%d", r.Intn(10), base, r.Intn(4)) // names that look like suffixed candidates
			case 3:
				p = fmt.Sprintf("h%d.io/%s", r.Intn(10), pick(r, weirdElems))
			case 4:
				p = pick(r, PathPool)
			default:
				p = fmt.Sprintf("h%d.io/-%s-", r.Intn(40), base)
			}
			if !seen[p] {
				seen[p] = true
				paths = append(paths, p)
			}
		}
		setup := hist.History{{Kind: "newfile", F: 0, A: "p"}}
		if r.Intn(2) == 0 {
			setup = append(setup, hist.Op{Kind: "prefix", F: 0, A: pick(r, prefixPool)})
		}
		for j := 0; j < r.Intn(3); j++ {
			kind := pick(r, []string{"importname", "importalias"})
			setup = append(setup, hist.Op{Kind: kind, F: 0, A: pick(r, paths), B: pick(r, []string{base, base + "1", "pkg_" + base, "q", "fmt"})})
		}
		var refs []int
		for j := range paths {
			refs = append(refs, j)
		}
		r.Shuffle(len(refs), func(a, b int) { refs[a], refs[b] = refs[b], refs[a] })
		rc, h := BuildRefCase(r, paths, setup, "", refs, nil)
		h = append(h, hist.Op{Kind: "noformat", F: 0, Flag: r.Intn(2) == 0}, hist.Op{Kind: "render", F: 0}, hist.Op{Kind: "imports", F: 0})
		out = append(out, &Case{Hist: h, Stream: "collisions", NonTrivial: true, Meta: map[string]interface{}{"rc": rc},
			Tags: []string{fmt.Sprintf("k=%d", k/5*5)}})
	}
	return out
}

// ---- the alphabet of the last path element --------------------------------------------
//
// Stream "unicode-path-elements": the last element of an import path holds runes outside
// ASCII, of EVERY general category of the installed unicode tables (letters of every case,
// marks, decimal digits Nd, the other numbers Nl / No - which unicode.IsNumber accepts but Go
// identifiers do not -, punctuation, symbols, separators, controls, format and private-use
// characters, unassigned code points) and byte sequences that are not UTF-8 at all (lone
// continuation bytes, truncated sequences, overlong forms, encoded surrogates, values above
// U+10FFFF).  Each such piece is placed as the whole element, as its first rune, in the
// middle, at the end, directly before / after an ASCII digit, doubled, and next to a piece
// of another category; alone, next to a path whose element is the ASCII remainder (so that
// the two compete for one name), with and without PackagePrefix.
//
// The name jennifer guesses keeps ASCII letters and digits only (strings.ToLower, then
// [^a-z0-9] removed); U+0130 and U+212A are the only runes whose lower case is ASCII (checked
// over all of Unicode with the installed tables) and they are exemplars here.  The oracle is
// the one of every C05 stream: the names of the import block are identifiers, not
// predeclared, pairwise distinct, and every reference resolves to its own path.

// c05Exemplars are fixed pieces (the rest is sampled from the category tables).
var c05Exemplars = []struct{ tag, s string }{
	{"Ll", "\u00e9"}, {"Ll", "\u0436"}, {"Lo", "\u4e16"}, {"Lu", "\u0416"}, {"Lu", "\u00c9"}, {"Lt", "\u01c5"}, {"Lm", "\u02b0"},
	{"Nd", "\u0663"}, {"Nd", "\uff11"}, {"Nd", "\U0001d7d8"}, {"No", "\u00b2"}, {"No", "\u00bd"}, {"No", "\u2460"}, {"Nl", "\u2167"}, {"Nl", "\u2177"}, {"Nl", "\u3007"},
	{"Mn", "\u0301"}, {"Mc", "\u0903"}, {"Me", "\u20dd"}, {"Sc", "\u20ac"}, {"So", "\u2122"}, {"Sm", "\u00d7"}, {"Sk", "\u00a8"},
	{"Pc", "\u203f"}, {"Pd", "\u2014"}, {"Po", "\u00b7"}, {"Ps", "\u300c"}, {"Zs", "\u00a0"}, {"Zl", "\u2028"}, {"Cf", "\u200b"}, {"Cf", "\ufeff"},
	{"Cc", "\u0085"}, {"Co", "\ue000"}, {"Cn", "\u0378"}, {"Cn", "\uffff"}, {"Cn", "\U0010ffff"}, {"So", "\ufffd"},
	// lower case is ASCII (i, k); upper case / fold is ASCII (long s -> S, dotless i -> I, Kelvin); sharp s
	{"Lu-lower-ascii", "\u0130"}, {"Lu-lower-ascii", "\u212a"}, {"Ll-upper-ascii", "\u017f"}, {"Ll-upper-ascii", "\u0131"}, {"Lu", "\u1e9e"}, {"Lu", "\u212b"}, {"Mn", "\u0345"},
	// not UTF-8
	{"invalid-utf8", "\xff"}, {"invalid-utf8", "\x80"}, {"invalid-utf8", "\xbf"}, {"invalid-utf8", "\xc3"}, {"invalid-utf8", "\xc0\xaf"}, {"invalid-utf8", "\xe0\x80\xaf"},
	{"invalid-utf8", "\xed\xa0\x80"}, {"invalid-utf8", "\xf4\x90\x80\x80"}, {"invalid-utf8", "\xf8\x88\x80\x80\x80"}, {"invalid-utf8", "\xe2\x84"}, {"invalid-utf8", "\xc4"},
	{"invalid-utf8", "\xe2\x84\xaa\xaa"}, {"invalid-utf8", "\xc4\xc4\xb0"}, {"invalid-utf8", "\xe2\xc4\xb0"}, {"invalid-utf8", "\xb0\xc4"},
}

var c05CatRunes = map[string][]rune{}

// c05Category lists the runes of one general category ("Cn": code points in no table).
func c05Category(name string) []rune {
	if l, ok := c05CatRunes[name]; ok {
		return l
	}
	var out []rune
	if name == "Cn" {
		for r := rune(0x80); r <= unicode.MaxRune; r++ {
			if r >= 0xd800 && r <= 0xdfff {
				continue
			}
			if !unicode.In(r, unicode.L, unicode.M, unicode.N, unicode.P, unicode.S, unicode.Z, unicode.C) {
				out = append(out, r)
			}
		}
	} else {
		tab := unicode.Categories[name]
		for _, r16 := range tab.R16 {
			for c := rune(r16.Lo); c <= rune(r16.Hi); c += rune(r16.Stride) {
				out = append(out, c)
			}
		}
		for _, r32 := range tab.R32 {
			for c := rune(r32.Lo); c <= rune(r32.Hi); c += rune(r32.Stride) {
				out = append(out, c)
			}
		}
	}
	var keep []rune
	for _, c := range out {
		if c >= 0x80 && utf8.ValidRune(c) {
			keep = append(keep, c)
		}
	}
	c05CatRunes[name] = keep
	return keep
}

// c05Categories: the two-letter general categories of the installed tables (Cs cannot be
// encoded: surrogates appear as invalid byte sequences) and Cn.
func c05Categories() []string {
	var out []string
	for k := range unicode.Categories {
		if len(k) == 2 && k != "Cs" {
			out = append(out, k)
		}
	}
	out = append(out, "Cn")
	sort.Strings(out)
	return out
}

// c05Place puts piece x at position pos of an element; other is a piece of another category.
func c05Place(pos int, x, other string) (elem, tag string) {
	switch pos {
	case 0:
		return x, "whole"
	case 1:
		return x + "ab", "first"
	case 2:
		return "a" + x + "b", "middle"
	case 3:
		return "ab" + x, "last"
	case 4:
		return x + "9ab", "before-digit" // symbol-then-digit shapes: the digit run is dropped after the rune is
	case 5:
		return "9" + x + "ab", "after-digit"
	case 6:
		return x + x + "Ab" + x, "repeated"
	case 7:
		return x + other + "ab", "two-categories"
	case 8:
		return "a" + other + x, "two-categories"
	default:
		return x + "9", "only-digits-left" // nothing (or only digits) is left: "pkg"
	}
}

const c05Positions = 10

func c05UnicodeCase(r *rand.Rand, i int, cat, x, other string, pos int) *Case {
	elem, ptag := c05Place(pos, x, other)
	paths := []string{"h.io/" + elem}
	refs := []int{0}
	switch i % 4 {
	case 1: // the same element under another host
		paths = append(paths, "g.io/x/"+elem)
		refs = []int{0, 1, 0}
	case 2: // the ASCII remainder as an element of its own (ab, 9ab, pkg): competes for the guessed name
		paths = append(paths, "g.io/ab", "g.io/x/9ab", "f.io/pkg")
		refs = []int{1, 0, 2, 3}
		if i%8 == 2 {
			refs = []int{0, 3, 2, 1}
		}
	case 3: // trailing slash
		paths[0] += "/"
	}
	setup := hist.History{{Kind: "newfile", F: 0, A: "p"}}
	prefix := i%5 == 0
	if prefix {
		setup = append(setup, hist.Op{Kind: "prefix", F: 0, A: "pkg"})
	}
	rc, h := BuildRefCase(r, paths, setup, "", refs, nil)
	h = append(h, hist.Op{Kind: "noformat", F: 0, Flag: i%3 == 0}, hist.Op{Kind: "render", F: 0}, hist.Op{Kind: "imports", F: 0})
	tags := []string{"cat=" + cat, "pos=" + ptag, fmt.Sprintf("paths=%d", len(paths)), fmt.Sprintf("prefix=%v", prefix)}
	if !utf8.ValidString(elem) {
		tags = append(tags, "elem-not-utf8")
	}
	return &Case{Hist: h, Stream: "unicode-path-elements", NonTrivial: true, Meta: map[string]interface{}{"rc": rc}, Tags: tags}
}

func c05UnicodeStream(r *rand.Rand, t string) []*Case {
	var out []*Case
	cats := c05Categories()
	i := 0
	add := func(cat, x string, positions int) {
		// a piece of another category for the mixed positions
		oc := cats[r.Intn(len(cats))]
		ol := c05Category(oc)
		other := string(ol[r.Intn(len(ol))])
		if r.Intn(4) == 0 {
			other = c05Exemplars[r.Intn(len(c05Exemplars))].s
		}
		if positions >= c05Positions {
			for pos := 0; pos < c05Positions; pos++ {
				out = append(out, c05UnicodeCase(r, i, cat, x, other, pos))
				i++
			}
			return
		}
		for k := 0; k < positions; k++ {
			out = append(out, c05UnicodeCase(r, i, cat, x, other, r.Intn(c05Positions)))
			i++
		}
	}
	// every exemplar at every position
	for _, e := range c05Exemplars {
		add(e.tag, e.s, c05Positions)
	}
	// sampled runes of every category: quick 6 runes x 3 positions, thorough 200 runes (or the
	// whole category) x every position; the number categories completely in the thorough tier
	for _, cat := range cats {
		l := c05Category(cat)
		if len(l) == 0 {
			continue
		}
		n, positions := tier(t, 6, 200), tier(t, 3, c05Positions)
		whole := t == "thorough" && (cat[0] == 'N' || len(l) <= n)
		if whole {
			for _, c := range l {
				add(cat, string(c), 2)
			}
			continue
		}
		for k := 0; k < n; k++ {
			add(cat, string(l[r.Intn(len(l))]), positions)
		}
	}
	// random byte strings (mostly not UTF-8) and random code points of the whole range
	for k := tier(t, 60, 20000); k > 0; k-- {
		if k%2 == 0 {
			b := make([]byte, 1+r.Intn(4))
			for j := range b {
				b[j] = byte(0x80 + r.Intn(0x80))
			}
			add("random-bytes", string(b), 1)
		} else {
			c := rune(0x80 + r.Intn(unicode.MaxRune-0x80))
			if c >= 0xd800 && c <= 0xdfff {
				c = 0xfffd
			}
			add("random-rune", string(c), 1)
		}
	}
	return out
}

func (c05) Regressions() []*Case {
	r := rand.New(rand.NewSource(5))
	mk := func(name string, paths []string, setup hist.History, refs []int) *Case {
		rc, h := BuildRefCase(r, paths, setup, "", refs, nil)
		h = append(h, hist.Op{Kind: "render", F: 0}, hist.Op{Kind: "imports", F: 0})
		return &Case{Name: name, Hist: h, Stream: "regression", NonTrivial: true, Meta: map[string]interface{}{"rc": rc}}
	}
	return []*Case{
		mk("reserved-any-comparable", []string{"x.y/any", "x.y/comparable"}, hist.History{{Kind: "newfile", F: 0, A: "p"}}, []int{0, 1}),
		mk("prefix-duplicate-names", []string{"a.b/d", "c.b/d"}, hist.History{{Kind: "newfile", F: 0, A: "p"}, {Kind: "prefix", F: 0, A: "pkg"}}, []int{0, 1}),
		mk("hint-named-C", []string{"x.y/z", "C"}, hist.History{{Kind: "newfile", F: 0, A: "p"}, {Kind: "importname", F: 0, A: "x.y/z", B: "C"}}, []int{0, 1}),
	}
}

func (c05) Compare(c *Case, exp, got []hist.Obs) string { return CompareAll(exp, got) }
func (c05) Oracle(c *Case, got []hist.Obs) string       { return refOracle(c, got) }
