package props

import (
	"fmt"
	"go/token"
	"math/rand"
	"sort"

	"verifharness/hist"
)

// C05: import names are unique and legal for any path, hint and prefix.
type c05 struct{}

func init() { Register(c05{}) }

func (c05) ID() string { return "C05" }

var weirdElems = []string{"123", "9x", "c-d", "C.D", "世界", "é", "KK", "İx", "-", "", "x1", "x", "X", "x_1", "pkg", "a b", "a\tb", "\xff\xfe", "1", "0x10", "x.", ".x", "_", "__", "a$", "İ", "K9", "ǅ", "ß", "ı"}

func (c05) Generate(r *rand.Rand, t string) []*Case {
	var out []*Case
	// exhaustive: every keyword and every universe identifier as last path element, as
	// ImportName hint and as ImportAlias hint, with and without prefix
	var words []string
	for tk := token.Token(0); tk < 200; tk++ {
		if tk.IsKeyword() {
			words = append(words, tk.String())
		}
	}
	for w := range Universe {
		words = append(words, w)
	}
	sort.Strings(words)
	for _, w := range words {
		for role := 0; role < 3; role++ {
			for _, prefix := range []string{"", "pkg"} {
				paths := []string{"a.b/" + w, "x.y/other", "q.r/" + w}
				setup := hist.History{{Kind: "newfile", F: 0, A: "p"}}
				if prefix != "" {
					setup = append(setup, hist.Op{Kind: "prefix", F: 0, A: prefix})
				}
				switch role {
				case 1:
					setup = append(setup, hist.Op{Kind: "importname", F: 0, A: "x.y/other", B: w})
				case 2:
					setup = append(setup, hist.Op{Kind: "importalias", F: 0, A: "x.y/other", B: w})
				}
				rc, h := BuildRefCase(r, paths, setup, "", []int{0, 1, 2, 1, 0}, nil)
				h = append(h, hist.Op{Kind: "render", F: 0}, hist.Op{Kind: "imports", F: 0})
				out = append(out, &Case{Hist: h, Stream: "exhaustive-reserved", NonTrivial: true,
					Meta: map[string]interface{}{"rc": rc}, Tags: []string{fmt.Sprintf("role=%d", role)}})
			}
		}
	}
	// every short string over a representative alphabet as last path element (exhaustive up
	// to length 3, sampled at length 4 in quick and exhaustive in thorough): letters of both
	// cases, digits, underscore, punctuation, multi-byte runes incl. the two whose lower case
	// is ASCII, and a slash; alone and together with a second path with the same element
	alpha := []string{"a", "Z", "0", "9", "_", "-", ".", "\u00e9", "\u0130", "\u212a", "/"}
	var elems []string
	var build func(prefix string, depth int)
	build = func(prefix string, depth int) {
		if prefix != "" {
			elems = append(elems, prefix)
		}
		if depth == 0 {
			return
		}
		for _, a := range alpha {
			build(prefix+a, depth-1)
		}
	}
	build("", 3)
	for _, a := range alpha { // length 4
		for _, e := range elems {
			if len([]rune(e)) == 3 && (t == "thorough" || r.Intn(10) == 0) {
				elems = append(elems, a+e)
			}
		}
	}
	for i, e := range elems {
		paths := []string{"h.io/" + e}
		if i%3 == 0 {
			paths = append(paths, "g.io/x/"+e)
		}
		setup := hist.History{{Kind: "newfile", F: 0, A: "p"}}
		if i%5 == 0 {
			setup = append(setup, hist.Op{Kind: "prefix", F: 0, A: "pkg"})
		}
		refs := []int{0}
		if len(paths) > 1 {
			refs = []int{0, 1, 0}
		}
		rc, h := BuildRefCase(r, paths, setup, "", refs, nil)
		h = append(h, hist.Op{Kind: "noformat", F: 0, Flag: i%2 == 0}, hist.Op{Kind: "render", F: 0}, hist.Op{Kind: "imports", F: 0})
		out = append(out, &Case{Hist: h, Stream: "small-path-elements", NonTrivial: true, Meta: map[string]interface{}{"rc": rc},
			Tags: []string{fmt.Sprintf("elem-len=%d", len([]rune(e)))}})
	}

	// multisets of paths competing for one base name
	n := tier(t, 2000, 300000)
	for i := 0; i < n; i++ {
		base := pick(r, []string{"d", "rand", "fmt", "x", "pkg", "func", "int", "x1", "a1"})
		k := 2 + r.Intn(6)
		if i%20 == 0 {
			k = 10 + r.Intn(20)
		}
		var paths []string
		seen := map[string]bool{}
		for len(paths) < k {
			var p string
			switch r.Intn(6) {
			case 0:
				p = fmt.Sprintf("h%d.io/%s", r.Intn(40), base)
			case 1:
				p = fmt.Sprintf("h%d.io/%s/", r.Intn(40), base)
			case 2:
				p = fmt.Sprintf("h%d.io/%s%d", r.Intn(10), base, r.Intn(4)) // names that look like suffixed candidates
			case 3:
				p = fmt.Sprintf("h%d.io/%s", r.Intn(10), pick(r, weirdElems))
			case 4:
				p = pick(r, PathPool)
			default:
				p = fmt.Sprintf("h%d.io/-%s-", r.Intn(40), base)
			}
			if !seen[p] {
				seen[p] = true
				paths = append(paths, p)
			}
		}
		setup := hist.History{{Kind: "newfile", F: 0, A: "p"}}
		if r.Intn(2) == 0 {
			setup = append(setup, hist.Op{Kind: "prefix", F: 0, A: pick(r, prefixPool)})
		}
		for j := 0; j < r.Intn(3); j++ {
			kind := pick(r, []string{"importname", "importalias"})
			setup = append(setup, hist.Op{Kind: kind, F: 0, A: pick(r, paths), B: pick(r, []string{base, base + "1", "pkg_" + base, "q", "fmt"})})
		}
		var refs []int
		for j := range paths {
			refs = append(refs, j)
		}
		r.Shuffle(len(refs), func(a, b int) { refs[a], refs[b] = refs[b], refs[a] })
		rc, h := BuildRefCase(r, paths, setup, "", refs, nil)
		h = append(h, hist.Op{Kind: "noformat", F: 0, Flag: r.Intn(2) == 0}, hist.Op{Kind: "render", F: 0}, hist.Op{Kind: "imports", F: 0})
		out = append(out, &Case{Hist: h, Stream: "collisions", NonTrivial: true, Meta: map[string]interface{}{"rc": rc},
			Tags: []string{fmt.Sprintf("k=%d", k/5*5)}})
	}
	return out
}

func (c05) Regressions() []*Case {
	r := rand.New(rand.NewSource(5))
	mk := func(name string, paths []string, setup hist.History, refs []int) *Case {
		rc, h := BuildRefCase(r, paths, setup, "", refs, nil)
		h = append(h, hist.Op{Kind: "render", F: 0}, hist.Op{Kind: "imports", F: 0})
		return &Case{Name: name, Hist: h, Stream: "regression", NonTrivial: true, Meta: map[string]interface{}{"rc": rc}}
	}
	return []*Case{
		mk("reserved-any-comparable", []string{"x.y/any", "x.y/comparable"}, hist.History{{Kind: "newfile", F: 0, A: "p"}}, []int{0, 1}),
		mk("prefix-duplicate-names", []string{"a.b/d", "c.b/d"}, hist.History{{Kind: "newfile", F: 0, A: "p"}, {Kind: "prefix", F: 0, A: "pkg"}}, []int{0, 1}),
		mk("hint-named-C", []string{"x.y/z", "C"}, hist.History{{Kind: "newfile", F: 0, A: "p"}, {Kind: "importname", F: 0, A: "x.y/z", B: "C"}}, []int{0, 1}),
	}
}

func (c05) Compare(c *Case, exp, got []hist.Obs) string { return CompareAll(exp, got) }
func (c05) Oracle(c *Case, got []hist.Obs) string       { return refOracle(c, got) }
