package props

import (
	"context"
	"errors"
	"fmt"
	"os"
	"os/exec"
	"path/filepath"
	"runtime"
	"strings"
	"sync"
	"time"

	"verifharness/hist"
)

// The data-race half of C09.  The harness itself is built without the race detector, so
// once per invocation it builds harness/racejob with `go build -race -tags verif` (cgo and
// gcc are needed for -race; the build cache makes every build after the first one fast),
// and runs it twice under GORACE="halt_on_error=1 exitcode=66":
//   - `racejob -control`: a deliberate unsynchronised write shared by the job goroutines;
//     the detector must fire (positive control: shows that the binary really is
//     instrumented and that a report really reaches the oracle);
//   - `racejob -seed S -tier T`: regenerates the job sets of this run (same seed, same
//     generator: the digest of the histories is checked), runs every job set with one
//     goroutine and one World per job and exits 66 with the report on the first race.
// The result is stored in the Meta of one dedicated case (Stream "race") whose oracle
// decides on it.  VERIF_RACEJOB=<binary> skips the build (a prebuilt -race binary);
// VERIF_HARNESS_DIR overrides where the sources of the harness module are looked for.
// If the binary cannot be built (no gcc, no cgo) the case falls back to many more goroutine
// runs without the detector, is tagged race-detector=UNAVAILABLE and is not NonTrivial;
// VERIF_C09_REQUIRE_RACE=1 makes that a failure instead.

// C09RaceResult is what the race-detector run showed.
type C09RaceResult struct {
	Built       bool
	BuildErr    string
	BuildS      float64
	ControlExit int
	ControlOut  string
	Exit        int
	Out         string
	RunS        float64
	WantDigest  string
}

const c09RaceExit = 66

var c09RaceOnce sync.Once
var c09RaceRes *C09RaceResult

func c09HarnessDir() string {
	var cands []string
	if d := os.Getenv("VERIF_HARNESS_DIR"); d != "" {
		cands = append(cands, d)
	}
	if exe, err := os.Executable(); err == nil {
		cands = append(cands, filepath.Join(filepath.Dir(exe), "..", "harness"))
	}
	if _, file, _, ok := runtime.Caller(0); ok {
		cands = append(cands, filepath.Dir(filepath.Dir(file)))
	}
	cands = append(cands, "/verif/harness")
	for _, d := range cands {
		if _, err := os.Stat(filepath.Join(d, "racejob", "main.go")); err == nil {
			return d
		}
	}
	return "/verif/harness"
}

func c09Env(extra ...string) []string {
	drop := map[string]bool{}
	for _, e := range extra {
		drop[e[:strings.Index(e, "=")+1]] = true
	}
	var env []string
	for _, e := range os.Environ() {
		i := strings.Index(e, "=")
		if i < 0 || !drop[e[:i+1]] {
			env = append(env, e)
		}
	}
	return append(env, extra...)
}

func c09RunCmd(timeout time.Duration, dir string, env []string, name string, args ...string) (int, string) {
	ctx, cancel := context.WithTimeout(context.Background(), timeout)
	defer cancel()
	cmd := exec.CommandContext(ctx, name, args...)
	cmd.Dir = dir
	cmd.Env = env
	out, err := cmd.CombinedOutput()
	if err == nil {
		return 0, string(out)
	}
	var ee *exec.ExitError
	if errors.As(err, &ee) && ctx.Err() == nil {
		return ee.ExitCode(), string(out)
	}
	return -1, string(out) + "\n" + err.Error()
}

// c09BuildArgs: the race build; VERIF_MODFILE (set by ./check when the repository under test
// is not /repo) selects an alternative go.mod whose replace directive points there.
func c09BuildArgs(bin string) []string {
	args := []string{"build", "-race", "-tags", "verif"}
	if mf := os.Getenv("VERIF_MODFILE"); mf != "" {
		args = append(args, "-modfile="+mf)
	}
	return append(args, "-o", bin, "./racejob")
}

// c09RaceRun builds racejob (unless VERIF_RACEJOB names one) and runs control + job sets.
func c09RaceRun(seed int64, t string, digest string) *C09RaceResult {
	res := &C09RaceResult{WantDigest: digest}
	bin := os.Getenv("VERIF_RACEJOB")
	if bin == "" {
		tmp, err := os.MkdirTemp("", "verif-c09-race-")
		if err != nil {
			res.BuildErr = err.Error()
			return res
		}
		defer os.RemoveAll(tmp)
		bin = filepath.Join(tmp, "racejob")
		start := time.Now()
		code, out := c09RunCmd(15*time.Minute, c09HarnessDir(),
			c09Env("CGO_ENABLED=1", "GOFLAGS=-mod=mod", "GOPROXY=off", "GOSUMDB=off", "GOTOOLCHAIN=local"),
			"go", c09BuildArgs(bin)...)
		res.BuildS = time.Since(start).Seconds()
		if code != 0 {
			res.BuildErr = fmt.Sprintf("go build -race failed (exit %d): %s", code, out)
			return res
		}
	}
	res.Built = true
	env := c09Env("GORACE=halt_on_error=1 exitcode=" + fmt.Sprint(c09RaceExit))
	res.ControlExit, res.ControlOut = c09RunCmd(5*time.Minute, "", env, bin, "-control")
	start := time.Now()
	res.Exit, res.Out = c09RunCmd(60*time.Minute, "", env, bin, "-seed", fmt.Sprint(seed), "-tier", t, "-digest", digest)
	res.RunS = time.Since(start).Seconds()
	return res
}

// c09RaceCase: the dedicated case.  Its history is the first job set (so that the model and
// the in-process oracle have something to say about it too); the race run covers ALL job
// sets of the invocation.  NonTrivial = the detector really ran and its positive control
// fired.
func c09RaceCase(seed int64, t string, sets []*Case) *Case {
	c09RaceOnce.Do(func() { c09RaceRes = c09RaceRun(seed, t, C09Digest(sets)) })
	res := c09RaceRes
	tag := "race-detector=on"
	if !res.Built {
		tag = "race-detector=UNAVAILABLE(fallback: repeated goroutine runs without -race)"
		fmt.Fprintln(os.Stderr, "C09: cannot build the race-detector binary, falling back:", res.BuildErr)
	}
	var h hist.History
	if len(sets) > 0 {
		h = sets[0].Hist
	}
	return &Case{Hist: h, Stream: "race", NonTrivial: res.Built && res.ControlExit == c09RaceExit,
		Tags: []string{tag, fmt.Sprintf("race-jobsets=%d", len(sets))},
		Meta: map[string]interface{}{"race": res, "sets": sets, "seed": seed, "tier": t}}
}

func c09Head(s string, lines int) string {
	ls := strings.Split(strings.TrimSpace(s), "\n")
	if len(ls) > lines {
		ls = append(ls[:lines], "...")
	}
	return strings.Join(ls, "\n")
}

// c09RaceOracle fails if the race detector reported a race while the job sets ran
// concurrently (first lines of the report quoted), if the outputs under the detector
// differed from the jobs run alone, or if the run proves nothing (control silent, other
// job sets).
func c09RaceOracle(c *Case) string {
	res, _ := c.Meta["race"].(*C09RaceResult)
	if res == nil {
		return "no race-detector result"
	}
	if !res.Built {
		if os.Getenv("VERIF_C09_REQUIRE_RACE") == "1" {
			return "the race-detector binary cannot be built: " + c09Head(res.BuildErr, 20)
		}
		return c09RaceFallback(c)
	}
	if res.ControlExit != c09RaceExit || !strings.Contains(res.ControlOut, "DATA RACE") {
		return fmt.Sprintf("positive control: the race detector did not report the deliberate race (exit %d):\n%s", res.ControlExit, c09Head(res.ControlOut, 12))
	}
	if res.Exit == c09RaceExit || strings.Contains(res.Out, "WARNING: DATA RACE") {
		out := res.Out
		if i := strings.Index(out, "WARNING: DATA RACE"); i >= 0 {
			out = out[i:]
		}
		return "the race detector reports a data race between independent build+render jobs:\n" + c09Head(out, 30)
	}
	if res.Exit != 0 {
		return fmt.Sprintf("racejob failed (exit %d):\n%s", res.Exit, c09Head(res.Out, 30))
	}
	if !strings.Contains(res.Out, "digest "+res.WantDigest) {
		return "racejob did not run the job sets of this invocation:\n" + c09Head(res.Out, 5)
	}
	return ""
}

// c09RaceFallback (no -race available): every job set 24 more times on goroutines, under
// GOMAXPROCS 1..16, compared with the jobs run alone.  Weaker: finds only races that
// corrupt an output.
func c09RaceFallback(c *Case) string {
	sets, _ := c.Meta["sets"].([]*Case)
	for si, s := range sets {
		if d := C09ConcurrentCheck(s.Hist, 24); d != "" {
			return fmt.Sprintf("job set %d: %s", si, d)
		}
	}
	return ""
}

// C09ConcurrentCheck runs the jobs of h alone, then reps times concurrently (GOMAXPROCS
// cycling through 1..16), and compares.
func C09ConcurrentCheck(h hist.History, reps int) string {
	files, jobs := C09Jobs(h)
	alone := map[int][]hist.Obs{}
	for _, f := range files {
		alone[f] = c09ExecSafe(jobs[f])
	}
	for i := 0; i < reps; i++ {
		procs := 1 + (i*5)%16
		per := C09RunConcurrent(files, jobs, procs)
		for _, f := range files {
			if d := c09SameJob(alone[f], per[f]); d != "" {
				return fmt.Sprintf("file %d differs between the job run alone and goroutine run #%d (GOMAXPROCS %d): %s", f, i+1, procs, d)
			}
		}
	}
	return ""
}
