package props

import (
	"context"
	"errors"
	"fmt"
	"os"
	"os/exec"
	"path/filepath"
	"runtime"
	"strings"
	"sync"
	"time"

	"verifharness/hist"
)

// The data-race half of C09.  The harness itself is built without the race detector, so
// once per invocation it builds harness/racejob with `go build -race -tags verif` (cgo and
// gcc are needed for -race; the build cache makes every build after the first one fast),
// and runs it twice under GORACE="halt_on_error=1 exitcode=66":
//   - `racejob -control`: a deliberate unsynchronised write shared by the job goroutines;
//     the detector must fire (positive control: shows that the binary really is
//     instrumented and that a report really reaches the oracle);
//   - `racejob -seed S -tier T`: regenerates the job sets of this run (same seed, same
//     generator: the digest of the histories is checked), runs every job set with one
//     goroutine and one World per job and exits 66 with the report on the first race.
//   - `racefirst` (harness/racefirst, imports only package jen): FIRST-USE initialisation.
//     racejob imports package props (whose init functions already render Files) and runs a
//     sequential reference first, so anything jennifer builds lazily on first use is complete
//     before its goroutines start.  racefirst is a second binary built the same way in which
//     the very first use of the library in the process is made by 16 goroutines behind a
//     barrier (each building and rendering a File of its own through every code path that
//     could initialise something lazily) and the expected outputs are computed only
//     afterwards; it is run in 5 (thorough 25) fresh processes under GOMAXPROCS 2..16, after
//     its own positive control (`racefirst -control`: a lazily built map of the program).
// The result is stored in the Meta of one dedicated case (Stream "race") whose oracle
// decides on it.  VERIF_RACEFIRST=<binary> is to racefirst what VERIF_RACEJOB is to racejob.  VERIF_RACEJOB=<binary> skips the build (a prebuilt -race binary);
// VERIF_HARNESS_DIR overrides where the sources of the harness module are looked for.
// If the binary cannot be built (no gcc, no cgo) the case falls back to many more goroutine
// runs without the detector, is tagged race-detector=UNAVAILABLE and is not NonTrivial;
// VERIF_C09_REQUIRE_RACE=1 makes that a failure instead.

// C09RaceResult is what the race-detector run showed.
type C09RaceResult struct {
	Built       bool
	BuildErr    string
	BuildS      float64
	ControlExit int
	ControlOut  string
	Exit        int
	Out         string
	RunS        float64
	WantDigest  string
	// first-use runs (racefirst); FirstWanted = 0: not attempted (hand-made results)
	FirstWanted      int
	FirstBuildErr    string
	FirstControlExit int
	FirstControlOut  string
	First            []C09FirstRun
	FirstS           float64
}

// C09FirstRun is one fresh process of racefirst.
type C09FirstRun struct {
	Procs int
	Exit  int
	Out   string
}

const c09RaceExit = 66

var c09RaceOnce sync.Once
var c09RaceRes *C09RaceResult

func c09HarnessDir() string {
	var cands []string
	if d := os.Getenv("VERIF_HARNESS_DIR"); d != "" {
		cands = append(cands, d)
	}
	if exe, err := os.Executable(); err == nil {
		cands = append(cands, filepath.Join(filepath.Dir(exe), "..", "harness"))
	}
	if _, file, _, ok := runtime.Caller(0); ok {
		cands = append(cands, filepath.Dir(filepath.Dir(file)))
	}
	cands = append(cands, "/verif/harness")
	for _, d := range cands {
		if _, err := os.Stat(filepath.Join(d, "racejob", "main.go")); err == nil {
			return d
		}
	}
	return "/verif/harness"
}

func c09Env(extra ...string) []string {
	drop := map[string]bool{}
	for _, e := range extra {
		drop[e[:strings.Index(e, "=")+1]] = true
	}
	var env []string
	for _, e := range os.Environ() {
		i := strings.Index(e, "=")
		if i < 0 || !drop[e[:i+1]] {
			env = append(env, e)
		}
	}
	return append(env, extra...)
}

func c09RunCmd(timeout time.Duration, dir string, env []string, name string, args ...string) (int, string) {
	ctx, cancel := context.WithTimeout(context.Background(), timeout)
	defer cancel()
	cmd := exec.CommandContext(ctx, name, args...)
	cmd.Dir = dir
	cmd.Env = env
	out, err := cmd.CombinedOutput()
	if err == nil {
		return 0, string(out)
	}
	var ee *exec.ExitError
	if errors.As(err, &ee) && ctx.Err() == nil {
		return ee.ExitCode(), string(out)
	}
	return -1, string(out) + "\n" + err.Error()
}

// c09BuildArgs: the race build; VERIF_MODFILE (set by ./check when the repository under test
// is not /repo) selects an alternative go.mod whose replace directive points there.
func c09BuildArgs(bin string) []string { return c09BuildArgsOf(bin, "./racejob") }

func c09BuildArgsOf(bin, pkg string) []string {
	args := []string{"build", "-race", "-tags", "verif"}
	if mf := os.Getenv("VERIF_MODFILE"); mf != "" {
		args = append(args, "-modfile="+mf)
	}
	return append(args, "-o", bin, pkg)
}

// c09FirstProcs: GOMAXPROCS of the i-th racefirst process (2..16; with 1 the goroutines run
// one after the other and the detector's bounded per-address history usually has lost the
// initialising write by the time the next goroutine reads).
func c09FirstProcs(i int) int {
	return []int{2, 16, 4, 8, 3, 11, 6, 13, 5, 9, 16, 2, 7, 12, 10, 14, 15}[i%17]
}

// c09FirstRuns builds racefirst next to racejob (same build) and runs control + n fresh
// processes, four at a time.
func c09FirstRuns(res *C09RaceResult, tmp string, n int) {
	res.FirstWanted = n
	start := time.Now()
	defer func() { res.FirstS = time.Since(start).Seconds() }()
	bin := os.Getenv("VERIF_RACEFIRST")
	if bin == "" {
		if _, err := os.Stat(filepath.Join(c09HarnessDir(), "racefirst", "main.go")); err != nil {
			res.FirstBuildErr = "harness/racefirst not found: " + err.Error()
			return
		}
		bin = filepath.Join(tmp, "racefirst")
		code, out := c09RunCmd(15*time.Minute, c09HarnessDir(),
			c09Env("CGO_ENABLED=1", "GOFLAGS=-mod=mod", "GOPROXY=off", "GOSUMDB=off", "GOTOOLCHAIN=local"),
			"go", c09BuildArgsOf(bin, "./racefirst")...)
		if code != 0 {
			res.FirstBuildErr = fmt.Sprintf("go build -race ./racefirst failed (exit %d): %s", code, out)
			return
		}
	}
	env := c09Env(c09Gorace())
	res.FirstControlExit, res.FirstControlOut = c09RunCmd(5*time.Minute, "", env, bin, "-control", "-procs", "4")
	res.First = make([]C09FirstRun, n)
	var wg sync.WaitGroup
	sem := make(chan struct{}, 4)
	for i := 0; i < n; i++ {
		wg.Add(1)
		go func(i int) {
			defer wg.Done()
			sem <- struct{}{}
			defer func() { <-sem }()
			p := c09FirstProcs(i)
			code, out := c09RunCmd(10*time.Minute, "", env, bin, "-procs", fmt.Sprint(p))
			res.First[i] = C09FirstRun{Procs: p, Exit: code, Out: out}
		}(i)
	}
	wg.Wait()
}

// c09Gorace: exit 66 with the report on the first race; no sleep at exit (both binaries have
// joined all their goroutines when they exit).
func c09Gorace() string {
	return "GORACE=halt_on_error=1 atexit_sleep_ms=0 exitcode=" + fmt.Sprint(c09RaceExit)
}

// c09RaceRun builds racejob (unless VERIF_RACEJOB names one) and runs control + job sets.
func c09RaceRun(seed int64, t string, digest string) *C09RaceResult {
	res := &C09RaceResult{WantDigest: digest}
	bin := os.Getenv("VERIF_RACEJOB")
	tmp, err := os.MkdirTemp("", "verif-c09-race-")
	if err != nil {
		res.BuildErr = err.Error()
		return res
	}
	defer os.RemoveAll(tmp)
	if bin == "" {
		bin = filepath.Join(tmp, "racejob")
		start := time.Now()
		code, out := c09RunCmd(15*time.Minute, c09HarnessDir(),
			c09Env("CGO_ENABLED=1", "GOFLAGS=-mod=mod", "GOPROXY=off", "GOSUMDB=off", "GOTOOLCHAIN=local"),
			"go", c09BuildArgs(bin)...)
		res.BuildS = time.Since(start).Seconds()
		if code != 0 {
			res.BuildErr = fmt.Sprintf("go build -race failed (exit %d): %s", code, out)
			return res
		}
	}
	res.Built = true
	env := c09Env(c09Gorace())
	res.ControlExit, res.ControlOut = c09RunCmd(5*time.Minute, "", env, bin, "-control")
	start := time.Now()
	res.Exit, res.Out = c09RunCmd(60*time.Minute, "", env, bin, "-seed", fmt.Sprint(seed), "-tier", t, "-digest", digest)
	res.RunS = time.Since(start).Seconds()
	c09FirstRuns(res, tmp, tier(t, 5, 25))
	return res
}

// c09RaceCase: the dedicated case.  Its history is the first job set (so that the model and
// the in-process oracle have something to say about it too); the race run covers ALL job
// sets of the invocation.  NonTrivial = the detector really ran and its positive control
// fired.
func c09RaceCase(seed int64, t string, sets []*Case) *Case {
	var h hist.History
	if len(sets) > 0 {
		h = sets[0].Hist
	}
	// The race run (it builds and runs child processes that execute ALL job sets) is taken when
	// the case is judged, not while the cases are generated (c09Lazy): an implementation that
	// blocks is then met by the cases of the main loop first, under the per-case hang guard.
	c := &Case{Hist: h, Stream: "race", Tags: []string{fmt.Sprintf("race-jobsets=%d", len(sets))},
		Meta: map[string]interface{}{"sets": sets, "seed": seed, "tier": t}}
	return c09Lazy(c, func(c *Case) {
		c09RaceOnce.Do(func() { c09RaceRes = c09RaceRun(seed, t, C09Digest(sets)) })
		res := c09RaceRes
		tag := "race-detector=on"
		if !res.Built {
			tag = "race-detector=UNAVAILABLE(fallback: repeated goroutine runs without -race)"
			fmt.Fprintln(os.Stderr, "C09: cannot build the race-detector binary, falling back:", res.BuildErr)
		}
		c.Tags = append(c.Tags, tag)
		if res.Built {
			if res.FirstBuildErr == "" && res.FirstControlExit == c09RaceExit {
				c.Tags = append(c.Tags, fmt.Sprintf("race-first-use-processes=%d", len(res.First)))
			} else {
				c.Tags = append(c.Tags, "race-first-use=UNAVAILABLE")
			}
		}
		c.NonTrivial = res.Built && res.ControlExit == c09RaceExit
		c.Meta["race"] = res
	})
}

func c09Head(s string, lines int) string {
	ls := strings.Split(strings.TrimSpace(s), "\n")
	if len(ls) > lines {
		ls = append(ls[:lines], "...")
	}
	return strings.Join(ls, "\n")
}

// c09Report condenses a race report: of every section (the two conflicting accesses, the
// goroutine creations) the heading and the first frames innermost stack frames.
func c09Report(s string, frames int) string {
	var out []string
	left := 0
	for _, l := range strings.Split(strings.TrimSpace(s), "\n") {
		switch {
		case strings.HasPrefix(l, "=================="):
			if len(out) > 0 {
				return strings.Join(out, "\n")
			}
		case l != "" && !strings.HasPrefix(l, " "):
			out = append(out, l)
			left = 2 * frames // function line + file line
		case left > 0 && l != "":
			out = append(out, l)
			left--
			if left == 0 {
				out = append(out, "  ...")
			}
		}
		if len(out) > 80 {
			break
		}
	}
	return strings.Join(out, "\n")
}

// c09RaceOracle fails if the race detector reported a race while the job sets ran
// concurrently (first lines of the report quoted), if the outputs under the detector
// differed from the jobs run alone, or if the run proves nothing (control silent, other
// job sets).
func c09RaceOracle(c *Case) string {
	res, _ := c.Meta["race"].(*C09RaceResult)
	if res == nil {
		return "no race-detector result"
	}
	if !res.Built {
		if os.Getenv("VERIF_C09_REQUIRE_RACE") == "1" {
			return "the race-detector binary cannot be built: " + c09Head(res.BuildErr, 20)
		}
		return c09RaceFallback(c)
	}
	if res.ControlExit != c09RaceExit || !strings.Contains(res.ControlOut, "DATA RACE") {
		return fmt.Sprintf("positive control: the race detector did not report the deliberate race (exit %d):\n%s", res.ControlExit, c09Head(res.ControlOut, 12))
	}
	if res.Exit == c09RaceExit || strings.Contains(res.Out, "WARNING: DATA RACE") {
		out := res.Out
		if i := strings.Index(out, "WARNING: DATA RACE"); i >= 0 {
			out = out[i:]
		}
		return "the race detector reports a data race between independent build+render jobs:\n" + c09Head(out, 30)
	}
	if res.Exit != 0 {
		return fmt.Sprintf("racejob failed (exit %d):\n%s", res.Exit, c09Head(res.Out, 30))
	}
	if !strings.Contains(res.Out, "digest "+res.WantDigest) {
		return "racejob did not run the job sets of this invocation:\n" + c09Head(res.Out, 5)
	}
	return c09FirstOracle(res)
}

// c09FirstOracle decides on the first-use runs: every one of the FirstWanted fresh
// processes must have ended with exit 0 and its ok line; a race report, differing outputs
// (exit 3), a crash of the runtime ("fatal error: concurrent map writes", exit 2) or
// anything else fails, quoting what the process printed.
func c09FirstOracle(res *C09RaceResult) string {
	if res.FirstWanted == 0 {
		return ""
	}
	if res.FirstBuildErr != "" {
		return "the first-use race binary (harness/racefirst) cannot be built although racejob could: " + c09Head(res.FirstBuildErr, 20)
	}
	if res.FirstControlExit != c09RaceExit || !strings.Contains(res.FirstControlOut, "DATA RACE") {
		return fmt.Sprintf("first use, positive control: the race detector did not report the unsynchronised lazily initialised map of racefirst -control (exit %d):\n%s", res.FirstControlExit, c09Head(res.FirstControlOut, 12))
	}
	if len(res.First) < res.FirstWanted {
		return fmt.Sprintf("first use: only %d of %d racefirst processes ran", len(res.First), res.FirstWanted)
	}
	for i, r := range res.First {
		where := fmt.Sprintf("first use of the library by 16 goroutines at once (racefirst process %d of %d, GOMAXPROCS %d)", i+1, len(res.First), r.Procs)
		switch {
		case r.Exit == c09RaceExit || strings.Contains(r.Out, "WARNING: DATA RACE"):
			out := r.Out
			if j := strings.Index(out, "WARNING: DATA RACE"); j >= 0 {
				out = out[j:]
			}
			return where + ": the race detector reports a data race between independent build+render jobs:\n" + c09Report(out, 5)
		case strings.Contains(r.Out, "fatal error:") || strings.Contains(r.Out, "concurrent map"):
			out := r.Out
			if j := strings.Index(out, "fatal error:"); j >= 0 {
				out = out[j:]
			}
			return fmt.Sprintf("%s: the process crashed (exit %d):\n%s", where, r.Exit, c09Head(out, 30))
		case r.Exit == 3:
			return where + ": outputs differ from the same builds run sequentially afterwards:\n" + c09Head(r.Out, 12)
		case r.Exit != 0:
			return fmt.Sprintf("%s: racefirst failed (exit %d):\n%s", where, r.Exit, c09Head(r.Out, 30))
		case !strings.Contains(r.Out, "ok racefirst goroutines=16"):
			return where + ": racefirst exited 0 without its ok line:\n" + c09Head(r.Out, 12)
		}
	}
	return ""
}

// c09RaceFallback (no -race available): every job set 24 more times on goroutines, under
// GOMAXPROCS 1..16, compared with the jobs run alone.  Weaker: finds only races that
// corrupt an output.
func c09RaceFallback(c *Case) string {
	sets, _ := c.Meta["sets"].([]*Case)
	for si, s := range sets {
		if d := C09ConcurrentCheck(s.Hist, 24); d != "" {
			return fmt.Sprintf("job set %d: %s", si, d)
		}
	}
	return ""
}

// C09ConcurrentCheck runs the jobs of h alone, then reps times concurrently (GOMAXPROCS
// cycling through 1..16), and compares.
func C09ConcurrentCheck(h hist.History, reps int) string {
	files, jobs := C09Jobs(h)
	alone := map[int][]hist.Obs{}
	for _, f := range files {
		alone[f] = c09ExecSafe(jobs[f])
	}
	for i := 0; i < reps; i++ {
		procs := 1 + (i*5)%16
		per := C09RunConcurrent(files, jobs, procs)
		for _, f := range files {
			if d := c09SameJob(alone[f], per[f]); d != "" {
				return fmt.Sprintf("file %d differs between the job run alone and goroutine run #%d (GOMAXPROCS %d): %s", f, i+1, procs, d)
			}
		}
	}
	return ""
}
