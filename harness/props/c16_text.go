package props

import (
	"go/scanner"
	"go/token"
	"math/rand"
	"strings"

	"verifharness/term"
)

// C16, stream hostile-text: the CHARACTERS of the rendered key and value texts.
//
// The other streams draw keys and values from small pools of identifiers, numbers, calls and
// harmless strings: what they vary is the number of pairs, their order, their null-ness and
// the collisions of key texts.  This stream varies the alphabet of every text that ends up
// between the braces.  A Dict must write each key and each value as it renders, whatever
// characters it renders to - the texts are not formats, not comments and not lines to be
// tidied up:
//
//   - format verbs: string literals holding %d %s %v %% %! a lone % and a % at the very end
//     (every printable character after the %), texts that look like fmt's own error output
//     ("%!d(MISSING)", "%!(EXTRA string=x)"), and expressions with the remainder operator
//     (n % k, a %= b is not an expression and stays out);
//   - comment markers that are no comments: "https://x/y", "file:///etc", "//", "/*", "*/",
//     "/* x */" inside string literals, and the division operator next to a dereference
//     (a / b, a /  *p is two tokens "/" "*" in jennifer's one-blank layout and stays out);
//   - real comments: a block comment /* .. */ chained to a value or a key (in front of it or
//     behind it).  LINE comments are kept out, see c16tNoLineComments;
//   - runs of blanks, leading and trailing blanks and tabs inside string literals;
//
// in keys, in values, in the arguments of calls and indexes inside keys and values, in
// nested Dict values (T2{..}) and in the Dicts inside composite-literal keys (Point{X: ..}).
// Key texts are pairwise distinct (Compare is CompareAll, the formatted views are decided
// too).  The views are those of the other streams: the NoFormat File (once or twice), the
// formatted File, the formatted Statement.
//
// Tags (position:feature, measured on the expected texts): key:percent value:percent
// key:slash-slash value:slash-slash key:block-comment-marker value:... key:blank-run
// value:blank-run key:real-comment value:real-comment, nested-hostile (the feature sits in a
// nested Dict), plus the tags of the main stream (pairs= surviving= mode= type=).
// NonTrivial: at least one surviving pair carries one of the features.

// c16tNoLineComments documents what is kept out.  A value (or key) that ENDS IN A LINE
// COMMENT - Dict{Id("a"): Lit(1).Comment("x")} - renders `{a:1 // x}` (one pair) or
// `a:1 // x,` (several pairs): the comment swallows the closing brace or the pair's own comma
// and the literal no longer parses.  The same happens in every single-line group of jennifer
// (`f (1 // x)`); only multi-line groups put their closing token on a line of its own.  The
// property's quantifier speaks of "literals, identifiers, calls, qualified identifiers" as
// keys and values; a line comment is none of them.  Reported to the main session (round 6) as
// an observation; the model renders the same bytes.
const c16tNoLineComments = true

var c16tPct = func() []string {
	out := []string{"%", "%%", "100%", "%d items", "a%", "% d", "%+v", "%#v", "%5.2f", "%-5d", "%[1]d", "%*d", "%[2]*.[1]*f",
		"%!d(MISSING)", "%!(EXTRA string=x)", "%!(NOVERB)", "%!v(PANIC=String method: x)", "%!(BADINDEX)", "%d%%", "%s: %v", "x=%q;", "%\t", "50% of %d"}
	for c := byte(0x20); c < 0x7f; c++ {
		out = append(out, "%"+string(c)) // every printable character as a verb
	}
	return out
}()

var c16tSlash = []string{"https://example.org/docs", "file:///etc/app.conf", "//", "// c", "a//b", "http://", "//go:build x", "/", "/ /",
	"/*", "*/", "/* x */", "*/ /*", "a /* b", "/*//*/", "x */ y", "//\n", "a // b\nc", "/**/", "*//*", "///", "c:\\\\x//y"}

var c16tBlank = []string{"a  b", "  ", " ", "   x", "x   ", "\t", "a\tb", "a \t b", " a ", "Content-Type:  text/plain", "col1   col2", "\t\t", "a\n\nb", "  \n  "}

type c16tGen struct {
	r    *rand.Rand
	tags map[string]bool
}

func (g *c16tGen) str() c16E {
	r := g.r
	switch r.Intn(8) {
	case 7:
		// arbitrary bytes (quotes, newlines, invalid UTF-8, code fragments): strconv.Quote states
		// the expected text, which is what %#v writes for a string
		return c16Str(AdvString(r))
	case 0, 1, 2:
		return c16Str(c16tPct[r.Intn(len(c16tPct))])
	case 3, 4:
		return c16Str(c16tSlash[r.Intn(len(c16tSlash))])
	case 5:
		return c16Str(c16tBlank[r.Intn(len(c16tBlank))])
	}
	// (6) two of them glued together
	return c16Str(pick(r, c16tPct) + pick(r, []string{"", " ", "/"}) + pick(r, c16tSlash))
}

func (g *c16tGen) plain() c16E {
	r := g.r
	if r.Intn(2) == 0 {
		return c16Id(c16Ids[r.Intn(len(c16Ids))])
	}
	return c16Int(c16Ints[r.Intn(len(c16Ints))])
}

// c16Cmt chains a block comment to e: behind it (Lit(1).Comment("/* x */")) or in front of it
// (Comment("/* x */").Lit(1)).  The text is the comment and the expression joined by the one
// blank jennifer writes between the items of a statement.
func c16Cmt(e c16E, text string, front bool) c16E {
	if front {
		return c16E{T: text + " " + e.T, Qual: e.Qual, Mk: func() term.Node { return term.S(term.Comment{Text: text}, e.Mk()) }}
	}
	return c16E{T: e.T + " " + text, Qual: e.Qual, Mk: func() term.Node { return term.S(e.Mk(), term.Comment{Text: text}) }}
}

var c16tComments = []string{"/* x */", "/**/", "/* a: b, */", "/* // */", "/* 100% */", "/* %d */", "/*{*/", "/*}*/", "/* \" */"}

func (g *c16tGen) expr(d int) c16E {
	r := g.r
	k := r.Intn(14)
	if d <= 0 {
		k = r.Intn(7)
	}
	switch k {
	case 0, 1, 2, 3, 4:
		return g.str()
	case 5, 6:
		return g.plain()
	case 7, 8:
		// the remainder and division operators (the operands are simple: `a % 10`, `"%d" % 2` is
		// not type-correct but the property is about text)
		a, b := g.plain(), g.plain()
		if r.Intn(4) == 0 {
			a = g.str()
		}
		return c16Bin(a, pick(r, []string{"%", "%", "/", "&^", "*"}), b)
	case 9:
		var args []c16E
		for i := 0; i < 1+r.Intn(2); i++ {
			args = append(args, g.expr(d-1))
		}
		return c16Call(pick(r, []string{"f", "Sprintf", "fn"}), args...)
	case 10:
		return c16Index(pick(r, []string{"a", "m"}), g.expr(d-1))
	case 11:
		return c16Wrap(g.expr(d - 1))
	default:
		e := g.expr(d - 1)
		g.tags["real-comment"] = true
		return c16Cmt(e, c16tComments[r.Intn(len(c16tComments))], r.Intn(4) == 0)
	}
}

// c16tFeatures: the features of one rendered text.
func c16tFeatures(t string) []string {
	var out []string
	if strings.Contains(t, "%") {
		out = append(out, "percent")
	}
	if strings.Contains(t, "//") {
		out = append(out, "slash-slash")
	}
	if strings.Contains(t, "/*") || strings.Contains(t, "*/") {
		out = append(out, "block-comment-marker")
	}
	if strings.Contains(t, "  ") || strings.Contains(t, `\t`) || strings.Contains(t, `" `) || strings.Contains(t, ` "`) {
		out = append(out, "blank-run")
	}
	if c16tHasComment(t) {
		out = append(out, "real-comment")
	}
	return out
}

// c16tHasComment: the text holds a comment TOKEN (decided with go/scanner).
func c16tHasComment(t string) bool {
	var sc scanner.Scanner
	fset := token.NewFileSet()
	sc.Init(fset.AddFile("", fset.Base(), len(t)), []byte(t), nil, scanner.ScanComments)
	for {
		_, tok, _ := sc.Scan()
		if tok == token.EOF {
			return false
		}
		if tok == token.COMMENT {
			return true
		}
	}
}

func c16TextCase(r *rand.Rand, i int) *Case {
	g := &c16tGen{r: r, tags: map[string]bool{}}
	np := 1 + r.Intn(8)
	switch {
	case i%10 == 0:
		np = 1 // the inline form
	case i%10 == 1:
		np = 2
	case i%25 == 2:
		np = 9 + r.Intn(8)
	}
	seen := map[string]bool{}
	var ps []c16Pair
	nestedHostile := false
	for tries := 0; len(ps) < np && tries < 20*np+40; tries++ {
		var k c16E
		switch r.Intn(12) {
		case 0:
			k = c16Null(c16NullKinds[r.Intn(len(c16NullKinds))])
		case 1:
			// a composite-literal key whose Dict holds hostile values: Point{X: "%d", Y: "//"}
			fields := []string{"X", "Y", "Z", "W"}
			var in []c16Pair
			for _, j := range r.Perm(4)[:1+r.Intn(3)] {
				in = append(in, c16Pair{c16Id(fields[j]), g.expr(0)})
			}
			k = c16Comp(pick(r, []string{"Point", "P2"}), in)
			nestedHostile = true
		case 2, 3:
			k = g.plain() // a harmless key next to hostile ones (and under a hostile value)
		default:
			k = g.expr(2)
		}
		if !k.Null {
			if seen[k.T] {
				continue
			}
			seen[k.T] = true
		}
		var v c16E
		switch r.Intn(12) {
		case 0:
			v = c16Null(c16NullKinds[r.Intn(len(c16NullKinds))])
		case 1, 2:
			// a nested Dict value with hostile keys and values of its own (distinct keys)
			in, inSeen := []c16Pair{}, map[string]bool{}
			for j := r.Intn(4); j > 0; j-- {
				ik := g.expr(1)
				if inSeen[ik.T] {
					continue
				}
				inSeen[ik.T] = true
				in = append(in, c16Pair{ik, g.expr(1)})
			}
			v = c16Nested(in)
			nestedHostile = true
		case 3:
			v = g.plain()
		default:
			v = g.expr(2)
		}
		ps = append(ps, c16Pair{k, v})
	}
	mode := "file"
	if r.Intn(4) == 0 {
		mode = "plain"
	}
	tags := map[string]bool{}
	feature := false
	for _, p := range c16Surviving(ps) {
		for _, f := range c16tFeatures(p.K) {
			tags["key:"+f] = true
			feature = true
		}
		for _, f := range c16tFeatures(p.V) {
			tags["value:"+f] = true
			feature = true
		}
	}
	if nestedHostile {
		tags["nested-hostile"] = true
	}
	c := c16MkCase(ps, tags, r.Intn(4), mode, false, r.Intn(3) == 0, r.Intn(2) == 0, "hostile-text")
	// non-trivial: a surviving pair carries a format verb, a comment marker, a comment or a run of blanks
	c.NonTrivial = feature
	return c
}

// ---------------------------------------------------------------------------------------
// oracle support: comments that belong to a key or a value

// c16Trivia scans src[from:to], which must hold nothing but white space, comments and at most
// one comma, and returns the offsets (in src) of the comments in front of the comma and behind
// it, and whether anything else was met.
func c16Trivia(src string, from, to int) (before, after [][2]int, other bool) {
	if from >= to {
		return nil, nil, false
	}
	seg := src[from:to]
	var sc scanner.Scanner
	fset := token.NewFileSet()
	file := fset.AddFile("", fset.Base(), len(seg))
	sc.Init(file, []byte(seg), func(token.Position, string) { other = true }, scanner.ScanComments)
	comma := false
	for {
		pos, tok, lit := sc.Scan()
		switch tok {
		case token.EOF:
			return before, after, other
		case token.COMMENT:
			o := from + file.Offset(pos)
			if comma {
				after = append(after, [2]int{o, o + len(lit)})
			} else {
				before = append(before, [2]int{o, o + len(lit)})
			}
		case token.COMMA:
			if comma {
				other = true
			}
			comma = true
		case token.SEMICOLON:
			if lit != "\n" {
				other = true
			}
		default:
			other = true
		}
	}
}

// c16Span widens [lo,hi) of src to the comments found in front of it (lead) and behind it (trail).
func c16Span(lo, hi int, lead, trail [][2]int) (int, int) {
	if len(lead) > 0 && lead[0][0] < lo {
		lo = lead[0][0]
	}
	if n := len(trail); n > 0 && trail[n-1][1] > hi {
		hi = trail[n-1][1]
	}
	return lo, hi
}
