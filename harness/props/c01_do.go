package props

import (
	"fmt"
	"math/rand"

	"github.com/dave/jennifer/jen"

	"verifharness/hist"
	"verifharness/term"
)

// ---- building style "parts attached through Do callbacks" -------------------------------------
//
// "Do calls the provided function with the statement as a parameter. Use for embedding logic":
// a generator that decides at run time what follows - the body of a clause, the arguments of a
// call, an else branch, the result type - attaches it inside s.Do(func(s *Statement){ ... }).
// The callback works on THE statement, so the tokens it appends are neighbours of those before:
// rules of the renderer that look at the neighbour (a Block directly after Case(...)/Default()
// is a clause body and has no braces; separators; spacing) must see through the callback.
//
// In this style (tag build=do-callbacks; the history and so the model's line are the same) every
// statement of the tree is built by cutting its item list at random points: a run of items is
// either chained directly or chained onto the callback's statement inside Do; runs nest (a Do
// inside a Do, up to depth 3), and the statement may be STARTED by the package function
// Do(func(s){...}).  Nested statements (items of groups, operands) are built the same way.
// Measured tags (set while the history runs): do=clause-body-in-callback (a Block directly after
// Case/CaseFunc/Default() is the first item of a callback run), do=group-in-callback (any other
// group: Call, Params, Index, Values ...), do=nested-callbacks, do=statement-started-by-Do.
// The oracle is the property's: the output must parse to the original tree.

type c01DoBuilder struct {
	bd    *term.Builder
	r     *rand.Rand
	memo  map[*term.Stmt]*jen.Statement
	every bool // cut before every item (regression), else at random
	seen  map[string]bool
	onTag func(string)
}

func (d *c01DoBuilder) tag(t string) {
	if !d.seen[t] {
		d.seen[t] = true
		if d.onTag != nil {
			d.onTag(t)
		}
	}
}

func c01IsClauseHead(n term.Node) bool {
	switch x := n.(type) {
	case *term.Group:
		return x.Method == "Case" || x.Method == "CaseFunc"
	case term.Tok:
		return x.Kind == "named" && x.S == "Default"
	}
	return false
}

func (d *c01DoBuilder) stmt(st *term.Stmt) *jen.Statement {
	if s, ok := d.memo[st]; ok {
		return s
	}
	items := st.Items
	if len(items) > 0 {
		if cm, ok := items[0].(term.Comment); ok && cm.Fmt != nil && cm.Fmt.Via != "" {
			// (never in C01: the rebuilder drops comments) the default builder knows the entry points
			d.bd.StmtHook = nil
			s := d.bd.Stmt(st)
			d.bd.StmtHook = d.stmt
			d.memo[st] = s
			return s
		}
	}
	var s *jen.Statement
	if len(items) > 0 && (d.every || d.r.Intn(6) == 0) {
		// the statement is started by the package function Do
		k := 1
		if !d.every {
			k = 1 + d.r.Intn(len(items))
		}
		d.tag("do=statement-started-by-Do")
		s = jen.Do(func(s2 *jen.Statement) { d.fill(s2, items[:k], nil, 1) })
		d.memo[st] = s
		d.fill(s, items[k:], items[k-1], 0)
		return s
	}
	s = &jen.Statement{}
	d.memo[st] = s
	d.fill(s, items, nil, 0)
	return s
}

// fill chains items onto s; prev is the item chained last before items[0] (nil: none).
func (d *c01DoBuilder) fill(s *jen.Statement, items []term.Node, prev term.Node, depth int) {
	for i := 0; i < len(items); {
		cut := d.every && depth == 0 || !d.every && depth < 3 && d.r.Intn(3) == 0
		if !cut {
			d.bd.Append(s, items[i])
			prev = items[i]
			i++
			continue
		}
		k := 1
		if !d.every {
			k = 1 + d.r.Intn(len(items)-i)
			if d.r.Intn(2) == 0 && k > 2 {
				k = 1 + d.r.Intn(2)
			}
		}
		run := items[i : i+k]
		if g, ok := run[0].(*term.Group); ok {
			if g.Method == "Block" && prev != nil && c01IsClauseHead(prev) {
				d.tag("do=clause-body-in-callback")
			} else {
				d.tag("do=group-in-callback")
			}
		}
		if depth > 0 {
			d.tag("do=nested-callbacks")
		}
		p := prev
		ret := s.Do(func(s2 *jen.Statement) { d.fill(s2, run, p, depth+1) })
		if ret != nil {
			// chaining goes on on what Do returned, as in s.Do(...).Block(...)
			s = ret
		}
		prev = run[k-1]
		i += k
	}
}

// c01DoCallbacks switches a case to the building style above; seed decides the cuts (a function
// of the case's position, no draw from the run's generator), every: cut before every item.
func c01DoCallbacks(c *Case, seed int64, every bool) {
	if c.Meta == nil || c.Meta["skip"] != nil {
		return
	}
	c.Tags = append(c.Tags, "build=do-callbacks")
	tagged := map[string]bool{}
	c.Meta["world"] = func(w *hist.World) {
		db := &c01DoBuilder{bd: w.B, r: rand.New(rand.NewSource(seed)), memo: map[*term.Stmt]*jen.Statement{}, every: every, seen: map[string]bool{}}
		db.onTag = func(t string) {
			// measured while the history is executed (before the tags of the run are counted);
			// a case may be executed more than once
			if !tagged[t] {
				tagged[t] = true
				c.Tags = append(c.Tags, t)
			}
		}
		w.B.StmtHook = db.stmt
	}
}

// c01DoRegressions: two fixed sources built with a cut before every item.
func (p *c01) doRegressions() []*Case {
	srcs := [][2]string{
		{"do-callbacks-clause-bodies", "package p\n\nfunc f(x any, c chan int) string {\n\tswitch x {\n\tcase 1:\n\t\treturn \"one\"\n\tcase 2, 3:\n\t\tg()\n\t\treturn \"few\"\n\tcase 4:\n\tdefault:\n\t\treturn \"many\"\n\t}\n\tswitch y := x.(type) {\n\tcase int:\n\t\t_ = y\n\tdefault:\n\t\t{\n\t\t\tg()\n\t\t}\n\t}\n\tselect {\n\tcase v := <-c:\n\t\t_ = v\n\tcase c <- 1:\n\tdefault:\n\t\tg()\n\t}\n\treturn \"\"\n}\n"},
		{"do-callbacks-calls-and-headers", "package p\n\ntype T struct {\n\tA int `json:\"a\"`\n\tB []map[string]*T\n}\n\nfunc (t *T) m(a, b int, c ...string) (int, error) {\n\tif v, ok := t.B[0][\"k\"]; ok && v != nil {\n\t\treturn v.A + a*b, nil\n\t} else if a > b {\n\t\tfor i := 0; i < a; i++ {\n\t\t\tdefer g(i, c...)\n\t\t}\n\t} else {\n\t\tgo func() { _ = []int{1, 2, 3}[1:2] }()\n\t}\n\treturn len(c), nil\n}\n"},
	}
	var out []*Case
	for i, s := range srcs {
		for _, every := range []bool{true, false} {
			c := p.c01Case("regression", s[0]+".go", []byte(s[1]), nil, "", genPkgNameOrStd, false)
			c.Name = fmt.Sprintf("%s-every=%v", s[0], every)
			c01DoCallbacks(c, int64(100+i), every)
			out = append(out, c)
		}
	}
	return out
}
