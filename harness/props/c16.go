package props

import (
	"fmt"
	"go/ast"
	"go/parser"
	"go/scanner"
	"go/token"
	"math/rand"
	"sort"
	"strconv"
	"strings"

	"verifharness/hist"
	"verifharness/term"
)

// C16: Values(Dict{...}) renders every pair whose key and value both render something
// exactly once as key:value, sorted by the rendered text of the keys; one pair inline,
// several one per line.
//
// Every key and value is built by a constructor that also knows the text it must render
// to (c16E.T, the raw text: statement items are joined by one space, call arguments by a
// comma), so the oracle can compare the composite literal it parses out of the output
// with the multiset of surviving pairs without asking the model or the implementation.
//
// Streams: distinct-keys, equal-key-texts (prefix / composite families), qual-key-renamed,
// fill-between-renders (c16_fill.go), hostile-text (c16_text.go: format verbs, comment
// markers, block comments, runs of blanks in the key and value texts, also nested).
type c16 struct{}

func init() { Register(c16{}) }

func (c16) ID() string { return "C16" }

// c16E: an expression with the raw text it renders to. Mk builds a FRESH node on every
// call: two pairs never share a key node (a Go map cannot hold one key twice; keys that
// are the same pointer would collapse before jennifer sees them).
type c16E struct {
	T    string // "" for a nullish item
	Mk   func() term.Node
	Null bool
	Qual bool
}

func c16Id(s string) c16E {
	return c16E{T: s, Mk: func() term.Node { return term.S(term.Id(s)) }}
}
func c16Int(n int) c16E {
	return c16E{T: strconv.Itoa(n), Mk: func() term.Node { return term.S(term.Lit(n)) }}
}

// c16Str: printable ASCII only (the quoting of arbitrary strings is C17's business).
func c16Str(s string) c16E {
	return c16E{T: strconv.Quote(s), Mk: func() term.Node { return term.S(term.Lit(s)) }}
}
func c16Call(f string, args ...c16E) c16E {
	var ts []string
	for _, a := range args {
		ts = append(ts, a.T)
	}
	return c16E{T: f + " (" + strings.Join(ts, ",") + ")", Mk: func() term.Node {
		var ns []term.Node
		for _, a := range args {
			ns = append(ns, a.Mk())
		}
		return term.S(term.Id(f), term.G("Call", ns...))
	}}
}
func c16Bin(a c16E, op string, b c16E) c16E {
	return c16E{T: a.T + " " + op + " " + b.T, Mk: func() term.Node { return term.S(a.Mk(), term.Op(op), b.Mk()) }}
}
func c16Index(a string, i c16E) c16E {
	return c16E{T: a + " [" + i.T + "]", Mk: func() term.Node { return term.S(term.Id(a), term.G("Index", i.Mk())) }}
}

// c16Wrap: the same text from a differently shaped node (Add(stmt)).
func c16Wrap(e c16E) c16E {
	return c16E{T: e.T, Qual: e.Qual, Mk: func() term.Node { return term.S(e.Mk()) }}
}

// c16QualNames: paths with pairwise distinct, legal package names and no hints: the
// qualifier is the last path element (C03-C06 decide that in general; here it is only
// needed that the expected text is known).  Paths competing for one name are the
// recorded open finding "dict-keys-register-in-map-order" and are kept out.
var c16QualNames = [][2]string{{"fmt", "fmt"}, {"os", "os"}, {"a.b/d", "d"}, {"x.y/pkg", "pkg"}, {"e.f/zed", "zed"}}

func c16Qual(i int, name string) c16E {
	p := c16QualNames[i]
	return c16E{T: p[1] + "." + name, Qual: true, Mk: func() term.Node { return term.S(term.Qual(p[0], name)) }}
}
func c16Slice(vals ...c16E) c16E {
	var ts []string
	for _, a := range vals {
		ts = append(ts, a.T)
	}
	return c16E{T: "[] int {" + strings.Join(ts, ",") + "}", Mk: func() term.Node {
		var ns []term.Node
		for _, a := range vals {
			ns = append(ns, a.Mk())
		}
		return term.S(term.G("Index"), term.Named("Int"), term.G("Values", ns...))
	}}
}

var c16NullKinds = []string{"nil", "null", "emptystmt", "nilstmt", "nullsonly"}

func c16Null(kind string) c16E {
	return c16E{Null: true, Mk: func() term.Node {
		switch kind {
		case "nil":
			return term.Nil{}
		case "null":
			return term.S(term.Null())
		case "emptystmt":
			return term.S()
		case "nilstmt":
			return term.NilStmt{}
		default:
			return term.S(term.G("List", term.S(term.Null()), term.Nil{}))
		}
	}}
}

type c16Pair struct{ K, V c16E }

// C16KV is a surviving pair as text.
type C16KV struct{ K, V string }

// c16DictText is the generator's statement of the expected raw text of a nested Dict
// value with pairwise distinct keys (used only for values that are themselves Dicts).
func c16DictText(ps []C16KV) string {
	ps = append([]C16KV{}, ps...)
	sort.SliceStable(ps, func(i, j int) bool { return ps[i].K < ps[j].K })
	switch len(ps) {
	case 0:
		return "{}"
	case 1:
		return "{" + ps[0].K + ":" + ps[0].V + "}"
	}
	var b strings.Builder
	b.WriteString("{\n")
	for _, p := range ps {
		b.WriteString(p.K + ":" + p.V + ",\n")
	}
	b.WriteString("}")
	return b.String()
}

func c16Surviving(ps []c16Pair) []C16KV {
	var out []C16KV
	for _, p := range ps {
		if !p.K.Null && !p.V.Null {
			out = append(out, C16KV{p.K.T, p.V.T})
		}
	}
	return out
}

func c16MkDict(ps []c16Pair) *term.Dict {
	d := &term.Dict{}
	for _, p := range ps {
		d.Pairs = append(d.Pairs, [2]term.Node{p.K.Mk(), p.V.Mk()})
	}
	return d
}

// a nested Dict value T2{...} (distinct simple keys)
func c16Nested(ps []c16Pair) c16E {
	return c16E{T: "T2 " + c16DictText(c16Surviving(ps)), Mk: func() term.Node {
		return term.S(term.Id("T2"), term.G("Values", c16MkDict(ps)))
	}}
}

// a composite-literal KEY that contains a Dict: typ{X: .., Y: ..} (distinct simple keys)
func c16Comp(typ string, ps []c16Pair) c16E {
	return c16E{T: typ + " " + c16DictText(c16Surviving(ps)), Mk: func() term.Node {
		return term.S(term.Id(typ), term.G("Values", c16MkDict(ps)))
	}}
}

// compKey draws such a key with 2..4 inner pairs over the fields X Y Z W (inserted in random
// order) and small values: keys of one type share their text up to the first differing value.
func (g *c16Gen) compKey(typ string) c16E {
	r := g.r
	fields := []string{"X", "Y", "Z", "W"}
	n := 2 + r.Intn(3)
	var ps []c16Pair
	for _, j := range r.Perm(4)[:n] {
		ps = append(ps, c16Pair{c16Id(fields[j]), c16Int(c16Ints[r.Intn(len(c16Ints))])})
	}
	return c16Comp(typ, ps)
}

// ---------------------------------------------------------------------------------------
// drawing keys and values

var c16Ids = []string{"a", "ab", "a1", "A", "_x", "b", "k", "key", "aa", "a_b", "B"}
var c16Ints = []int{-1, 0, 1, 2, 9, 10, 100, 11, 19, 20}
var c16Strs = []string{"a", "ab", "a b", "", "b", "A", "a:b", "a,b", "{", "}", "a\"q", "a\\n", " a", "aa"}

type c16Gen struct {
	r     *rand.Rand
	quals bool
}

func (g *c16Gen) atom() c16E {
	r := g.r
	switch r.Intn(3) {
	case 0:
		return c16Id(c16Ids[r.Intn(len(c16Ids))])
	case 1:
		return c16Int(c16Ints[r.Intn(len(c16Ints))])
	default:
		return c16Str(c16Strs[r.Intn(len(c16Strs))])
	}
}

func (g *c16Gen) expr(d int) c16E {
	r := g.r
	k := r.Intn(12)
	if d <= 0 {
		k = r.Intn(6)
	}
	switch k {
	case 0, 1, 2, 3, 4:
		return g.atom()
	case 5:
		if g.quals {
			return c16Qual(r.Intn(len(c16QualNames)), "K"+strconv.Itoa(r.Intn(4)))
		}
		return g.atom()
	case 6, 7:
		var args []c16E
		for i := 0; i < r.Intn(3); i++ {
			args = append(args, g.expr(d-1))
		}
		return c16Call(pick(r, []string{"f", "g", "fn"}), args...)
	case 8:
		return c16Bin(g.expr(d-1), pick(r, []string{"+", "-", "*", "<<"}), g.expr(d-1))
	case 9:
		return c16Index(pick(r, []string{"a", "m"}), g.expr(d-1))
	case 10:
		return c16Wrap(g.expr(d - 1))
	default:
		var vs []c16E
		for i := 0; i < r.Intn(4); i++ {
			vs = append(vs, g.atom())
		}
		return c16Slice(vs...)
	}
}

func (g *c16Gen) null() c16E { return c16Null(c16NullKinds[g.r.Intn(len(c16NullKinds))]) }

// pairs draws n pairs. dup: keys may repeat as text (through distinct nodes), and
// repeats are provoked. Otherwise the key texts of all pairs are pairwise distinct.
func (g *c16Gen) pairs(n int, dup bool, family string, nested bool) (ps []c16Pair, tags map[string]bool) {
	r := g.r
	tags = map[string]bool{}
	seen := map[string]bool{}
	prefixKeys := []c16E{c16Str("a"), c16Str("ab"), c16Str("a b"), c16Id("a"), c16Id("ab"), c16Id("a1"), c16Int(1), c16Int(10), c16Int(100),
		c16Call("f"), c16Call("f", c16Id("x")), c16Call("fn"), c16Str(""), c16Str(" a"), c16Id("aa"), c16Str("aa"), c16Bin(c16Id("a"), "+", c16Id("b")), c16Index("a", c16Id("b"))}
	for len(ps) < n {
		var k c16E
		switch {
		case r.Intn(8) == 0:
			k = g.null()
			tags["null-key"] = true
		case dup && len(ps) > 0 && r.Intn(3) == 0:
			// a key with the text of an earlier one, from a fresh (sometimes differently shaped) node
			for tries := 0; tries < 8; tries++ {
				prev := ps[r.Intn(len(ps))].K
				if prev.Null {
					continue
				}
				k = prev
				if r.Intn(2) == 0 {
					k = c16Wrap(prev)
				}
				break
			}
			if k.Mk == nil {
				k = g.expr(1)
			}
		case family == "prefix":
			k = prefixKeys[r.Intn(len(prefixKeys))]
			tags["prefix-keys"] = true
		case family == "composite" || r.Intn(24) == 0:
			// a Dict inside a Dict KEY; in the family all keys are literals of one type
			typ := "Point"
			if family != "composite" {
				typ = pick(r, []string{"Point", "P2", "a"})
			}
			k = g.compKey(typ)
			tags["dict-key-contains-dict"] = true
		default:
			k = g.expr(2)
		}
		if !k.Null {
			if seen[k.T] {
				if !dup {
					// distinct-key stream: draw again (the pools are much larger than 16); after
					// exhausting a small pool fall back to a numbered identifier
					if r.Intn(4) == 0 {
						k = c16Id("u" + strconv.Itoa(len(ps)))
						if seen[k.T] {
							continue
						}
					} else {
						continue
					}
				} else {
					tags["dup-key-text"] = true
				}
			}
			seen[k.T] = true
			if k.Qual {
				tags["qual-key"] = true
			}
		}
		var v c16E
		switch {
		case r.Intn(8) == 0:
			v = g.null()
			tags["null-value"] = true
		case nested && r.Intn(6) == 0:
			sub := &c16Gen{r: r, quals: false}
			sp, _ := sub.pairs(r.Intn(4), false, "", false)
			v = c16Nested(sp)
			tags["nested-dict"] = true
		default:
			v = g.expr(2)
		}
		if v.Qual {
			tags["qual-value"] = true
		}
		ps = append(ps, c16Pair{k, v})
	}
	return ps, tags
}

// ---------------------------------------------------------------------------------------
// cases

// c16Type: what precedes Values.
func c16Type(i int) ([]term.Node, string) {
	switch i % 4 {
	case 0:
		return []term.Node{term.Id("T")}, "T"
	case 1:
		return []term.Node{term.G("Map", term.S(term.Named("String"))), term.Named("Int")}, "map"
	case 2:
		return []term.Node{term.G("Index"), term.Named("String")}, "slice"
	default:
		return []term.Node{term.Qual("x.y/pkg", "T")}, "qualified"
	}
}

// c16Build assembles the history. mode "file": a NoFormat File whose last declaration is
// `var _ = <type>{dict}`, rendered raw (twice when again, to meet two map iteration
// orders), then (when formatted) once more with formatting; mode "plain": the formatted
// Statement.Render of `<type>{dict}`.
func c16Build(ps []c16Pair, typ int, mode string, preImport, again, formatted bool) (hist.History, []string) {
	ty, _ := c16Type(typ)
	lit := func() *term.Stmt {
		return term.S(append(append([]term.Node{}, ty...), term.G("Values", c16MkDict(ps)))...)
	}
	if mode == "plain" {
		return hist.History{{Kind: "rplain", Code: lit()}}, []string{"fmt-expr"}
	}
	h := hist.History{{Kind: "newfile", F: 0, A: "p"}, {Kind: "noformat", F: 0, Flag: true}}
	if preImport {
		for _, q := range c16QualNames {
			h = append(h, hist.Op{Kind: "fadd", F: 0, Code: term.S(term.Named("Var"), term.Id("_"), term.Op("="), term.Qual(q[0], "A"))})
		}
	}
	h = append(h, hist.Op{Kind: "fadd", F: 0, Code: term.S(append([]term.Node{term.Named("Var"), term.Id("_"), term.Op("=")}, lit().Items...)...)})
	h = append(h, hist.Op{Kind: "render", F: 0})
	views := []string{"raw-file"}
	if again {
		h = append(h, hist.Op{Kind: "render", F: 0})
		views = append(views, "raw-file")
	}
	if formatted {
		h = append(h, hist.Op{Kind: "noformat", F: 0, Flag: false}, hist.Op{Kind: "render", F: 0})
		views = append(views, "fmt-file")
	}
	h = append(h, hist.Op{Kind: "imports", F: 0})
	views = append(views, "imports")
	return h, views
}

func c16Bucket(n int) string {
	switch {
	case n <= 2:
		return strconv.Itoa(n)
	case n <= 4:
		return "3-4"
	case n <= 8:
		return "5-8"
	case n <= 16:
		return "9-16"
	}
	return "17+"
}

func c16MkCase(ps []c16Pair, tags map[string]bool, typ int, mode string, preImport, again, formatted bool, stream string) *Case {
	h, views := c16Build(ps, typ, mode, preImport, again, formatted)
	exp := c16Surviving(ps)
	dup := false
	seen := map[string]bool{}
	for _, p := range exp {
		if seen[p.K] {
			dup = true
		}
		seen[p.K] = true
	}
	_, tn := c16Type(typ)
	ts := []string{"pairs=" + c16Bucket(len(ps)), "surviving=" + c16Bucket(len(exp)), "mode=" + mode, "type=" + tn}
	for k := range tags {
		ts = append(ts, k)
	}
	if dup {
		ts = append(ts, "surviving-dup-key-text")
	}
	if preImport {
		ts = append(ts, "pre-imported")
	}
	sort.Strings(ts)
	return &Case{Hist: h, Stream: stream, Tags: ts,
		// non-trivial: the Dict holds at least one pair
		NonTrivial: len(ps) > 0,
		Meta:       map[string]interface{}{"exp": exp, "views": views, "dup": dup}}
}

func (c16) Generate(r *rand.Rand, t string) []*Case {
	var out []*Case
	n := tier(t, 20000, 200000)
	for i := 0; i < n; i++ {
		np := r.Intn(17)
		if t == "thorough" && i%50 == 0 {
			np = 17 + r.Intn(48)
		}
		if i%40 == 1 {
			np = r.Intn(3)
		}
		stream, dup, family := "distinct-keys", false, ""
		switch r.Intn(8) {
		case 0, 1:
			stream, dup = "equal-key-texts", true
		case 2, 3:
			family = "prefix"
			if np > 12 {
				np = 12
			}
		case 4:
			// 2..6 keys, each a composite literal of one type holding a Dict of 2..4 pairs
			family = "composite"
			np = 2 + r.Intn(5)
		}
		mode := "file"
		if r.Intn(5) == 0 {
			mode = "plain"
		}
		g := &c16Gen{r: r, quals: r.Intn(2) == 0}
		ps, tags := g.pairs(np, dup, family, true)
		// a formatted view only where gofmt cannot reorder anything and alignment does not
		// depend on the order of equal keys: i.e. not in the equal-key stream
		formatted := !dup && r.Intn(2) == 0
		out = append(out, c16MkCase(ps, tags, r.Intn(4), mode, r.Intn(2) == 0, r.Intn(3) == 0, formatted, stream))
	}
	nr := tier(t, 2500, 30000)
	for i := 0; i < nr; i++ {
		out = append(out, c16RenamedCase(r, i))
	}
	// stream fill-between-renders (c16_fill.go): pairs with placeholder keys / values are
	// rendered, extended through retained pointers and rendered again
	nf := tier(t, 2500, 40000)
	for i := 0; i < nf; i++ {
		out = append(out, c16FillCase(r, i))
	}
	// stream hostile-text (c16_text.go): format verbs, comment markers, real block comments and
	// runs of blanks in the key and value texts; drawn last, the draws above are unchanged
	nt := tier(t, 3000, 40000)
	for i := 0; i < nt; i++ {
		out = append(out, c16TextCase(r, i))
	}
	return out
}

// ---------------------------------------------------------------------------------------
// keys that are Quals of packages whose names collide (stream qual-key-renamed)

// c16RenFamilies: base names; for a base n the stream uses paths guessing n (several hosts,
// also written N and n/) and paths guessing n0, n1, n2 (the numbered candidates themselves).
var c16RenFamilies = []string{"x", "db", "util", "v", "zed"}

// c16Guess: the name jennifer guesses for the paths of this stream (last element, lower
// case, without a trailing slash; README "Qual": the package name is guessed from the path).
func c16Guess(p string) string {
	p = strings.TrimSuffix(p, "/")
	return strings.ToLower(p[strings.LastIndex(p, "/")+1:])
}

// c16Aliases is the oracle's own statement of how colliding names are numbered when paths
// are registered one after the other (README: "a unique name is created by appending a
// number"): the first free one of n, n1, n2, ...; with a PackagePrefix every alias is
// prefix_<that name> and both forms must be free.  No path of the stream has a hint or is
// a standard library path, and no name is reserved.
func c16Aliases(paths []string, prefix string) map[string]string {
	used := map[string]bool{}
	out := map[string]string{}
	for _, p := range paths {
		if _, ok := out[p]; ok {
			continue
		}
		n := c16Guess(p)
		full := func(u string) string {
			if prefix != "" {
				return prefix + "_" + u
			}
			return u
		}
		u := n
		for i := 1; used[u] || used[full(u)]; i++ {
			u = n + strconv.Itoa(i)
		}
		out[p] = full(u)
		used[full(u)] = true
	}
	return out
}

// c16RenamedCase: the body first references 2..5 paths with colliding names in a fixed
// order (so the aliases are numbered deterministically: x, x1, x0, ...), then declares a
// Dict whose keys are Quals of these paths (inserted in another order) plus 0..2 plain
// keys.  The pairs must be ordered by the text ACTUALLY WRITTEN (x.Key, x0.Key, x1.Key),
// not by the text the keys would have in some other File.
func c16RenamedCase(r *rand.Rand, typ int) *Case {
	n := c16RenFamilies[r.Intn(len(c16RenFamilies))]
	same := []string{"a.example/" + n, "b.example/" + n, "c.example/" + strings.ToUpper(n), "d.example/" + n + "/", "e.example/sub/" + n}
	numbered := []string{"f.example/" + n + "0", "g.example/" + n + "1", "h.example/" + n + "2", "i.example/" + n + "1/"}
	k := 2 + r.Intn(4) // 2..5 paths, at least two of them guess n itself
	ns := 2 + r.Intn(k-1)
	if ns > len(same) {
		ns = len(same)
	}
	var paths []string
	for _, i := range r.Perm(len(same))[:ns] {
		paths = append(paths, same[i])
	}
	for _, i := range r.Perm(len(numbered))[:k-ns] {
		paths = append(paths, numbered[i])
	}
	r.Shuffle(len(paths), func(a, b int) { paths[a], paths[b] = paths[b], paths[a] })
	prefix := ""
	if r.Intn(3) == 0 {
		prefix = pick(r, []string{"pkg", "p", "gen"})
	}
	alias := c16Aliases(paths, prefix)

	h := hist.History{{Kind: "newfile", F: 0, A: "p"}, {Kind: "noformat", F: 0, Flag: true}}
	if prefix != "" {
		h = append(h, hist.Op{Kind: "prefix", F: 0, A: prefix})
	}
	// the earlier references, in the order that decides the numbering (one or two statements)
	if r.Intn(2) == 0 {
		for _, p := range paths {
			h = append(h, hist.Op{Kind: "fadd", F: 0, Code: term.S(term.Named("Var"), term.Id("_"), term.Op("="), term.Qual(p, "A"))})
		}
	} else {
		var args []term.Node
		for _, p := range paths {
			args = append(args, term.S(term.Qual(p, "A")))
		}
		h = append(h, hist.Op{Kind: "fadd", F: 0, Code: term.S(term.Named("Var"), term.Id("_"), term.Op("="), term.Id("f"), term.G("Call", args...))})
	}
	// the Dict: a Qual key for each path (at least two), in random order, and plain keys
	var ps []c16Pair
	fresh := map[string]string{} // written key text -> the text the key would have in an empty File
	nk := 2 + r.Intn(len(paths)-1)
	for j, i := range r.Perm(len(paths))[:nk] {
		p := paths[i]
		name := "Key"
		if r.Intn(4) == 0 {
			name = "K" + strconv.Itoa(j)
		}
		fresh[alias[p]+"."+name] = c16Aliases([]string{p}, prefix)[p] + "." + name
		ps = append(ps, c16Pair{c16E{T: alias[p] + "." + name, Qual: true, Mk: func() term.Node { return term.S(term.Qual(p, name)) }}, c16Int(j)})
	}
	g := &c16Gen{r: r}
	seen := map[string]bool{}
	for _, p := range ps {
		seen[p.K.T] = true
	}
	for i := r.Intn(3); i > 0; i-- {
		// plain keys that sort among the qualified ones: the bare names, n0, n.Key-like calls
		e := []c16E{c16Id(n), c16Id(n + "0"), c16Id(n + "1"), c16Call(n), c16Str(n), g.atom()}[r.Intn(6)]
		if !seen[e.T] {
			seen[e.T] = true
			ps = append(ps, c16Pair{e, g.atom()})
		}
	}
	r.Shuffle(len(ps), func(a, b int) { ps[a], ps[b] = ps[b], ps[a] })
	ty, tn := c16Type(typ % 3)
	lit := term.S(append(append([]term.Node{term.Named("Var"), term.Id("_"), term.Op("=")}, ty...), term.G("Values", c16MkDict(ps)))...)
	h = append(h, hist.Op{Kind: "fadd", F: 0, Code: lit}, hist.Op{Kind: "render", F: 0})
	views := []string{"raw-file"}
	if r.Intn(3) == 0 {
		h = append(h, hist.Op{Kind: "render", F: 0})
		views = append(views, "raw-file")
	}
	if r.Intn(2) == 0 {
		h = append(h, hist.Op{Kind: "noformat", F: 0, Flag: false}, hist.Op{Kind: "render", F: 0})
		views = append(views, "fmt-file")
	}
	h = append(h, hist.Op{Kind: "imports", F: 0})
	views = append(views, "imports")
	// renamed: some key is written with a numbered alias although its own guessed name is free
	// in an empty File, and the order by written text differs from the order by the
	// unnumbered text (the case decides between the two)
	type kt struct{ written, fresh string }
	var ks []kt
	for _, p := range c16Surviving(ps) {
		f, ok := fresh[p.K]
		if !ok {
			f = p.K // a plain key: the same text in every File
		}
		ks = append(ks, kt{p.K, f})
	}
	byWritten := append([]kt{}, ks...)
	sort.SliceStable(byWritten, func(i, j int) bool { return byWritten[i].written < byWritten[j].written })
	decisive := false
	for i := 1; i < len(byWritten); i++ {
		if byWritten[i-1].fresh > byWritten[i].fresh {
			decisive = true
		}
	}
	ts := []string{"qual-key-renamed", "family=" + n, "paths=" + strconv.Itoa(len(paths)), "type=" + tn, "mode=file", "qual-key"}
	if prefix != "" {
		ts = append(ts, "prefix")
	}
	if decisive {
		ts = append(ts, "renamed-order-decisive")
	}
	sort.Strings(ts)
	return &Case{Hist: h, Stream: "qual-key-renamed", Tags: ts,
		// non-trivial: sorting by the written texts and sorting by the texts the keys would have
		// in an empty File give different orders
		NonTrivial: decisive,
		Meta:       map[string]interface{}{"exp": c16Surviving(ps), "views": views, "dup": false}}
}

func (c16) Regressions() []*Case {
	// fixed defect c432903: Dict{f(): 1, f(): 2} rendered one pair twice and dropped the other
	f := c16Call("f")
	ps := []c16Pair{{f, c16Int(1)}, {c16Wrap(f), c16Int(2)}}
	c := c16MkCase(ps, map[string]bool{"dup-key-text": true}, 0, "file", false, true, false, "regression")
	c.Name = "dict-duplicate-key-text"
	ps3 := []c16Pair{{f, c16Int(1)}, {c16Wrap(f), c16Int(2)}, {c16Id("a"), c16Null("nil")}, {c16Null("nil"), c16Int(3)}, {f, c16Null("null")}, {c16Wrap(c16Wrap(f)), c16Str("x")}}
	c3 := c16MkCase(ps3, map[string]bool{"dup-key-text": true}, 1, "plain", false, false, false, "regression")
	c3.Name = "dict-duplicate-key-text-plain"
	return []*Case{c, c3}
}

// ---------------------------------------------------------------------------------------
// projection

func c16SortedLines(s string) string {
	l := strings.Split(s, "\n")
	for i := range l {
		// gofmt aligns the values of neighbouring lines: the padding depends on the order
		l[i] = strings.Join(strings.Fields(l[i]), " ")
	}
	sort.Strings(l)
	return strings.Join(l, "\n")
}

// Compare: all observations, completely, when the surviving keys are pairwise distinct as
// text.  When two surviving keys render identically the property does not determine their
// relative order (the implementation takes it from the map iteration, the model from the
// order of the case line): the observations are then compared modulo the order of lines
// (each pair is on its own line) and modulo runs of blanks (gofmt's column alignment depends
// on the neighbouring lines; no string of the pools holds two blanks in a row), and
// everything else (kinds, imports) exactly.
func (c16) Compare(c *Case, exp, got []hist.Obs) string {
	if m, ok := c.Meta["c16f"].(*c16fMeta); ok {
		return c08fCompare(m.F.Views, exp, got) // key texts are pairwise distinct; the replayed renders are left out
	}
	if c.Meta["dup"] != true {
		return CompareAll(exp, got)
	}
	if len(exp) != len(got) {
		return fmt.Sprintf("observation count differs: model %d, implementation %d", len(exp), len(got))
	}
	for i := range exp {
		e, g := exp[i], got[i]
		if e.Kind == "write" && g.Kind == "write" && e.Failed == g.Failed {
			if c16SortedLines(e.Out) != c16SortedLines(g.Out) {
				return fmt.Sprintf("observation %d differs even modulo the order of lines:\n  model: %s\n  impl:  %s", i, e, g)
			}
			continue
		}
		if !hist.SameObs(e, g) {
			return fmt.Sprintf("observation %d differs:\n  model: %s\n  impl:  %s", i, e, g)
		}
	}
	return ""
}

// ---------------------------------------------------------------------------------------
// oracle

// c16Tokens is the form in which formatted texts are compared: the Go tokens, joined by
// one space (gofmt only changes white space; automatically inserted semicolons are dropped).
func c16Tokens(s string) (string, error) {
	var sc scanner.Scanner
	fset := token.NewFileSet()
	file := fset.AddFile("", fset.Base(), len(s))
	var first error
	sc.Init(file, []byte(s), func(_ token.Position, msg string) {
		if first == nil {
			first = fmt.Errorf("%s", msg)
		}
	}, 0)
	var out []string
	for {
		_, tok, lit := sc.Scan()
		if tok == token.EOF {
			break
		}
		if tok == token.SEMICOLON && lit == "\n" {
			continue
		}
		if lit == "" {
			lit = tok.String()
		}
		out = append(out, lit)
	}
	return strings.Join(out, " "), first
}

// C16Check decides the property on one output. view: "raw-file" (NoFormat file; the literal
// is the value of the last declaration), "fmt-file" (the same, formatted), "fmt-expr"
// (formatted expression).  exp is the expected multiset of surviving pairs as raw texts.
func C16Check(src, view string, exp []C16KV) string {
	fset := token.NewFileSet()
	var lit *ast.CompositeLit
	if view == "fmt-expr" {
		// ParseExprFrom keeps positions relative to src
		e, err := parser.ParseExprFrom(fset, "x.go", src, 0)
		if err != nil {
			return "output does not parse as an expression: " + err.Error()
		}
		l, ok := e.(*ast.CompositeLit)
		if !ok {
			return fmt.Sprintf("output is a %T, not a composite literal", e)
		}
		lit = l
	} else {
		f, err := parser.ParseFile(fset, "x.go", src, 0)
		if err != nil {
			return "output does not parse: " + err.Error()
		}
		if len(f.Decls) == 0 {
			return "no declaration in the output"
		}
		gd, ok := f.Decls[len(f.Decls)-1].(*ast.GenDecl)
		if !ok || len(gd.Specs) != 1 {
			return "the last declaration is not the var declaration"
		}
		vs, ok := gd.Specs[0].(*ast.ValueSpec)
		if !ok || len(vs.Values) != 1 {
			return "the last declaration is not `var _ = literal`"
		}
		l, ok := vs.Values[0].(*ast.CompositeLit)
		if !ok {
			return fmt.Sprintf("the declared value is a %T, not a composite literal", vs.Values[0])
		}
		lit = l
	}
	off := func(p token.Pos) int { return fset.Position(p).Offset }
	text := func(n ast.Node) string { return src[off(n.Pos()):off(n.End())] }
	raw := view == "raw-file"

	// the pairs of the literal
	var gotP []C16KV
	var kvs []*ast.KeyValueExpr
	for _, el := range lit.Elts {
		kv, ok := el.(*ast.KeyValueExpr)
		if !ok {
			return fmt.Sprintf("element %q of the literal is not key: value", text(el))
		}
		kvs = append(kvs, kv)
	}
	for i, kv := range kvs {
		if raw {
			// the key and the value with the comments chained to them (c16_text.go): the comments
			// between the previous comma (or the opening brace) and the key, between the key and
			// the colon, between the colon and the value, between the value and the next comma (or
			// the closing brace)
			prev := off(lit.Lbrace) + 1
			var lead [][2]int
			if i > 0 {
				prev = off(kvs[i-1].Value.End())
				_, lead, _ = c16Trivia(src, prev, off(kv.Key.Pos()))
			} else {
				lead, _, _ = c16Trivia(src, prev, off(kv.Key.Pos()))
			}
			trail, _, _ := c16Trivia(src, off(kv.Key.End()), off(kv.Colon))
			k0, k1 := c16Span(off(kv.Key.Pos()), off(kv.Key.End()), lead, trail)
			lead, _, _ = c16Trivia(src, off(kv.Colon)+1, off(kv.Value.Pos()))
			next := off(lit.Rbrace)
			if i+1 < len(kvs) {
				next = off(kvs[i+1].Key.Pos())
			}
			trail, _, _ = c16Trivia(src, off(kv.Value.End()), next)
			v0, v1 := c16Span(off(kv.Value.Pos()), off(kv.Value.End()), lead, trail)
			gotP = append(gotP, C16KV{src[k0:k1], src[v0:v1]})
		} else {
			k, _ := c16Tokens(text(kv.Key))
			v, _ := c16Tokens(text(kv.Value))
			gotP = append(gotP, C16KV{k, v})
		}
	}
	// expected, in the same textual form; rawKey maps a canonical key back to its raw texts
	want := make([]C16KV, len(exp))
	rawKey := map[string][]string{}
	for i, p := range exp {
		if raw {
			want[i] = p
			continue
		}
		k, err1 := c16Tokens(p.K)
		v, err2 := c16Tokens(p.V)
		if err1 != nil || err2 != nil {
			return fmt.Sprintf("harness: expected texts %q / %q do not scan", p.K, p.V)
		}
		want[i] = C16KV{k, v}
		found := false
		for _, x := range rawKey[k] {
			found = found || x == p.K
		}
		if !found {
			rawKey[k] = append(rawKey[k], p.K)
		}
	}
	// multiset
	ms := func(l []C16KV) []string {
		var out []string
		for _, p := range l {
			out = append(out, p.K+"\x00"+p.V)
		}
		sort.Strings(out)
		return out
	}
	a, b := ms(gotP), ms(want)
	show := func(l []string) string { return strings.ReplaceAll(strings.Join(l, " | "), "\x00", " => ") }
	if len(a) != len(b) {
		return fmt.Sprintf("%d pairs rendered, %d expected:\n got  %s\n want %s", len(a), len(b), show(a), show(b))
	}
	for i := range a {
		if a[i] != b[i] {
			return fmt.Sprintf("rendered pairs differ from the surviving pairs:\n got  %s\n want %s", show(a), show(b))
		}
	}
	// order: non-decreasing in the bytes of the rendered (raw) key text
	for i := 1; i < len(gotP); i++ {
		k0, k1 := gotP[i-1].K, gotP[i].K
		if !raw {
			r0, r1 := rawKey[k0], rawKey[k1]
			if len(r0) != 1 || len(r1) != 1 {
				continue // two raw texts with one canonical form: order not decidable here (the raw view decides)
			}
			k0, k1 = r0[0], r1[0]
		}
		if k0 > k1 {
			return fmt.Sprintf("keys out of order: %q is rendered before %q", k0, k1)
		}
	}
	// layout, on the raw bytes: {} / {k:v} / one pair per line
	if raw {
		body := src[off(lit.Lbrace) : off(lit.Rbrace)+1]
		var w strings.Builder
		w.WriteString("{")
		if len(gotP) > 1 {
			w.WriteString("\n")
		}
		for _, p := range gotP {
			w.WriteString(p.K + ":" + p.V)
			if len(gotP) > 1 {
				w.WriteString(",\n")
			}
		}
		w.WriteString("}")
		if body != w.String() {
			return fmt.Sprintf("layout of the literal body: %q, want %q", body, w.String())
		}
	}
	return ""
}

func (c16) Oracle(c *Case, got []hist.Obs) string {
	if m, ok := c.Meta["c16f"].(*c16fMeta); ok {
		return c16fOracle(m, got)
	}
	exp, _ := c.Meta["exp"].([]C16KV)
	views, _ := c.Meta["views"].([]string)
	if len(got) != len(views) {
		return fmt.Sprintf("expected %d observations, got %d", len(views), len(got))
	}
	var firstRaw *hist.Obs
	for i, v := range views {
		o := got[i]
		if v == "imports" {
			if o.Kind != "imports" {
				return "missing imports observation"
			}
			continue
		}
		if o.Kind != "write" {
			return fmt.Sprintf("render %d did not succeed: %s", i, o)
		}
		if msg := C16Check(o.Out, v, exp); msg != "" {
			return fmt.Sprintf("render %d (%s): %s", i, v, msg)
		}
		if v == "raw-file" {
			if firstRaw != nil && c.Meta["dup"] != true && firstRaw.Out != o.Out {
				return fmt.Sprintf("two renders of one File differ:\n %q\n %q", firstRaw.Out, o.Out)
			}
			if firstRaw == nil {
				firstRaw = &got[i]
			}
		}
	}
	return ""
}
