package props

import (
	"fmt"
	"math/rand"
	"strings"

	"verifharness/hist"
	"verifharness/term"
)

// C10, streams "rich-content" and "writer-shapes".
//
// rich-content: the CONTENT of the trees.  The trees of the older streams are plain (calls of
// f with small integers); "the writer has received, and the saved file contains, exactly the
// rendered output" is only as strong as the alphabet of that output.  The tree kinds
//
//	rich          well-formed declarations whose text is full of characters that mean something to
//	              the layers a renderer may be built from (fmt verbs, escapes, comment markers):
//	              the operators % %= &^ << in expressions, Printf format strings and other strings
//	              with % in Lit, '%' as LitRune / LitByte, raw strings written through Op, line /
//	              block / raw comments and Commentf comments holding % (before a declaration,
//	              trailing, inside a function body), struct tags and Dict keys with %;
//	              1 case in 24 is LARGE (400..1600 declarations: output beyond every common buffer size)
//	rich-invalid  the same with one broken statement inserted (go/format must reject it)
//	random-rich   trees of the shared random generator with such tokens sprinkled into their
//	              statements at random positions (mostly not Go)
//
// are crossed with every entry point, NoFormat and formatted, a writer shape (below) or a save
// target (new / existing), and File settings that carry % as well (HeaderComment, PackageComment,
// CgoPreamble, CanonicalPath).  The model predicts every byte (Compare); the oracle's ground
// truths are those of c10Whole, among them the two that tie the NoFormat output to the formatted
// one without going through the NoFormat code path (see c10Whole).
//
// writer-shapes: the BEHAVIOUR of the io.Writer.  What the contract of io.Writer allows a Write to
// answer for one call with len(p) = n, and what the oracle requires for each (c10Judge):
//
//	zero-err    (0, err)            the error is returned; no further call
//	part-err    (k, err), 0<k<n     the error is returned; no further call
//	full-err    (n, err)            the error is returned (a writer that buffers, takes everything
//	                                and then fails to flush answers like this); no further call
//	second-err  first call (n, nil), second call (0, err): an implementation that hands over its
//	            output with one Write never sees the error: success, one call carrying everything.
//	            (One that used two calls would have to return the error.)
//	short-nil   (k, nil), k<n       the writer BREAKS the contract ("Write must return a non-nil
//	            error if it returns n < len(p)").  No error exists that could be swallowed, and the
//	            writer has been handed the whole output; what the caller does then is its choice:
//	            the unchanged implementation returns nil (it does not look at n), an implementation
//	            that returns io.ErrShortWrite is accepted as well, and so is one that offers the
//	            rest in further calls until everything is taken.  Required: the FIRST call carries
//	            the whole output, and no other error comes back.
//
// every shape x every writer entry point x NoFormat x tree kind (valid, rich, invalid, badlit,
// empty: a fragment that renders to nothing, so that n = 0).  A tree that fails to render or to
// format fails for that reason and the writer is never called, whatever its shape.
var c10WShapes = []string{"zero-err", "part-err", "full-err", "short-nil", "second-err"}

// c10ShapeFails: the error of this shape reaches an implementation that hands over its output
// with one Write (and must then be returned).
func c10ShapeFails(shape string) bool {
	return shape == "zero-err" || shape == "part-err" || shape == "full-err" || strings.HasPrefix(shape, "off-err:")
}

var c10PercentStrings = []string{"%", "%%", "100%", "%d", "%s", "%v", "%+v", "%#v", "%T", "%q", "%x", "% x", "%-5.2f", "%[1]d", "%[2]*[1]d",
	"%c%c", "%!", "%!d(MISSING)", "%d of %s: 100%\n", "a%", "%\n", "%%%", "50%% off", "%w", "%z", "%\x00", "日本%語", "%!(EXTRA string=x)", "%.", "%*d"}

var c10PercentComments = []string{"100% done", "%d items", "n is now n%3", "two\nlines 50%", "//raw %s", "/*raw %d*/", "%", "ends in %", "%!d(MISSING)", "a % b // c"}

var c10RichOps = []string{"%", "%", "&^", "<<", ">>", "^", "&", "|", "*", "/", "+", "-"}

func c10RichComment(r *rand.Rand) term.Node {
	switch r.Intn(5) {
	case 0:
		return term.Commentf("", "%d%% of %s", r.Intn(100), pick(r, []string{"x", "the %d items", "100%"}))
	case 1:
		return term.Commentf("", "%s", pick(r, c10PercentComments))
	}
	return term.Comment{Text: pick(r, c10PercentComments)}
}

// c10RichDecl: one well-formed declaration with rich content.  Valid at file level and (unless
// it is a func declaration, which is only drawn when funcs) as a statement inside a block.
func c10RichDecl(r *rand.Rand, g *Gen, i int, funcs bool) *term.Stmt {
	name := fmt.Sprintf("%c%s%d", 'A'+i%26, g.Ident(), i)
	head := []term.Node{term.Named("Var"), term.Id(name), term.Op("=")}
	decl := func(rest ...term.Node) *term.Stmt { return term.S(append(append([]term.Node{}, head...), rest...)...) }
	var st *term.Stmt
	switch k := r.Intn(12); {
	case k == 0: // a % b &^ c
		items := []term.Node{term.Id(g.Ident())}
		for j := 1 + r.Intn(3); j > 0; j-- {
			items = append(items, term.Op(pick(r, c10RichOps)), term.Id(pick(r, []string{"a", "b", "n", "x"})))
		}
		st = decl(items...)
	case k == 1: // fmt.Sprintf("%d of %s: 100%%\n", n, "x")
		args := []term.Node{term.S(term.Lit(pick(r, c10PercentStrings)))}
		for j := r.Intn(3); j > 0; j-- {
			args = append(args, term.S(term.Lit(g.LitValue())))
		}
		st = decl(term.Qual("fmt", pick(r, []string{"Sprintf", "Errorf", "Sprint"})), term.G("Call", args...))
	case k == 2:
		st = decl(term.Lit(pick(r, c10PercentStrings)))
	case k == 3: // []interface{}{'%', byte('%'), "%"}
		st = decl(term.G("Index"), term.G("Interface"), term.G("Values", term.S(term.LitRune('%')), term.S(term.LitByte('%')), term.S(term.Lit(pick(r, c10PercentStrings)))))
	case k == 4: // a comment above the declaration
		st = decl(term.Lit(r.Intn(100)))
		st.Items = append([]term.Node{c10RichComment(r), term.Line()}, st.Items...)
	case k == 5: // a trailing comment
		st = decl(term.Lit(r.Intn(100)), term.Comment{Text: pick(r, []string{"100%", "%d", "n%3", "50%% off"})})
	case k == 6 && funcs: // func F(n int) int { n %= 3; // ...; return n % 2 }
		body := []term.Node{
			term.S(term.Id("n"), term.Op("%="), term.Lit(3+r.Intn(5))),
			term.S(c10RichComment(r)),
			term.S(term.G("Return", term.S(term.Id("n"), term.Op("%"), term.Lit(2)))),
		}
		if r.Intn(2) == 0 {
			body = append([]term.Node{term.S(term.Qual("fmt", "Printf"), term.G("Call", term.S(term.Lit(pick(r, c10PercentStrings))), term.S(term.Id("n"))))}, body...)
		}
		return term.S(term.Named("Func"), term.Id("F"+name), term.G("Params", term.S(term.Id("n"), term.Named("Int"))), term.Named("Int"), term.G("Block", body...))
	case k == 7: // struct tag
		return term.S(term.Named("Var"), term.Id(name), term.G("Struct",
			term.S(term.Id("X"), term.Named("Int"), term.Tag{KV: [][2]string{{"json", pick(r, []string{"%d", "x,omitempty", "100%"})}, {"fmt", pick(r, c10PercentStrings[:12])}}})))
	case k == 8: // map[string]int{"%s": 1, "100%": 2}
		d := &term.Dict{}
		seen := map[string]bool{}
		for j := 1 + r.Intn(3); j > 0; j-- {
			key := pick(r, c10PercentStrings)
			if !seen[key] {
				seen[key] = true
				d.Pairs = append(d.Pairs, [2]term.Node{term.S(term.Lit(key)), term.S(term.Lit(j))})
			}
		}
		st = decl(term.G("Map", term.S(term.Named("String"))), term.Named("Int"), term.G("Values", d))
	case k == 9: // a raw string written as it is
		st = decl(term.Op(pick(r, []string{"`%d`", "`100% raw %%`", "`%\n%`", "`%!d(MISSING)`"})))
	case k == 10:
		st = decl(term.Lit(AdvString(r)))
	default:
		return g.SimpleDecl(i)
	}
	return st
}

// c10RichStmts: 1..4 rich declarations (large: 400..1600).
func c10RichStmts(r *rand.Rand, g *Gen, funcs, large bool) []*term.Stmt {
	n := 1 + r.Intn(4)
	if large {
		n = 400 + r.Intn(1200)
	}
	out := make([]*term.Stmt, n)
	for j := range out {
		out[j] = c10RichDecl(r, g, j, funcs)
	}
	return out
}

// c10Sprinkle inserts tokens of the rich alphabet into the statements of a tree at random
// positions (about one statement in three gets one); it returns how many it inserted.
func c10Sprinkle(r *rand.Rand, n term.Node, seen map[*term.Stmt]bool) int {
	count := 0
	switch x := n.(type) {
	case *term.Stmt:
		if x == nil || seen[x] {
			return 0
		}
		seen[x] = true
		for _, it := range x.Items {
			count += c10Sprinkle(r, it, seen)
		}
		if r.Intn(3) == 0 {
			var ins term.Node
			switch r.Intn(7) {
			case 0:
				ins = term.Op(pick(r, []string{"%", "%=", "&^", "%%"}))
			case 1, 2:
				ins = term.Lit(pick(r, c10PercentStrings))
			case 3:
				ins = c10RichComment(r)
			case 4:
				ins = term.LitRune('%')
			case 5:
				ins = term.Tag{KV: [][2]string{{"k", pick(r, c10PercentStrings)}}}
			default:
				ins = term.Id(pick(r, []string{"x", "n", "_"}))
			}
			k := r.Intn(len(x.Items) + 1)
			x.Items = append(x.Items[:k:k], append([]term.Node{ins}, x.Items[k:]...)...)
			count++
		}
	case *term.Group:
		for _, it := range x.Items {
			count += c10Sprinkle(r, it, seen)
		}
	case *term.Dict:
		for _, p := range x.Pairs {
			count += c10Sprinkle(r, p[1], seen)
		}
	}
	return count
}

// c10RichSettings: File settings whose texts carry % too.
func c10RichSettings(r *rand.Rand, f int) (hist.History, []string) {
	var h hist.History
	var tags []string
	if r.Intn(3) == 0 {
		h = append(h, hist.Op{Kind: "header", F: f, A: pick(r, []string{"Code generated: 100% machine made. DO NOT EDIT.", "%d", "generated by gen %v\nsecond line %", "/* 100% */"})})
		tags = append(tags, "percent-in=header")
	}
	if r.Intn(3) == 0 {
		h = append(h, hist.Op{Kind: "pkgcomment", F: f, A: pick(r, []string{"Package p formats with %d and %s.", "Package p is 100% generated.\n", "//Package p: %v"})})
		tags = append(tags, "percent-in=pkgcomment")
	}
	if r.Intn(5) == 0 {
		h = append(h, hist.Op{Kind: "cgo", F: f, A: pick(r, []string{"#include <stdio.h>\nstatic void p(int n) { printf(\"%d%%\\n\", n); }", "#define MOD(a, b) ((a) % (b))"})})
		tags = append(tags, "percent-in=cgo")
	}
	if r.Intn(6) == 0 {
		h = append(h, hist.Op{Kind: "canonical", F: f, A: pick(r, []string{"example.com/a%20b", "example.com/100%"})})
		tags = append(tags, "percent-in=canonical")
	}
	return h, tags
}

// c10HasPercent: some text of the history (literal, operator, identifier, comment, tag, setting)
// holds a '%'.  Measured on the serialised history: strings are hex atoms there, runes and bytes numbers.
func c10HasPercent(h hist.History) bool {
	line := h.Sexp()
	if strings.Contains(line, "(lr 37)") || strings.Contains(line, "(lby 37)") {
		return true
	}
	for _, atom := range strings.FieldsFunc(line, func(c rune) bool { return c == ' ' || c == '(' || c == ')' }) {
		if len(atom) > 1 && atom[0] == 'x' && len(atom)%2 == 1 {
			for i := 1; i+1 < len(atom); i += 2 {
				if atom[i] == '2' && atom[i+1] == '5' {
					return true
				}
			}
		}
	}
	return false
}

// richContent: the stream.  quick 10 x (3 tree kinds x 6 entry points x NoFormat), thorough 300 x.
func (p *c10) richContent(r *rand.Rand, t string) []*Case {
	var out []*Case
	reps := tier(t, 10, 300)
	for rep := 0; rep < reps; rep++ {
		for _, tree := range []string{"rich", "rich-invalid", "random-rich"} {
			for _, entry := range c10Entries {
				for _, nf := range []bool{false, true} {
					s := c10spec{tree: tree, entry: entry, nf: nf, warmup: r.Intn(8) == 0, large: tree == "rich" && r.Intn(24) == 0}
					if entry == "save" {
						s.target = pick(r, []string{"new", "existing"})
					} else if r.Intn(2) == 0 {
						s.wshape = pick(r, c10WShapes)
					}
					c := p.build(r, s, "rich-content")
					if c10HasPercent(c.Hist) {
						c.Tags = append(c.Tags, "percent-in-source")
					}
					out = append(out, c)
				}
			}
		}
	}
	return out
}

// writerShapes: the stream.  quick 2 x (5 tree kinds x 5 writer entry points x NoFormat x 5
// shapes), thorough 60 x.
func (p *c10) writerShapes(r *rand.Rand, t string) []*Case {
	var out []*Case
	reps := tier(t, 2, 60)
	for rep := 0; rep < reps; rep++ {
		for _, tree := range []string{"valid", "rich", "invalid", "badlit", "empty"} {
			for _, entry := range c10Entries {
				if entry == "save" || (tree == "empty" && (entry == "render" || strings.HasSuffix(entry, "-group"))) {
					continue
				}
				for _, nf := range []bool{false, true} {
					for _, shape := range c10WShapes {
						out = append(out, p.build(r, c10spec{tree: tree, entry: entry, nf: nf, wshape: shape, warmup: tree != "badlit" && r.Intn(6) == 0}, "writer-shapes"))
					}
				}
			}
		}
	}
	return out
}

// ---- stream large-writer-faults: output SIZE x writer fault ----
//
// The outputs of the streams above stay below 64 KiB (the large rich trees reach about 50 KB):
// an implementation that treats large outputs differently (block-wise writes, a buffered
// writer of its own, a size threshold) is never asked.  This stream crosses outputs of at least
// 70 KB, 200 KB and 1 MB (the lower bound is guaranteed by construction: the string literals of
// the tree alone are that long, and a quoted literal is never shorter than its value) with every
// writer entry point, NoFormat and formatted, and the writer shapes of c10WShapes plus
//
//	third-err   the third Write fails      (success with ONE call, as for second-err)
//	off-err:N   a writer with room for N bytes (N = 1, 4095, 65535, 65536, 65537, 100000, 131072,
//	            262144, 500000, always below the size of the output): the one Write that carries
//	            the output gets (N, err) back, and the error must be returned
//
// An implementation that hands over a large output in several calls shows in each of them: the
// shapes that fail on the first call must return the error whatever the size, and the shapes
// second-err / third-err / no fault require exactly one Write (c10Judge).  How the size comes
// about (tag size-by=): literals (3..40 declarations holding long string literals) or mixed
// (600..1500 rich declarations and literal padding up to the bound).
var c10BigSizes = []int{70 << 10, 200 << 10, 1 << 20}

var c10BigOffsets = []int{1, 4095, 65535, 65536, 65537, 100000, 131072, 262144, 500000}

func c10BigLit(r *rand.Rand, n int) string {
	alphabet := []string{"a", "b", "x", "0", " ", "%", "%d", "\"", "\\", "\n", "\t", "é", "日", "`", "/*", "//", "{", "}"}
	var b strings.Builder
	for b.Len() < n {
		w := pick(r, alphabet)
		for k := 1 + r.Intn(40); k > 0 && b.Len() < n; k-- {
			b.WriteString(w)
		}
	}
	return b.String()
}

// c10BigStmts: well-formed declarations whose rendered text is at least min bytes long.
func c10BigStmts(r *rand.Rand, g *Gen, min int, funcs bool) (sts []*term.Stmt, by string) {
	by = "literals"
	if r.Intn(3) == 0 {
		by = "mixed"
		for j, n := 0, 600+r.Intn(900); j < n; j++ {
			sts = append(sts, c10RichDecl(r, g, j, funcs))
		}
	}
	parts := 3 + r.Intn(38)
	for j := 0; j < parts; j++ {
		st := term.S(term.Named("Var"), term.Id(fmt.Sprintf("Big%d", j)), term.Op("="), term.Lit(c10BigLit(r, min/parts+1)))
		k := len(sts)
		if by == "mixed" {
			k = r.Intn(len(sts) + 1)
		}
		sts = append(sts[:k:k], append([]*term.Stmt{st}, sts[k:]...)...)
	}
	return sts, by
}

func c10SizeTag(n int) string {
	if n >= 1<<20 {
		return "size>=1MB"
	}
	return fmt.Sprintf("size>=%dKB", n>>10)
}

// largeWriterFaults: the stream.  quick: every entry point x NoFormat x (70 KB, 200 KB) with 3
// drawn shapes each + 1 MB x every entry point with 1 shape; thorough: 6 x (1 MB: once) the full
// cross product of sizes, entry points, NoFormat and all shapes (7) + 3 drawn offsets.
func (p *c10) largeWriterFaults(r *rand.Rand, t string) []*Case {
	var shapes []string
	shapes = append(shapes, c10WShapes...)
	shapes = append(shapes, "third-err", "none")
	var out []*Case
	one := func(size int, entry string, nf bool, shape string) {
		if shape == "off-err" {
			var offs []int
			for _, o := range c10BigOffsets {
				if o < size {
					offs = append(offs, o)
				}
			}
			shape = fmt.Sprintf("off-err:%d", offs[r.Intn(len(offs))])
		}
		s := c10spec{tree: "big", entry: entry, nf: nf, wshape: shape, big: size, warmup: r.Intn(10) == 0}
		if shape == "none" {
			s.wshape = ""
		}
		out = append(out, p.build(r, s, "large-writer-faults"))
	}
	entries := c10Entries[:len(c10Entries)-1] // the writer entry points (not save)
	if t != "thorough" {
		for _, size := range c10BigSizes[:2] {
			for _, entry := range entries {
				for _, nf := range []bool{false, true} {
					one(size, entry, nf, pick(r, []string{"zero-err", "part-err", "full-err"}))
					one(size, entry, nf, "off-err")
					one(size, entry, nf, pick(r, []string{"second-err", "third-err", "short-nil", "none"}))
				}
			}
		}
		for _, entry := range entries {
			one(c10BigSizes[2], entry, r.Intn(2) == 0, pick(r, append([]string{"off-err", "off-err"}, shapes...)))
		}
		return out
	}
	for rep := 0; rep < 6; rep++ {
		for _, size := range c10BigSizes {
			if size >= 1<<20 && rep > 0 {
				continue // 1 MB: once (every history line is held in memory, hex-encoded)
			}
			for _, entry := range entries {
				for _, nf := range []bool{false, true} {
					for _, shape := range shapes {
						one(size, entry, nf, shape)
					}
					for k := 0; k < 3; k++ {
						one(size, entry, nf, "off-err")
					}
				}
			}
		}
	}
	return out
}
