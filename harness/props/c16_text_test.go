package props

import (
	"math/rand"
	"testing"

	"verifharness/hist"
)

// The oracle on hand-made outputs of the alphabet stream: texts with format verbs, comment
// markers, runs of blanks and real block comments must be there unchanged.
func TestC16CheckHostileTexts(t *testing.T) {
	hd := "package p\n\n\n"
	pct := []C16KV{{`"%d items"`, `"count"`}, {`"100%"`, `"full"`}, {"n % k", `"slot"`}}
	url := []C16KV{{`"docs"`, `"https://example.org/docs"`}, {`"root"`, `"/* x */"`}}
	cmt := []C16KV{{"a", "1 /* x */"}, {"b /* k */", "2"}, {"c", "/* lead */ 3"}}
	one := []C16KV{{"a", "1 /* x */"}}
	lead := []C16KV{{"/* first */ a", "1"}, {"b", "2"}}
	tab := []struct {
		why  string
		src  string
		view string
		exp  []C16KV
		good bool
	}{
		{"format verbs kept", hd + "var _ = T {\n\"%d items\":\"count\",\n\"100%\":\"full\",\nn % k:\"slot\",\n}", "raw-file", pct, true},
		{"key used as a format (seed C16-r4m1)", hd + "var _ = T {\n\"%!d(MISSING) items\":\"count\",\n\"100%!\"(MISSING):\"full\",\nn %!k(MISSING):\"slot\",\n}", "raw-file", pct, false},
		{"one verb consumed", hd + "var _ = T {\n\"%d items\":\"count\",\n\"100\":\"full\",\nn % k:\"slot\",\n}", "raw-file", pct, false},
		{"format verbs, formatted", "T{\n\t\"%d items\": \"count\",\n\t\"100%\":     \"full\",\n\tn % k:      \"slot\",\n}", "fmt-expr", pct, true},
		{"format verbs, formatted, one changed", "T{\n\t\"%d items\": \"count\",\n\t\"100%%\":    \"full\",\n\tn % k:      \"slot\",\n}", "fmt-expr", pct, false},
		{"comment markers inside strings", hd + "var _ = T {\n\"docs\":\"https://example.org/docs\",\n\"root\":\"/* x */\",\n}", "raw-file", url, true},
		{"a string cut at // (seed C16-r4m2)", hd + "var _ = T {\n\"docs\":\"https:, //example.org/docs\"\n\"root\":\"/* x */\",\n}", "raw-file", url, false},
		{"comma moved in front of the marker, still parses", hd + "var _ = T {\n\"docs\":\"https:\", //example.org/docs\n\"root\":\"/* x */\",\n}", "raw-file", url, false},
		{"block comments chained to keys and values", hd + "var _ = T {\na:1 /* x */,\nb /* k */:2,\nc:/* lead */ 3,\n}", "raw-file", cmt, true},
		{"a chained comment is missing", hd + "var _ = T {\na:1,\nb /* k */:2,\nc:/* lead */ 3,\n}", "raw-file", cmt, false},
		{"a chained comment moved behind the comma", hd + "var _ = T {\na:1, /* x */\nb /* k */:2,\nc:/* lead */ 3,\n}", "raw-file", cmt, false},
		{"a chained comment moved to the other side of the colon", hd + "var _ = T {\na:1 /* x */,\nb:/* k */ 2,\nc:/* lead */ 3,\n}", "raw-file", cmt, false},
		{"block comments, formatted (gofmt moves them, tokens stay)", "T{\n\ta: 1, /* x */\n\tb /* k */ :/* lead */ 2,\n\tc: 3,\n}", "fmt-expr", []C16KV{{"a", "1 /* x */"}, {"b /* k */", "/* lead */ 2"}, {"c", "3"}}, true},
		{"one pair with a comment stays inline", hd + "var _ = T {a:1 /* x */}", "raw-file", one, true},
		{"one pair with a comment on a line of its own", hd + "var _ = T {\na:1 /* x */,\n}", "raw-file", one, false},
		{"a comment in front of the first key", hd + "var _ = T {\n/* first */ a:1,\nb:2,\n}", "raw-file", lead, true},
		{"blank runs kept", hd + "var _ = T {\"a  b\":\"  \"}", "raw-file", []C16KV{{`"a  b"`, `"  "`}}, true},
		{"blank runs collapsed (seed C12-r4m2)", hd + "var _ = T {\"a b\":\"  \"}", "raw-file", []C16KV{{`"a  b"`, `"  "`}}, false},
	}
	for _, c := range tab {
		msg := C16Check(c.src, c.view, c.exp)
		if c.good && msg != "" {
			t.Errorf("%s: rejected: %s", c.why, msg)
		}
		if !c.good && msg == "" {
			t.Errorf("%s: accepted", c.why)
		}
	}
}

// The stream renders what its own expectation says (on the implementation), hits every feature
// in keys and in values, and keeps line comments out.
func TestC16HostileTextStream(t *testing.T) {
	r := rand.New(rand.NewSource(7))
	p := c16{}
	tags := map[string]int{}
	for i := 0; i < 1500; i++ {
		c := c16TextCase(r, i)
		for _, tg := range c.Tags {
			tags[tg]++
		}
		if m := p.Oracle(c, hist.NewWorld().Exec(c.Hist)); m != "" {
			t.Fatalf("case %d %s: %s", i, c.Hist.Sexp(), m)
		}
	}
	for _, pos := range []string{"key:", "value:"} {
		for _, f := range []string{"percent", "slash-slash", "block-comment-marker", "blank-run", "real-comment"} {
			if tags[pos+f] < 20 {
				t.Errorf("feature %s%s in %d of 1500 cases", pos, f, tags[pos+f])
			}
		}
	}
	if tags["nested-hostile"] < 50 || tags["mode=plain"] < 50 || tags["pairs=1"] < 50 {
		t.Errorf("tags %v", tags)
	}
	for _, s := range c16tComments {
		if len(s) < 4 || s[:2] != "/*" || s[len(s)-2:] != "*/" {
			t.Errorf("comment %q is not a block comment", s)
		}
	}
}
