package props

import (
	"crypto/sha256"
	"fmt"
	"math/rand"
	"runtime"
	"sort"
	"strings"
	"sync"

	"verifharness/hist"
	"verifharness/term"
)

// C09: Files do not interfere: no hidden global state, safe to build concurrently.
//
// A *job* is an independent build+render of one File: all operations of the history that
// carry one file index (hist.Op.F).  A *job set* is one history over N = 6..24 file indices
// whose jobs are laid out one after another (job order = file index); the model predicts
// every job's bytes from that history.  The oracle re-executes the same jobs on the
// implementation alone, in other sequential orders, interleaved at operation granularity
// and concurrently (one goroutine and one hist.World per job) and requires every job's
// observations to be byte-identical in all of these runs.  The data-race half of the
// property is decided by a separate binary built with -race (harness/racejob, see
// c09race.go).  Stream "spellings" (c09_spell.go) adds job sets over paths that are spellings
// of one another and re-runs their jobs in fresh processes.  Stream "concurrent-save"
// (c09_save.go): independent Files saved by goroutines at the same time.  Streams "save-over"
// (independent Files saved one after the other to ONE name) and "failed-renders" (20..100 Files
// that fail in the formatter before an independent valid File renders) are in c09_over.go.
// Measurements that execute the implementation (NonTrivial, measured tags, the race run) are
// taken when a case is judged, never inside Generate (c09Lazy).
type c09 struct{}

func init() { Register(c09{}) }

func (c09) ID() string { return "C09" }

// c09Exec executes one history on the implementation in a fresh World.  It is a variable so
// that the tests can substitute an implementation with hidden global state.
var c09Exec = func(h hist.History) []hist.Obs {
	w := hist.NewWorld()
	if c09Maps != nil {
		w.Maps = c09Maps
	}
	return w.Exec(h)
}

// c09Maps: while non-nil, every World made by c09Exec uses this table of shared map objects
// (hist.Op.MapKey), so that jobs executed in separate Worlds - one after another or on
// goroutines - still hand ONE map object to ImportNames.  Set and reset by c09WithMaps only
// (stream shared-hint-map); nil for every other run: each World then has a table of its own.
var c09Maps *hist.MapTable

func c09WithMaps(t *hist.MapTable, run func()) {
	c09Maps = t
	defer func() { c09Maps = nil }()
	run()
}

// c09Lazy: a measurement that EXECUTES histories on the implementation (NonTrivial, measured
// tags).  It is not taken while the cases are generated but when the case is judged (first thing
// in Oracle; main reads Tags and NonTrivial after that): every execution of the implementation
// that can block or leak then happens inside a case of the main loop first, where the per-case
// hang guard reports it as a failing input with its history, and never inside Generate.
const c09LazyKey = "c09-measure"

func c09Lazy(c *Case, f func(c *Case)) *Case {
	if c.Meta == nil {
		c.Meta = map[string]interface{}{}
	}
	c.Meta[c09LazyKey] = f
	return c
}

// c09Measure takes the pending measurement of a case (once).
func c09Measure(c *Case) {
	if f, ok := c.Meta[c09LazyKey].(func(c *Case)); ok {
		delete(c.Meta, c09LazyKey)
		f(c)
	}
}

func c09ExecSafe(h hist.History) (obs []hist.Obs) {
	defer func() {
		if r := recover(); r != nil {
			obs = []hist.Obs{{Kind: "bad", Msg: fmt.Sprintf("panic outside a render: %v", r)}}
		}
	}()
	return c09Exec(h)
}

// ---- splitting histories and observations by file index ----

func c09Observes(kind string) bool {
	switch kind {
	case "render", "rcode", "rplain", "save", "imports":
		return true
	}
	return false
}

// C09Jobs splits a history into its jobs: the file indices in order of first appearance
// and, for each, the sub-history of the operations on that file (own order preserved).
func C09Jobs(h hist.History) (files []int, jobs map[int]hist.History) {
	jobs = map[int]hist.History{}
	for _, op := range h {
		if _, ok := jobs[op.F]; !ok {
			files = append(files, op.F)
		}
		jobs[op.F] = append(jobs[op.F], op)
	}
	return files, jobs
}

// c09Split distributes the observations of a run of h over the file indices.
func c09Split(h hist.History, obs []hist.Obs) (map[int][]hist.Obs, bool) {
	per := map[int][]hist.Obs{}
	i := 0
	for _, op := range h {
		if !c09Observes(op.Kind) {
			continue
		}
		if i >= len(obs) {
			return nil, false
		}
		per[op.F] = append(per[op.F], obs[i])
		i++
	}
	return per, i == len(obs)
}

// c09SameJob compares what one job showed in two runs: everything that is observable
// (kind, bytes, failure flag, number of Write calls, panic message, import table).
func c09SameJob(a, b []hist.Obs) string {
	if len(a) != len(b) {
		return fmt.Sprintf("%d observations against %d", len(a), len(b))
	}
	for i := range a {
		x, y := a[i], b[i]
		same := x.Kind == y.Kind && x.Msg == y.Msg && x.Out == y.Out && x.Failed == y.Failed && x.Writes == y.Writes && len(x.Imports) == len(y.Imports)
		if same {
			for k := range x.Imports {
				if x.Imports[k] != y.Imports[k] {
					same = false
				}
			}
		}
		if !same {
			return fmt.Sprintf("observation %d:\n   %s\n   %s", i, x, y)
		}
	}
	return ""
}

// C09Run is one named run of a job set: what every job showed.
type C09Run struct {
	Name string
	Per  map[int][]hist.Obs
}

// C09Agree is the decision of the oracle proper: every job shows the same in every run as
// in the baseline.  "" = all agree.
func C09Agree(files []int, base map[int][]hist.Obs, runs []C09Run) string {
	for _, run := range runs {
		for _, f := range files {
			got, ok := run.Per[f]
			if !ok {
				return fmt.Sprintf("run %q: job of file %d produced nothing", run.Name, f)
			}
			if d := c09SameJob(base[f], got); d != "" {
				return fmt.Sprintf("file %d differs between the sequential run in file order and run %q: %s", f, run.Name, d)
			}
		}
	}
	return ""
}

// C09RunConcurrent runs every job on its own goroutine with its own World (the jobs share
// no Code values and no harness state: whatever they share is jennifer's own), released
// together by a barrier, under the given GOMAXPROCS (0 = unchanged).
func C09RunConcurrent(files []int, jobs map[int]hist.History, procs int) map[int][]hist.Obs {
	if procs > 0 {
		old := runtime.GOMAXPROCS(procs)
		defer runtime.GOMAXPROCS(old)
	}
	res := make([][]hist.Obs, len(files))
	start := make(chan struct{})
	var wg sync.WaitGroup
	for i, f := range files {
		wg.Add(1)
		go func(i int, h hist.History) {
			defer wg.Done()
			<-start
			res[i] = c09ExecSafe(h)
		}(i, jobs[f])
	}
	close(start)
	wg.Wait()
	per := map[int][]hist.Obs{}
	for i, f := range files {
		per[f] = res[i]
	}
	return per
}

// c09Sequential runs the jobs one after another in the given order in ONE World.
func c09Sequential(order []int, jobs map[int]hist.History) (map[int][]hist.Obs, bool) {
	var h hist.History
	for _, f := range order {
		h = append(h, jobs[f]...)
	}
	return c09Split(h, c09ExecSafe(h))
}

// c09Merge draws a random interleaving of the jobs' operation lists (each job's own order
// preserved); every remaining operation is equally likely to come next.
func c09Merge(r *rand.Rand, files []int, jobs map[int]hist.History) hist.History {
	pos := map[int]int{}
	left := 0
	for _, f := range files {
		left += len(jobs[f])
	}
	var h hist.History
	for left > 0 {
		k := r.Intn(left)
		for _, f := range files {
			rest := len(jobs[f]) - pos[f]
			if k < rest {
				h = append(h, jobs[f][pos[f]])
				pos[f]++
				break
			}
			k -= rest
		}
		left--
	}
	return h
}

// c09Fresh copies a history so that no term node (hence no Code value) is shared with the
// original; sharing inside the copy mirrors sharing inside the original.
func c09Fresh(h hist.History) hist.History {
	memo := map[*term.Stmt]*term.Stmt{}
	var cp func(n term.Node) term.Node
	cp = func(n term.Node) term.Node {
		switch x := n.(type) {
		case *term.Stmt:
			if x == nil {
				return x
			}
			if s, ok := memo[x]; ok {
				return s
			}
			s := &term.Stmt{}
			memo[x] = s
			for _, it := range x.Items {
				s.Items = append(s.Items, cp(it))
			}
			return s
		case *term.Group:
			g := &term.Group{Method: x.Method, Opts: x.Opts, Path: x.Path, Name: x.Name}
			for _, it := range x.Items {
				g.Items = append(g.Items, cp(it))
			}
			return g
		case *term.Dict:
			d := &term.Dict{}
			for _, p := range x.Pairs {
				d.Pairs = append(d.Pairs, [2]term.Node{cp(p[0]), cp(p[1])})
			}
			return d
		}
		return n // tokens, tags, comments, nils are values
	}
	out := make(hist.History, len(h))
	for i, op := range h {
		if op.Code != nil {
			op.Code = cp(op.Code)
		}
		out[i] = op
	}
	return out
}

// ---- generation ----

// Families of paths that compete for one base name (all members are in PathPool).
var c09Families = [][]string{
	{"math/rand", "crypto/rand", "a.b/rand", "x.y/rand"},
	{"a.b/d", "c.b/d", "e.f/d", "x.y/d1", "x.y/pkg_d"},
	{"fmt", "a.b/fmt"},
	{"os", "x.y/os"},
	{"text/template", "html/template"},
	{"net/http/pprof", "runtime/pprof"},
	{"go/scanner", "text/scanner"},
	{"a.b/x", "c.d/x", "e.f/x", "a.b/x1", "a/é9x"}, // é9x -> 9x -> x
	{"a/123", "a/-", "a//", "/", "x.y/pkg", "a.b/9_", "x.y/__"}, // all guessed as "pkg"
}

var c09Hints = []string{"rand", "rand1", "d", "d1", "x", "x1", "fmt", "os", "pkg", "pprof", "template", "scanner"}

func c09Pool(r *rand.Rand) []string {
	seen := map[string]bool{}
	var pool []string
	add := func(p string) {
		if !seen[p] {
			seen[p] = true
			pool = append(pool, p)
		}
	}
	for _, i := range r.Perm(len(c09Families))[:2+r.Intn(3)] {
		for _, p := range c09Families[i] {
			add(p)
		}
	}
	for i := r.Intn(4); i > 0; i-- {
		add(pick(r, PathPool))
	}
	return pool
}

func c09Some(r *rand.Rand, pool []string, n int) []string {
	if n > len(pool) {
		n = len(pool)
	}
	var out []string
	for _, i := range r.Perm(len(pool))[:n] {
		out = append(out, pool[i])
	}
	return out
}

func c09Body(r *rand.Rand, kind string, paths []string, n int) []*term.Stmt {
	switch kind {
	case "refs":
		var refs []int
		for i := range paths {
			for k := 0; k < 1+r.Intn(2); k++ {
				refs = append(refs, i)
			}
		}
		r.Shuffle(len(refs), func(a, b int) { refs[a], refs[b] = refs[b], refs[a] })
		// no Dict keys that are Quals (recorded finding: map-order registration)
		return RefBody(r, paths, refs, nil)
	case "decls":
		g := &Gen{R: r, Paths: paths}
		var out []*term.Stmt
		for j := 0; j < n; j++ {
			out = append(out, g.SimpleDecl(j))
		}
		return out
	default: // random trees: usually not valid Go; the observation is then the format error
		g := &Gen{R: r, Paths: paths, MaxDepth: 2 + r.Intn(2), NilRate: 8, NoBad: true}
		var out []*term.Stmt
		for j := 0; j < n; j++ {
			out = append(out, g.Stmt(0))
		}
		return out
	}
}

// c09Job draws one job over file index f: constructor, settings and hints over colliding
// paths, a body of qualified references, a render, sometimes a late hint / more body and a
// second render, sometimes a fragment render with the File, and the final import table.
func c09Job(r *rand.Rand, f int, pool []string) (h hist.History, feats map[string]bool) {
	feats = map[string]bool{}
	paths := c09Some(r, pool, 2+r.Intn(5))
	h, _ = FileSetup(r, f, SetupOpts{Paths: paths, HintPool: c09Hints})
	if r.Intn(3) == 0 {
		h = append(h, hist.Op{Kind: pick(r, []string{"importname", "importalias"}), F: f, A: pick(r, paths), B: pick(r, c09Hints)})
	}
	kind := pick(r, []string{"refs", "refs", "decls", "decls", "random"})
	feats["body="+kind] = true
	for _, st := range c09Body(r, kind, paths, 1+r.Intn(4)) {
		h = append(h, hist.Op{Kind: "fadd", F: f, Code: st})
	}
	h = append(h, hist.Op{Kind: "noformat", F: f, Flag: r.Intn(3) == 0})
	h = append(h, hist.Op{Kind: "render", F: f})
	if r.Intn(3) == 0 {
		feats["second-render"] = true
		if r.Intn(2) == 0 {
			h = append(h, hist.Op{Kind: pick(r, []string{"importname", "importalias"}), F: f, A: pick(r, pool), B: pick(r, c09Hints)})
		}
		more := c09Some(r, pool, 1+r.Intn(3))
		k2 := kind
		if k2 == "random" {
			k2 = "decls"
		}
		for _, st := range c09Body(r, k2, more, 1+r.Intn(2)) {
			h = append(h, hist.Op{Kind: "fadd", F: f, Code: st})
		}
		h = append(h, hist.Op{Kind: "render", F: f})
	}
	if r.Intn(5) == 0 {
		feats["rcode"] = true
		g := &Gen{R: r, Paths: c09Some(r, pool, 2)}
		h = append(h, hist.Op{Kind: "rcode", F: f, Code: g.SimpleDecl(0)})
	}
	h = append(h, hist.Op{Kind: "imports", F: f})
	for _, op := range h {
		switch op.Kind {
		case "prefix":
			feats["prefix"] = true
		case "importname", "importalias", "importnames":
			feats["hints"] = true
		case "newfilepath", "newfilepathname":
			feats["localpath"] = true
		case "anon":
			feats["anon"] = true
		case "cgo":
			feats["cgo"] = true
		}
	}
	return h, feats
}

// c09Tables runs every job alone and returns its final import table (path -> name).
func c09Tables(files []int, jobs map[int]hist.History) map[int]map[string]string {
	out := map[int]map[string]string{}
	for _, f := range files {
		obs := c09ExecSafe(c09Fresh(jobs[f]))
		t := map[string]string{}
		for i := len(obs) - 1; i >= 0; i-- {
			if obs[i].Kind == "imports" {
				for _, im := range obs[i].Imports {
					t[im.Path] = im.Name
				}
				break
			}
		}
		out[f] = t
	}
	return out
}

// c09Collisions measures, on the import tables of the jobs run alone, the two ways in
// which leaked naming state would show: (a) two jobs give the same name to two different
// paths (a table shared between them would have had to rename one of them), (b) two jobs
// give different names to the same path (a cache keyed by the path alone would be wrong).
func c09Collisions(files []int, tables map[int]map[string]string) (sameName, samePathDiffName int) {
	for i, a := range files {
		for _, b := range files[i+1:] {
			hitA, hitB := false, false
			for p, n := range tables[a] {
				if n == "_" || n == "." || n == "" {
					continue
				}
				for q, m := range tables[b] {
					if p != q && n == m {
						hitA = true
					}
					if p == q && n != m && m != "_" {
						hitB = true
					}
				}
			}
			if hitA {
				sameName++
			}
			if hitB {
				samePathDiffName++
			}
		}
	}
	return
}

func c09Bucket(n int) string {
	switch {
	case n < 12:
		return "6-11"
	case n < 18:
		return "12-17"
	}
	return "18-24"
}

// c09Orders: number of extra sequential orders / interleavings / concurrent runs the oracle
// tries for one job set.
func c09Orders(t string) (orders, merges, conc int) {
	if t == "thorough" {
		return 4, 3, 3
	}
	return 3, 2, 2
}

// C09JobSets generates the job sets of one run from a seed (used by Generate and, with the
// same seed, by the race-detector binary harness/racejob).
//
// NonTrivial (measured on the implementation, every job run alone): at least two jobs of
// the set give the same import name to two different paths, i.e. their import tables would
// collide if naming state leaked from one File to another.
func C09JobSets(seed int64, t string) []*Case {
	r := rand.New(rand.NewSource(seed))
	n := tier(t, 40, 2000)
	orders, merges, conc := c09Orders(t)
	var out []*Case
	for i := 0; i < n; i++ {
		nj := 6 + r.Intn(19)
		pool := c09Pool(r)
		var h hist.History
		all := map[string]int{}
		for f := 0; f < nj; f++ {
			jh, feats := c09Job(r, f, pool)
			h = append(h, jh...)
			for k := range feats {
				all[k]++
			}
		}
		files, jobs := C09Jobs(h)
		tags := []string{"jobs=" + c09Bucket(nj), fmt.Sprintf("orders=%d+%d interleaved+%d concurrent", orders+1, merges, conc)}
		var ks []string
		for k := range all {
			ks = append(ks, k)
		}
		sort.Strings(ks)
		for _, k := range ks {
			tags = append(tags, "some-job:"+k)
		}
		out = append(out, c09Lazy(&Case{Hist: h, Stream: "jobs", Tags: tags,
			Meta: map[string]interface{}{"seed": r.Int63(), "tier": t}}, func(c *Case) {
			same, diff := c09Collisions(files, c09Tables(files, jobs))
			c.NonTrivial = same > 0
			c.Meta["colliding-pairs"] = same
			c.Tags = append(c.Tags, fmt.Sprintf("collide-name=%v", same > 0), fmt.Sprintf("samepath-diffname=%v", diff > 0))
		}))
	}
	return out
}

// C09Digest identifies a list of job sets (to check that racejob regenerated the same ones).
func C09Digest(cs []*Case) string {
	hh := sha256.New()
	for _, c := range cs {
		hh.Write([]byte(c.Hist.Sexp()))
		hh.Write([]byte{'\n'})
	}
	return fmt.Sprintf("%x", hh.Sum(nil))[:32]
}

// c09SharedCase: the sharing clause.  One or two *term.Stmt (the Builder maps one node to
// one *jen.Statement, so the Files really share the Code values) are added to two or three
// Files with different prefix / hints / local path, as a whole statement or as an item
// inside a File's own statement; the Files are rendered one after another, some of them
// twice.
//
// NonTrivial (measured): some path referenced by the shared code ends up with different
// names in the import tables of two of the Files (or is imported by one and local to
// another), i.e. the shared code really has to render differently per File.
func c09SharedCase(r *rand.Rand, t string) *Case {
	pool := c09Pool(r)
	k := 2 + r.Intn(2)
	spaths := c09Some(r, pool, 1+r.Intn(3))
	// shared values
	type sh struct {
		st   *term.Stmt
		expr bool // usable as an expression inside another statement
	}
	var shared []sh
	for i := 0; i < 1+r.Intn(2); i++ {
		switch r.Intn(3) {
		case 0: // expression: q.V(q.W, 1)
			args := []term.Node{term.S(term.Lit(i))}
			for _, p := range spaths {
				args = append(args, term.S(term.Qual(p, fmt.Sprintf("A%d", i))))
			}
			shared = append(shared, sh{term.S(term.Qual(spaths[0], fmt.Sprintf("F%d", i)), term.G("Call", args...)), true})
		case 1: // declaration with nested positions (switch/case blocks, dict values, struct)
			var refs []int
			for j := range spaths {
				refs = append(refs, j, j)
			}
			for _, st := range RefBody(r, spaths, refs, nil) {
				shared = append(shared, sh{st, false})
			}
		default:
			g := &Gen{R: r, Paths: spaths}
			shared = append(shared, sh{g.SimpleDecl(i), false})
		}
	}
	var h hist.History
	var setups, bodies [][]hist.Op
	for f := 0; f < k; f++ {
		// the shared paths are offered as local path and as hint targets
		s, _ := FileSetup(r, f, SetupOpts{Paths: append(append([]string{}, spaths...), c09Some(r, pool, 2)...), HintPool: c09Hints})
		if r.Intn(2) == 0 {
			s = append(s, hist.Op{Kind: pick(r, []string{"importname", "importalias"}), F: f, A: pick(r, spaths), B: pick(r, append([]string{"."}, c09Hints...))})
		}
		s = append(s, hist.Op{Kind: "noformat", F: f, Flag: r.Intn(3) == 0})
		setups = append(setups, s)
		var b []hist.Op
		own := c09Body(r, "decls", c09Some(r, pool, 2), 1+r.Intn(2))
		if r.Intn(2) == 0 {
			b = append(b, hist.Op{Kind: "fadd", F: f, Code: own[0]})
		}
		for _, s := range shared {
			if s.expr && r.Intn(2) == 0 {
				b = append(b, hist.Op{Kind: "fadd", F: f, Code: term.S(term.Named("Var"), term.Id("_"), term.Op("="), s.st)})
			} else if s.expr {
				b = append(b, hist.Op{Kind: "fadd", F: f, Code: term.S(term.Named("Var"), term.Id("_"), term.Op("="), term.Id("g"), term.G("Call", s.st, s.st))})
			} else {
				b = append(b, hist.Op{Kind: "fadd", F: f, Code: s.st})
			}
		}
		if r.Intn(2) == 0 {
			b = append(b, hist.Op{Kind: "fadd", F: f, Code: own[len(own)-1]})
		}
		bodies = append(bodies, b)
	}
	for _, s := range setups {
		h = append(h, s...)
	}
	// bodies in random interleaving, then renders one after another in random order
	jb := map[int]hist.History{}
	var fs []int
	for f := 0; f < k; f++ {
		jb[f] = bodies[f]
		fs = append(fs, f)
	}
	h = append(h, c09Merge(r, fs, jb)...)
	var renders []int
	for f := 0; f < k; f++ {
		renders = append(renders, f)
		if r.Intn(3) == 0 {
			renders = append(renders, f)
		}
	}
	r.Shuffle(len(renders), func(a, b int) { renders[a], renders[b] = renders[b], renders[a] })
	for _, f := range renders {
		h = append(h, hist.Op{Kind: "render", F: f})
	}
	for f := 0; f < k; f++ {
		h = append(h, hist.Op{Kind: "imports", F: f})
	}
	files, jobs := C09Jobs(h)
	measure := func(c *Case) {
		tables := c09Tables(files, jobs)
		differs := false
		for _, p := range spaths {
			for _, f := range files[1:] {
				if tables[f][p] != tables[files[0]][p] {
					differs = true
				}
			}
		}
		c.NonTrivial = differs
		c.Tags = append(c.Tags, fmt.Sprintf("renders-differently=%v", differs))
	}
	feats := map[string]bool{}
	for _, op := range h {
		switch op.Kind {
		case "prefix":
			feats["prefix"] = true
		case "importname", "importalias", "importnames":
			feats["hints"] = true
			if op.B == "." {
				feats["dot-hint"] = true
			}
		case "newfilepath", "newfilepathname":
			feats["localpath"] = true
			for _, p := range spaths {
				if p == op.A {
					feats["shared-path-is-local"] = true
				}
			}
		}
	}
	tags := []string{fmt.Sprintf("files=%d", k), fmt.Sprintf("shared-stmts=%d", len(shared)), fmt.Sprintf("renders=%d", len(renders))}
	var ks []string
	for f := range feats {
		ks = append(ks, f)
	}
	sort.Strings(ks)
	tags = append(tags, ks...)
	return c09Lazy(&Case{Hist: h, Stream: "shared", Tags: tags, Meta: map[string]interface{}{"seed": r.Int63(), "tier": t}}, measure)
}

func (c09) Generate(r *rand.Rand, t string) []*Case {
	seed := r.Int63()
	sets := C09JobSets(seed, t)
	// stream failed-renders (c09_over.go) comes first, from a seed of its own
	out := c09FailedCases(rand.New(rand.NewSource(seed^0xfa11ed)), t)
	out = append(out, sets...)
	n := tier(t, 300, 20000)
	for i := 0; i < n; i++ {
		out = append(out, c09SharedCase(r, t))
	}
	out = append(out, c09RaceCase(seed, t, sets))
	// added after the older streams so that their draws are unchanged
	n = tier(t, 150, 6000)
	for i := 0; i < n; i++ {
		out = append(out, c09SharedMapCase(r, t))
	}
	// stream spellings (c09_spell.go): a seed of its own; the fresh-process children start now
	// and run while this process works through the other streams
	spellSeed := seed ^ 0x5be11
	if ChildExe != "" {
		c09FreshProcs = c09StartFresh(tier(t, 3, 6), t, spellSeed)
	}
	for _, c := range C09SpellSets(spellSeed, t) {
		c09Lazy(c, c09SpellMeasure)
		if c09FreshProcs != nil {
			c.Tags = append(c.Tags, fmt.Sprintf("fresh-process-orders=%d", len(c09FreshProcs.Runs)))
		}
		out = append(out, c)
	}
	// stream concurrent-save (c09_save.go); drawn last
	out = append(out, c09SaveCases(r, t)...)
	// stream save-over (c09_over.go); drawn after everything else
	out = append(out, c09OverCases(r, t)...)
	return out
}

// Compare: the full projection, job by job (a panic inside one job ends the comparison of
// that job only; no generated job is expected to panic).
func (c09) Compare(c *Case, exp, got []hist.Obs) string {
	pe, ok1 := c09Split(c.Hist, exp)
	pg, ok2 := c09Split(c.Hist, got)
	if !ok1 || !ok2 {
		return CompareAll(exp, got)
	}
	files, _ := C09Jobs(c.Hist)
	for _, f := range files {
		if d := CompareAll(pe[f], pg[f]); d != "" {
			return fmt.Sprintf("file %d: %s", f, d)
		}
	}
	return ""
}

func (c09) Oracle(c *Case, got []hist.Obs) string {
	c09Measure(c)
	switch c.Stream {
	case "save-over":
		return c09OverOracle(c, got)
	case "failed-renders":
		return c09FailedOracle(c, got)
	case "race":
		return c09RaceOracle(c)
	case "shared":
		return c09SharedOracle(c, got)
	case "shared-hint-map":
		return c09SharedMapOracle(c, got)
	case "spellings":
		return c09SpellOracle(c, got)
	case "concurrent-save":
		return c09SaveOracle(c, got)
	}
	return c09JobsOracle(c, got)
}

func c09Seed(c *Case) int64 {
	if s, ok := c.Meta["seed"].(int64); ok {
		return s
	}
	return 1
}

// c09JobsOracle: frame (every job alone), other sequential orders, interleavings at
// operation granularity, goroutines.
func c09JobsOracle(c *Case, got []hist.Obs) string {
	files, jobs := C09Jobs(c.Hist)
	base, ok := c09Split(c.Hist, got)
	if !ok {
		return fmt.Sprintf("%d observations for a history that makes %d", len(got), c09CountObs(c.Hist))
	}
	t, _ := c.Meta["tier"].(string)
	orders, merges, conc := c09Orders(t)
	r := rand.New(rand.NewSource(c09Seed(c)))
	var runs []C09Run
	// every job alone, fresh World
	alone := map[int][]hist.Obs{}
	for _, f := range files {
		alone[f] = c09ExecSafe(jobs[f])
	}
	runs = append(runs, C09Run{"every job alone", alone})
	// other sequential orders in one World: reversed, then random
	for i := 0; i < orders; i++ {
		ord := append([]int{}, files...)
		name := "reverse order"
		if i == 0 {
			for a, b := 0, len(ord)-1; a < b; a, b = a+1, b-1 {
				ord[a], ord[b] = ord[b], ord[a]
			}
		} else {
			r.Shuffle(len(ord), func(a, b int) { ord[a], ord[b] = ord[b], ord[a] })
			name = fmt.Sprintf("order %v", ord)
		}
		per, ok := c09Sequential(ord, jobs)
		if !ok {
			return "run in " + name + ": wrong number of observations"
		}
		runs = append(runs, C09Run{name, per})
	}
	for i := 0; i < merges; i++ {
		m := c09Merge(r, files, jobs)
		per, ok := c09Split(m, c09ExecSafe(m))
		if !ok {
			return "interleaved run: wrong number of observations"
		}
		runs = append(runs, C09Run{fmt.Sprintf("interleaving #%d at operation granularity", i+1), per})
	}
	for i := 0; i < conc; i++ {
		procs := 0
		if i > 0 {
			procs = 1 + r.Intn(16)
		}
		runs = append(runs, C09Run{fmt.Sprintf("goroutines #%d (GOMAXPROCS %d, 0 = default)", i+1, procs), C09RunConcurrent(files, jobs, procs)})
	}
	return C09Agree(files, base, runs)
}

func c09CountObs(h hist.History) int {
	n := 0
	for _, op := range h {
		if c09Observes(op.Kind) {
			n++
		}
	}
	return n
}

// c09SharedOracle: every File shows exactly what the same File shows when it is built
// alone from fresh copies of the shared statements; and other interleavings of the same
// per-File operation lists (i.e. other orders of adding and rendering, sharing kept) show
// the same.
func c09SharedOracle(c *Case, got []hist.Obs) string {
	files, jobs := C09Jobs(c.Hist)
	base, ok := c09Split(c.Hist, got)
	if !ok {
		return fmt.Sprintf("%d observations for a history that makes %d", len(got), c09CountObs(c.Hist))
	}
	r := rand.New(rand.NewSource(c09Seed(c)))
	alone := map[int][]hist.Obs{}
	for _, f := range files {
		alone[f] = c09ExecSafe(c09Fresh(jobs[f]))
	}
	runs := []C09Run{{"the File built alone from fresh copies of the shared statements", alone}}
	for i := 0; i < 2; i++ {
		m := c09Merge(r, files, jobs)
		per, ok := c09Split(m, c09ExecSafe(m))
		if !ok {
			return "interleaved run: wrong number of observations"
		}
		runs = append(runs, C09Run{fmt.Sprintf("interleaving #%d (Code values still shared)", i+1), per})
	}
	return C09Agree(files, base, runs)
}

// ---- stream shared-hint-map: one map object passed to ImportNames of several Files ----

// c09SharedMapCase: generators that emit many files commonly pass ONE map[string]string to
// ImportNames of all of them.  N = 3..6 Files (constructor, prefix, anon, NoFormat drawn per
// File; 1 in 5 has an ImportName/ImportAlias before) receive the same map object (2..5 hints
// over colliding paths; hist.Op.MapKey "shared") as their first ImportNames call.  Some of
// them are built and rendered right away.  Then ONE File (A) gets a second ImportNames call
// with a fresh small map that names an EXTRA path not in the shared map (in 1/3 also an
// ImportName/ImportAlias for a second extra path), then the other bodies are added in a
// random interleaving; another File (B, and 1/3 of the others) references the extra
// path(s) through Qual; renders in random order (1/4 twice), import tables.
//
// NonTrivial (measured on the implementation): B built alone shows something else than B
// built alone with A's late hints applied to it as well, i.e. a hint of A written through to
// the shared object would be visible in B.
func c09SharedMapCase(r *rand.Rand, t string) *Case {
	pool := c09Pool(r)
	n := 3 + r.Intn(4)
	k := 2 + r.Intn(4)
	if k > len(pool)-2 {
		k = len(pool) - 2
	}
	mp := c09Some(r, pool, k)
	inMap := map[string]bool{}
	var pairs [][2]string
	for _, p := range mp {
		inMap[p] = true
		pairs = append(pairs, [2]string{p, pick(r, c09Hints)})
	}
	var rest []string
	for _, p := range pool {
		if !inMap[p] {
			rest = append(rest, p)
		}
	}
	ex := c09Some(r, rest, 2)
	extra, extra2 := ex[0], ex[1]
	a := r.Intn(n)
	b := (a + 1 + r.Intn(n-1)) % n
	feats := map[string]bool{}
	qref := func(p, name string) *term.Stmt {
		return term.S(term.Named("Var"), term.Id("_"), term.Op("="), term.Qual(p, name))
	}

	var h hist.History
	nf := make([]bool, n)
	for f := 0; f < n; f++ {
		switch r.Intn(4) {
		case 0, 1:
			h = append(h, hist.Op{Kind: "newfile", F: f, A: "p"})
		case 2:
			local := pick(r, SafeLocal)
			if q := pick(r, pool); safeLocal[q] {
				local = q
			}
			for local == extra || local == extra2 { // the extra paths are imported by every File
				local = pick(r, SafeLocal)
			}
			h = append(h, hist.Op{Kind: "newfilepath", F: f, A: local})
			feats["localpath"] = true
		default:
			local := pick(r, PathPool)
			if q := pick(r, pool); r.Intn(2) == 0 {
				local = q
			}
			for local == extra || local == extra2 {
				local = pick(r, PathPool)
			}
			h = append(h, hist.Op{Kind: "newfilepathname", F: f, A: local, B: "q"})
			feats["localpath"] = true
		}
		if r.Intn(4) == 0 {
			h = append(h, hist.Op{Kind: "prefix", F: f, A: pick(r, prefixPool)})
			feats["prefix"] = true
		}
		if r.Intn(5) == 0 {
			h = append(h, hist.Op{Kind: "anon", F: f, Strs: []string{pick(r, pool)}})
			feats["anon"] = true
		}
		if r.Intn(5) == 0 {
			h = append(h, hist.Op{Kind: pick(r, []string{"importname", "importalias"}), F: f, A: pick(r, pool), B: pick(r, c09Hints)})
			feats["hint-before-shared-map"] = true
		}
		h = append(h, hist.Op{Kind: "importnames", F: f, Pairs: pairs, MapKey: "shared"})
		nf[f] = r.Intn(3) == 0
	}
	body := func(f int) hist.History {
		var out hist.History
		paths := append(c09Some(r, mp, 1+r.Intn(len(mp))), c09Some(r, pool, r.Intn(3))...)
		for _, st := range c09Body(r, pick(r, []string{"refs", "decls"}), paths, 1+r.Intn(3)) {
			out = append(out, hist.Op{Kind: "fadd", F: f, Code: st})
		}
		return out
	}
	rendered := map[int]bool{}
	// some Files (never B) are complete before A's second call
	for f := 0; f < n; f++ {
		if f != b && r.Intn(3) == 0 {
			h = append(h, body(f)...)
			h = append(h, hist.Op{Kind: "noformat", F: f, Flag: nf[f]}, hist.Op{Kind: "render", F: f})
			rendered[f] = true
			feats["render-before-second-call"] = true
		}
	}
	// A's second ImportNames call: a fresh small map naming the extra path
	second := [][2]string{{extra, pick(r, c09Hints)}}
	if r.Intn(3) == 0 {
		second = append(second, [2]string{pick(r, mp), pick(r, c09Hints)}) // also overrides a shared hint, for A only
		feats["second-call-overrides-shared-hint"] = true
	}
	h = append(h, hist.Op{Kind: "importnames", F: a, Pairs: second, MapKey: "second"})
	extras := []string{extra}
	if r.Intn(3) == 0 {
		h = append(h, hist.Op{Kind: pick(r, []string{"importname", "importalias"}), F: a, A: extra2, B: pick(r, c09Hints)})
		extras = append(extras, extra2)
		feats["late-importname-too"] = true
	}
	jb := map[int]hist.History{}
	var fs []int
	for f := 0; f < n; f++ {
		fs = append(fs, f)
		if !rendered[f] || r.Intn(2) == 0 {
			jb[f] = body(f)
		}
		if f == a || f == b || r.Intn(3) == 0 {
			for i, p := range extras {
				jb[f] = append(jb[f], hist.Op{Kind: "fadd", F: f, Code: qref(p, fmt.Sprintf("E%d", i))})
			}
		}
	}
	h = append(h, c09Merge(r, fs, jb)...)
	var renders []int
	for f := 0; f < n; f++ {
		renders = append(renders, f)
		if r.Intn(4) == 0 {
			renders = append(renders, f)
		}
	}
	r.Shuffle(len(renders), func(i, j int) { renders[i], renders[j] = renders[j], renders[i] })
	for _, f := range renders {
		h = append(h, hist.Op{Kind: "noformat", F: f, Flag: nf[f]}, hist.Op{Kind: "render", F: f})
	}
	for f := 0; f < n; f++ {
		h = append(h, hist.Op{Kind: "imports", F: f})
	}
	// measured: B built alone, against B built alone with A's late hints applied to it too
	// right after the shared map (what B would see if A's calls wrote through to the object)
	_, jobs := C09Jobs(h)
	var late, leaked hist.History
	for _, op := range jobs[a] {
		if op.MapKey == "shared" {
			late = nil
			continue
		}
		if op.Kind == "importnames" || op.Kind == "importname" || op.Kind == "importalias" {
			op.F, op.MapKey = b, ""
			late = append(late, op)
		}
	}
	for _, op := range jobs[b] {
		leaked = append(leaked, op)
		if op.MapKey == "shared" {
			leaked = append(leaked, late...)
		}
	}
	measure := func(c *Case) {
		differs := c09SameJob(c09ExecSafe(c09Fresh(jobs[b])), c09ExecSafe(c09Fresh(leaked))) != ""
		c.NonTrivial = differs
		c.Tags = append(c.Tags, fmt.Sprintf("leak-would-show=%v", differs))
	}
	tags := []string{"shared-hint-map", fmt.Sprintf("files=%d", n), fmt.Sprintf("hint-map-files=%d", n), fmt.Sprintf("map-entries=%d", len(pairs))}
	var ks []string
	for f := range feats {
		ks = append(ks, f)
	}
	sort.Strings(ks)
	tags = append(tags, ks...)
	return c09Lazy(&Case{Hist: h, Stream: "shared-hint-map", Tags: tags, Meta: map[string]interface{}{"seed": r.Int63(), "tier": t}}, measure)
}

// c09MapsIntact: every map object handed to ImportNames still holds exactly the entries it
// was made with (the caller's map must not be written to).
func c09MapsIntact(h hist.History, t *hist.MapTable) string {
	seen := map[string]bool{}
	for _, op := range h {
		if op.Kind != "importnames" || op.MapKey == "" || seen[op.MapKey] {
			continue
		}
		seen[op.MapKey] = true
		m := t.Lookup(op.MapKey)
		if m == nil {
			return fmt.Sprintf("the map %q was never handed to ImportNames", op.MapKey)
		}
		want := map[string]string{}
		for _, p := range op.Pairs {
			want[p[0]] = p[1]
		}
		bad := len(m) != len(want)
		for k, v := range want {
			if got, ok := m[k]; !ok || got != v {
				bad = true
			}
		}
		if bad {
			return fmt.Sprintf("the caller's map %q was modified by ImportNames or by a later call:\n   passed %v\n   now    %v", op.MapKey, want, m)
		}
	}
	return ""
}

// c09SharedMapOracle: every File shows exactly what the same File shows when it is built
// alone (fresh World, hence a map object of its own); the same holds for the history run
// again, the jobs in reverse order, two random interleavings (one World, one map object for
// all Files) and - only when all of these agreed and left the map untouched, so that a
// writer to the map cannot crash the process - the jobs on goroutines in separate Worlds
// that share the object; after every run the caller's maps hold exactly their entries.
func c09SharedMapOracle(c *Case, got []hist.Obs) string {
	files, jobs := C09Jobs(c.Hist)
	base, ok := c09Split(c.Hist, got)
	if !ok {
		return fmt.Sprintf("%d observations for a history that makes %d", len(got), c09CountObs(c.Hist))
	}
	r := rand.New(rand.NewSource(c09Seed(c)))
	alone := map[int][]hist.Obs{}
	for _, f := range files {
		alone[f] = c09ExecSafe(jobs[f])
	}
	if d := C09Agree(files, base, []C09Run{{"the File built alone (a map object of its own)", alone}}); d != "" {
		return d
	}
	type shared struct {
		name string
		h    hist.History
	}
	var rev hist.History
	for i := len(files) - 1; i >= 0; i-- {
		rev = append(rev, jobs[files[i]]...)
	}
	runs := []shared{{"the same history again (one map object for all Files)", c.Hist}, {"jobs in reverse order (one map object for all Files)", rev}}
	for i := 0; i < 2; i++ {
		runs = append(runs, shared{fmt.Sprintf("interleaving #%d (one map object for all Files)", i+1), c09Merge(r, files, jobs)})
	}
	for _, run := range runs {
		tbl := hist.NewMapTable()
		var obs []hist.Obs
		c09WithMaps(tbl, func() { obs = c09ExecSafe(run.h) })
		per, ok := c09Split(run.h, obs)
		if !ok {
			return "run " + run.name + ": wrong number of observations"
		}
		if d := C09Agree(files, base, []C09Run{{run.name, per}}); d != "" {
			return d
		}
		if d := c09MapsIntact(run.h, tbl); d != "" {
			return "run " + run.name + ": " + d
		}
	}
	// goroutines: the objects exist before the jobs start, the jobs only read them
	tbl := hist.NewMapTable()
	for _, op := range c.Hist {
		if op.Kind == "importnames" && op.MapKey != "" {
			tbl.Get(op.MapKey, op.Pairs)
		}
	}
	var per map[int][]hist.Obs
	c09WithMaps(tbl, func() { per = C09RunConcurrent(files, jobs, 0) })
	name := "goroutines, separate Worlds, one map object for all Files"
	if d := C09Agree(files, base, []C09Run{{name, per}}); d != "" {
		return d
	}
	if d := c09MapsIntact(c.Hist, tbl); d != "" {
		return "run " + name + ": " + d
	}
	return ""
}

// Shrink: drop a whole job, drop one added statement, drop one setting.
func (c09) Shrink(c *Case) []*Case {
	if c.Stream == "race" {
		return nil
	}
	if c.Stream == "concurrent-save" {
		return c09SaveShrink(c)
	}
	if c.Stream == "failed-renders" {
		return nil
	}
	if c.Stream == "save-over" {
		return c09OverShrink(c)
	}
	var out []*Case
	mk := func(h hist.History) {
		out = append(out, &Case{Hist: h, Stream: c.Stream, Tags: c.Tags, NonTrivial: c.NonTrivial})
	}
	files, _ := C09Jobs(c.Hist)
	if len(files) > 1 {
		for _, f := range files {
			var h hist.History
			for _, op := range c.Hist {
				if op.F != f {
					h = append(h, op)
				}
			}
			mk(h)
		}
	}
	if c.Stream == "spellings" {
		return out // whole jobs only: the fresh-process children built exactly these jobs
	}
	for i, op := range c.Hist {
		if strings.HasPrefix(op.Kind, "newfile") || op.Kind == "imports" {
			continue
		}
		h := append(append(hist.History{}, c.Hist[:i]...), c.Hist[i+1:]...)
		mk(h)
	}
	return out
}
