package props

import (
	"strings"
	"testing"
)

// The oracle of C15 on hand-made outputs: it accepts what the property promises and
// rejects outputs in which a comment swallows code, leaks, loses its text, has the wrong
// style, or in which the file-level comments are misplaced.

const c15Without = "package p\n\nfunc f() {\n\tx()\n}\n"

func c15Good(text string) (string, *c15Spec) {
	sp := &c15Spec{Places: []c15Place{{Site: 0, Text: text}}}
	return "package p\n\nfunc f() {\n\tx() " + c15CommentLit(c15Want{Text: text}) + "\n}\n", sp
}

func TestC15OracleAccepts(t *testing.T) {
	for _, text := range []string{"c", "} func g() {", "a\n*", "a\n", "\"", "*"} {
		with, sp := c15Good(text)
		if v := c15Check(sp, c15Without, c15Without, with, with); v != "" {
			t.Errorf("good output for %q rejected: %s", text, v)
		}
	}
	// gofmt's doc-comment normal form of the raw text is accepted on the formatted output
	sp := &c15Spec{Places: []c15Place{{Site: 0, Text: "``q''"}}}
	without := "package p\n\nfunc f() {}\n"
	raw := "package p\n\n// ``q''\nfunc f() {}\n"
	fmtd := "package p\n\n// \u201cq\u201d\nfunc f() {}\n"
	if v := c15Check(sp, without, without, fmtd, raw); v != "" {
		t.Errorf("doc normal form rejected: %s", v)
	}
}

func TestC15OracleRejects(t *testing.T) {
	bad := []struct {
		name, text, with, wantSub string
	}{
		{"closer swallowed", "c", "package p\n\nfunc f() {\n\tx() // c }\n", "alter the code tokens"},
		{"next statement swallowed", "c", "package p\n\nfunc f() {\n\t// c x()\n}\n", "alter the code tokens"},
		{"text leaks out of a block comment", "a */ y()\nb", "package p\n\nfunc f() {\n\tx() /*\na */ y()\nb\n*/\n}\n", ""},
		{"text altered", "c", "package p\n\nfunc f() {\n\tx() // d\n}\n", "want \"// c\""},
		{"text dropped", "c", c15Without, "0 comment tokens"},
		{"wrong style", "c", "package p\n\nfunc f() {\n\tx() /*\nc\n*/\n}\n", "want \"// c\""},
		{"line style for multi-line text", "a\nb", "package p\n\nfunc f() {\n\tx() // a\n\t// b\n}\n", "comment tokens"},
		{"extra comment", "c", "package p\n\nfunc f() {\n\tx() // c\n\t// c\n}\n", "2 comment tokens"},
		{"semicolon changes", "a\nb", "package p\n\nfunc f() {\n\tx /*\na\nb\n*/ ()\n}\n", "alter the code tokens"},
	}
	for _, b := range bad {
		sp := &c15Spec{Places: []c15Place{{Site: 0, Text: b.text}}}
		v := c15Check(sp, c15Without, c15Without, b.with, b.with)
		if v == "" {
			t.Errorf("%s: bad output accepted", b.name)
		} else if b.wantSub != "" && !strings.Contains(v, b.wantSub) {
			t.Errorf("%s: rejected for another reason: %s", b.name, v)
		}
	}
	// formatted output that lost part of the text although the raw output is right
	with, sp := c15Good("keep all of this")
	lost := strings.Replace(with, "keep all of this", "keep all", 1)
	if v := c15Check(sp, c15Without, c15Without, lost, with); !strings.Contains(v, "comment group 0") {
		t.Errorf("formatted output with a truncated comment: %q", v)
	}
}

func TestC15OracleFileLevel(t *testing.T) {
	body := "\n\nfunc f() {\n\tx()\n}\n"
	sp := &c15Spec{Headers: []string{"h1", "h2\nh3"}, Pkg: []string{"Package p.", "more"}, Canonical: "a.b/\"p\""}
	good := "// h1\n/*\nh2\nh3\n*/\n\n// Package p.\n// more\npackage p // import \"a.b/\\\"p\\\"\"" + body
	if v := c15Check(sp, c15Without, c15Without, good, good); v != "" {
		t.Fatalf("good file head rejected: %s", v)
	}
	bad := map[string]string{
		"header lumped with the package doc": "// h1\n/*\nh2\nh3\n*/\n// Package p.\n// more\npackage p // import \"a.b/\\\"p\\\"\"" + body,
		"package comments detached":          "// h1\n/*\nh2\nh3\n*/\n\n// Package p.\n// more\n\npackage p // import \"a.b/\\\"p\\\"\"" + body,
		"import path not quoted":             "// h1\n/*\nh2\nh3\n*/\n\n// Package p.\n// more\npackage p // import a.b/p" + body,
		"import path wrong":                  "// h1\n/*\nh2\nh3\n*/\n\n// Package p.\n// more\npackage p // import \"a.b/p\"" + body,
		"import comment on the next line":    "// h1\n/*\nh2\nh3\n*/\n\n// Package p.\n// more\npackage p\n// import \"a.b/\\\"p\\\"\"" + body,
	}
	for name, src := range bad {
		if v := c15Check(sp, c15Without, c15Without, src, src); v == "" {
			t.Errorf("%s: accepted", name)
		}
	}
	// headers only: they must not become the doc comment
	sp2 := &c15Spec{Headers: []string{"h"}}
	if v := c15Check(sp2, c15Without, c15Without, "// h\n\npackage p"+body, "// h\n\npackage p"+body); v != "" {
		t.Errorf("headers only, good: %s", v)
	}
	if v := c15Check(sp2, c15Without, c15Without, "// h\npackage p"+body, "// h\npackage p"+body); !strings.Contains(v, "no PackageComment") {
		t.Errorf("header as doc comment accepted: %q", v)
	}
}

func TestC15GoRegions(t *testing.T) {
	src := "a // x\nb /**/ \"s\\\"//\" `r//` 'x' /"
	got, n, ok := goRegions(src)
	if !ok || n != 5 || got != "c2 l4 c3 b4 c1 s7 c1 r5 c1 q3 c2" {
		t.Errorf("goRegions = %q %d %v", got, n, ok)
	}
	got, _, ok = goRegions("x \"abc\ny 'a\n/*/ ")
	if !ok || got != "c2 e4 c3 e2 c1 e4" {
		t.Errorf("goRegions on unterminated literals = %q %v", got, ok)
	}
	// scanRune reports one error only: after a bad escape it does not say "not terminated"
	if _, _, ok = goRegions("'\\\n"); ok {
		t.Errorf("ambiguous rune literal not flagged")
	}
}

func TestC15DomainAndSites(t *testing.T) {
	for _, s := range c15Pool {
		if !c15InDomain(s) {
			t.Errorf("pool text %q is outside the domain", s)
		}
	}
	for _, s := range []string{"//x", "/*x", "a*/b", "a\rb", "\x00", "\xff", "\ufeff"} {
		if c15InDomain(s) {
			t.Errorf("%q accepted as domain text", s)
		}
	}
	kinds := map[string]bool{}
	for _, tm := range c15Templates {
		items := tm.build()
		for _, s := range c15Sites(&items) {
			k := s.kind + "/end"
			if s.own {
				k = s.kind + "/own"
			}
			kinds[k] = true
		}
	}
	for _, k := range []string{"file", "block", "casebody", "defs", "struct", "interface"} {
		if !kinds[k+"/own"] || !kinds[k+"/end"] {
			t.Errorf("no site of kind %s", k)
		}
	}
}
