package props

import (
	"math/rand"
	"strings"
	"testing"

	"verifharness/hist"
	"verifharness/term"
)

func c20xCheck(t *testing.T, name string, c *Case, got []hist.Obs, bad string) {
	t.Helper()
	v := c20{}.Oracle(c, got)
	switch {
	case bad == "" && v != "":
		t.Errorf("%s: oracle rejects a good output: %s", name, v)
	case bad != "" && v == "":
		t.Errorf("%s: oracle accepts a bad output", name)
	case bad != "" && !strings.Contains(v, bad):
		t.Errorf("%s: verdict %q does not mention %q", name, v, bad)
	}
}

// a null original, an unmodified clone and a clone with an own token, rendered through ONE
// kept File before and after the original is filled
func TestC20CtxOracleKeptFile(t *testing.T) {
	values := c20sPlain(c20Item{Node: term.G("Values"), Text: "{}"})
	rw := func(v int) c20xOp { return c20xOp{Kind: "render", V: v, How: "withfile", F: 0} }
	ops := []c20xOp{{Kind: "newfile", F: 0, Name: "a"}, {Kind: "new", V: 0},
		{Kind: "append", V: 0, Items: []c20sItem{c20sPlain(c20Item{Node: term.Null(), Null: true})}},
		{Kind: "clone", V: 1, From: 0}, {Kind: "clone", V: 2, From: 0}, {Kind: "append", V: 2, Items: []c20sItem{values}},
		rw(1), rw(2),
		{Kind: "append", V: 0, Items: []c20sItem{c20sPlain(c20xQual("a.b/c", "T"))}},
		rw(0), rw(1), rw(2), {Kind: "render", V: 2, How: "gostring"}}
	c := c20xCase(ops, "test", nil)
	if !c.NonTrivial {
		t.Errorf("not measured as non-trivial")
	}
	for _, tag := range []string{"null-then-filled:with", "null-then-filled-unmodified-clone:with", "clone-of-null-original", "how=withfile", "same-variable-same-file-again"} {
		found := false
		for _, x := range c.Tags {
			found = found || x == tag
		}
		if !found {
			t.Errorf("tag %s missing: %v", tag, c.Tags)
		}
	}
	real := hist.NewWorld().Exec(c.Hist)
	c20xCheck(t, "the implementation", c, real, "")
	good := []hist.Obs{wr(""), wr("{\n}"), wr("c.T"), wr("c.T"), wr("c.T{}"), wr("c.T{}")}
	c20xCheck(t, "the list model's outputs", c, good, "")
	c20xCheck(t, "unmodified clone still null after its original was filled", c,
		[]hist.Obs{wr(""), wr("{\n}"), wr("c.T"), wr(""), wr("c.T{}"), wr("c.T{}")}, "variable 1 (RenderWithFile, kept File 0)")
	c20xCheck(t, "clone with an own token does not show its original", c,
		[]hist.Obs{wr(""), wr("{\n}"), wr("c.T"), wr("c.T"), wr("{\n}"), wr("c.T{}")}, "variable 2 (RenderWithFile, kept File 0)")
	c20xCheck(t, "standalone render wrong", c,
		[]hist.Obs{wr(""), wr("{\n}"), wr("c.T"), wr("c.T"), wr("c.T{}"), wr("{\n}")}, "variable 2 (gostring)")
	c20xCheck(t, "an observation missing", c, good[:5], "no observation")
	c20xCheck(t, "a panic", c, append(append([]hist.Obs{}, good[:5]...), hist.Obs{Kind: "panic", Msg: "boom"}), "boom")
	if v := (c20{}).Oracle(c, []hist.Obs{wr(""), wr("{\n}"), wr("c.T"), wr(""), wr("c.T{}"), wr("c.T{}")}); !strings.Contains(v, "operations: f0 := File") || !strings.Contains(v, "v1.RenderWithFile(f0)") {
		t.Errorf("the verdict does not describe the operations: %s", v)
	}
}

// a clone taken inside a Do callback from the parameter, a clone taken inside a CallFunc callback
func TestC20CtxOracleCallbacks(t *testing.T) {
	id := func(s string) []c20sItem { return []c20sItem{c20sId(s)} }
	dot := func(s string) []c20sItem {
		return []c20sItem{c20sPlain(c20Item{Node: term.Op("."), Text: "."}), c20sId(s)}
	}
	r := func(v int) c20xOp { return c20xOp{Kind: "render", V: v, How: "render"} }
	ops := []c20xOp{{Kind: "new", V: 0}, {Kind: "append", V: 0, Items: id("a")},
		{Kind: "do", V: 0, Via: "stmt", Body: []c20xOp{{Kind: "append", V: 0, Items: dot("b")}, {Kind: "clone", V: 1, From: 0}}},
		r(0), r(1),
		{Kind: "append", V: 0, Items: dot("c")}, r(0), r(1),
		{Kind: "new", V: 2}, {Kind: "append", V: 2, Items: id("f")},
		{Kind: "gfunc", V: 2, Group: "Call", Body: []c20xOp{{Kind: "clone", V: 3, From: 0}, {Kind: "append", V: 3, Items: dot("e")}, {Kind: "gadd", Kid: c20sKid{Ref: 3}},
			{Kind: "gadd", Kid: c20sKid{Ref: -1, Item: c20Item{Node: term.S(term.Id("k")), Text: "k"}}}}},
		r(2), {Kind: "append", V: 0, Items: dot("d")}, r(2), r(3), r(1)}
	c := c20xCase(ops, "test", nil)
	for _, tag := range []string{"clone-site=do-param", "clone-site=in-CallFunc", "callback-clone-rendered-after-original-grew"} {
		found := false
		for _, x := range c.Tags {
			found = found || x == tag
		}
		if !found {
			t.Errorf("tag %s missing: %v", tag, c.Tags)
		}
	}
	line := c.Hist.Sexp()
	if !strings.Contains(line, "(g Call ") || strings.Count(line, "(rplain ") != 8 {
		t.Errorf("unexpected line: %s", line)
	}
	real := hist.NewWorld().Exec(c.Hist)
	c20xCheck(t, "the implementation", c, real, "")
	good := []hist.Obs{wr("a.b"), wr("a.b"), wr("a.b.c"), wr("a.b.c"), wr("f(a.b.c.e, k)"), wr("f(a.b.c.d.e, k)"), wr("a.b.c.d.e"), wr("a.b.c.d")}
	c20xCheck(t, "the list model's outputs", c, good, "")
	c20xCheck(t, "the clone taken inside Do is a frozen snapshot", c,
		[]hist.Obs{wr("a.b"), wr("a.b"), wr("a.b.c"), wr("a.b"), wr("f(a.b.c.e, k)"), wr("f(a.b.c.d.e, k)"), wr("a.b.c.d.e"), wr("a.b.c.d")}, "variable 1 (render)")
	c20xCheck(t, "the clone inside the group does not follow its original", c,
		[]hist.Obs{wr("a.b"), wr("a.b"), wr("a.b.c"), wr("a.b.c"), wr("f(a.b.c.e, k)"), wr("f(a.b.c.e, k)"), wr("a.b.c.d.e"), wr("a.b.c.d")}, "variable 2 (render)")

	// the same with the *Group of the callback kept and rendered on its own, standalone and through a kept File
	for i := range ops {
		if ops[i].Kind == "gfunc" {
			ops[i].G = 1
		}
	}
	ops = append([]c20xOp{{Kind: "newfile", F: 0, Name: "p"}}, ops...)
	ops = append(ops, c20xOp{Kind: "render", How: "group", G: 1}, c20xOp{Kind: "render", How: "groupwithfile", G: 1, F: 0},
		c20xOp{Kind: "append", V: 0, Items: dot("z")}, c20xOp{Kind: "render", How: "groupgostring", G: 1}, c20xOp{Kind: "render", How: "groupwithfile", G: 1, F: 0})
	c = c20xCase(ops, "test", nil)
	real = hist.NewWorld().Exec(c.Hist)
	c20xCheck(t, "the implementation (group renders)", c, real, "")
	n := len(real)
	if real[n-4].Out != "(a . b . c . d . e,k)" || real[n-1].Out != "(a . b . c . d . z . e,k)" || real[n-1].Kind != "fmterr" {
		t.Fatalf("unexpected group renders: %v", real[n-4:])
	}
	stale := append([]hist.Obs{}, real...)
	stale[n-1].Out = real[n-3].Out
	c20xCheck(t, "the clone inside the kept group does not follow its original", c, stale, "group 1, an item of variable 2 (RenderWithFile, kept File 0)")
}

// File.Render of a kept File: package clause, the imports registered so far (also by
// RenderWithFile of a statement the File does not hold), the wrappers File.Add returned
func TestC20CtxOracleFileRender(t *testing.T) {
	p := func(it c20Item) c20sItem { return c20sPlain(it) }
	ops := []c20xOp{{Kind: "newfile", F: 0, Name: "main"}, {Kind: "new", V: 0},
		{Kind: "append", V: 0, Items: []c20sItem{p(c20Item{Node: term.Named("Var"), Text: "var"}), c20sId("x"), p(c20Item{Node: term.Op("="), Text: "="}),
			p(c20xQual("fmt", "Sprint")), p(c20Item{Node: term.G("Call"), Text: "()"})}},
		{Kind: "fadd", V: 1, From: 0, F: 0},
		{Kind: "render", How: "file", F: 0},
		{Kind: "new", V: 2}, {Kind: "append", V: 2, Items: []c20sItem{p(c20xQual("a.b/c", "T"))}},
		{Kind: "render", V: 2, How: "withfile", F: 0},
		{Kind: "append", V: 1, Items: []c20sItem{p(c20Item{Node: term.Op("+"), Text: "+"}), p(c20Item{Node: term.Lit("s"), Text: `"s"`})}},
		{Kind: "render", How: "filegostring", F: 0}}
	c := c20xCase(ops, "test", nil)
	real := hist.NewWorld().Exec(c.Hist)
	c20xCheck(t, "the implementation", c, real, "")
	first := "package main\n\nimport \"fmt\"\n\nvar x = fmt.Sprint()\n"
	second := "package main\n\nimport (\n\tc \"a.b/c\"\n\t\"fmt\"\n)\n\nvar x = fmt.Sprint() + \"s\"\n"
	var shown []hist.Obs
	for _, o := range real {
		if o.Kind != "skip" {
			shown = append(shown, o)
		}
	}
	if len(shown) != 3 || shown[0].Out != first || shown[1].Out != "c.T" || shown[2].Out != second {
		t.Fatalf("unexpected observations: %v", shown)
	}
	bad := append([]hist.Obs{}, real...)
	for i := range bad {
		if bad[i].Out == second {
			bad[i].Out = "package main\n\nimport \"fmt\"\n\nvar x = fmt.Sprint()\n" // the wrapper's own tokens lost
		}
	}
	c20xCheck(t, "tokens appended to the wrapper lost", c, bad, "kept File 0 (filegostring)")
	// model side: the scratch File replays the constructor and the earlier renders
	line := c.Hist.Sexp()
	if strings.Count(line, "(newfile ") != 3 || strings.Count(line, "(render ") != 2 {
		t.Errorf("unexpected line: %s", line)
	}
}

// every generated history: the implementation is accepted, executing it twice gives the same
// observations (the executor restarts and repeats the renders through the kept Files), the
// shrinker's candidates are well-formed
func TestC20CtxGeneratorConsistent(t *testing.T) {
	r := rand.New(rand.NewSource(11))
	var cases []*Case
	for i := 0; i < 150; i++ {
		style := []string{"shared", "mixed", "plain"}[i%3]
		cases = append(cases, c20xCase(c20xRandom(r, 4+r.Intn(9), style, []float64{0.12, 0.45}[i%2]), "test", nil))
	}
	cases = append(cases, c20xNullFill(1, 2, 1, 1), c20xNullFill(5, 4, 3, 2), c20xNullFill(0, 5, 1, 0), c20xSite(0, 1, 2), c20xSite(3, 2, 2), c20xSite(7, 2, 0))
	for i, c := range cases {
		got := hist.NewWorld().Exec(c.Hist)
		if v := (c20{}).Oracle(c, got); v != "" {
			t.Fatalf("case %d: oracle fails on the implementation: %s\n%s", i, v, c.Hist.Sexp())
		}
		again := hist.NewWorld().Exec(c.Hist)
		if len(again) != len(got) {
			t.Fatalf("case %d: re-execution gives %d observations instead of %d", i, len(again), len(got))
		}
		for j := range got {
			if !hist.SameObs(got[j], again[j]) {
				t.Fatalf("case %d: re-execution differs at %d", i, j)
			}
		}
		if i%10 == 0 {
			for _, s := range c20xShrink(c) {
				sg := hist.NewWorld().Exec(s.Hist)
				if v := (c20{}).Oracle(s, sg); v != "" {
					t.Fatalf("case %d: a shrink candidate is rejected on the implementation: %s", i, v)
				}
			}
		}
	}
}
