package props

import (
	"math/rand"
	"strings"
	"testing"

	"verifharness/hist"
)

// The oracle accepts what the implementation renders for a generated run (every stream).
func TestC12OracleAcceptsImplementation(t *testing.T) {
	p := c12{}
	cases := append(p.Regressions(), p.Generate(rand.New(rand.NewSource(4)), "quick")...)
	streams := map[string]int{}
	for i, c := range cases {
		if i%5 != 0 && c.Name == "" {
			continue
		}
		streams[c.Stream]++
		got := hist.NewWorld().Exec(c.Hist)
		if m := p.Oracle(c, got); m != "" {
			t.Fatalf("case %d (%s) %s: %s", i, c.Stream, c.Hist.Sexp(), m)
		}
	}
	for _, s := range []string{"string-targeted", "string-1byte", "string-2byte", "string-random", "rune-boundary", "rune-below-0x100", "rune-random", "byte", "regression", "concurrent", "context", "magic-content", "size"} {
		if streams[s] == 0 {
			t.Errorf("stream %s not generated", s)
		}
	}
}

func TestC12OracleVerdicts(t *testing.T) {
	p := c12{}
	tab := []struct {
		shape string
		lits  []c1xLit
		out   string
		good  bool
	}{
		// strings
		{c1xStmtPlain, []c1xLit{c12Str(`a"b`)}, "x := \"a\\\"b\"\ny", true},
		{c1xStmtPlain, []c1xLit{c12Str(`a"b`)}, "x := `a\"b`\ny", true},    // another spelling of the same single token
		{c1xStmtPlain, []c1xLit{c12Str(`a"b`)}, "x := \"a\"b\"\ny", false}, // unescaped quote
		{c1xStmtPlain, []c1xLit{c12Str(`a"; z; "b`)}, "x := \"a\"; z; \"b\"\ny", false},
		{c1xStmtPlain, []c1xLit{c12Str("a\nb")}, "x := \"a\\nb\"\ny", true},
		{c1xStmtPlain, []c1xLit{c12Str("a\nb")}, "x := \"a\nb\"\ny", false}, // raw newline
		{c1xStmtPlain, []c1xLit{c12Str("a\nb")}, "x := `a\nb`\ny", true},
		{c1xStmtPlain, []c1xLit{c12Str("a`b")}, "x := `a`b`\ny", false},
		{c1xStmtPlain, []c1xLit{c12Str(`a\`)}, "x := \"a\\\"\ny", false},       // backslash eats the closing quote
		{c1xStmtPlain, []c1xLit{c12Str("ab")}, "x := \"a\" + \"b\"\ny", false}, // right value, two tokens
		{c1xStmtPlain, []c1xLit{c12Str("a")}, "x := \"A\"\ny", false},
		{c1xStmtPlain, []c1xLit{c12Str("a")}, "x := \"a\"\nz", false},    // neighbour changed
		{c1xStmtPlain, []c1xLit{c12Str("a")}, "x = \"a\"\ny", false},     // neighbour changed
		{c1xStmtPlain, []c1xLit{c12Str("a")}, "x := \"a\"\ny\nz", false}, // extra token
		{c1xStmtPlain, []c1xLit{c12Str("a")}, "x := \"a\"", false},       // missing token
		{c1xStmtPlain, []c1xLit{c12Str("a")}, "x := \"a\" /* y */\ny", false},
		{c1xStmtPlain, []c1xLit{c12Str("a */ b")}, "x := \"a */ b\"\ny", true},
		{c1xStmtPlain, []c1xLit{c12Str("\xff")}, "x := \"\\xff\"\ny", true},
		{c1xStmtPlain, []c1xLit{c12Str("\xff")}, "x := \"\\ufffd\"\ny", false}, // invalid byte replaced
		{c1xStmtPlain, []c1xLit{c12Str("\xff")}, "x := \"\xff\"\ny", false},    // invalid UTF-8 in the source
		{c1xStmtPlain, []c1xLit{c12Str("\x00")}, "x := \"\\x00\"\ny", true},
		{c1xStmtPlain, []c1xLit{c12Str("\x00")}, "x := \"\x00\"\ny", false}, // NUL in the source
		{c1xStmtPlain, []c1xLit{c12Str("\xef\xbb\xbf")}, "x := \"\\ufeff\"\ny", true},
		{c1xStmtPlain, []c1xLit{c12Str("\xef\xbb\xbf")}, "x := \"\xef\xbb\xbf\"\ny", false}, // BOM in the middle of the source
		{c1xStmtPlain, []c1xLit{c12Str("")}, "x := \"\"\ny", true},
		{c1xStmtPlain, []c1xLit{c12Str("")}, "x := \ny", false},
		{c1xStmtPlain, []c1xLit{c12Str("a")}, "x := 'a'\ny", false}, // wrong kind of literal
		{c1xVarPlain, []c1xLit{c12Str("a")}, "var x = \"a\"", true},
		{c1xVarPlain, []c1xLit{c12Str("a")}, "var x = string(\"a\")", false},
		{c1xVarFile, []c1xLit{c12Str("a")}, "package p\n\nvar x = \"a\"\n", true},
		{c1xVarFile, []c1xLit{c12Str("a")}, "package p\n\nimport \"a\"\n\nvar x = \"a\"\n", false},
		{c1xFuncFile, []c1xLit{c12Str("a"), c12Str(`"`)}, "package p\n\nfunc f() {\n\tx := \"a\"\n\ty(a, \"\\\"\", b)\n}\n", true},
		{c1xFuncFile, []c1xLit{c12Str("a"), c12Str(`"`)}, "package p\nfunc f() {\nx := \"a\" ; y (a,\"\\\"\",b)\n}", true},
		{c1xFuncFile, []c1xLit{c12Str("a"), c12Str(`"`)}, "package p\n\nfunc f() {\n\tx := \"a\"\n\ty(a, \"\"\", b)\n}\n", false},
		{c1xFuncFile, []c1xLit{c12Str("a"), c12Str(`", c, "`)}, "package p\n\nfunc f() {\n\tx := \"a\"\n\ty(a, \"\", c, \"\", b)\n}\n", false},
		{c1xBatchFile, []c1xLit{c12Str("a"), c12Str("b")}, "package p\n\nvar _ = \"a\"\nvar _ = \"b\"\n", true},
		{c1xBatchFile, []c1xLit{c12Str("a"), c12Str("b")}, "package p\n\nvar _ = \"b\"\nvar _ = \"a\"\n", false},
		{c1xBatchFile, []c1xLit{c12Str("a"), c12Str("b")}, "package p\n\nvar _ = \"a\"\n", false},
		// runes
		{c1xStmtPlain, []c1xLit{c12Rune('a')}, "x := 'a'\ny", true},
		{c1xStmtPlain, []c1xLit{c12Rune('a')}, "x := '\\x61'\ny", true},
		{c1xStmtPlain, []c1xLit{c12Rune('a')}, "x := \"a\"\ny", false},
		{c1xStmtPlain, []c1xLit{c12Rune('a')}, "x := 97\ny", false},
		{c1xStmtPlain, []c1xLit{c12Rune('a')}, "x := 'b'\ny", false},
		{c1xStmtPlain, []c1xLit{c12Rune('\'')}, "x := '\\''\ny", true},
		{c1xStmtPlain, []c1xLit{c12Rune('\'')}, "x := '''\ny", false},
		{c1xStmtPlain, []c1xLit{c12Rune('\n')}, "x := '\\n'\ny", true},
		{c1xStmtPlain, []c1xLit{c12Rune('\n')}, "x := '\n'\ny", false},
		{c1xStmtPlain, []c1xLit{c12Rune(0x2028)}, "x := '\\u2028'\ny", true},
		{c1xStmtPlain, []c1xLit{c12Rune(0x2028)}, "x := '\\u2029'\ny", false},
		{c1xStmtPlain, []c1xLit{c12Rune(0xff)}, "x := '\\xff'\ny", true}, // a rune literal '\xff' has value 255
		{c1xStmtPlain, []c1xLit{c12Rune(0xff)}, "x := '\xc3\xbf'\ny", true},
		{c1xStmtPlain, []c1xLit{c12Rune(0x10ffff)}, "x := '\\U0010ffff'\ny", true},
		{c1xStmtPlain, []c1xLit{c12Rune(0x10ffff)}, "x := '\\U00110000'\ny", false},
		{c1xStmtPlain, []c1xLit{c12Rune(0x10ffff)}, "x := '\\ufffd'\ny", false},
		{c1xStmtPlain, []c1xLit{c12Rune('a')}, "x := 'ab'\ny", false},
		{c1xStmtPlain, []c1xLit{c12Rune('a')}, "x := ''\ny", false},
		// bytes
		{c1xVarPlain, []c1xLit{c12Byte(7)}, "var x = byte(0x7)", true},
		{c1xVarPlain, []c1xLit{c12Byte(7)}, "var x = uint8(7)", true}, // same type
		{c1xVarPlain, []c1xLit{c12Byte(7)}, "var x = 7", false},       // type int
		{c1xVarPlain, []c1xLit{c12Byte(7)}, "var x = 0x7", false},
		{c1xVarPlain, []c1xLit{c12Byte(7)}, "var x = '\\a'", false}, // type rune
		{c1xVarPlain, []c1xLit{c12Byte(7)}, "var x = int8(0x7)", false},
		{c1xVarPlain, []c1xLit{c12Byte(7)}, "var x = byte(0x8)", false},
		{c1xVarPlain, []c1xLit{c12Byte(255)}, "var x = byte(0xff)", true},
		{c1xVarPlain, []c1xLit{c12Byte(255)}, "var x = byte(-1)", false},
		{c1xVarPlain, []c1xLit{c12Byte(255)}, "var x = byte(0x100)", false},
		{c1xFuncFile, []c1xLit{c12Byte(7), c12Byte(8)}, "package p\n\nfunc f() {\n\tx := byte(0x7)\n\ty(a, byte(0x8), b)\n}\n", true},
		{c1xFuncFile, []c1xLit{c12Byte(7), c12Byte(8)}, "package p\n\nfunc f() {\n\tx := byte(0x7)\n\ty(a, 8, b)\n}\n", false},
		{c1xFuncFile, []c1xLit{c12Byte(7), c12Byte(8)}, "package p\n\nfunc f() {\n\tx := byte(0x7)\n\ty(a, byte(0x8), c, b)\n}\n", false},
		{c1xFuncFile, []c1xLit{c12Byte(7), c12Byte(8)}, "package p\n\nfunc f() {\n\tx := byte(0x7)\n\tz()\n\ty(a, byte(0x8), b)\n}\n", false},
		{c1xFuncFile, []c1xLit{c12Byte(7), c12Byte(8)}, "package p\n\nfunc f() {\n\tx := byte(0x8)\n\ty(a, byte(0x7), b)\n}\n", false},
		{c1xBatchFile, []c1xLit{c12Byte(0), c12Byte(1)}, "package p\n\nvar _ = byte(0x0)\nvar _ = byte(0x1)\n", true},
		{c1xBatchFile, []c1xLit{c12Byte(0), c12Byte(1)}, "package p\n\nvar _ = byte(0x0)\nvar _ = byte(0x1)\nvar _ = 2\n", false},
	}
	for _, e := range tab {
		c := c12Case(e.shape, e.lits, false, false, "test")
		m := p.Oracle(c, c1xFakeWrite(e.out))
		if (m == "") != e.good {
			t.Errorf("shape %s, literals %#v, output %q: accepted=%v, want %v (%s)", e.shape, e.lits, e.out, m == "", e.good, m)
		}
	}
	one := c12Case(c1xVarPlain, []c1xLit{c12Str("a")}, false, false, "test")
	for _, got := range [][]hist.Obs{nil, {{Kind: "panic", Msg: "x"}}, {{Kind: "fmterr", Out: "var x = \"a\""}}, {{Kind: "write", Failed: true}}} {
		if m := p.Oracle(one, got); m == "" {
			t.Errorf("observations %v accepted", got)
		}
	}
}

func TestC12Domain(t *testing.T) {
	n := 0
	for x := rune(0); x <= 0x10ffff; x++ {
		if c12ValidRune(x) {
			n++
		}
	}
	if n != 1112064 {
		t.Errorf("%d valid code points", n)
	}
	r := rand.New(rand.NewSource(1))
	for i := 0; i < 10000; i++ {
		if x := c12RandomRune(r); !c12ValidRune(x) {
			t.Fatalf("random rune %U outside the domain", x)
		}
	}
	for _, s := range c12Targeted {
		_ = c12StringTags(s)
	}
	if c12PlainString(`a"`) || c12PlainString("\x7f") || !c12PlainString("abc 'x' ~") {
		t.Error("c12PlainString")
	}
}

// The stream concurrent: the job set really runs on goroutines, the oracle and the comparison
// judge EVERY output of every goroutine (not only the one handed on), and reject what a
// shared scratch buffer produces: foreign bytes that keep the literal well-formed, a broken
// literal, an output that differs between rounds.
func TestC12ConcurrentOracle(t *testing.T) {
	p := c12{}
	mk := func() (*Case, *c12Conc, []hist.Obs) {
		jobs := []c12Job{
			{Shape: c1xBatchFile, NoFormat: true, Lits: []c1xLit{c12Str("aaaa\t\"0\""), c12Str("a\nb")}},
			{Shape: c12CallPlain, Lits: []c1xLit{c12Str("bbbb\t\"1\""), c12Str("`"), c12Str("")}},
			{Shape: c1xStmtPlain, Lits: []c1xLit{c12Rune('\'')}},
			{Shape: c1xFuncFile, Lits: []c1xLit{c12Byte(0), c12Byte(255)}},
		}
		c := c12ConcCase(jobs, 25, "test")
		got := hist.NewWorld().Exec(c.Hist)
		return c, c.Meta["conc"].(*c12Conc), got
	}
	c, x, got := mk()
	if len(got) != 4 || !c.NonTrivial {
		t.Fatalf("%d observations, nontrivial %v", len(got), c.NonTrivial)
	}
	total := 0
	for j := range x.outs {
		for _, o := range x.outs[j] {
			total += o.Count
		}
	}
	if total != 4*25 {
		t.Fatalf("%d outputs recorded for 4 jobs x 25 rounds", total)
	}
	if m := p.Oracle(c, got); m != "" {
		t.Fatalf("the oracle rejects the implementation: %s", m)
	}
	if got[0].Out != "package p\n\n\nvar _ = \"aaaa\\t\\\"0\\\"\"\nvar _ = \"a\\nb\"" || got[1].Out != "f(\"bbbb\\t\\\"1\\\"\", \"`\", \"\")" {
		t.Fatalf("outputs %q %q", got[0].Out, got[1].Out)
	}
	exp := append([]hist.Obs(nil), got...)
	if m := p.Compare(c, exp, got); m != "" {
		t.Fatalf("compare rejects equal observations: %s", m)
	}
	// executing the case again runs the goroutines again
	x.outs = nil
	if got2 := hist.NewWorld().Exec(c.Hist); len(got2) != 4 || len(x.outs) != 4 {
		t.Fatal("re-execution did not re-run the job set")
	}
	// a later round of job 0 showed bytes of job 1 (well-formed, wrong value)
	inject := func(j int, out string) (*Case, []hist.Obs, []hist.Obs) {
		c, x, got := mk()
		x.outs[j][0].Count--
		x.outs[j] = append(x.outs[j], c12ConcOut{Obs: hist.Obs{Kind: "write", Out: out, Writes: 1}, Round: 17, Count: 1})
		return c, append([]hist.Obs(nil), got...), got
	}
	for name, bad := range map[string]string{
		"foreign bytes":  "package p\n\n\nvar _ = \"bbaa\\t\\\"0\\\"\"\nvar _ = \"a\\nb\"\n",
		"broken literal": "package p\n\n\nvar _ = \"aaaa\\t\\\"0\\\"\nvar _ = \"a\\nb\"\n",
		"leaked code":    "package p\n\n\nvar _ = \"aaaa\"; var y = \"0\"\nvar _ = \"a\\nb\"\n",
	} {
		c, exp, got := inject(0, bad)
		m := p.Oracle(c, got)
		if m == "" || !strings.Contains(m, "round 18") {
			t.Errorf("%s in a later round: oracle says %q", name, m)
		}
		if m := p.Compare(c, exp, got); m == "" || !strings.Contains(m, "round 18") {
			t.Errorf("%s in a later round: compare says %q", name, m)
		}
	}
	// another spelling of the same literals in one round: every output is right, but they differ
	c, _, got = inject(1, "f(\"bbbb\\t\\\"1\\\"\", \"\\x60\", \"\")")
	if m := p.Oracle(c, got); !strings.Contains(m, "renders differently") {
		t.Errorf("differing outputs: oracle says %q", m)
	}
	// a rune and a byte job
	c, _, got = inject(2, "x := '\"'\ny")
	if m := p.Oracle(c, got); !strings.Contains(m, "rune literal") {
		t.Errorf("wrong rune: oracle says %q", m)
	}
	c, _, got = inject(3, "package p\n\nfunc f() {\n\tx := byte(0x0)\n\ty(a, byte(0xfe), b)\n}\n")
	if m := p.Oracle(c, got); m == "" {
		t.Error("wrong byte accepted")
	}
	// a goroutine whose render failed
	c, x, got = mk()
	x.outs[1] = append(x.outs[1], c12ConcOut{Obs: hist.Obs{Kind: "fmterr", Out: "f (\"bb"}, Round: 3, Count: 1})
	if m := p.Oracle(c, got); !strings.Contains(m, "render did not succeed") {
		t.Errorf("failed render: oracle says %q", m)
	}
	// generated job sets: accepted, non-trivial, between 2 and 16 goroutines
	for i, c := range c12ConcGenerate(rand.New(rand.NewSource(3)), "quick") {
		x := c.Meta["conc"].(*c12Conc)
		if len(x.Jobs) < 2 || len(x.Jobs) > 16 || x.Rounds < 2 {
			t.Fatalf("job set %d: %d jobs, %d rounds", i, len(x.Jobs), x.Rounds)
		}
		if i%4 == 0 {
			x.Rounds = 10
			if m := p.Oracle(c, hist.NewWorld().Exec(c.Hist)); m != "" {
				t.Fatalf("job set %d: %s", i, m)
			}
			for _, cand := range p.Shrink(c) {
				cx := cand.Meta["conc"].(*c12Conc)
				cx.Rounds = 3
				if m := p.Oracle(cand, hist.NewWorld().Exec(cand.Hist)); m != "" || len(cx.Jobs) < 2 {
					t.Fatalf("shrunk job set of %d: %d jobs, %s", i, len(cx.Jobs), m)
				}
			}
		}
	}
}
