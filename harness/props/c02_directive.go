package props

import (
	"fmt"
	"math/rand"
	"strings"

	"verifharness/hist"
	"verifharness/term"
)

// Stream "directive-long" of C02 (round 7): the format-ERROR path on LONG sources that carry
// comments which the Go tool chain reads as directives.
//
// Dimension: everything the older streams render on the error path is short (a handful of
// lines) and its comments are plain text.  Here the unformatted source has 12..200+ lines and
// holds, as items of the File and inside blocks, comments in the raw forms (`//...`, `/*...*/`)
// whose text is a directive: `//line f.go:N` and `/*line f.go:N:C*/` (go/scanner applies
// them, so every position that go/format reports after one is in terms of the directive: far
// beyond, or before, the real line), `//go:generate`, `//go:noinline`, `//go:build`,
// `// +build`, `//export`.  One syntax error is planted before, between or after the
// directives, at the top level or inside a function body.  The compositions are rendered
// through File.Render, Statement.Render / RenderWithFile and Group.Render / RenderWithFile.
//
// Expected (the model predicts every byte; the oracle decides independently): the render
// returns the formatting error - it does not panic and it does not write - and, in stream
// "directive-long-quote" (File renders), the text quoted by the error is the whole unformatted
// source (what an identically built File renders with NoFormat), whatever line the formatter
// blamed.
// A share of the cases has no syntax error (the directives then survive gofmt: C02's
// gofmt-of-raw equation on long sources with directive comments).
//
// Tags: directive-long, dl:lines=<bucket>, dl:target=<file|stmt|stmt-plain|group|group-plain>,
// dl:dir=<kind> per directive kind used, dl:line-directive-before-error (a //line or /*line*/
// precedes the error), dl:reported-line-beyond-source (the directive's number exceeds the
// number of lines), dl:reported-line-before (it moves positions backwards), dl:error=<kind>,
// dl:error-in-block, dl:no-error, dl:no-directive (control).
//
// NonTrivial: always (every case renders a source of at least 12 lines).
func c02DirectiveStream(r *rand.Rand, t string) []*Case {
	var out []*Case
	n := tier(t, 260, 12000)
	for i := 0; i < n; i++ {
		out = append(out, c02DirectiveCase(r, false))
	}
	// stream "directive-long-quote": the same compositions, File renders only, and the oracle
	// additionally requires the error to carry the whole unformatted source (anchor "error wraps
	// the unformatted text" of the property record); kept apart and after the first stream so
	// that a break of the property proper (a panic) is not hidden behind this stricter reading
	for i := 0; i < n/2; i++ {
		out = append(out, c02DirectiveCase(r, true))
	}
	return out
}

type dlDirective struct {
	kind string
	text string
	line bool // a position directive (go/scanner applies it)
	n    int  // its line number
}

func dlPickDirective(r *rand.Rand, lineOnly bool) dlDirective {
	file := pick(r, []string{"f.go", "tmpl/x.tmpl", "a b.go", "", "C:\\x.go"})
	num := []int{1, 2, 5, 13, 100, 1000, 1000, 99999, 1 << 30}[r.Intn(9)]
	k := r.Intn(10)
	if lineOnly {
		k = r.Intn(4)
	}
	switch k {
	case 0, 1:
		return dlDirective{kind: "line", text: fmt.Sprintf("//line %s:%d", file, num), line: true, n: num}
	case 2:
		return dlDirective{kind: "line-col", text: fmt.Sprintf("//line %s:%d:%d", file, num, 1+r.Intn(9)), line: true, n: num}
	case 3:
		if r.Intn(2) == 0 {
			return dlDirective{kind: "block-line", text: fmt.Sprintf("/*line %s:%d*/", file, num), line: true, n: num}
		}
		return dlDirective{kind: "block-line-col", text: fmt.Sprintf("/*line %s:%d:%d*/", file, num, 1+r.Intn(9)), line: true, n: num}
	case 4:
		return dlDirective{kind: "go:generate", text: "//go:generate stringer -type=T"}
	case 5:
		return dlDirective{kind: "go:noinline", text: "//go:noinline"}
	case 6:
		return dlDirective{kind: "+build", text: "// +build ignore"}
	case 7:
		return dlDirective{kind: "go:build", text: "//go:build ignore"}
	case 8:
		return dlDirective{kind: "export", text: "//export Foo"}
	}
	// not a directive: the text of Comment is prefixed with "// " (control)
	return dlDirective{kind: "plain-line-text", text: fmt.Sprintf("line %s:%d", file, num)}
}

func dlBucket(lines int) string {
	switch {
	case lines <= 20:
		return "12-20"
	case lines <= 60:
		return "21-60"
	case lines <= 120:
		return "61-120"
	}
	return "121+"
}

func c02DirectiveCase(r *rand.Rand, quote bool) *Case {
	tags := map[string]bool{"directive-long": true}
	// target number of source lines of the items (the File adds the package clause etc.)
	var want int
	switch r.Intn(5) {
	case 0, 1:
		want = 12 + r.Intn(9)
	case 2, 3:
		want = 21 + r.Intn(40)
	default:
		want = 61 + r.Intn(140)
	}
	target := pick(r, []string{"file", "file", "file", "file", "stmt", "stmt-plain", "group", "group-plain"})
	stream := "directive-long"
	if quote {
		target, stream = "file", "directive-long-quote"
	}
	tags["dl:target="+target] = true
	noError := r.Intn(7) == 0
	ndir := 1 + r.Intn(3)
	if r.Intn(10) == 0 {
		ndir = 0
		tags["dl:no-directive"] = true
	}
	inBody := target != "file" // fragments: one function (or block) holding everything

	// the plain lines
	ctr := 0
	plain := func() *term.Stmt {
		ctr++
		switch r.Intn(5) {
		case 0:
			return term.S(term.Id(fmt.Sprintf("v%d", ctr)), term.Op(":="), term.Lit(ctr))
		case 1:
			return term.S(term.Id("f"), term.G("Call", term.S(term.Lit(ctr)), term.S(term.Lit("s"))))
		case 2:
			return term.S(term.Named("Var"), term.Id(fmt.Sprintf("w%d", ctr)), term.Op("="), term.Lit(float64(ctr)))
		case 3:
			return term.S(term.Comment{Text: fmt.Sprintf("step %d", ctr)})
		}
		return term.S(term.Named("Var"), term.Id(fmt.Sprintf("x%d", ctr)), term.Id("int"))
	}
	decl := func() *term.Stmt {
		ctr++
		switch r.Intn(4) {
		case 0:
			return term.S(term.Named("Const"), term.Id(fmt.Sprintf("C%d", ctr)), term.Op("="), term.Lit(ctr))
		case 1:
			return term.S(term.Named("Type"), term.Id(fmt.Sprintf("T%d", ctr)), term.Id("int"))
		case 2:
			return term.S(term.Comment{Text: fmt.Sprintf("decl %d", ctr)})
		}
		return term.S(term.Named("Var"), term.Id(fmt.Sprintf("V%d", ctr)), term.Op("="), term.Lit(ctr))
	}
	errKind := pick(r, []string{"missing-operand", "stray-paren", "unclosed-paren", "keyword-as-name", "two-idents", "bad-token"})
	bad := func() *term.Stmt {
		switch errKind {
		case "missing-operand":
			// (`var bad =` at the end of a line is no error: the next line continues it)
			return term.S(term.Id("bad"), term.Op("="), term.Op("*"), term.Op("/"))
		case "stray-paren":
			return term.S(term.Op(")"))
		case "unclosed-paren":
			return term.S(term.Named("Var"), term.Id("bad"), term.Op("="), term.Op("("), term.Lit(1))
		case "keyword-as-name":
			return term.S(term.Named("Var"), term.Named("Func"), term.Op("="), term.Lit(1))
		case "two-idents":
			return term.S(term.Named("Var"), term.Id("a"), term.Id("b"), term.Id("c"))
		}
		return term.S(term.Named("Var"), term.Id("bad"), term.Op("="), term.Op("#"))
	}

	// a flat plan of `want` slots; slot kinds: plain line, directive, error
	type slot struct {
		dir *dlDirective
		err bool
	}
	slots := make([]slot, want)
	errAt := -1
	if !noError {
		switch r.Intn(4) {
		case 0:
			errAt = want - 1 - r.Intn(3) // near the end
		case 1:
			errAt = 1 + r.Intn(5) // near the start
		default:
			errAt = 1 + r.Intn(want-1)
		}
		slots[errAt].err = true
		tags["dl:error="+errKind] = true
	} else {
		tags["dl:no-error"] = true
	}
	lineBefore, beyond, before := false, false, false
	for d := 0; d < ndir; d++ {
		dd := dlPickDirective(r, d == 0 && r.Intn(3) != 0)
		if noError && (dd.kind == "+build" || dd.kind == "go:build") {
			// a build constraint below the package clause of VALID code is moved by gofmt
			// (recorded finding gofmt-hoists-plus-build-comment): kept out of the valid share
			dd = dlDirective{kind: "go:noinline", text: "//go:noinline"}
		}
		var at int
		if errAt > 0 && r.Intn(5) != 0 {
			at = r.Intn(errAt) // before the error
		} else {
			at = r.Intn(want)
		}
		if slots[at].err || slots[at].dir != nil {
			continue
		}
		slots[at].dir = &dd
		tags["dl:dir="+dd.kind] = true
		if dd.line && errAt >= 0 && at < errAt {
			lineBefore = true
			if dd.n+(errAt-at) > want+8 {
				beyond = true
			}
			if dd.n < at {
				before = true
			}
		}
	}
	if lineBefore {
		tags["dl:line-directive-before-error"] = true
	}
	if beyond {
		tags["dl:reported-line-beyond-source"] = true
	}
	if before {
		tags["dl:reported-line-before"] = true
	}

	// a directive as an item: a statement holding only the comment; or (block forms) a comment
	// at the end / the start of a statement with code
	dirStmt := func(d *dlDirective, body bool) *term.Stmt {
		c := term.Comment{Text: d.text}
		if r.Intn(6) == 0 {
			c.F = true // Commentf("%s", text)
		}
		if strings.HasPrefix(d.text, "/*") {
			switch r.Intn(3) {
			case 0:
				p := plain()
				if !body {
					p = decl()
				}
				p.Items = append([]term.Node{c}, p.Items...)
				return p
			case 1:
				p := plain()
				if !body {
					p = decl()
				}
				p.Items = append(p.Items, c)
				return p
			}
		}
		return term.S(c)
	}

	// lay the slots out: at the top level of a File, runs of slots are wrapped in functions
	var items []*term.Stmt // top-level items (file) or body statements (fragments)
	lines := 0
	for i := 0; i < want; {
		if !inBody && r.Intn(3) == 0 {
			// a function with a body of k slots
			k := 1 + r.Intn(12)
			if i+k > want {
				k = want - i
			}
			var body []term.Node
			for j := i; j < i+k; j++ {
				switch {
				case slots[j].err:
					body = append(body, bad())
					tags["dl:error-in-block"] = true
				case slots[j].dir != nil:
					body = append(body, dirStmt(slots[j].dir, true))
					tags["dl:directive-in-block"] = true
				default:
					body = append(body, plain())
				}
			}
			ctr++
			items = append(items, term.S(term.Named("Func"), term.Id(fmt.Sprintf("fn%d", ctr)), term.G("Params"), term.G("Block", body...)))
			lines += k + 2
			i += k
			continue
		}
		switch {
		case slots[i].err:
			items = append(items, bad())
			if inBody {
				tags["dl:error-in-block"] = true
			}
		case slots[i].dir != nil:
			items = append(items, dirStmt(slots[i].dir, inBody))
			if inBody {
				tags["dl:directive-in-block"] = true
			} else {
				tags["dl:directive-file-item"] = true
			}
		case inBody:
			items = append(items, plain())
		default:
			items = append(items, decl())
		}
		lines++
		i++
	}
	tags["dl:lines="+dlBucket(lines)] = true

	var h hist.History
	if target == "file" && r.Intn(3) == 0 {
		paths := somePaths(r, 3)
		h, _ = FileSetup(r, 0, SetupOpts{Paths: paths})
	} else {
		h = hist.History{{Kind: "newfile", F: 0, A: "p"}}
	}
	switch target {
	case "file":
		for _, st := range items {
			h = append(h, hist.Op{Kind: "fadd", F: 0, Code: st})
		}
		h = append(h, hist.Op{Kind: "noformat", F: 0, Flag: false}, hist.Op{Kind: "render", F: 0})
		if r.Intn(4) == 0 {
			h = append(h, hist.Op{Kind: "render", F: 0}) // the error path again on the same File
		}
	default:
		body := make([]term.Node, len(items))
		for i, st := range items {
			body[i] = st
		}
		var code term.Node
		if strings.HasPrefix(target, "stmt") {
			code = term.S(term.Named("Func"), term.Id("frag"), term.G("Params"), term.G("Block", body...))
		} else {
			code = term.G("Block", body...)
		}
		kind := "rcode"
		if strings.HasSuffix(target, "-plain") {
			kind = "rplain"
		}
		h = append(h, hist.Op{Kind: kind, F: 0, Code: code})
	}
	return &Case{Hist: h, Stream: stream, NonTrivial: true, Tags: sortedKeys(tags),
		Meta: map[string]interface{}{"badlit": false, "quote": quote}}
}
