package props

import (
	"fmt"
	"math/rand"
	"sort"
	"strings"

	"verifharness/hist"
	"verifharness/term"
)

// C07: output is deterministic - the same construction gives the same bytes, within one
// process (fresh objects) and across processes, whatever order the runtime traverses the
// maps in (Dict, Tag, ImportNames argument, hint map, import table).
//
// Streams
//
//	recipes     random files in the DETERMINISTIC domain (the model predicts the bytes):
//	            Dicts of 0..12 pairs, Tags of 0..10 keys, one ImportNames map of 0..50
//	            entries, import sets of 0..30 paths (Anon + references).  Dict keys have
//	            pairwise distinct texts; a key that is a Qual names either a path that an
//	            EARLIER statement of the body has already imported, or a path of a reserved
//	            pool whose names (kalpha, kbravo, ...) nothing else in the file can compete
//	            for.  Most maps have >= 4 entries.
//	regression  the FULL domain: Dict keys that are Quals of not-yet-imported paths
//	            competing for one name.  This is the recorded open finding
//	            "dict-keys-register-in-map-order"; every such case carries that Name, is
//	            compared with the model only on an order-insensitive projection, and is
//	            built 60 times so that a difference between builds is seen with
//	            overwhelming probability (3 keys: all 60 traversals start in the same slot
//	            class with probability (3/4)^60 < 1e-7).
//
//	shared-names-map  (c07_names.go) one names map object of the caller handed to ImportNames of
//	            several Files, second and third calls with extra entries on some of them, the
//	            caller changing its map in between; twins, other orders of building the Files.
//
//	save-over-earlier  (c07_save.go) a recipe saved with File.Save over different earlier contents
//	            of the target (none, identical, extended, truncated, changed, unrelated): the same
//	            bytes on disk every time.
//
//	mixed-keys  (c07_mixed.go) one Dict with keys of DIFFERENT KINDS - integer literals whose
//	            numeric and textual orders disagree next to expressions, typed literals, floats,
//	            strings, identifiers, Quals, composite literals - rendered 4..8 times per build,
//	            6 builds; the oracle also decides that the keys come in ascending order of their
//	            texts.
//
// Oracle: the history is rebuilt with fresh objects 8 times in this process and once in
// each of 3 child processes (harness/child.go, props/xproc.go); every build must give the
// same observations, byte for byte.
type c07 struct{}

func init() { Register(c07{}) }

func (c07) ID() string { return "C07" }

const c07Known = "dict-keys-register-in-map-order"

// c07Exec builds and runs a history with fresh objects (a variable so that the tests can
// put an order-dependent implementation in its place).
var c07Exec = ExecFresh

// c07Children are the child runs of this harness run (nil: none were started).
var c07Children *Children

// Paths that only ever appear as Dict keys (and in hints for themselves): their guessed
// names are pairwise distinct words, no word is another word plus digits, and no path of
// PathPool, no name of namePool and no filler path yields one of them.  Registering any
// set of them in any order therefore gives every path the same name.
var c07FreshPaths = []string{
	"k0.io/kalpha", "k1.io/kbravo", "k2.io/kcharlie", "k3.io/kdelta", "k4.io/kecho", "k5.io/kfoxtrot",
	"k6.io/kgolf", "k7.io/khotel", "k8.io/kindia", "k9.io/kjuliet", "k10.io/kkilo", "k11.io/klima",
}

func c07FreshHint(p string) string { return "h" + p[strings.LastIndex(p, "/")+2:] }

type c07gen struct {
	r       *rand.Rand
	body    []string // paths drawn from PathPool (they collide on purpose)
	keyable []int    // indices of body paths referenced by the leading statements
	fresh   []string
	kctr    int
	tags    map[string]bool
	maxMap  int // size of the largest map the renderer has to traverse
}

func (g *c07gen) tag(s string) { g.tags[s] = true }

func (g *c07gen) sawMap(n int) {
	if n > g.maxMap {
		g.maxMap = n
	}
}

func c07Bucket(n int, bounds ...int) string {
	lo := 0
	for _, b := range bounds {
		if n < b {
			if lo == b-1 {
				return fmt.Sprint(lo)
			}
			return fmt.Sprintf("%d-%d", lo, b-1)
		}
		lo = b
	}
	return fmt.Sprintf("%d+", lo)
}

func c07Size(r *rand.Rand, small, max int) int {
	switch r.Intn(8) {
	case 0:
		return 0
	case 1:
		return 1 + r.Intn(small)
	default:
		return small + 1 + r.Intn(max-small)
	}
}

func (g *c07gen) dict(depth int) *term.Dict {
	r := g.r
	n := c07Size(r, 3, 12)
	d := &term.Dict{}
	surviving := 0
	for i := 0; i < n; i++ {
		g.kctr++
		name := fmt.Sprintf("K%d", g.kctr)
		var k term.Node
		switch r.Intn(7) {
		case 0:
			k = term.S(term.Lit(g.kctr))
		case 1:
			k = term.S(term.Lit(name))
		case 2:
			k = term.S(term.Id(name))
		case 3, 4:
			if len(g.keyable) > 0 {
				k = term.S(term.Qual(g.body[g.keyable[r.Intn(len(g.keyable))]], name))
				g.tag("dict-key-qual-imported")
			} else {
				k = term.S(term.Id(name))
			}
		case 5:
			if len(g.fresh) > 0 {
				k = term.S(term.Qual(pick(r, g.fresh), name))
				g.tag("dict-key-qual-fresh")
			} else {
				k = term.S(term.Lit(name))
			}
		default:
			if r.Intn(3) == 0 {
				k = g.compositeKey(pick(r, []string{"Point", "P2"}))
			} else {
				k = term.S(term.Id("f"), term.G("Call", term.S(term.Lit(g.kctr))))
			}
		}
		var v term.Node
		null := false
		switch r.Intn(12) {
		case 0:
			if r.Intn(2) == 0 {
				v = term.S(term.Null())
			} else {
				v = term.Nil{}
			}
			null = true // the pair is omitted, its key is never rendered
			g.tag("dict-null-pair")
		case 1:
			if depth == 0 {
				v = term.S(term.G("Map", term.S(term.G("Interface"))), term.Named("Int"), term.G("Values", g.dict(1)))
				g.tag("dict-nested")
			} else {
				v = term.S(term.Lit(i))
			}
		case 2, 3, 4:
			if len(g.body) > 0 {
				// any path, also one that no earlier statement imported: values are rendered in
				// sorted key order, after every key
				v = term.S(term.Qual(pick(r, g.body), fmt.Sprintf("W%d", g.kctr)))
				g.tag("dict-value-qual")
			} else {
				v = term.S(term.Lit(i))
			}
		default:
			v = term.S(term.Lit(r.Intn(100)))
		}
		if !null {
			surviving++
		}
		d.Pairs = append(d.Pairs, [2]term.Node{k, v})
	}
	g.sawMap(surviving)
	g.tag("dict-pairs=" + c07Bucket(n, 1, 4, 9))
	return d
}

// compositeKey: a Dict key that itself contains a Dict, `typ{X: .., Y: .., ..}` with 2..4
// inner pairs over the field names X Y Z W (inserted in random order).  The values hold the
// running counter, so the texts of all such keys of a file are pairwise distinct, while
// the keys of one type share everything up to the first value.
func (g *c07gen) compositeKey(typ string) term.Node {
	r := g.r
	fields := []string{"X", "Y", "Z", "W"}
	n := 2 + r.Intn(3)
	inner := &term.Dict{}
	for _, j := range r.Perm(4)[:n] {
		g.kctr++
		inner.Pairs = append(inner.Pairs, [2]term.Node{term.S(term.Id(fields[j])), term.S(term.Lit(r.Intn(3)*1000 + g.kctr))})
	}
	g.sawMap(n)
	g.tag("dict-key-contains-dict")
	return term.S(term.Id(typ), term.G("Values", inner))
}

// compositeKeyDict: `map[Point]int{Point{..}: 1, ...}` whose 2..6 keys are all composite
// literals of ONE type (their texts differ only inside the inner Dicts).
func (g *c07gen) compositeKeyDict() *term.Stmt {
	r := g.r
	n := 2 + r.Intn(5)
	d := &term.Dict{}
	for i := 0; i < n; i++ {
		d.Pairs = append(d.Pairs, [2]term.Node{g.compositeKey("Point"), term.S(term.Lit(i))})
	}
	g.sawMap(n)
	g.tag("dict-composite-keys=" + c07Bucket(n, 2, 4))
	return term.S(term.Named("Var"), term.Id("_"), term.Op("="), term.G("Map", term.S(term.Id("Point"))), term.Named("Int"), term.G("Values", d))
}

func (g *c07gen) tagNode() term.Tag {
	r := g.r
	n := c07Size(r, 3, 10)
	seen := map[string]bool{}
	t := term.Tag{}
	if n == 0 && r.Intn(2) == 0 {
		t.KV = [][2]string{} // empty, non-nil map
	}
	for len(t.KV) < n {
		k := TagKey(r)
		if seen[k] {
			continue
		}
		seen[k] = true
		t.KV = append(t.KV, [2]string{k, AdvString(r)})
	}
	g.sawMap(n)
	g.tag("tag-keys=" + c07Bucket(n, 1, 4, 8))
	return t
}

// c07Recipe draws one file of the deterministic domain.
func c07Recipe(r *rand.Rand) *Case {
	g := &c07gen{r: r, tags: map[string]bool{}}
	g.body = somePaths(r, 10)
	for _, i := range r.Perm(len(c07FreshPaths))[:r.Intn(7)] {
		g.fresh = append(g.fresh, c07FreshPaths[i])
	}
	// trailing-slash pair (1 recipe in 4): the same package spelled with and without a trailing
	// slash, hinted under DIFFERENT names ("a.b/yaml" -> n, "a.b/yaml/" -> nv2).  These are two
	// different paths with independent hints; one spelling is always referenced, the other in
	// two thirds of the recipes.  The hints sit in the ImportNames map (2/3) or in two separate
	// ImportName calls (1/3).
	pairFirst, pairSecond := "", ""
	if r.Intn(4) == 0 {
		base := pick(r, slashPairBases)
		pairFirst, pairSecond = base, base+"/"
		if r.Intn(2) == 0 {
			pairFirst, pairSecond = pairSecond, pairFirst
		}
		for _, p := range []string{base, base + "/"} {
			if !has(g.body, p) {
				g.body = append(g.body, p)
			}
		}
		r.Shuffle(len(g.body), func(a, b int) { g.body[a], g.body[b] = g.body[b], g.body[a] })
		g.tag("trailing-slash-pair")
	}
	var h hist.History
	local := ""
	if len(g.body) > 0 && r.Intn(4) == 0 {
		local = g.body[r.Intn(len(g.body))]
		h = append(h, hist.Op{Kind: "newfilepathname", F: 0, A: local, B: "q"})
		g.tag("local")
	} else {
		h = append(h, hist.Op{Kind: "newfile", F: 0, A: "p"})
	}
	if r.Intn(3) == 0 {
		h = append(h, hist.Op{Kind: "prefix", F: 0, A: pick(r, prefixPool)})
		g.tag("prefix")
	}

	// hints: one ImportNames map of 0..50 entries, 0..2 single hints before or after it
	var setup hist.History
	nin := c07Size(r, 3, 50)
	var pairs [][2]string
	for _, p := range g.body {
		if len(pairs) < nin && r.Intn(3) == 0 && p != pairFirst && p != pairSecond {
			pairs = append(pairs, [2]string{p, pick(r, namePool)})
		}
	}
	for _, p := range g.fresh {
		if len(pairs) < nin && r.Intn(4) == 0 {
			pairs = append(pairs, [2]string{p, c07FreshHint(p)})
		}
	}
	for i := 0; len(pairs) < nin; i++ {
		pairs = append(pairs, [2]string{fmt.Sprintf("unused.host/u%02d", i), pick(r, namePool)})
	}
	var pairOps hist.History
	if pairFirst != "" {
		n := pick(r, namePool)
		if r.Intn(3) > 0 {
			pairs = append(pairs, [2]string{pairFirst, n}, [2]string{pairSecond, n + "v2"})
			nin = len(pairs)
			g.tag("trailing-slash-pair=importnames")
		} else {
			pairOps = hist.History{{Kind: "importname", F: 0, A: pairFirst, B: n}, {Kind: "importname", F: 0, A: pairSecond, B: n + "v2"}}
			g.tag("trailing-slash-pair=importname-calls")
		}
	}
	r.Shuffle(len(pairs), func(a, b int) { pairs[a], pairs[b] = pairs[b], pairs[a] })
	setup = append(setup, hist.Op{Kind: "importnames", F: 0, Pairs: pairs})
	g.sawMap(nin)
	g.tag("importnames=" + c07Bucket(nin, 1, 4, 20))
	for _, op := range pairOps { // behind the map: these calls are the final hints of the two spellings
		setup = append(setup, op)
	}
	for i := r.Intn(3); i > 0 && len(g.body) > 0; i-- {
		op := hist.Op{Kind: pick(r, []string{"importname", "importalias"}), F: 0, A: pick(r, g.body), B: pick(r, namePool)}
		if op.Kind == "importalias" && r.Intn(4) == 0 {
			op.B = "."
			g.tag("dot-hint")
		}
		if r.Intn(2) == 0 {
			setup = append(setup, op)
		} else {
			setup = append(hist.History{op}, setup...)
		}
	}
	h = append(h, setup...)

	// anonymous imports: pool paths (a later reference overrides the entry) and fillers
	anon := map[string]bool{}
	var anons []string
	if r.Intn(3) > 0 {
		for i := 1 + r.Intn(20); i > 0; i-- {
			p := fmt.Sprintf("anon.host/a%02d", r.Intn(40))
			if r.Intn(3) == 0 {
				p = pick(r, PathPool)
			}
			if p != local && !anon[p] {
				anon[p] = true
				anons = append(anons, p)
			}
		}
		k := r.Intn(len(anons) + 1)
		if k > 0 {
			h = append(h, hist.Op{Kind: "anon", F: 0, Strs: anons[:k]})
		}
		if k < len(anons) {
			h = append(h, hist.Op{Kind: "anon", F: 0, Strs: anons[k:]})
		}
		g.tag("anon")
	}

	// leading statements: references that import the paths Dict keys may name
	var refs []int
	imported := map[string]bool{}
	for p := range anon {
		imported[p] = true
	}
	for i, p := range g.body {
		if r.Intn(3) > 0 || p == pairFirst {
			if p == pairSecond {
				g.tag("trailing-slash-pair-both-referenced")
			}
			g.keyable = append(g.keyable, i)
			if p != local {
				imported[p] = true
			}
			for k := r.Intn(2); k >= 0; k-- {
				refs = append(refs, i)
			}
		}
	}
	r.Shuffle(len(refs), func(a, b int) { refs[a], refs[b] = refs[b], refs[a] })
	for _, st := range RefBody(r, g.body, refs, nil) {
		h = append(h, hist.Op{Kind: "fadd", F: 0, Code: st})
	}
	g.sawMap(len(imported)) // lower bound of the import table at render time
	g.tag("imports>=" + c07Bucket(len(imported), 1, 4, 10, 20))

	// Dicts and Tags, in random order
	var rest []*term.Stmt
	for i := 1 + r.Intn(3); i > 0; i-- {
		rest = append(rest, term.S(term.Named("Var"), term.Id("_"), term.Op("="),
			term.G("Map", term.S(term.G("Interface"))), term.G("Interface"), term.G("Values", g.dict(0))))
	}
	for i := r.Intn(3); i > 0; i-- {
		g.kctr++
		f1 := term.S(term.Id("F1"), term.Named("Int"), g.tagNode())
		fields := []term.Node{f1}
		if len(g.body) > 0 && r.Intn(2) == 0 {
			fields = append(fields, term.S(term.Id("F2"), term.Qual(pick(r, g.body), fmt.Sprintf("W%d", g.kctr)), g.tagNode()))
		}
		rest = append(rest, term.S(term.Named("Type"), term.Id(fmt.Sprintf("T%d", g.kctr)), term.G("Struct", fields...)))
	}
	if r.Intn(3) == 0 {
		rest = append(rest, g.compositeKeyDict())
	}
	r.Shuffle(len(rest), func(a, b int) { rest[a], rest[b] = rest[b], rest[a] })
	for _, st := range rest {
		h = append(h, hist.Op{Kind: "fadd", F: 0, Code: st})
	}
	nf := r.Intn(3) == 0
	if nf {
		g.tag("noformat")
	}
	h = append(h, hist.Op{Kind: "noformat", F: 0, Flag: nf}, hist.Op{Kind: "render", F: 0}, hist.Op{Kind: "imports", F: 0})

	var tags []string
	for t := range g.tags {
		tags = append(tags, t)
	}
	sort.Strings(tags)
	// NonTrivial: the renderer has to traverse at least one map of >= 4 entries (surviving
	// Dict pairs, Tag keys, ImportNames entries, lower bound of the import table), counted on
	// the recipe.  The entries are inserted in the (random) order of the history, and Go
	// starts every traversal of a small map in a random slot (larger maps: random bucket and
	// per-map hash seed), so an unsorted traversal of such a map both misses the sorted order
	// and changes between builds with high probability.
	return &Case{Hist: h, Stream: "recipes", Tags: tags, NonTrivial: g.maxMap >= 4,
		Meta: map[string]interface{}{"builds": 8}}
}

// c07Families: paths whose guessed (or standard) package names coincide.
var c07Families = []struct {
	Name  string
	Paths []string
}{
	{"c", []string{"a.b/c", "x.y/c", "q.r/c"}},
	{"rand", []string{"math/rand", "crypto/rand", "a.b/rand", "x.y/rand"}},
	{"d", []string{"a.b/d", "c.b/d", "e.f/d"}},
	{"template", []string{"text/template", "html/template"}},
	{"x", []string{"a.b/x", "c.d/x", "e.f/x"}},
	{"pkg", []string{"x.y/pkg", "a/123", "a/-"}},
	{"yamlv3", []string{"gopkg.in/yaml.v3", "x.y/yaml-v3"}},
	{"foo", []string{"a.example/foo", "b.example/Foo", "c.example/f-o-o/"}},
}

// c07PlainAfterFailure draws one history of 2..6 plain renders (Statement.Render with no
// File: the library renders each against a NEW empty File).  Renders that fail - a format
// error (a fragment gofmt rejects) or a panic (Values(Dict, x); Lit of an unsupported type),
// recovered by the harness - reference a path P1 of a family of paths with one guessed name;
// they are followed by successful renders of OTHER statements referencing DIFFERENT paths of
// the same family.  Nothing a failed render registered may be visible later: the successful
// render writes n.Name, not n1.Name.
//
// Meta: "plain" = per operation "fail" or the exact text the render must write.
func c07PlainAfterFailure(r *rand.Rand) *Case {
	fam := c07Families[r.Intn(len(c07Families))]
	n := fam.Name
	perm := r.Perm(len(fam.Paths))
	path := func(i int) string { return fam.Paths[perm[i%len(perm)]] }
	tags := map[string]bool{"family=" + n: true}
	ctr := 0
	failing := func(p string) *term.Stmt {
		ctr++
		a := fmt.Sprintf("A%d", ctr)
		switch r.Intn(8) {
		case 0:
			tags["fail=fmterr"] = true
			return term.S(term.Qual(p, a), term.Op("{")) // n.A {
		case 1:
			tags["fail=fmterr"] = true
			return term.S(term.Qual(p, a), term.Id("b"), term.Id("c")) // n.A b c
		case 2:
			tags["fail=fmterr"] = true
			return term.S(term.Named("Func"), term.Qual(p, a), term.Op(")")) // func n.A )
		case 3:
			tags["fail=fmterr"] = true
			return term.S(term.Id("f"), term.G("Call", term.S(term.Qual(p, a)), term.S(term.Op("}")))) // f(n.A,})
		case 4:
			tags["fail=fmterr"] = true
			return term.S(term.Qual(p, a), term.Op("="), term.Op("=")) // n.A = =
		case 5, 6:
			// the qualifier is rendered (and its path registered), then Values panics on its second item
			tags["fail=panic-values-dict"] = true
			d := &term.Dict{Pairs: [][2]term.Node{{term.S(term.Id("k")), term.S(term.Lit(ctr))}}}
			return term.S(term.Qual(p, a), term.G("Values", d, term.S(term.Lit(2))))
		default:
			tags["fail=panic-bad-lit"] = true
			return term.S(term.Qual(p, a), term.Op("+"), term.Lit(struct{}{}))
		}
	}
	// ok draws a valid fragment over path(i), path(i+1) and the text it must render to
	ok := func(i int) (*term.Stmt, string) {
		ctr++
		m := fmt.Sprintf("M%d", ctr)
		p := path(i)
		switch r.Intn(4) {
		case 0:
			return term.S(term.Qual(p, m)), n + "." + m
		case 1:
			return term.S(term.Id("v"), term.Op(":="), term.Qual(p, m)), "v := " + n + "." + m
		case 2:
			if q := path(i + 1); q != p {
				// two paths of the family in one render: the first is n, the second n1
				return term.S(term.Qual(p, m), term.G("Call", term.S(term.Qual(q, "V")))), n + "." + m + "(" + n + "1.V)"
			}
			return term.S(term.Qual(p, m), term.G("Call")), n + "." + m + "()"
		default:
			return term.S(term.Qual(p, m), term.G("Call", term.S(term.Lit(ctr)))), fmt.Sprintf("%s.%s(%d)", n, m, ctr)
		}
	}
	var h hist.History
	var plan []string
	nfail, nokAfter := 0, 0
	k := 0              // index into the family: every render uses the next path
	if r.Intn(4) == 0 { // a successful render first: nothing of it is visible later either
		st, want := ok(k)
		k++
		h = append(h, hist.Op{Kind: "rplain", Code: st})
		plan = append(plan, want)
	}
	rounds := 1 + r.Intn(2)
	for j := 0; j < rounds; j++ {
		for f := 1 + r.Intn(2); f > 0; f-- {
			h = append(h, hist.Op{Kind: "rplain", Code: failing(path(k))})
			k++
			plan = append(plan, "fail")
			nfail++
		}
		for s := 1 + r.Intn(2); s > 0 && len(h) < 6; s-- {
			st, want := ok(k)
			k++
			h = append(h, hist.Op{Kind: "rplain", Code: st})
			plan = append(plan, want)
			nokAfter++
		}
	}
	if plan[len(plan)-1] == "fail" {
		st, want := ok(k)
		h = append(h, hist.Op{Kind: "rplain", Code: st})
		plan = append(plan, want)
		nokAfter++
	}
	tags[fmt.Sprintf("failed-renders=%d", nfail)] = true
	var ts []string
	for t := range tags {
		ts = append(ts, t)
	}
	sort.Strings(ts)
	// NonTrivial: at least one render that fails after registering a path is followed by a
	// successful render naming another path with the same guessed name (true by construction;
	// the oracle checks that the renders planned to fail really failed).
	return &Case{Hist: h, Stream: "plain-after-failure", Tags: ts, NonTrivial: nfail > 0 && nokAfter > 0,
		Meta: map[string]interface{}{"builds": 8, "plain": plan, "everyobs": true}}
}

func c07Cases(sub int64, t string) []*Case {
	r := rand.New(rand.NewSource(sub))
	n := tier(t, 400, 20000)
	out := make([]*Case, 0, n)
	for i := 0; i < n; i++ {
		c := c07Recipe(r)
		c.Meta["xkey"] = fmt.Sprintf("g%d", i)
		out = append(out, c)
	}
	// its own PRNG: the recipes above are the same whether or not this stream exists
	rp := rand.New(rand.NewSource(sub ^ 0x70a1))
	np := tier(t, 300, 6000)
	for i := 0; i < np; i++ {
		c := c07PlainAfterFailure(rp)
		c.Meta["xkey"] = fmt.Sprintf("p%d", i)
		out = append(out, c)
	}
	// stream mixed-keys (c07_mixed.go), again with a PRNG of its own
	rm := rand.New(rand.NewSource(sub ^ 0x3e7a11))
	nm := tier(t, 300, 12000)
	for i := 0; i < nm; i++ {
		c := c07MixedCase(rm)
		c.Meta["xkey"] = fmt.Sprintf("m%d", i)
		out = append(out, c)
	}
	// stream shared-names-map (c07_names.go), again with a PRNG of its own
	rn := rand.New(rand.NewSource(sub ^ 0x5a11ed))
	nn := tier(t, 250, 10000)
	for i := 0; i < nn; i++ {
		c := c07NamesCase(rn)
		c.Meta["xkey"] = fmt.Sprintf("n%d", i)
		out = append(out, c)
	}
	return out
}

func (c07) Generate(r *rand.Rand, t string) []*Case {
	sub := r.Int63() // everything below derives from the run's PRNG through this value
	cases := c07Cases(sub, t)
	if ChildExe != "" {
		c07Children = StartChildren(3, "C07", t, sub)
		for _, c := range cases {
			c.Tags = append(c.Tags, "cross-process-builds=3")
		}
	}
	// stream save-over-earlier (c07_save.go): this process only (the directories are made here)
	cases = append(cases, c07SaveOverCases(sub, t)...)
	return cases
}

// ChildCases: what a child process re-executes (same keys as in the parent).
func (p c07) ChildCases(t string, sub int64) []*Case {
	return append(p.Regressions(), c07Cases(sub, t)...)
}

// Regressions: the full domain, i.e. the open finding.  All cases carry its name (./check
// reports a failing case of that name as KNOWN-FINDING); the literal exemplar comes last
// because the report keeps the status of the last case of a name.
func (c07) Regressions() []*Case {
	mk := func(i int, setup hist.History, nf bool, keys [][2]string, wrap bool) *Case {
		d := &term.Dict{}
		for j, k := range keys {
			d.Pairs = append(d.Pairs, [2]term.Node{term.S(term.Qual(k[0], k[1])), term.S(term.Lit(j + 1))})
		}
		if wrap { // the competing keys sit in a Dict that is the value of an outer pair
			inner := term.S(term.G("Map", term.S(term.G("Interface"))), term.Named("Int"), term.G("Values", d))
			d = &term.Dict{Pairs: [][2]term.Node{{term.S(term.Lit("a")), term.S(term.Lit(0))}, {term.S(term.Lit("b")), inner}}}
		}
		st := term.S(term.Named("Var"), term.Id("_"), term.Op("="), term.G("Map", term.S(term.G("Interface"))), term.G("Interface"), term.G("Values", d))
		h := append(hist.History{{Kind: "newfile", F: 0, A: "p"}}, setup...)
		h = append(h, hist.Op{Kind: "noformat", F: 0, Flag: nf}, hist.Op{Kind: "fadd", F: 0, Code: st},
			hist.Op{Kind: "render", F: 0}, hist.Op{Kind: "imports", F: 0})
		return &Case{Name: c07Known, Hist: h, Stream: "regression", NonTrivial: true,
			Tags: []string{"full-domain", fmt.Sprintf("competing-keys=%d", len(keys))},
			Meta: map[string]interface{}{"builds": 60, "weak": true, "xkey": fmt.Sprintf("r%d", i)}}
	}
	x3 := [][2]string{{"a.b/x", "A"}, {"c.d/x", "B"}, {"e.f/x", "C"}}
	// second recorded finding: keys whose rendered texts are EQUAL (legal for non-constant map
	// keys such as calls) come out in map iteration order - the sort is stable
	eq := func(i int, nf bool) *Case {
		d := &term.Dict{}
		for j := 0; j < 4; j++ {
			d.Pairs = append(d.Pairs, [2]term.Node{term.S(term.Id("f"), term.G("Call")), term.S(term.Lit(j + 1))})
		}
		st := term.S(term.Named("Var"), term.Id("_"), term.Op("="), term.G("Map", term.S(term.G("Interface"))), term.G("Interface"), term.G("Values", d))
		h := hist.History{{Kind: "newfile", F: 0, A: "p"}, {Kind: "noformat", F: 0, Flag: nf}, {Kind: "fadd", F: 0, Code: st},
			{Kind: "render", F: 0}, {Kind: "imports", F: 0}}
		return &Case{Name: "dict-equal-key-texts-in-map-order", Hist: h, Stream: "regression", NonTrivial: true,
			Tags: []string{"full-domain", "equal-key-texts=4"},
			Meta: map[string]interface{}{"builds": 60, "weak": true, "xkey": fmt.Sprintf("e%d", i)}}
	}
	return []*Case{
		eq(0, true), eq(1, false),
		mk(0, hist.History{{Kind: "prefix", F: 0, A: "pkg"}}, false, x3, false),
		mk(1, nil, false, [][2]string{{"a.b/d", "A"}, {"c.b/d", "B"}, {"e.f/d", "C"}, {"x.y/d1", "D"}, {"math/rand", "E"}, {"crypto/rand", "F"}}, false),
		mk(2, hist.History{{Kind: "importnames", F: 0, Pairs: [][2]string{{"a.b/x", "foo"}, {"x.y/os", "foo"}, {"a.b/fmt", "foo"}}}}, true,
			[][2]string{{"a.b/x", "A"}, {"x.y/os", "B"}, {"a.b/fmt", "C"}}, false),
		mk(3, nil, true, x3, true),
		mk(4, nil, true, x3, false), // the exemplar of known_findings.json
	}
}

// Compare: everything, byte for byte.  For the named full-domain cases the model renders
// the keys in the order of the history line, the implementation in map order, so only
// what does not depend on that order is compared: kinds of the observations, the set of
// imported paths, and the output as a multiset of non-blank bytes (assigning x, x1, x2 to
// the paths in another order permutes names, it does not change which bytes are used).
func (c07) Compare(c *Case, exp, got []hist.Obs) string {
	if c.Meta["everyobs"] == true {
		// plain renders: every render has its own File, so the observations after a panic are
		// as meaningful as those before it (CompareAll stops at the first panic)
		if len(exp) != len(got) {
			return fmt.Sprintf("observation count differs: model %d, implementation %d", len(exp), len(got))
		}
		for i := range exp {
			if !hist.SameObs(exp[i], got[i]) {
				return fmt.Sprintf("observation %d differs:\n  model: %s\n  impl:  %s", i, exp[i], got[i])
			}
		}
		return ""
	}
	if c.Meta["weak"] != true {
		return CompareAll(exp, got)
	}
	if len(exp) != len(got) {
		return fmt.Sprintf("observation count differs: model %d, implementation %d", len(exp), len(got))
	}
	for i := range exp {
		if exp[i].Kind != got[i].Kind {
			return fmt.Sprintf("observation %d differs in kind:\n  model: %s\n  impl:  %s", i, exp[i], got[i])
		}
		switch exp[i].Kind {
		case "write", "fmterr":
			if c07SortedBytes(exp[i].Out) != c07SortedBytes(got[i].Out) {
				return fmt.Sprintf("observation %d is not a rearrangement of the model's bytes:\n  model: %s\n  impl:  %s", i, exp[i], got[i])
			}
		case "imports":
			var a, b []string
			for _, im := range exp[i].Imports {
				a = append(a, im.Path)
			}
			for _, im := range got[i].Imports {
				b = append(b, im.Path)
			}
			if strings.Join(a, "\n") != strings.Join(b, "\n") {
				return fmt.Sprintf("imported paths differ:\n  model: %q\n  impl:  %q", a, b)
			}
		}
	}
	return ""
}

func c07SortedBytes(s string) string {
	b := []byte(strings.Map(func(r rune) rune {
		if r == ' ' || r == '\t' || r == '\n' {
			return -1
		}
		return r
	}, s))
	sort.Slice(b, func(i, j int) bool { return b[i] < b[j] })
	return string(b)
}

func c07FirstDiff(a, b []hist.Obs) string {
	if len(a) != len(b) {
		return fmt.Sprintf("%d observations instead of %d", len(b), len(a))
	}
	for i := range a {
		if a[i].String() != b[i].String() {
			return fmt.Sprintf("observation %d:\n  first build: %s\n  this build:  %s", i, a[i], b[i])
		}
	}
	return ""
}

// Oracle: byte equality across repetitions.
// c07PlainCheck: the plain-after-failure stream.  Every render has its own File, so what a
// render writes may depend on its own statement only: it must equal the planned text and
// what the same operation gives when it is the only one ever executed (fresh objects).
func c07PlainCheck(c *Case, plan []string, got []hist.Obs) string {
	if len(got) != len(plan) || len(c.Hist) != len(plan) {
		return fmt.Sprintf("expected %d observations, got %d", len(plan), len(got))
	}
	for i, want := range plan {
		o := got[i]
		if want == "fail" {
			if o.Kind != "fmterr" && o.Kind != "panic" {
				return fmt.Sprintf("harness: render %d was built to fail but gave %s", i, o)
			}
			if o.Writes != 0 {
				return fmt.Sprintf("render %d failed but the writer was called", i)
			}
			continue
		}
		if o.Kind != "write" || o.Out != want {
			return fmt.Sprintf("render %d (after %d earlier plain renders) wrote %s, want %q", i, i, o, want)
		}
		alone := c07Exec(hist.History{c.Hist[i]})
		if len(alone) != 1 || alone[0].String() != o.String() {
			return fmt.Sprintf("render %d differs from the same render executed alone:\n  in the history: %s\n  alone:          %v", i, o, alone)
		}
	}
	return ""
}

func (c07) Oracle(c *Case, got []hist.Obs) string {
	if plan, ok := c.Meta["plain"].([]string); ok {
		if m := c07PlainCheck(c, plan, got); m != "" {
			return m
		}
	} else if c.Meta["weak"] != true {
		// the recipes are valid files: a failed render would make the comparison vacuous
		if o, ok := lastWrite(got); !ok || o.Kind != "write" {
			return fmt.Sprintf("the recipe did not render: %v", got)
		}
	}
	if _, ok := c.Meta["names"]; ok {
		// stream shared-names-map (c07_names.go): the caller's maps are intact, twins agree,
		// other orders of building the Files give every File the same bytes
		if m := c07NamesCheck(c, got); m != "" {
			return m
		}
	}
	if _, ok := c.Meta["c07save"]; ok {
		// stream save-over-earlier (c07_save.go): the same construction saved over different earlier contents
		if m := c07SaveOverCheck(c, got); m != "" {
			return m
		}
	}
	if c.Meta["mixed"] == true {
		// stream mixed-keys (c07_mixed.go): key order and the renders of this one build
		if m := c07MixedCheck(c, got); m != "" {
			return m
		}
	}
	builds, _ := c.Meta["builds"].(int)
	want := ObsText(got)
	for k := 1; k <= builds; k++ {
		again := c07Exec(c.Hist)
		if ObsText(again) != want {
			return fmt.Sprintf("build %d of %d of the same history (fresh objects, same process) differs from the first build: %s", k, builds, c07FirstDiff(got, again))
		}
	}
	key, keyed := c.Meta["xkey"].(string)
	if x := c07Children; x != nil && keyed {
		x.Wait()
		hs := xprocHistSum(c.Hist)
		for j, res := range x.Res {
			if x.Errs[j] != nil {
				// the machinery failed, not the property: stop the run (./check reports a failed harness)
				panic(fmt.Sprintf("C07: cross-process repetition could not run: child %d: %v", j, x.Errs[j]))
			}
			d, ok := res[key]
			if !ok || d[0] != hs {
				panic(fmt.Sprintf("C07: child %d did not regenerate case %s (history digest %q, here %q)", j, key, d[0], hs))
			}
		}
		if m := c07CheckDigests(key, xprocSha(want), x.Res); m != "" {
			return m
		}
	}
	return ""
}

func c07CheckDigests(key, mine string, res []ChildResult) string {
	for j, r := range res {
		if d := r[key]; d[1] != mine {
			return fmt.Sprintf("the same history built in child process %d gives different observations (sha256 %s there, %s here)", j, d[1], mine)
		}
	}
	return ""
}
