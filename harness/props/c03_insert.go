package props

import (
	"fmt"
	"math/rand"
	"strings"

	"verifharness/hist"
	"verifharness/term"
)

// ---- stream "insert-between-renders" of C03 ---------------------------------------------------
//
// ONE File rendered 2..4 times while the program grows THROUGH RETAINED POINTERS, so that new
// code lands anywhere in the tree: ABOVE the code that was rendered before (a statement of a
// function declared earlier in the file is extended), INSIDE it (before / between / after the
// old references of one block, or as a further argument of an old call) and BELOW it (a later
// function, or a declaration appended with File.Add).  The references that arrive later name
// paths that were never seen before AND compete for the names the known paths hold (the same
// last element in several spellings, math/rand vs crypto/rand, a hint that gives the name, a
// path that is itself called name+number), so a render after the first one reaches a new path
// BEFORE the known path whose name it would like to have.  A hint for a path not seen yet, a
// new PackagePrefix or a NoFormat toggle may come between two renders.
//
// The placeholders are statements that are created empty inside a Block (`f.Func()...Block(a,
// hole, b)`) or a Call; the caller keeps the pointer and extends it later (hole.Id("_").Op("=")
// .Qual(..), then .Op("+").Qual(..)).  The machinery is the one of C08's stream nested-fill
// (c08_fill.go): the model reads, for every render, the tree as it is at that point, rendered by
// a scratch File that has been given the import table of the real one; the implementation side
// executes the real thing - one File, values built once, extended through the pointers.
//
// Oracle: EVERY render of the history is resolved (RefCase.Resolve with the references that
// exist at that point): every traced qualifier is bound by the import block to the path it was
// built with, no two paths share a name, nothing is imported twice or unused.
type c03iMeta struct {
	F   *c08fMeta
	RCs map[int]*RefCase // step of a File render -> the references as they are at that render
}

type c03iSite struct {
	hole  *term.Stmt
	arg   bool // an argument of a call (first extension: q.V; else: _ = q.V)
	doc   int  // position in document order (holes and old references share one numbering)
	fills int
	unit  int
}

func c03InsertCase(r *rand.Rand, i int) *Case {
	base := c03Bases[i%len(c03Bases)]
	sp := &c08fSpec{}
	tags := map[string]bool{}
	step := func(st c08fStep) { sp.Steps = append(sp.Steps, st) }
	set := func(op hist.Op) { step(c08fStep{Kind: "set", Op: op}) }

	// ---- the paths: colliders (candidate name = base), numbered (own name base+digit), others
	var paths []string
	seen := map[string]bool{}
	needHint := map[int]string{} // paths that collide because a hint names them base
	add := func(p string) int {
		if seen[p] {
			return -1
		}
		seen[p] = true
		paths = append(paths, p)
		return len(paths) - 1
	}
	std := append([]string{}, c03StdByName[base]...)
	ncol := 3 + r.Intn(4)
	for tries := 0; len(paths) < ncol && tries < 100; tries++ {
		h := r.Intn(40)
		switch r.Intn(10) {
		case 0:
			add(fmt.Sprintf("h%d.io/%s%s", h, strings.ToUpper(base[:1]), base[1:]))
		case 1:
			add(fmt.Sprintf("h%d.io/%s/", h, base))
		case 2:
			add(fmt.Sprintf("h%d.io/-%s", h, base))
		case 3, 4:
			if len(std) > 0 {
				add(std[0])
				std = std[1:]
				tags["collider=std-name"] = true
				break
			}
			fallthrough
		case 5:
			if j := add(fmt.Sprintf("z%d.io/other%d", h, r.Intn(9))); j >= 0 {
				needHint[j] = base
				tags["collider=hinted"] = true
			}
		default:
			add(fmt.Sprintf("h%d.io/%s", h, base))
		}
	}
	colliders := len(paths)
	for m := r.Intn(3); m > 0; m-- {
		add(fmt.Sprintf("kv%d.io/%s%s", r.Intn(9), base, pick(r, []string{"1", "2", "3"})))
		tags["numbered-path"] = true
	}
	for m := r.Intn(3); m > 0; m-- {
		add(pick(r, []string{"fmt", "os", "io", "x.y/util", "a.b/misc"}))
	}

	// ---- the File
	local := ""
	if r.Intn(6) == 0 {
		local = paths[r.Intn(len(paths))]
		set(hist.Op{Kind: "newfilepathname", F: 0, A: local, B: "q"})
		tags["local=one-of-the-paths"] = true
	} else {
		set(hist.Op{Kind: "newfile", F: 0, A: "p"})
	}
	nf := r.Intn(2) == 0
	set(hist.Op{Kind: "noformat", F: 0, Flag: nf})
	if r.Intn(4) == 0 {
		set(hist.Op{Kind: "prefix", F: 0, A: pick(r, prefixPool)})
		tags["prefix"] = true
	}
	hints := map[string][2]string{}
	registered := map[int]bool{} // referenced in a render that has happened
	referenced := map[int]bool{} // referenced in the tree as it is now
	hint := func(j int, when string) {
		n, ok := needHint[j]
		if !ok {
			n = pick(r, []string{base, base + "1", "alt"})
		}
		kind := pick(r, []string{"importname", "importalias"})
		set(hist.Op{Kind: kind, F: 0, A: paths[j], B: n})
		hints[paths[j]] = [2]string{n, strings.TrimPrefix(kind, "import")}
		delete(needHint, j)
		tags["hint-"+when] = true
	}
	for j := range paths { // map-free, index order: deterministic
		if _, ok := needHint[j]; ok && r.Intn(2) == 0 {
			hint(j, "before-first-render")
		}
	}

	// ---- the initial tree: units in document order, holes and old references interleaved
	known := []int{}
	for _, j := range r.Perm(len(paths))[:1+r.Intn(2)] {
		known = append(known, j)
	}
	for _, j := range known {
		if _, ok := needHint[j]; ok {
			hint(j, "before-first-render")
		}
	}
	ctr, doc := 0, 0
	refDoc := map[int][]int{} // path -> document positions of its references
	q := func(j int, at int) term.Node {
		ctr++
		referenced[j] = true
		refDoc[j] = append(refDoc[j], at)
		return term.Qual(paths[j], fmt.Sprintf("V%d_%d", j, ctr))
	}
	var sites []*c03iSite
	newHole := func(arg bool, unit int) *term.Stmt {
		st := term.S()
		sp.Holes = append(sp.Holes, &c08fHole{St: st, Init: 0})
		sites = append(sites, &c03iSite{hole: st, arg: arg, doc: doc, unit: unit})
		doc++
		return st
	}
	oldRef := func(j int) term.Node {
		n := q(j, doc)
		doc++
		return n
	}
	nunits := 3 + r.Intn(3)
	refUnits := map[int]bool{}
	for _, u := range r.Perm(nunits)[:1+r.Intn(2)] {
		refUnits[u] = true
	}
	kn := 0
	var roots []*term.Stmt
	for u := 0; u < nunits; u++ {
		name := fmt.Sprintf("F%d", u)
		if !refUnits[u] {
			// a function whose body is nothing but placeholders (and a plain statement)
			var body []term.Node
			for n := 1 + r.Intn(3); n > 0; n-- {
				body = append(body, newHole(false, u))
			}
			if r.Intn(2) == 0 {
				body = append(body, term.S(term.Id("x"), term.Op(":="), term.Lit(u)), term.S(term.Id("_"), term.Op("="), term.Id("x")))
			}
			roots = append(roots, term.S(term.Named("Func"), term.Id(name), term.G("Params"), term.G("Block", body...)))
			continue
		}
		if r.Intn(3) == 0 {
			// var _ = f(hole, old, hole)
			var args []term.Node
			args = append(args, newHole(true, u))
			for n := 1 + r.Intn(2); n > 0; n-- {
				args = append(args, term.S(oldRef(known[kn%len(known)])))
				kn++
				if r.Intn(2) == 0 {
					args = append(args, newHole(true, u))
				}
			}
			roots = append(roots, term.S(term.Named("Var"), term.Id("_"), term.Op("="), term.Id("f"), term.G("Call", args...)))
			tags["old-references-in=call"] = true
			continue
		}
		var body []term.Node
		if r.Intn(3) > 0 {
			body = append(body, newHole(false, u))
		}
		for n := 1 + r.Intn(3); n > 0; n-- {
			body = append(body, term.S(term.Id("_"), term.Op("="), oldRef(known[kn%len(known)])))
			kn++
			if r.Intn(2) == 0 {
				body = append(body, newHole(false, u))
			}
		}
		if r.Intn(3) == 0 {
			// a nested block: switch { case old == 1: hole }
			cs := term.S(term.G("Case", term.S(oldRef(known[kn%len(known)]), term.Op("=="), term.Lit(1))), term.G("Block", newHole(false, u)))
			kn++
			body = append(body, term.S(term.G("Switch"), term.G("Block", cs)))
			tags["hole-in-case-block"] = true
		}
		roots = append(roots, term.S(term.Named("Func"), term.Id(name), term.G("Params"), term.G("Block", body...)))
		tags["old-references-in=block"] = true
	}
	for _, rt := range roots {
		step(c08fStep{Kind: "fadd", St: rt})
	}

	rcs := map[int]*RefCase{}
	snapshot := func() *RefCase {
		rc := &RefCase{Paths: paths, Local: local, Anon: map[string]bool{}, Hints: map[string][2]string{}, Rendered: map[int]bool{}, Hidden: map[int]bool{}, AnonThenHint: map[string]bool{}}
		for p, hnt := range hints {
			rc.Hints[p] = hnt
		}
		for j := range referenced {
			rc.Rendered[j] = true
		}
		return rc
	}
	nontrivial := false
	render := func() {
		rcs[len(sp.Steps)] = snapshot()
		step(c08fStep{Kind: "render"})
		for j := range referenced {
			registered[j] = true
		}
		if r.Intn(4) == 0 {
			step(c08fStep{Kind: "imports"})
		}
	}
	// firstKnownDoc: the first document position at which a path that is already registered and
	// competes for base is referenced
	firstKnownDoc := func() int {
		best := -1
		for j := range registered {
			if j >= colliders {
				continue
			}
			for _, d := range refDoc[j] {
				if best < 0 || d < best {
					best = d
				}
			}
		}
		return best
	}
	lastKnownDoc := func() int {
		best := -1
		for j := range registered {
			for _, d := range refDoc[j] {
				if d > best {
					best = d
				}
			}
		}
		return best
	}
	pickPath := func() int {
		// mostly a path that has not been referenced yet
		var fresh []int
		for j := range paths {
			if !referenced[j] {
				fresh = append(fresh, j)
			}
		}
		if len(fresh) > 0 && r.Intn(5) > 0 {
			return fresh[r.Intn(len(fresh))]
		}
		return r.Intn(len(paths))
	}
	fill := func(after bool) {
		j := pickPath()
		if _, ok := needHint[j]; ok {
			hint(j, "between-renders")
		} else if !referenced[j] && !after && r.Intn(6) == 0 {
			hint(j, "before-first-render")
		} else if !referenced[j] && after && r.Intn(6) == 0 {
			hint(j, "between-renders")
		}
		isNew := !registered[j]
		if r.Intn(6) == 0 {
			// BELOW everything: a declaration appended to the File
			st := term.S(term.Named("Var"), term.Id("_"), term.Op("="), q(j, doc))
			doc++
			step(c08fStep{Kind: "fadd", St: st})
			if after {
				tags["insert=appended-declaration"] = true
			}
			return
		}
		s := sites[r.Intn(len(sites))]
		var items []term.Node
		switch {
		case s.fills > 0:
			items = []term.Node{term.Op("+"), q(j, s.doc)}
			tags["hole-extended-twice"] = true
		case s.arg:
			items = []term.Node{q(j, s.doc)}
		default:
			items = []term.Node{term.Id("_"), term.Op("="), q(j, s.doc)}
		}
		s.fills++
		step(c08fStep{Kind: "ext", St: s.hole, Items: items})
		if !after {
			return
		}
		if s.arg {
			tags["insert-site=call-argument"] = true
		} else {
			tags["insert-site=block-statement"] = true
		}
		fk, lk := firstKnownDoc(), lastKnownDoc()
		switch {
		case s.doc < fk || (fk < 0 && s.doc < lk):
			tags["insert=above-known"] = true
		case s.doc > lk:
			tags["insert=below-known"] = true
		default:
			tags["insert=inside-known"] = true
		}
		if isNew && j < colliders && fk >= 0 && s.doc < fk {
			// a path never seen before, whose candidate name a registered path holds, is now
			// reached before that path
			tags["new-colliding-path-reached-before-known"] = true
			nontrivial = true
		}
		if isNew && j >= colliders && j < len(paths) && strings.HasPrefix(paths[j], "kv") && fk >= 0 && s.doc < fk {
			tags["new-numbered-path-reached-before-known"] = true
		}
	}
	if r.Intn(3) == 0 {
		fill(false) // something is filled in before the first render
	}
	rounds := 2 + r.Intn(3)
	for k := 0; k < rounds; k++ {
		render()
		if k == rounds-1 {
			break
		}
		for n := 1 + r.Intn(3); n > 0; n-- {
			fill(true)
		}
		switch r.Intn(10) {
		case 0:
			nf = !nf
			set(hist.Op{Kind: "noformat", F: 0, Flag: nf})
			tags["between=noformat-toggle"] = true
		case 1:
			set(hist.Op{Kind: "prefix", F: 0, A: pick(r, prefixPool)})
			tags["between=prefix"] = true
		case 2:
			render() // twice in a row, nothing in between
			tags["render-twice"] = true
		}
	}
	step(c08fStep{Kind: "imports"})
	tags[fmt.Sprintf("renders=%d", len(rcs))] = true
	tags["base="+base] = true
	tags["colliders="+c03Small(colliders)] = true
	h, views := c08fBuild(sp)
	// NonTrivial: in some render after the first, a path that was never seen before and whose
	// candidate name is held by an already registered path is referenced at a document position
	// before every reference of the registered competitors
	return &Case{Hist: h, Stream: "insert-between-renders", NonTrivial: nontrivial, Tags: sortedKeys(tags),
		Meta: map[string]interface{}{"c03i": &c03iMeta{F: &c08fMeta{Spec: sp, Views: views, MustWrite: true}, RCs: rcs}}}
}

func c03InsertOracle(m *c03iMeta, got []hist.Obs) string {
	if len(got) != len(m.F.Views) {
		return fmt.Sprintf("expected %d observations, got %d", len(m.F.Views), len(got))
	}
	n := 0
	for i, v := range m.F.Views {
		if v.Kind != "render" {
			continue
		}
		n++
		o := got[i]
		if o.Kind != "write" || o.Failed {
			return fmt.Sprintf("render %d of the File (a valid program) failed: %s", n, o)
		}
		rc := m.RCs[v.Step]
		if rc == nil {
			return fmt.Sprintf("harness: no bookkeeping for the render at step %d", v.Step)
		}
		if msg := rc.Resolve(o.Out); msg != "" {
			return fmt.Sprintf("render %d of the File: %s\n%s", n, msg, o.Out)
		}
	}
	if n == 0 {
		return "no render observation"
	}
	return ""
}
