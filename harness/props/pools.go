package props

import (
	"math/rand"
	"strings"
)

// AdvString draws an adversarial byte string: quotes, backquotes, backslashes, newlines,
// NUL, invalid UTF-8, code fragments, unicode, long runs.
func AdvString(r *rand.Rand) string {
	frag := []string{
		`"`, "`", `\`, "\n", "\r", "\t", "\x00", "\x7f", "'", "*/", "/*", "//", "\xff", "\xc0\xaf", "\xed\xa0\x80",
		"\xf4\x90\x80\x80", "\xe2\x82", "\u00e9", "\u4e16\u754c", "\u00a0", "\ufeff", "\U0001F600", "\u0130", "\u212a", "\u00ad",
		"a", "Z", "0", " ", "  ", "func(){}", `"; os.Exit(1); "`, "`+`", `\n`, `\x41`, `\u1234`, "${x}", "%d", ":", ",",
		"json", "omitempty", "-", "=", "{", "}", "(", ")", "[", "]", ";",
	}
	switch r.Intn(10) {
	case 0:
		return ""
	case 1: // plain ASCII word
		n := 1 + r.Intn(8)
		b := make([]byte, n)
		for i := range b {
			b[i] = byte('a' + r.Intn(26))
		}
		return string(b)
	case 2: // random bytes
		n := r.Intn(12)
		b := make([]byte, n)
		for i := range b {
			b[i] = byte(r.Intn(256))
		}
		return string(b)
	case 3: // random runes incl. surrogates-as-bytes and high planes
		var sb strings.Builder
		n := 1 + r.Intn(5)
		for i := 0; i < n; i++ {
			switch r.Intn(4) {
			case 0:
				sb.WriteRune(rune(r.Intn(0x80)))
			case 1:
				sb.WriteRune(rune(0x80 + r.Intn(0x800)))
			case 2:
				sb.WriteRune(rune(r.Intn(0x10000)))
			default:
				sb.WriteRune(rune(0x10000 + r.Intn(0x100000)))
			}
		}
		return sb.String()
	default:
		var sb strings.Builder
		n := 1 + r.Intn(5)
		for i := 0; i < n; i++ {
			sb.WriteString(frag[r.Intn(len(frag))])
		}
		return sb.String()
	}
}

// TagKey draws a conventional struct-tag key: printable ASCII without space, quote, colon.
func TagKey(r *rand.Rand) string {
	n := 1 + r.Intn(6)
	b := make([]byte, n)
	for i := range b {
		for {
			c := byte(0x21 + r.Intn(0x7e-0x21+1))
			if c != '"' && c != ':' {
				b[i] = c
				break
			}
		}
	}
	if r.Intn(3) > 0 { // mostly identifier-like
		for i := range b {
			b[i] = "abcdefgxyz_JSON09-"[r.Intn(18)]
		}
	}
	return string(b)
}
