package props

import (
	"math/rand"

	"verifharness/hist"
)

// C04: the import block is exact: used paths and anonymous imports, nothing else.
type c04 struct{}

func init() { Register(c04{}) }

func (c04) ID() string { return "C04" }

func (c04) Generate(r *rand.Rand, t string) []*Case {
	var out []*Case
	n := tier(t, 3000, 200000)
	for i := 0; i < n; i++ {
		// BlankHints: hints NAMED "_" for paths that are referenced nowhere (a quarter of the
		// entries of the large tables, and 1..3 separate ones in a third of the cases)
		o := SetupOpts{BlankHints: true}
		if i%5 == 0 {
			o.ManyHints = 20 + r.Intn(280) // large, mostly unused hint tables
		}
		c := refCaseRandom(r, 8, o, 4)
		c.Stream = "hidden+hints"
		rc := c.Meta["rc"].(*RefCase)
		c.NonTrivial = len(rc.Hidden) > 0 || len(rc.Anon) > 0 || o.ManyHints > 0
		if len(rc.Hidden) > 0 {
			c.Tags = append(c.Tags, "hidden-ref")
		}
		if len(rc.Anon) > 0 {
			c.Tags = append(c.Tags, "anon")
		}
		out = append(out, c)
	}
	// a file whose whole body renders nothing
	for i := 0; i < 50; i++ {
		paths := somePaths(r, 4)
		if len(paths) == 0 {
			continue
		}
		var hidden []int
		for j := range paths {
			hidden = append(hidden, j)
		}
		setup := hist.History{{Kind: "newfile", F: 0, A: "p"}}
		rc, h := BuildRefCase(r, paths, setup, "", nil, hidden)
		h = append(h, hist.Op{Kind: "render", F: 0}, hist.Op{Kind: "imports", F: 0})
		out = append(out, &Case{Hist: h, Stream: "all-hidden", NonTrivial: true, Meta: map[string]interface{}{"rc": rc}, Tags: []string{"all-hidden"}})
	}
	// settings-as-paths (c04_settings.go): the File's own setting strings (package name, path,
	// canonical path, prefix, hint names) reused as referenced / hidden / Anon paths and vice
	// versa, for all three constructors
	for i, n := 0, tier(t, 2000, 100000); i < n; i++ {
		out = append(out, settingsCase(r))
	}
	return out
}

func (c04) Compare(c *Case, exp, got []hist.Obs) string { return CompareAll(exp, got) }
func (c04) Oracle(c *Case, got []hist.Obs) string       { return refOracle(c, got) }
