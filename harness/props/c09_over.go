package props

import (
	"fmt"
	"math/rand"
	"os"
	"strings"

	"verifharness/hist"
	"verifharness/term"
)

// Two streams of C09 whose dimension is what EARLIER, INDEPENDENT Files leave behind for a later one.
//
// Stream "save-over": K = 2..5 independent Files (one file index, one *jen.File, own term nodes
// each) are saved ONE AFTER THE OTHER to the SAME name (1 case in 4: two names in turn).  The
// concurrent-save stream never gives two jobs one path; here the path is the shared medium: what
// Save leaves on disk must depend only on the File saved, not on the File saved there before.
// The bodies are drawn so that consecutive outputs are related in every way: the later File is
// the earlier one without its last declarations (its output is then a strict PREFIX of what the
// path holds), an unrelated SHORTER File, a LONGER one, the SAME source again, the same length
// with other bytes; formatted and NoFormat.  hist.World.save reads the file back at once, so the
// model's prediction (Compare) and the oracle see what is on disk after every Save.  Oracle: every
// read-back equals File.Render of an identically built File into a buffer (c09SaveWant: no Save,
// no file system); then the same jobs are saved in REVERSE order into a fresh directory and
// judged the same way.  Tags over=... are MEASURED on the wanted outputs (relation of the new
// output to the one the path holds).  NonTrivial (measured): at least one Save goes onto a path
// that holds a LONGER earlier output.
//
// Stream "failed-renders": N = 20..100 (thorough: up to 400) Files that FAIL in the formatter
// (File.Render, File.Save, or a fragment rendered with the File; a go/format error each), and one
// independent valid File that is built before / among / after them and rendered before (sometimes)
// and AFTER all of them.  Resources taken per render and given back only on the success path (a
// semaphore slot, a pooled buffer, a lock) show after enough failures - the numbers straddle the
// usual limits (GOMAXPROCS, 32, 64).  Oracle: every job shows what it shows alone (the failing
// ones their format error and no file, the valid one its bytes); the per-case hang guard of main
// turns a render that never returns into a failure with this history.  These cases come FIRST in
// the run, and nothing in Generate executes the implementation (c09Lazy), so that such a defect
// is met inside a case.  NonTrivial (measured): at least 20 renders of the case failed in the
// formatter and the valid File rendered after them.

// c09OverDecl: declaration number i of a family (deterministic: two Files of one family that
// share a number hold the same text, built from separate nodes).
func c09OverDecl(fam, i int) *term.Stmt {
	switch (fam + i) % 4 {
	case 0:
		return term.S(term.Named("Func"), term.Id(fmt.Sprintf("F%d", i)), term.G("Params"), term.Named("Int"),
			term.G("Block", term.S(term.G("Return", term.S(term.Lit(fam*1000+i))))))
	case 1:
		return term.S(term.Named("Var"), term.Id(fmt.Sprintf("S%d", i)), term.Op("="), term.Lit(fmt.Sprintf("value %d of family %d", i, fam)))
	case 2:
		return term.S(term.Named("Var"), term.Id(fmt.Sprintf("Q%d", i)), term.Op("="), term.Qual("example.com/model/types", fmt.Sprintf("T%d", i)), term.G("Values"))
	}
	return c09VarInt(fmt.Sprintf("V%d", i), fam*1000+i)
}

type c09OverFile struct {
	fam, n int
	pkg    string
	nf     bool
	flip   bool // same length, other bytes: the last declaration's number is changed in place
}

func c09OverCase(r *rand.Rand, t string) *Case {
	k := 2 + r.Intn(4)
	names := []string{"d0/zz_gen.go"}
	if r.Intn(4) == 0 {
		names = append(names, "d0/"+pick(r, []string{"zz_gen.go.tmp", "zz_gen.go~", "other.go"}))
	}
	files := make([]c09OverFile, k)
	rels := make([]string, k)
	files[0] = c09OverFile{fam: r.Intn(4), n: 3 + r.Intn(8), pkg: pick(r, c09SavePkgs), nf: r.Intn(4) == 0}
	for j := 1; j < k; j++ {
		prev := files[j-1]
		if len(names) == 2 && j >= 2 {
			prev = files[j-2] // the File saved to this name before
		}
		f := prev
		f.flip = false
		rel := pick(r, []string{"drop-last", "drop-last", "drop-last", "shorter-unrelated", "longer", "same", "flip"})
		switch rel {
		case "drop-last":
			if f.n < 2 {
				f.n = 2 + r.Intn(6)
				rel = "longer"
			} else {
				f.n -= 1 + r.Intn(c10Min(3, f.n-1))
			}
		case "shorter-unrelated":
			f = c09OverFile{fam: (prev.fam + 1 + r.Intn(3)) % 4, n: 1 + r.Intn(c10Min(3, prev.n)), pkg: pick(r, c09SavePkgs), nf: r.Intn(4) == 0}
		case "longer":
			f.n += 1 + r.Intn(4)
		case "flip":
			f.flip = true
		}
		files[j], rels[j] = f, rel
	}
	var h hist.History
	feats := map[string]bool{}
	for j, f := range files {
		h = append(h, hist.Op{Kind: "newfile", F: j, A: f.pkg})
		for i := 0; i < f.n; i++ {
			st := c09OverDecl(f.fam, i)
			if f.flip && i == f.n-1 {
				st = c09VarInt(fmt.Sprintf("V%d", i), 7000+f.fam*100+i) // as wide as the numbers of c09OverDecl
			}
			h = append(h, hist.Op{Kind: "fadd", F: j, Code: st})
		}
		h = append(h, hist.Op{Kind: "noformat", F: j, Flag: f.nf})
		if f.nf {
			feats["some-file:noformat"] = true
		}
		if r.Intn(6) == 0 {
			h = append(h, hist.Op{Kind: "render", F: j})
			feats["some-file:warmup-render"] = true
		}
		h = append(h, hist.Op{Kind: "save", F: j, A: names[j%len(names)]})
		if rels[j] != "" {
			feats["drawn="+rels[j]] = true
		}
	}
	info := &c09SaveInfo{}
	c := &Case{Hist: h, Stream: "save-over", Meta: map[string]interface{}{"c09save": info, "savepath": info.savePath, "seed": r.Int63(), "tier": t}}
	c.Tags = append([]string{"save-over", fmt.Sprintf("files=%d", k), fmt.Sprintf("names=%d", len(names)), "orders=given+reverse"}, sortedKeys(feats)...)
	return c09Lazy(c, c09OverMeasure)
}

// c09OverRelation: the new output against what the path holds.
func c09OverRelation(old, new string) string {
	switch {
	case old == new:
		return "identical"
	case len(old) > len(new) && strings.HasPrefix(old, new):
		return "earlier-longer:new-is-its-prefix"
	case len(old) > len(new):
		return "earlier-longer"
	case len(old) < len(new) && strings.HasPrefix(new, old):
		return "earlier-shorter:it-is-prefix-of-new"
	case len(old) < len(new):
		return "earlier-shorter"
	}
	return "same-length-other-bytes"
}

func c09OverMeasure(c *Case) {
	_, jobsOf := C09Jobs(c.Hist)
	holds := map[string]string{}
	held := map[string]bool{}
	seen := map[string]bool{}
	for _, j := range c09SaveJobs(c.Hist) {
		w := c09SaveWant(jobsOf[j.F])
		if w.Kind != "write" {
			continue
		}
		if held[j.Sym] {
			rel := c09OverRelation(holds[j.Sym], w.Out)
			seen["over="+rel] = true
			if strings.HasPrefix(rel, "earlier-longer") {
				c.NonTrivial = true
			}
		}
		holds[j.Sym], held[j.Sym] = w.Out, true
	}
	c.Tags = append(c.Tags, sortedKeys(seen)...)
}

func c09OverJudge(what string, jobs []c09SaveJob, want []hist.Obs, per map[int][]hist.Obs) string {
	for i, j := range jobs {
		obs := per[j.F]
		if len(obs) == 0 {
			return fmt.Sprintf("%sjob %d produced nothing", what, j.F)
		}
		o := obs[len(obs)-1]
		w := fmt.Sprintf("%sFile %d (Save to %s, a name that %d independent File(s) were saved to before): ", what, j.F, j.Sym, c09Earlier(jobs, i))
		if want[i].Kind != "write" {
			return w + "harness: the File does not render: " + want[i].String()
		}
		if o.Kind != "save" || o.Failed {
			return w + "Save did not succeed: " + o.String()
		}
		if o.Out != want[i].Out {
			return fmt.Sprintf("%safter Save returned the file does not hold exactly the source of the File saved (%d bytes on disk, %d rendered):\n   holds %q\n   want  %q", w, len(o.Out), len(want[i].Out), c09Clip(o.Out), c09Clip(want[i].Out))
		}
	}
	return ""
}

func c09Earlier(jobs []c09SaveJob, i int) int {
	n := 0
	for _, j := range jobs[:i] {
		if j.Sym == jobs[i].Sym {
			n++
		}
	}
	return n
}

func c09OverOracle(c *Case, got []hist.Obs) string {
	info, _ := c.Meta["c09save"].(*c09SaveInfo)
	if info == nil {
		return "C09: save-over case without its info"
	}
	defer info.cleanup()
	files, jobsOf := C09Jobs(c.Hist)
	base, ok := c09Split(c.Hist, got)
	if !ok {
		return fmt.Sprintf("%d observations for a history that makes %d", len(got), c09CountObs(c.Hist))
	}
	jobs := c09SaveJobs(c.Hist)
	want := make([]hist.Obs, len(jobs))
	for i, j := range jobs {
		want[i] = c09SaveWant(jobsOf[j.F])
	}
	if d := c09OverJudge("", jobs, want, base); d != "" {
		return d
	}
	// the same jobs in reverse order, fresh directory, fresh World, fresh nodes
	rev := &c09SaveInfo{}
	defer rev.cleanup()
	var h hist.History
	var rjobs []c09SaveJob
	var rwant []hist.Obs
	for i := len(files) - 1; i >= 0; i-- {
		h = append(h, jobsOf[files[i]]...)
	}
	for i := len(jobs) - 1; i >= 0; i-- {
		rjobs = append(rjobs, jobs[i])
		rwant = append(rwant, want[i])
	}
	h = c09Fresh(h)
	w := hist.NewWorld()
	w.SavePath = rev.savePath
	var robs []hist.Obs
	func() {
		defer func() {
			if r := recover(); r != nil {
				robs = nil
			}
		}()
		robs = w.Exec(h)
	}()
	per, ok := c09Split(h, robs)
	if !ok {
		return "reverse order: wrong number of observations"
	}
	return c09OverJudge("saved in reverse order: ", rjobs, rwant, per)
}

func c09OverShrink(c *Case) []*Case {
	var out []*Case
	mk := func(h hist.History) {
		info := &c09SaveInfo{}
		out = append(out, &Case{Hist: h, Stream: c.Stream, Tags: c.Tags, NonTrivial: c.NonTrivial,
			Meta: map[string]interface{}{"c09save": info, "savepath": info.savePath, "seed": c09Seed(c), "tier": c.Meta["tier"]}})
	}
	files, _ := C09Jobs(c.Hist)
	if len(files) > 2 {
		for _, f := range files {
			var h hist.History
			for _, op := range c.Hist {
				if op.F != f {
					h = append(h, op)
				}
			}
			mk(h)
		}
	}
	for i, op := range c.Hist {
		if op.Kind == "render" || (op.Kind == "fadd" && c.Stream == "save-over") {
			mk(append(append(hist.History{}, c.Hist[:i]...), c.Hist[i+1:]...))
		}
	}
	return out
}

func c09OverCases(r *rand.Rand, t string) []*Case {
	var out []*Case
	for i := tier(t, 60, 3000); i > 0; i-- {
		out = append(out, c09OverCase(r, t))
	}
	return out
}

// ---- stream failed-renders ----

func c09FailedBucket(n int) string {
	switch {
	case n < 33:
		return "20-32"
	case n < 65:
		return "33-64"
	case n <= 100:
		return "65-100"
	}
	return ">100"
}

func c09FailedCase(r *rand.Rand, t string, n int) *Case {
	g := &Gen{R: r, Paths: c09Some(r, c09Pool(r), 3)}
	// the valid File (index 0)
	var build hist.History
	build = append(build, hist.Op{Kind: "newfile", F: 0, A: pick(r, c09SavePkgs)})
	for i := 0; i < 1+r.Intn(4); i++ {
		build = append(build, hist.Op{Kind: "fadd", F: 0, Code: g.SimpleDecl(i)})
	}
	nfValid := r.Intn(6) == 0
	build = append(build, hist.Op{Kind: "noformat", F: 0, Flag: nfValid})
	placing := pick(r, []string{"built-before", "built-before", "built-among", "built-after"})
	early := placing != "built-after" && r.Intn(2) == 0
	var h hist.History
	if placing == "built-before" {
		h = append(h, build...)
		build = nil
		if early {
			h = append(h, hist.Op{Kind: "render", F: 0})
		}
	}
	via := map[string]int{}
	for f := 1; f <= n; f++ {
		if placing == "built-among" && len(build) > 0 && r.Intn(n/len(build)+1) == 0 {
			h = append(h, build[0])
			build = build[1:]
		}
		h = append(h, hist.Op{Kind: "newfile", F: f, A: pick(r, c09SavePkgs)})
		for i := r.Intn(3); i > 0; i-- {
			h = append(h, hist.Op{Kind: "fadd", F: f, Code: g.SimpleDecl(i)})
		}
		op := pick(r, []string{"render", "render", "render", "render", "render", "render", "save", "save", "rcode", "render-twice"})
		via[op]++
		if op == "rcode" {
			h = append(h, hist.Op{Kind: "rcode", F: f, Code: c10BrokenFragment(r)})
			continue
		}
		h = append(h, hist.Op{Kind: "fadd", F: f, Code: c10Broken(r)})
		switch op {
		case "save":
			h = append(h, hist.Op{Kind: "save", F: f, A: fmt.Sprintf("d0/bad%d.go", f)})
		case "render-twice":
			h = append(h, hist.Op{Kind: "render", F: f}, hist.Op{Kind: "render", F: f})
		default:
			h = append(h, hist.Op{Kind: "render", F: f})
		}
	}
	h = append(h, build...)
	h = append(h, hist.Op{Kind: "render", F: 0})
	if r.Intn(3) == 0 {
		h = append(h, hist.Op{Kind: "save", F: 0, A: "d0/good.go"})
	}
	h = append(h, hist.Op{Kind: "imports", F: 0})
	info := &c09SaveInfo{}
	tags := []string{"failed-renders", "failing-files=" + c09FailedBucket(n), "valid-file=" + placing, fmt.Sprintf("valid-file-noformat=%v", nfValid)}
	if early {
		tags = append(tags, "valid-file-also-rendered-before")
	}
	for k := range via {
		tags = append(tags, "failing-via="+k)
	}
	c := &Case{Hist: h, Stream: "failed-renders", Tags: tags, Meta: map[string]interface{}{"c09save": info, "savepath": info.savePath, "seed": r.Int63(), "tier": t}}
	return c
}

func c09FailedOracle(c *Case, got []hist.Obs) string {
	info, _ := c.Meta["c09save"].(*c09SaveInfo)
	if info != nil {
		defer info.cleanup()
	}
	files, jobs := C09Jobs(c.Hist)
	base, ok := c09Split(c.Hist, got)
	if !ok {
		return fmt.Sprintf("%d observations for a history that makes %d", len(got), c09CountObs(c.Hist))
	}
	failed := 0
	for _, o := range got {
		if o.Kind == "fmterr" {
			failed++
		}
	}
	// every job alone: fresh World, fresh nodes, a directory of its own
	alone := map[int][]hist.Obs{}
	tmp := &c09SaveInfo{}
	defer tmp.cleanup()
	for _, f := range files {
		h := c09Fresh(jobs[f])
		w := hist.NewWorld()
		w.SavePath = tmp.savePath
		func() {
			defer func() {
				if r := recover(); r != nil {
					alone[f] = []hist.Obs{{Kind: "bad", Msg: fmt.Sprintf("panic outside a render: %v", r)}}
				}
			}()
			alone[f] = w.Exec(h)
		}()
	}
	if d := C09Agree(files, base, []C09Run{{"every job alone", alone}}); d != "" {
		return fmt.Sprintf("after %d failed renders of other Files: %s", failed, d)
	}
	last := base[0]
	okValid := false
	for _, o := range last {
		if o.Kind == "write" && !o.Failed {
			okValid = true
		}
	}
	if !okValid {
		return "harness: the valid File of a failed-renders case did not render: " + fmt.Sprint(last)
	}
	if info != nil && info.root != "" {
		if es, err := os.ReadDir(info.root + "/d0"); err == nil {
			for _, e := range es {
				if strings.HasPrefix(e.Name(), "bad") {
					return "a Save that returned a format error left the file " + e.Name() + " behind"
				}
			}
		}
	}
	c.NonTrivial = failed >= 20
	return ""
}

// c09FailedCases: quick 6 cases (20, 33, 64, 100 failing Files and two drawn numbers),
// thorough 60 (up to 400).
func c09FailedCases(r *rand.Rand, t string) []*Case {
	var out []*Case
	for _, n := range []int{20, 33, 64, 100} {
		out = append(out, c09FailedCase(r, t, n))
	}
	for i := tier(t, 2, 56); i > 0; i-- {
		n := 20 + r.Intn(81)
		if t == "thorough" && r.Intn(4) == 0 {
			n = 100 + r.Intn(301)
		}
		out = append(out, c09FailedCase(r, t, n))
	}
	return out
}
