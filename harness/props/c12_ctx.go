package props

import (
	"fmt"
	"go/token"
	"math/rand"
	"sort"
	"strconv"
	"strings"

	"github.com/dave/jennifer/jen"

	"verifharness/hist"
	"verifharness/term"
)

// C12, streams "context", "magic-content" and "size" (round 6).
//
// The older streams put a literal into five skeletons (var x = @, x := @ ; y, func f() {..},
// var _ = @ ...) and vary its CONTENT.  The property says "one token: none of its characters
// leak into the surrounding code" for a literal wherever it stands, and the renderer has
// code paths that look at the CONTENT of items next to a group and at the rendered TEXT of the
// parts of a Dict.  These streams vary WHERE the literal stands and how LARGE it is:
//
//   context        ~35 hand-written code contexts (c12Contexts): Dict key, Dict value, key and
//                  value, several keys (ordered by their text), nested Dict inside a key,
//                  Index, map-index assignment, Case expressions, Case next to Default,
//                  composite elements, call arguments, Custom groups with several separators
//                  (also multi-line), a struct field with a Tag, return list, List on both
//                  sides of :=, Defs, chained binary operands, literal DIRECTLY IN FRONT OF A
//                  CHAINED Block (if / for / switch), literal followed by Index, Parens,
//                  Len / Append, next to a Line, next to comments, after a Qual.  Each context
//                  states its token skeleton in Go syntax (`@` per literal); the oracle is the
//                  token check of c12.go (go/scanner + strconv.Unquote / UnquoteChar; a byte
//                  slot is the conversion byte(<int>)).  Content: the targeted strings of the
//                  older streams, the magic strings below, blanks (runs of spaces, leading and
//                  trailing blanks, tabs), adversarial random strings, runes, bytes.  Modes:
//                  Statement.Render (formatted), File.Render formatted and NoFormat; one case
//                  in four also through the ...Func forms.
//   magic-content  a literal (string, rune) or identifier whose content EQUALS a string the
//                  renderer compares contents or names with - "default" "case" "block"
//                  "values" "types" "qual" "custom" "" "\n" "null" "C" "." the token type
//                  names of jen/tokens.go, the names of all groups, the punctuation groups
//                  open, close and separate with - in front of, behind, at the start of a
//                  statement before, and inside EVERY group kind in chained style (all
//                  variadic, one-argument and no-argument group methods found by reflection,
//                  Qual, Custom, Values(Dict) key and value).  The output need not be Go: the
//                  oracle renders the TWIN of the case (the same tree, every magic item
//                  replaced by a neutral marker of the same kind) and requires the same token
//                  sequence with exactly the marker tokens replaced by the literal (value
//                  decided by Unquote).  NoFormat File renders; Statement renders where the
//                  twin formats.
//   size           literals around the 64 KiB line (65535 65536 65537 bytes of literal, and of
//                  rendered LINE; 70000; 2^17) and 2^20, of printable bytes and of bytes that
//                  need \xNN (a quarter of the size: the rendered text is four times as long),
//                  in the shapes of c11.go, NoFormat and formatted File renders and Statement
//                  renders, also followed by short literals that must still be there.
//
// Compare = CompareAll (the model predicts the bytes of every case).

// ---------------------------------------------------------------------------------------
// contexts

type c12Context struct {
	Name    string
	Slots   int
	Decl    bool     // a top-level declaration; otherwise a statement (file modes: inside func f() { })
	Imports []string // paths the rendered FILE imports (at most one)
	Sorted  bool     // the slots are Dict keys: they appear ordered by their rendered text
	Tmpl    string   // token skeleton of the statement alone, Go syntax, `@` per slot
	Build   func(l []term.Node) *term.Stmt
}

func c12S(items ...term.Node) *term.Stmt { return term.S(items...) }

func c12Dict(pairs ...[2]term.Node) *term.Dict { return &term.Dict{Pairs: pairs} }

var c12Contexts = []c12Context{
	{Name: "dict-key", Slots: 1, Decl: true, Tmpl: "var m = map[string]int{@: 1};",
		Build: func(l []term.Node) *term.Stmt {
			return c12S(term.Named("Var"), term.Id("m"), term.Op("="), term.G("Map", c12S(term.Named("String"))), term.Named("Int"),
				term.G("Values", c12Dict([2]term.Node{c12S(l[0]), c12S(term.Lit(1))})))
		}},
	{Name: "dict-keys-3", Slots: 3, Decl: true, Sorted: true, Tmpl: "var m = map[string]int{@: 1, @: 1, @: 1,};",
		Build: func(l []term.Node) *term.Stmt {
			return c12S(term.Named("Var"), term.Id("m"), term.Op("="), term.G("Map", c12S(term.Named("String"))), term.Named("Int"),
				term.G("Values", c12Dict([2]term.Node{c12S(l[0]), c12S(term.Lit(1))}, [2]term.Node{c12S(l[1]), c12S(term.Lit(1))}, [2]term.Node{c12S(l[2]), c12S(term.Lit(1))})))
		}},
	{Name: "dict-value", Slots: 1, Decl: true, Tmpl: "var m = map[string]string{k: @};",
		Build: func(l []term.Node) *term.Stmt {
			return c12S(term.Named("Var"), term.Id("m"), term.Op("="), term.G("Map", c12S(term.Named("String"))), term.Named("String"),
				term.G("Values", c12Dict([2]term.Node{c12S(term.Id("k")), c12S(l[0])})))
		}},
	{Name: "dict-values-2", Slots: 2, Tmpl: "x := T{A: @, B: @,};",
		Build: func(l []term.Node) *term.Stmt {
			return c12S(term.Id("x"), term.Op(":="), term.Id("T"),
				term.G("Values", c12Dict([2]term.Node{c12S(term.Id("B")), c12S(l[1])}, [2]term.Node{c12S(term.Id("A")), c12S(l[0])})))
		}},
	{Name: "dict-key-and-value", Slots: 2, Tmpl: "x := map[string]string{@: @};",
		Build: func(l []term.Node) *term.Stmt {
			return c12S(term.Id("x"), term.Op(":="), term.G("Map", c12S(term.Named("String"))), term.Named("String"),
				term.G("Values", c12Dict([2]term.Node{c12S(l[0]), c12S(l[1])})))
		}},
	{Name: "dict-inside-key", Slots: 2, Tmpl: "x := map[P]string{P{X: @}: @};",
		Build: func(l []term.Node) *term.Stmt {
			key := c12S(term.Id("P"), term.G("Values", c12Dict([2]term.Node{c12S(term.Id("X")), c12S(l[0])})))
			return c12S(term.Id("x"), term.Op(":="), term.G("Map", c12S(term.Id("P"))), term.Named("String"),
				term.G("Values", c12Dict([2]term.Node{key, c12S(l[1])})))
		}},
	{Name: "dict-key-in-call", Slots: 2, Tmpl: "x := T{f(@, 1): g(@)};",
		Build: func(l []term.Node) *term.Stmt {
			return c12S(term.Id("x"), term.Op(":="), term.Id("T"),
				term.G("Values", c12Dict([2]term.Node{c12S(term.Id("f"), term.G("Call", c12S(l[0]), c12S(term.Lit(1)))), c12S(term.Id("g"), term.G("Call", c12S(l[1])))})))
		}},
	{Name: "index", Slots: 1, Tmpl: "x := m[@];",
		Build: func(l []term.Node) *term.Stmt {
			return c12S(term.Id("x"), term.Op(":="), term.Id("m"), term.G("Index", c12S(l[0])))
		}},
	{Name: "index-assign", Slots: 2, Tmpl: "m[@] = @;",
		Build: func(l []term.Node) *term.Stmt {
			return c12S(term.Id("m"), term.G("Index", c12S(l[0])), term.Op("="), l[1])
		}},
	{Name: "lit-then-index", Slots: 1, Tmpl: "c := @[0];",
		Build: func(l []term.Node) *term.Stmt {
			return c12S(term.Id("c"), term.Op(":="), l[0], term.G("Index", c12S(term.Lit(0))))
		}},
	{Name: "case", Slots: 2, Tmpl: "switch v { case @, @: return; };",
		Build: func(l []term.Node) *term.Stmt {
			return c12S(term.G("Switch"), term.Id("v"), term.G("Block",
				c12S(term.G("Case", c12S(l[0]), c12S(l[1])), term.G("Block", c12S(term.G("Return"))))))
		}},
	{Name: "case-and-default", Slots: 2, Tmpl: "switch v { case @: f(); default: g(@); };",
		Build: func(l []term.Node) *term.Stmt {
			return c12S(term.G("Switch"), term.Id("v"), term.G("Block",
				c12S(term.G("Case", c12S(l[0])), term.G("Block", c12S(term.Id("f"), term.G("Call")))),
				c12S(term.Named("Default"), term.G("Block", c12S(term.Id("g"), term.G("Call", c12S(l[1])))))))
		}},
	{Name: "values", Slots: 2, Tmpl: "x := []string{@, @};",
		Build: func(l []term.Node) *term.Stmt {
			return c12S(term.Id("x"), term.Op(":="), term.G("Index"), term.Named("String"), term.G("Values", c12S(l[0]), c12S(l[1])))
		}},
	{Name: "call", Slots: 2, Tmpl: "y(a, @, g(@));",
		Build: func(l []term.Node) *term.Stmt {
			return c12S(term.Id("y"), term.G("Call", c12S(term.Id("a")), c12S(l[0]), c12S(term.Id("g"), term.G("Call", c12S(l[1])))))
		}},
	{Name: "custom-list", Slots: 2, Tmpl: "x := []string{@, @};",
		Build: func(l []term.Node) *term.Stmt {
			return c12S(term.Id("x"), term.Op(":="), term.Custom(jen.Options{Open: "[]string{", Close: "}", Separator: ","}, c12S(l[0]), c12S(l[1])))
		}},
	{Name: "custom-plus", Slots: 3, Tmpl: "x := (@ + @ + @);",
		Build: func(l []term.Node) *term.Stmt {
			return c12S(term.Id("x"), term.Op(":="), term.Custom(jen.Options{Open: "(", Close: ")", Separator: "+"}, c12S(l[0]), c12S(l[1]), c12S(l[2])))
		}},
	{Name: "custom-multi", Slots: 2, Tmpl: "{ _ = @; _ = @; };",
		Build: func(l []term.Node) *term.Stmt {
			return c12S(term.Custom(jen.Options{Open: "{", Close: "}", Separator: ";", Multi: true},
				c12S(term.Id("_"), term.Op("="), l[0]), c12S(term.Id("_"), term.Op("="), l[1])))
		}},
	{Name: "custom-multi-comma", Slots: 2, Tmpl: "x := f(@, @,);",
		Build: func(l []term.Node) *term.Stmt {
			return c12S(term.Id("x"), term.Op(":="), term.Id("f"), term.Custom(jen.Options{Open: "(", Close: ")", Separator: ",", Multi: true}, c12S(l[0]), c12S(l[1])))
		}},
	{Name: "tag", Slots: 2, Decl: true, Tmpl: "type T struct { F [@]int `json:\"f\"`; G [@]string; };",
		Build: func(l []term.Node) *term.Stmt {
			return c12S(term.Named("Type"), term.Id("T"), term.G("Struct",
				c12S(term.Id("F"), term.G("Index", c12S(l[0])), term.Named("Int"), term.Tag{KV: [][2]string{{"json", "f"}}}),
				c12S(term.Id("G"), term.G("Index", c12S(l[1])), term.Named("String"))))
		}},
	{Name: "return", Slots: 2, Tmpl: "return @, @;",
		Build: func(l []term.Node) *term.Stmt { return c12S(term.G("Return", c12S(l[0]), c12S(l[1]))) }},
	{Name: "list", Slots: 2, Tmpl: "a, b := @, @;",
		Build: func(l []term.Node) *term.Stmt {
			return c12S(term.G("List", c12S(term.Id("a")), c12S(term.Id("b"))), term.Op(":="), term.G("List", c12S(l[0]), c12S(l[1])))
		}},
	{Name: "defs", Slots: 2, Decl: true, Tmpl: "const ( a = @; b = @; );",
		Build: func(l []term.Node) *term.Stmt {
			return c12S(term.Named("Const"), term.G("Defs", c12S(term.Id("a"), term.Op("="), l[0]), c12S(term.Id("b"), term.Op("="), l[1])))
		}},
	{Name: "binary-chain", Slots: 3, Tmpl: "x := @ + @ + @;",
		Build: func(l []term.Node) *term.Stmt {
			return c12S(term.Id("x"), term.Op(":="), l[0], term.Op("+"), l[1], term.Op("+"), l[2])
		}},
	{Name: "if-lit-block", Slots: 1, Tmpl: "if mode == @ { return; };",
		Build: func(l []term.Node) *term.Stmt {
			return c12S(term.G("If"), term.Id("mode"), term.Op("=="), l[0], term.G("Block", c12S(term.G("Return"))))
		}},
	{Name: "if-group-lit-block", Slots: 2, Tmpl: "if x := @; x != @ { };",
		Build: func(l []term.Node) *term.Stmt {
			return c12S(term.G("If", c12S(term.Id("x"), term.Op(":="), l[0]), c12S(term.Id("x"), term.Op("!="), l[1])), term.G("Block"))
		}},
	{Name: "for-lit-block", Slots: 1, Tmpl: "for x != @ { f(); };",
		Build: func(l []term.Node) *term.Stmt {
			return c12S(term.G("For"), term.Id("x"), term.Op("!="), l[0], term.G("Block", c12S(term.Id("f"), term.G("Call"))))
		}},
	{Name: "switch-lit-block", Slots: 2, Tmpl: "switch @ { case @: };",
		Build: func(l []term.Node) *term.Stmt {
			return c12S(term.G("Switch"), l[0], term.G("Block", c12S(term.G("Case", c12S(l[1])), term.G("Block"))))
		}},
	{Name: "parens", Slots: 1, Tmpl: "x := (@);",
		Build: func(l []term.Node) *term.Stmt { return c12S(term.Id("x"), term.Op(":="), term.G("Parens", c12S(l[0]))) }},
	{Name: "len-append", Slots: 3, Tmpl: "n := len(@) + len(append(s, @, @));",
		Build: func(l []term.Node) *term.Stmt {
			return c12S(term.Id("n"), term.Op(":="), term.G("Len", c12S(l[0])), term.Op("+"),
				term.G("Len", c12S(term.G("Append", c12S(term.Id("s")), c12S(l[1]), c12S(l[2])))))
		}},
	{Name: "line", Slots: 2, Tmpl: "x := @; y := @;",
		Build: func(l []term.Node) *term.Stmt {
			return c12S(term.Id("x"), term.Op(":="), l[0], term.Line(), term.Id("y"), term.Op(":="), l[1])
		}},
	{Name: "comment-behind", Slots: 1, Tmpl: "x := @ // c\n;",
		Build: func(l []term.Node) *term.Stmt {
			return c12S(term.Id("x"), term.Op(":="), l[0], term.Comment{Text: "c"})
		}},
	{Name: "comment-in-front", Slots: 2, Tmpl: "x := /* c */ @ /* d */ + @;",
		Build: func(l []term.Node) *term.Stmt {
			return c12S(term.Id("x"), term.Op(":="), term.Comment{Text: "/* c */"}, l[0], term.Comment{Text: "/* d */"}, term.Op("+"), l[1])
		}},
	{Name: "after-qual", Slots: 1, Imports: []string{"strings"}, Tmpl: "x := strings.ToUpper(@);",
		Build: func(l []term.Node) *term.Stmt {
			return c12S(term.Id("x"), term.Op(":="), term.Qual("strings", "ToUpper"), term.G("Call", c12S(l[0])))
		}},
	{Name: "nested-stmt", Slots: 2, Tmpl: "x := @ + @;",
		Build: func(l []term.Node) *term.Stmt {
			return c12S(term.Id("x"), term.Op(":="), c12S(c12S(l[0])), term.Op("+"), c12S(l[1], term.Null()))
		}},
	{Name: "func-lit-arg", Slots: 1, Tmpl: "go func() { f(@); }();",
		Build: func(l []term.Node) *term.Stmt {
			return c12S(term.Named("Go"), term.Named("Func"), term.G("Params"), term.G("Block", c12S(term.Id("f"), term.G("Call", c12S(l[0])))), term.G("Call"))
		}},
}

// c12Rendered is the harness' statement of the text a literal renders to (used for the ORDER of
// Dict keys only; the value of every literal is decided on the output).
func c12Rendered(l c1xLit) string {
	switch l.Kind {
	case "lit":
		return strconv.Quote(l.V.(string))
	case "rune":
		return strconv.QuoteRune(l.V.(rune))
	case "byte":
		return fmt.Sprintf("byte(%#x)", l.V.(byte))
	}
	return l.V.(string)
}

func c12SlotNode(l c1xLit) term.Node {
	if l.Kind == "id" {
		return term.Id(l.V.(string))
	}
	return l.tok()
}

// c12Twin: the neutral marker standing in for slot k in the twin of a case.
func c12Twin(k int, kind string) c1xLit {
	switch kind {
	case "rune":
		return c12Rune(rune(0x4e00 + k))
	case "byte":
		return c12Byte(byte(200 + k))
	case "id":
		return c1xLit{Kind: "id", V: "zq" + strconv.Itoa(k) + "w"}
	}
	return c12Str("zq" + strconv.Itoa(k) + "w")
}

// c12CtxCase is the Meta "ctx" of a case of these streams.
type c12CtxCase struct {
	Name   string
	Mode   string   // plain | file | file-nf
	Lits   []c1xLit // as handed to the builder
	Want   []c1xLit // in the order of the output (Sorted contexts)
	Tmpl   string   // "" = no hand-written skeleton (magic-content)
	Twin   hist.History
	remake func(lits []c1xLit) *Case
}

// c12Wrap builds the history of one statement in a mode.
func c12Wrap(st *term.Stmt, decl bool, mode string) hist.History {
	if mode == "plain" {
		return hist.History{{Kind: "rplain", Code: st}}
	}
	if !decl {
		st = term.S(term.Named("Func"), term.Id("f"), term.G("Params"), term.G("Block", st))
	}
	return hist.History{{Kind: "newfile", F: 0, A: "p"}, {Kind: "noformat", F: 0, Flag: mode == "file-nf"},
		{Kind: "fadd", F: 0, Code: st}, {Kind: "render", F: 0}}
}

func c12WrapTmpl(tmpl string, decl bool, imports []string, mode string) string {
	if mode == "plain" {
		return tmpl
	}
	out := "package p; "
	for _, p := range imports {
		out += "import " + strconv.Quote(p) + "; "
	}
	if decl {
		return out + tmpl
	}
	return out + "func f() { " + tmpl + " };"
}

func c12Nodes(lits []c1xLit) []term.Node {
	out := make([]term.Node, len(lits))
	for i, l := range lits {
		out[i] = c12SlotNode(l)
	}
	return out
}

func c12Twins(lits []c1xLit) []c1xLit {
	out := make([]c1xLit, len(lits))
	for i, l := range lits {
		out[i] = c12Twin(i, l.Kind)
	}
	return out
}

func c12LitTags(lits []c1xLit) (tags map[string]bool, nontrivial bool) {
	tags = map[string]bool{}
	for _, l := range lits {
		switch l.Kind {
		case "lit":
			s := l.V.(string)
			for _, t := range c12StringTags(s) {
				tags[t] = true
			}
			if strings.Contains(s, "  ") || strings.HasPrefix(s, " ") || strings.HasSuffix(s, " ") || strings.Contains(s, "\t") {
				tags["str:blanks"] = true
			}
			if strings.Contains(s, "%") {
				tags["str:percent"] = true
			}
			nontrivial = nontrivial || !c12PlainString(s)
			tags["kind=string"] = true
		case "rune":
			r := l.V.(rune)
			for _, t := range c12RuneTags(r) {
				tags[t] = true
			}
			nontrivial = nontrivial || r < 0x20 || r > 0x7e || r == '\'' || r == '\\'
			tags["kind=rune"] = true
		case "byte":
			tags["byte"] = true
			tags["kind=byte"] = true
			nontrivial = nontrivial || l.V.(byte) != 0
		case "id":
			tags["kind=identifier"] = true
		}
	}
	return tags, nontrivial
}

// c12ContextCase: NonTrivial as in c12Case (a literal that needs more than wrapping its bytes in
// quotes) or a string with blanks that a whitespace normalisation would change (runs of
// blanks, leading / trailing blanks, tabs) or a magic string.
func c12ContextCase(cx *c12Context, lits []c1xLit, mode string, funcForm bool, stream string) *Case {
	if len(lits) != cx.Slots {
		panic(fmt.Sprintf("c12: context %s with %d literals", cx.Name, len(lits)))
	}
	want := lits
	if cx.Sorted {
		want = append([]c1xLit{}, lits...)
		sort.SliceStable(want, func(i, j int) bool { return c12Rendered(want[i]) < c12Rendered(want[j]) })
	}
	x := &c12CtxCase{Name: cx.Name, Mode: mode, Lits: lits, Want: want, Tmpl: c12WrapTmpl(cx.Tmpl, cx.Decl, cx.Imports, mode)}
	if !cx.Sorted {
		x.Twin = c12Wrap(cx.Build(c12Nodes(c12Twins(lits))), cx.Decl, mode)
	}
	x.remake = func(l []c1xLit) *Case { return c12ContextCase(cx, l, mode, funcForm, "shrunk") }
	tags, nt := c12LitTags(lits)
	for _, l := range lits {
		if s, ok := l.V.(string); ok && c12IsMagic(s) {
			tags["str:magic"] = true
			nt = true
		}
	}
	nt = nt || tags["str:blanks"]
	tags["ctx="+cx.Name] = true
	tags["mode="+mode] = true
	tags[fmt.Sprintf("literals=%d", len(lits))] = true
	if funcForm {
		tags["form=Func"] = true
	}
	return &Case{Hist: c12Wrap(cx.Build(c12Nodes(lits)), cx.Decl, mode), Stream: stream, Tags: sortedKeys(tags), NonTrivial: nt,
		Meta: map[string]interface{}{"ctx": x, "func": funcForm}}
}

// ---------------------------------------------------------------------------------------
// oracle

// c12TwinMarker: the tokens of tw from index i on are the marker of slot k (-1: none); n is
// the number of tokens of the marker.
func c12TwinMarker(tw []c12Token, i int, lits []c1xLit) (k, n int) {
	for k, l := range lits {
		m := c12Twin(k, l.Kind)
		switch l.Kind {
		case "lit":
			if tw[i].tok == token.STRING && tw[i].lit == strconv.Quote(m.V.(string)) {
				return k, 1
			}
		case "rune":
			if tw[i].tok == token.CHAR && tw[i].lit == strconv.QuoteRune(m.V.(rune)) {
				return k, 1
			}
		case "id":
			if tw[i].tok == token.IDENT && tw[i].lit == m.V.(string) {
				return k, 1
			}
		case "byte":
			if i+3 < len(tw) && tw[i].tok == token.IDENT && tw[i].lit == "byte" && tw[i+1].tok == token.LPAREN &&
				tw[i+2].tok == token.INT && tw[i+2].lit == fmt.Sprintf("%#x", m.V.(byte)) && tw[i+3].tok == token.RPAREN {
				return k, 4
			}
		}
	}
	return -1, 0
}

// c12TwinCheck: src scans into the token sequence of twin with exactly the marker of every slot
// replaced by the literal of that slot.
func c12TwinCheck(src, twin string, lits []c1xLit) string {
	got, errs := c12Scan(src)
	if len(errs) > 0 {
		return "output does not scan: " + strings.Join(errs, "; ")
	}
	tw, terrs := c12Scan(twin)
	if len(terrs) > 0 {
		return "harness: the twin (neutral literals) does not scan: " + strings.Join(terrs, "; ")
	}
	seen := make([]int, len(lits))
	i, j := 0, 0
	for i < len(tw) {
		if k, n := c12TwinMarker(tw, i, lits); k >= 0 {
			m, msg := c12MatchSlot(got, j, lits[k])
			if msg != "" {
				return fmt.Sprintf("literal %d: %s (the same code with a neutral literal renders %q)", k, msg, twin)
			}
			seen[k]++
			i += n
			j += m
			continue
		}
		if j >= len(got) {
			return fmt.Sprintf("output ends after %d tokens; the same code with a neutral literal has %d tokens (%q)", len(got), len(tw), twin)
		}
		if got[j].tok != tw[i].tok || (tw[i].tok != token.SEMICOLON && got[j].lit != tw[i].lit) {
			return fmt.Sprintf("token %d is %s %q; the same code with a neutral literal has %s %q there: the content of the literal changed the surrounding code (neutral: %q)",
				j, got[j].tok, got[j].lit, tw[i].tok, tw[i].lit, twin)
		}
		i++
		j++
	}
	if j != len(got) {
		return fmt.Sprintf("%d extra tokens compared with the same code with a neutral literal, first %s %q (neutral: %q)", len(got)-j, got[j].tok, got[j].lit, twin)
	}
	for k, n := range seen {
		if n < 1 {
			return fmt.Sprintf("harness: the marker of slot %d occurs %d times in the twin %q", k, n, twin)
		}
	}
	return ""
}

func (x *c12CtxCase) oracle(c *Case, got []hist.Obs) string {
	var twin []hist.Obs
	if x.Twin != nil {
		twin = hist.NewWorld().Exec(x.Twin)
		if len(twin) != 1 {
			return "harness: the twin has no single observation"
		}
		if twin[0].Kind != "write" || twin[0].Failed {
			// the code of the case is not Go whatever the literal is (magic-content, Statement
			// renders): the case must then fail in the same way
			if x.Tmpl != "" {
				return fmt.Sprintf("harness: the twin of a context case does not render: %s", twin[0])
			}
			if len(got) != 1 || got[0].Kind != twin[0].Kind {
				return fmt.Sprintf("the same code with a neutral literal gives %s, this one %v", twin[0], got)
			}
			return ""
		}
	}
	src, msg := c1xOutput(got)
	if msg != "" {
		return msg
	}
	if x.Tmpl != "" {
		if m := c12CheckTemplate(x.Tmpl, src, x.Want); m != "" {
			return m
		}
	}
	if twin != nil {
		if m := c12TwinCheck(src, twin[0].Out, x.Lits); m != "" {
			return m
		}
	}
	return c1xFuncOracle(c, src)
}

func (x *c12CtxCase) shrink() []*Case {
	if x.remake == nil {
		return nil
	}
	var out []*Case
	with := func(i int, l c1xLit) {
		ls := append([]c1xLit{}, x.Lits...)
		ls[i] = l
		out = append(out, x.remake(ls))
	}
	for i, l := range x.Lits {
		s, ok := l.V.(string)
		if !ok || l.Kind != "lit" || len(s) == 0 {
			continue
		}
		if len(s) > 3 {
			with(i, c12Str(s[:len(s)/2]))
			with(i, c12Str(s[len(s)/2:]))
		}
		if len(s) <= 64 {
			for k := 0; k < len(s); k++ {
				with(i, c12Str(s[:k]+s[k+1:]))
			}
		}
	}
	return out
}

// ---------------------------------------------------------------------------------------
// magic content

// c12MagicCore: strings that occur as comparands of contents, names, paths or aliases in
// jen/*.go (group.go tokens.go file.go jen.go), and the token type names of jen/tokens.go.
var c12MagicCore = []string{"default", "case", "block", "values", "types", "qual", "custom", "", "\n", "null", "C", ".", "_",
	"package", "identifier", "qualified", "keyword", "operator", "delimiter", "literal", "literal_rune", "literal_byte", "layout"}

// c12MagicMore: the names of the other groups and the punctuation groups are made of (controls:
// no comparison with them exists today).
var c12MagicMore = func() []string {
	out := []string{"{", "}", "(", ")", "[", "]", ",", ";", ":", " ", "\t", "{\n", "\n}", ",\n", "if ", "func", "return", "dict", "Dict", "statement", "group", "token", "comment", "tag", "lit", "else", "Default", "DEFAULT", "default:", " default", "default ", "Case", "Block"}
	seen := map[string]bool{}
	for _, l := range [][]string{VariadicGroups, FixedGroups, ZeroGroups} {
		for _, m := range l {
			if n := strings.ToLower(m); !seen[n] {
				seen[n] = true
				out = append(out, n)
			}
		}
	}
	return out
}()

var c12MagicSet = func() map[string]bool {
	m := map[string]bool{}
	for _, s := range c12MagicCore {
		m[s] = true
	}
	for _, s := range c12MagicMore {
		m[s] = true
	}
	return m
}()

func c12IsMagic(s string) bool { return c12MagicSet[s] }

// c12MagicItems: the items that carry the content s: the string literal, the rune literal when
// s is one code point, the identifier when s is one (and no keyword).
func c12MagicItems(s string) []c1xLit {
	out := []c1xLit{c12Str(s)}
	if rs := []rune(s); len(rs) == 1 && c12ValidRune(rs[0]) && string(rs) == s {
		out = append(out, c12Rune(rs[0]))
	}
	if token.IsIdentifier(s) {
		out = append(out, c1xLit{Kind: "id", V: s})
	}
	return out
}

// c12GroupKind: one kind of group and how to build it around / next to an item.
type c12GroupKind struct {
	Name   string
	Inside bool                               // the group takes items
	Mk     func(inside term.Node) *term.Group // inside == nil: the usual items only
}

func c12GroupKinds() []c12GroupKind {
	var out []c12GroupKind
	for _, m := range VariadicGroups {
		m := m
		out = append(out, c12GroupKind{Name: m, Inside: true, Mk: func(in term.Node) *term.Group {
			items := []term.Node{c12S(term.Id("p"))}
			if in != nil {
				items = append(items, c12S(in))
			}
			items = append(items, c12S(term.Id("q")))
			return term.G(m, items...)
		}})
		out = append(out, c12GroupKind{Name: m + "-empty", Mk: func(term.Node) *term.Group { return term.G(m) }})
	}
	for _, m := range FixedGroups {
		m := m
		out = append(out, c12GroupKind{Name: m, Inside: true, Mk: func(in term.Node) *term.Group {
			if in != nil {
				return term.G(m, c12S(in))
			}
			return term.G(m, c12S(term.Id("p")))
		}})
	}
	for _, m := range ZeroGroups {
		m := m
		out = append(out, c12GroupKind{Name: m, Mk: func(term.Node) *term.Group { return term.G(m) }})
	}
	out = append(out, c12GroupKind{Name: "Qual", Mk: func(term.Node) *term.Group { return term.Qual("a.b/cd", "N") }})
	for i, o := range []jen.Options{{Open: "<", Close: ">", Separator: "|"}, {Open: "(", Close: ")", Separator: ",", Multi: true}, {Separator: ";"}} {
		o := o
		out = append(out, c12GroupKind{Name: "Custom" + strconv.Itoa(i), Inside: true, Mk: func(in term.Node) *term.Group {
			items := []term.Node{c12S(term.Id("p"))}
			if in != nil {
				items = append(items, c12S(in))
			}
			return term.Custom(o, append(items, c12S(term.Id("q")))...)
		}})
	}
	out = append(out, c12GroupKind{Name: "Values-Dict-key", Inside: true, Mk: func(in term.Node) *term.Group {
		if in == nil {
			in = term.Id("k")
		}
		return term.G("Values", c12Dict([2]term.Node{c12S(in), c12S(term.Id("v"))}, [2]term.Node{c12S(term.Id("zzz9")), c12S(term.Id("v"))}))
	}})
	out = append(out, c12GroupKind{Name: "Values-Dict-value", Inside: true, Mk: func(in term.Node) *term.Group {
		if in == nil {
			in = term.Id("v")
		}
		return term.G("Values", c12Dict([2]term.Node{c12S(term.Id("k")), c12S(in)}))
	}})
	return out
}

var c12MagicPositions = []string{"before", "after", "first", "inside", "before-nested"}

// c12MagicStmt: the item x relative to a group of kind gk.
func c12MagicStmt(gk *c12GroupKind, pos string, x term.Node) *term.Stmt {
	switch pos {
	case "before": // a = X.Group(..)      the item is what Statement.previous finds
		return c12S(term.Id("a"), term.Op("="), x, gk.Mk(nil))
	case "after": // Group(..).X
		return c12S(gk.Mk(nil), x)
	case "first": // X.Group(..)
		return c12S(x, gk.Mk(nil))
	case "inside": // Group(p, X, q)
		return c12S(term.Id("a"), term.Op("="), gk.Mk(x))
	case "before-nested": // Block(c.X.Group(..), X.Block())   inside an item of another group
		return c12S(term.G("Block", c12S(term.Id("c"), x, gk.Mk(nil)), c12S(term.Id("d"), x, term.G("Block", c12S(term.Id("e"))))))
	}
	panic("c12: position " + pos)
}

var c12TwinFormats = map[string]bool{}

// c12MagicCase builds one case; mode "plain" is replaced by "file-nf" when the twin does not format.
func c12MagicCase(gk *c12GroupKind, pos string, item c1xLit, mode string, core bool) *Case {
	lits := []c1xLit{item}
	twinStmt := func() *term.Stmt { return c12MagicStmt(gk, pos, c12SlotNode(c12Twin(0, item.Kind))) }
	if mode == "plain" {
		key := gk.Name + "|" + pos + "|" + item.Kind
		ok, known := c12TwinFormats[key]
		if !known {
			o := hist.NewWorld().Exec(c12Wrap(twinStmt(), true, "plain"))
			ok = len(o) == 1 && o[0].Kind == "write" && !o[0].Failed
			c12TwinFormats[key] = ok
		}
		if !ok {
			mode = "file-nf"
		}
	}
	x := &c12CtxCase{Name: "magic", Mode: mode, Lits: lits, Want: lits, Twin: c12Wrap(twinStmt(), true, mode)}
	tags, _ := c12LitTags(lits)
	tags["group="+strings.TrimSuffix(gk.Name, "-empty")] = true
	tags["pos="+pos] = true
	tags["mode="+mode] = true
	if core {
		tags["magic=compared-by-the-renderer"] = true
	} else {
		tags["magic=control"] = true
	}
	// NonTrivial: the content is one of the strings the renderer compares contents, names, paths
	// or aliases with (c12MagicCore)
	return &Case{Hist: c12Wrap(c12MagicStmt(gk, pos, c12SlotNode(item)), true, mode), Stream: "magic-content", Tags: sortedKeys(tags), NonTrivial: core,
		Meta: map[string]interface{}{"ctx": x, "func": false}}
}

func c12MagicCases(r *rand.Rand, t string) []*Case {
	var out []*Case
	kinds := c12GroupKinds()
	thorough := t == "thorough"
	for gi := range kinds {
		gk := &kinds[gi]
		for _, pos := range c12MagicPositions {
			if pos == "inside" && !gk.Inside {
				continue
			}
			for _, s := range c12MagicCore {
				for _, it := range c12MagicItems(s) {
					mode := "file-nf"
					if r.Intn(3) == 0 {
						mode = "plain"
					}
					out = append(out, c12MagicCase(gk, pos, it, mode, true))
				}
			}
			for _, s := range c12MagicMore {
				if !thorough && r.Intn(6) != 0 {
					continue
				}
				for _, it := range c12MagicItems(s) {
					mode := "file-nf"
					if r.Intn(3) == 0 {
						mode = "plain"
					}
					out = append(out, c12MagicCase(gk, pos, it, mode, false))
				}
			}
		}
	}
	return out
}

// ---------------------------------------------------------------------------------------
// context stream

var c12Blanks = []string{"a  b", "  ", " ", "   ", " a", "a ", " a ", "\t", "a\tb", "\t\t", "a \t b", "two  spaces", "Content-Type:  text/plain", "col1   col2", "  x  y  ", "a\n\nb", " \n "}

func c12CtxString(r *rand.Rand) string {
	switch r.Intn(10) {
	case 0, 1:
		return c12Targeted[r.Intn(len(c12Targeted))]
	case 2, 3:
		return c12Blanks[r.Intn(len(c12Blanks))]
	case 4:
		return c12MagicCore[r.Intn(len(c12MagicCore))]
	case 5:
		return c12MagicMore[r.Intn(len(c12MagicMore))]
	case 6:
		return pick(r, c16tPct) + pick(r, []string{"", " ", "  "}) + pick(r, c16tSlash)
	}
	return AdvString(r)
}

var c12Modes = []string{"plain", "file", "file-nf"}

func c12CtxLits(r *rand.Rand, n int, kind string, str func() string) []c1xLit {
	out := make([]c1xLit, n)
	for i := range out {
		switch kind {
		case "rune":
			out[i] = c12Rune(c12RandomRune(r))
			if r.Intn(3) == 0 {
				out[i] = c12Rune(pick3Rune(r))
			}
		case "byte":
			out[i] = c12Byte(byte(r.Intn(256)))
		default:
			out[i] = c12Str(str())
		}
	}
	return out
}

func pick3Rune(r *rand.Rand) rune {
	l := []rune{'\'', '"', '\\', '\n', '.', 'C', '_', 0, 0x7f, 0x80, 0x2028, 0xfeff, 0xfffd, 0x10ffff, '%', '/', '*', '{', '}', ':', ',', ';', ' ', '\t'}
	return l[r.Intn(len(l))]
}

func c12ContextCases(r *rand.Rand, t string) []*Case {
	var out []*Case
	// every context x every blank / magic-core string x every mode (the string in every slot)
	for ci := range c12Contexts {
		cx := &c12Contexts[ci]
		fixed := append(append([]string{}, c12Blanks...), c12MagicCore...)
		for _, s := range fixed {
			for _, mode := range c12Modes {
				lits := make([]c1xLit, cx.Slots)
				for i := range lits {
					lits[i] = c12Str(s)
				}
				if cx.Slots > 1 && r.Intn(2) == 0 {
					lits[r.Intn(cx.Slots)] = c12Str(c12CtxString(r))
				}
				out = append(out, c12ContextCase(cx, lits, mode, r.Intn(4) == 0, "context"))
			}
		}
	}
	// random content
	n := tier(t, 4000, 120000)
	for i := 0; i < n; i++ {
		cx := &c12Contexts[r.Intn(len(c12Contexts))]
		kind := "lit"
		switch r.Intn(8) {
		case 0:
			kind = "rune"
		case 1:
			kind = "byte"
		}
		lits := c12CtxLits(r, cx.Slots, kind, func() string { return c12CtxString(r) })
		out = append(out, c12ContextCase(cx, lits, c12Modes[r.Intn(3)], r.Intn(4) == 0, "context"))
	}
	return out
}

// ---------------------------------------------------------------------------------------
// size

func c12SizeTag(n int) string {
	switch {
	case n < 1<<15:
		return "rendered<2^15"
	case n < 1<<16:
		return "rendered=2^15..2^16-1"
	case n < 1<<17:
		return "rendered=2^16..2^17-1"
	case n < 1<<20:
		return "rendered=2^17..2^20-1"
	}
	return "rendered>=2^20"
}

// c12SizeCases.  The content of a literal of n bytes: "x" (printable: n+2 bytes of text),
// "\xff" (4n+2 bytes of text), "emb" (printable words with blanks), "mix" (printable with a
// quote or newline every 97 bytes).  A case is one of the shapes of c11.go; the big literal is
// preceded and followed by short ones in the batch shape (a file cut off at the long line
// loses the declarations behind it).  quick: the sizes around 2^16 in every shape and mode once,
// 2^17 and 2^20 for three cases each; thorough: every size x shape x content.
func c12SizeCases(r *rand.Rand, t string) []*Case {
	thorough := t == "thorough"
	content := func(kind string, n int) string {
		switch kind {
		case "\\xff":
			return strings.Repeat("\xff", n)
		case "emb":
			s := strings.Repeat("embedded data ", n/14+1)
			return s[:n]
		case "mix":
			b := []byte(strings.Repeat("y", n))
			for i := 50; i < n; i += 97 {
				b[i] = "\"\n\\`"[(i/97)%4]
			}
			return string(b)
		}
		return strings.Repeat("x", n)
	}
	type shp struct {
		shape string
		nf    bool
	}
	shapes := []shp{{c1xVarPlain, false}, {c1xVarFile, false}, {c1xVarFile, true}, {c1xBatchFile, false}, {c1xBatchFile, true}, {c1xStmtPlain, false}, {c1xFuncFile, true}, {c1xFuncFile, false}}
	var out []*Case
	mk := func(n int, kind string, sh shp) {
		s := content(kind, n)
		var lits []c1xLit
		switch sh.shape {
		case c1xBatchFile:
			lits = []c1xLit{c12Str("head"), c12Str(s), c12Str("b c  "), c12Str("tail")}
		case c1xFuncFile:
			lits = []c1xLit{c12Str(s), c12Str("tail")}
		default:
			lits = []c1xLit{c12Str(s)}
		}
		c := c12Case(sh.shape, lits, sh.nf, false, "size")
		c.Tags = append(c.Tags, "size:content="+kind, "size:"+c12SizeTag(len(strconv.Quote(s))), fmt.Sprintf("size:literal-bytes=%d", n))
		out = append(out, c)
	}
	// the length of the literal, and the length of the rendered line `var x = "..."` (10 bytes
	// more than the literal; `var _ = "..."` likewise), around 2^16
	around := []int{65535, 65536, 65537, 65535 - 10, 65536 - 10, 65537 - 10, 65536 - 2, 70000}
	// 2^20: the model needs 10-16 s for one (they are handed to a model process early, see the end)
	big := []shp{{c1xVarFile, true}, {c1xVarFile, false}, {c1xVarPlain, false}}
	for _, sh := range big {
		mk(1<<20, "x", sh)
	}
	if thorough {
		mk(1<<18, "\\xff", shp{c1xVarFile, true})
		mk(1<<18, "\\xff", shp{c1xBatchFile, false})
		mk(1<<20, "mix", shp{c1xBatchFile, true})
		mk(1<<20, "emb", shp{c1xStmtPlain, false})
	}
	giants := out
	out = nil
	for i, n := range around {
		for j, sh := range shapes {
			if thorough {
				for _, k := range []string{"x", "emb", "mix"} {
					mk(n, k, sh)
				}
				mk(n/4, "\\xff", sh)
				mk(n/4+1, "\\xff", sh)
				continue
			}
			// quick: every size in every shape once, the content rotating; the \xff content in three shapes per size
			mk(n, []string{"x", "emb", "mix"}[(i+j)%3], sh)
			if (i+j)%3 == 0 {
				mk(n/4, "\\xff", sh)
			}
		}
	}
	for _, sh := range []shp{{c1xVarFile, true}, {c1xBatchFile, false}, {c1xVarPlain, false}} {
		mk(1<<17, "x", sh)
		mk(1<<15, "\\xff", sh)
	}
	// a few random sizes between 2^15 and 2^17
	for i := 0; i < tier(t, 6, 60); i++ {
		mk(1<<15+r.Intn(3<<15), pick(r, []string{"x", "emb", "mix"}), shapes[r.Intn(len(shapes))])
	}
	// the first dozen cases are around 2^16 (a failing run lists and shrinks its first failing
	// cases: small ones make a readable report), then the largest ones
	return append(append(append([]*Case{}, out[:12]...), giants...), out[12:]...)
}
