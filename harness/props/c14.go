package props

import (
	"bytes"
	"fmt"
	"go/ast"
	"go/parser"
	"go/token"
	"io"
	"math/rand"
	"path/filepath"
	"reflect"
	"runtime"
	"sort"
	"strings"

	"github.com/dave/jennifer/jen"

	"verifharness/hist"
	"verifharness/term"
)

// C14: every construct exists as package function, *Statement method and *Group method
// (variadic ones also as ...Func); all forms render identically; the Group form appends the
// new statement to the group and returns it; GoString = Render = RenderWithFile(fresh File);
// callbacks run exactly once, inside the constructing call, never while rendering.
//
// Streams:
//
//	api-enum  one case: the API of the package the harness was BUILT against is enumerated
//	          (reflection for methods, the registry c14_registry.go for package functions,
//	          go/parser on the package's source directory to check that the registry is
//	          complete) and every construct must have all its forms with equal signatures.
//	api       every construct x N random argument lists (N = 20 quick, 1000 thorough; one
//	          case for constructs without parameters): the Oracle builds all forms on the
//	          same arguments and compares them; the history is `rplain` of the form-free
//	          term, so the model renders it too and Compare ties the forms to the model.
//	forms     random programs (props.Gen) executed with a form-choosing builder
//	          (term.FormBuilder: a random form at every node); the model renders the
//	          form-free term; Compare = CompareAll.
//	writers   the writer handed to Render / RenderWithFile (c14_writers.go): 60 quick / 1500
//	          thorough cases of 2-4 fragments through the full matrix sink x earlier content x
//	          entry point, and sequences of fragments into one writer.
type c14 struct{}

func init() { Register(c14{}) }

func (c14) ID() string { return "C14" }

// ---------------------------------------------------------------- rendering helpers

// c14Res is the outcome of one render entry point.
type c14Res struct {
	Kind string // ok | err | panic
	Out  string // bytes written / error text / panic text
}

func (r c14Res) String() string { return fmt.Sprintf("%s(%q)", r.Kind, r.Out) }

type c14Renderer interface {
	GoString() string
	Render(io.Writer) error
	RenderWithFile(io.Writer, *jen.File) error
}

func c14Guard(f func() c14Res) (r c14Res) {
	defer func() {
		if p := recover(); p != nil {
			switch x := p.(type) {
			case error:
				r = c14Res{"panic", x.Error()}
			default:
				r = c14Res{"panic", fmt.Sprint(p)}
			}
		}
	}()
	return f()
}

func c14GoString(x c14Renderer) c14Res {
	return c14Guard(func() c14Res { return c14Res{"ok", x.GoString()} })
}

func c14Render(x c14Renderer) c14Res {
	return c14Guard(func() c14Res {
		var b bytes.Buffer
		if err := x.Render(&b); err != nil {
			return c14Res{"err", err.Error()}
		}
		return c14Res{"ok", b.String()}
	})
}

func c14RenderWithFile(x c14Renderer) c14Res {
	return c14Guard(func() c14Res {
		var b bytes.Buffer
		if err := x.RenderWithFile(&b, jen.NewFile("")); err != nil {
			return c14Res{"err", err.Error()}
		}
		return c14Res{"ok", b.String()}
	})
}

// c14EntryPoints decides clause (c) on three results: Render and RenderWithFile(NewFile(""))
// must be identical; GoString returns the same bytes, or panics with the error's text when
// they return an error (that is what GoString documents), or panics like they do.
func c14EntryPoints(gs, rd, rwf c14Res) string {
	if rd != rwf {
		return fmt.Sprintf("Render and RenderWithFile(NewFile(\"\")) differ: %v vs %v", rd, rwf)
	}
	switch rd.Kind {
	case "ok":
		if gs != rd {
			return fmt.Sprintf("GoString and Render differ: %v vs %v", gs, rd)
		}
	case "err", "panic":
		if gs.Kind != "panic" || gs.Out != rd.Out {
			return fmt.Sprintf("Render gives %v but GoString gives %v", rd, gs)
		}
	}
	return ""
}

func c14CheckEntryPoints(x c14Renderer) string {
	gs := c14GoString(x)
	if e := c14EntryPoints(gs, c14Render(x), c14RenderWithFile(x)); e != "" {
		return e
	}
	// the same entry points into writers that are not fresh buffers (c14_writers.go)
	return c14HashedSinks(x, gs)
}

// c14SameAsObs compares a Render result with what the history executor observed for the
// form-free build of the same term.
func c14SameAsObs(r c14Res, o hist.Obs) bool {
	switch o.Kind {
	case "write":
		return r.Kind == "ok" && r.Out == o.Out
	case "fmterr":
		return r.Kind == "err" && strings.HasSuffix(r.Out, o.Out)
	case "panic":
		return r.Kind == "panic"
	}
	return false
}

// ---------------------------------------------------------------- the API, enumerated

var (
	c14StmtT  = reflect.TypeOf(&jen.Statement{})
	c14GroupT = reflect.TypeOf(&jen.Group{})
	c14CodeT  = reflect.TypeOf((*jen.Code)(nil)).Elem()
)

// c14Methods: name -> method type (receiver first) of the methods of t returning *Statement.
func c14Methods(t reflect.Type) map[string]reflect.Type {
	out := map[string]reflect.Type{}
	for i := 0; i < t.NumMethod(); i++ {
		m := t.Method(i)
		if m.Type.NumOut() == 1 && m.Type.Out(0) == c14StmtT {
			out[m.Name] = m.Type
		}
	}
	return out
}

// sigOf prints a function type without its first skip parameters.
func c14Sig(t reflect.Type, skip int) string {
	var ps []string
	for i := skip; i < t.NumIn(); i++ {
		s := t.In(i).String()
		if t.IsVariadic() && i == t.NumIn()-1 {
			s = "..." + t.In(i).Elem().String()
		}
		ps = append(ps, s)
	}
	return "(" + strings.Join(ps, ", ") + ")"
}

// c14ConstructNames: the *Statement methods that return their receiver (Clone does not).
func c14ConstructNames() []string {
	var out []string
	r := rand.New(rand.NewSource(14))
	for name, mt := range c14Methods(c14StmtT) {
		specs, ok := c14GenArgs(r, name, mt, 1)
		if !ok {
			out = append(out, name) // unknown parameter type: reported by the api case itself
			continue
		}
		s := &jen.Statement{}
		inst := c14NewInst()
		ret := c14CallGuard(reflect.ValueOf(s).MethodByName(name), inst.values(specs))
		if ret == s {
			out = append(out, name)
		}
	}
	sort.Strings(out)
	return out
}

func c14CallGuard(f reflect.Value, in []reflect.Value) (s *jen.Statement) {
	defer func() { recover() }()
	out := f.Call(in)
	if len(out) == 1 {
		s, _ = out[0].Interface().(*jen.Statement)
	}
	return s
}

// ---------------------------------------------------------------- arguments

// c14Arg describes one argument independently of the form it is handed to.
type c14Arg struct {
	Kind  string // code codes string iface ifaces rune byte map options fgroup fstmt fiface frune fbyte
	Items []term.Node
	S     string
	V     interface{}
	Vs    []interface{}
	KV    [][2]string
	NilKV bool
	O     jen.Options
	T     reflect.Type
}

var c14Comments = []string{"c", "two\nlines", "//raw", "/*raw*/", "x }", "", "a // b"}

func c14String(r *rand.Rand, construct string, index int) string {
	switch construct {
	case "Id", "Dot":
		if r.Intn(6) == 0 {
			return AdvString(r)
		}
		return pick(r, identPool)
	case "Op":
		return pick(r, opPool)
	case "Qual":
		if index == 0 {
			return pick(r, PathPool)
		}
		return "N" + pick(r, identPool)
	case "Comment":
		return pick(r, c14Comments)
	case "Commentf":
		return pick(r, []string{"plain", "%v and %v", "n=%d", "%s", "100%%", "two\n%v"})
	}
	return AdvString(r)
}

// c14GenArgs draws an argument list for the method type mt (receiver first). ok is false
// when a parameter type is unknown to the harness.
func c14GenArgs(r *rand.Rand, name string, mt reflect.Type, skip int) (specs []c14Arg, ok bool) {
	g := &Gen{R: r, Paths: []string{"fmt", "a.b/c", "x.y/c"}, MaxDepth: 2, NilRate: 6, NoBad: true}
	if name == "Values" || name == "ValuesFunc" {
		g.NoDict = true // Values(Dict, x) panics by design (recorded finding); Dict alone is drawn below
	}
	items := func(n int) []term.Node {
		var out []term.Node
		for i := 0; i < n; i++ {
			out = append(out, g.GroupItem(1))
		}
		return out
	}
	arity := func() int {
		n := r.Intn(5)
		if r.Intn(10) == 0 {
			n = 5 + r.Intn(4)
		}
		return n
	}
	for i := skip; i < mt.NumIn(); i++ {
		t := mt.In(i)
		last := i == mt.NumIn()-1
		a := c14Arg{T: t}
		switch {
		case mt.IsVariadic() && last && t.Elem() == c14CodeT:
			a.Kind = "codes"
			a.Items = items(arity())
			if (name == "Values") && r.Intn(4) == 0 {
				g.NoDict = false
				a.Items = []term.Node{g.Dict(1)}
				g.NoDict = true
			}
		case mt.IsVariadic() && last && t.Elem().Kind() == reflect.Interface && t.Elem().NumMethod() == 0:
			a.Kind = "ifaces"
			for j := r.Intn(3); j > 0; j-- {
				a.Vs = append(a.Vs, pick3(r))
			}
		case t == c14CodeT:
			a.Kind = "code"
			a.Items = items(1)
		case t.Kind() == reflect.String:
			a.Kind = "string"
			a.S = c14String(r, name, i-skip)
		case t.Kind() == reflect.Interface && t.NumMethod() == 0:
			a.Kind = "iface"
			a.V = g.LitValue()
		case t.Kind() == reflect.Int32:
			a.Kind = "rune"
			a.V = rune(r.Intn(0x110000))
		case t.Kind() == reflect.Uint8:
			a.Kind = "byte"
			a.V = byte(r.Intn(256))
		case t == reflect.TypeOf(map[string]string(nil)):
			a.Kind = "map"
			switch r.Intn(5) {
			case 0:
				a.NilKV = true
			case 1:
			default:
				a.KV = [][2]string{{"json", AdvString(r)}}
				if r.Intn(2) == 0 {
					a.KV = append(a.KV, [2]string{"k" + pick(r, identPool), AdvString(r)})
				}
			}
		case t == reflect.TypeOf(jen.Options{}):
			a.Kind = "options"
			a.O = jen.Options{Open: pick(r, []string{"", "(", "{", "[", "<"}), Close: pick(r, []string{"", ")", "}", "]", ">"}),
				Separator: pick(r, []string{"", ",", ";", "|", " "}), Multi: r.Intn(3) == 0}
		case t == reflect.TypeOf((func(*jen.Group))(nil)):
			a.Kind = "fgroup"
			a.Items = items(arity())
			if name == "ValuesFunc" && r.Intn(4) == 0 {
				g.NoDict = false
				a.Items = []term.Node{g.Dict(1)}
				g.NoDict = true
			}
		case t == reflect.TypeOf((func(*jen.Statement))(nil)):
			a.Kind = "fstmt"
			for j := r.Intn(4); j > 0; j-- {
				a.Items = append(a.Items, g.Token())
			}
		case t == reflect.TypeOf((func() interface{})(nil)):
			a.Kind = "fiface"
			a.V = g.LitValue()
		case t == reflect.TypeOf((func() rune)(nil)):
			a.Kind = "frune"
			a.V = rune(r.Intn(0x110000))
		case t == reflect.TypeOf((func() byte)(nil)):
			a.Kind = "fbyte"
			a.V = byte(r.Intn(256))
		default:
			return nil, false
		}
		specs = append(specs, a)
	}
	return specs, true
}

func pick3(r *rand.Rand) interface{} {
	switch r.Intn(3) {
	case 0:
		return r.Intn(100)
	case 1:
		return pick(r, identPool)
	}
	return r.Intn(2) == 0
}

// c14Inst turns argument descriptions into Go values for ONE call: Code items are built once
// (plain builder) and shared by all forms, callbacks are fresh for every call and counted.
type c14Inst struct {
	shared   *term.Builder
	codes    map[term.Node]jen.Code
	Counters []*int
	Logs     []*term.FormLog
	seed     int64
}

func c14NewInst() *c14Inst {
	return &c14Inst{shared: term.NewBuilder(), codes: map[term.Node]jen.Code{}}
}

func (in *c14Inst) code(n term.Node) jen.Code {
	switch n.(type) {
	case *term.Stmt, *term.Dict:
		if c, ok := in.codes[n]; ok {
			return c
		}
		c := in.shared.Code(n)
		in.codes[n] = c
		return c
	}
	return in.shared.Code(n)
}

func c14CodeValue(c jen.Code) reflect.Value {
	v := reflect.New(c14CodeT).Elem()
	if c != nil {
		v.Set(reflect.ValueOf(c))
	}
	return v
}

// values instantiates the arguments for one call. Callback counters are appended to
// in.Counters in parameter order.
func (in *c14Inst) values(specs []c14Arg) []reflect.Value {
	var out []reflect.Value
	for _, a := range specs {
		a := a
		switch a.Kind {
		case "codes":
			for _, it := range a.Items {
				out = append(out, c14CodeValue(in.code(it)))
			}
		case "code":
			out = append(out, c14CodeValue(in.code(a.Items[0])))
		case "ifaces":
			for _, v := range a.Vs {
				out = append(out, reflect.ValueOf(v))
			}
		case "string":
			out = append(out, reflect.ValueOf(a.S))
		case "iface":
			v := reflect.New(a.T).Elem()
			if a.V != nil {
				v.Set(reflect.ValueOf(a.V))
			}
			out = append(out, v)
		case "rune", "byte":
			out = append(out, reflect.ValueOf(a.V))
		case "map":
			var m map[string]string
			if !a.NilKV {
				m = map[string]string{}
				for _, kv := range a.KV {
					m[kv[0]] = kv[1]
				}
			}
			out = append(out, reflect.ValueOf(m))
		case "options":
			out = append(out, reflect.ValueOf(a.O))
		case "fgroup":
			n := new(int)
			in.Counters = append(in.Counters, n)
			log := term.NewFormLog()
			in.Logs = append(in.Logs, log)
			in.seed++
			fb := term.NewFormBuilder(rand.New(rand.NewSource(in.seed)), c14Funcs, log)
			out = append(out, reflect.ValueOf(func(g *jen.Group) { *n++; fb.Fill(g, a.Items) }))
		case "fstmt":
			n := new(int)
			in.Counters = append(in.Counters, n)
			out = append(out, reflect.ValueOf(func(s *jen.Statement) {
				*n++
				b := term.NewBuilder()
				for _, it := range a.Items {
					b.Append(s, it)
				}
			}))
		case "fiface":
			n := new(int)
			in.Counters = append(in.Counters, n)
			out = append(out, reflect.ValueOf(func() interface{} { *n++; return a.V }))
		case "frune":
			n := new(int)
			in.Counters = append(in.Counters, n)
			out = append(out, reflect.ValueOf(func() rune { *n++; return a.V.(rune) }))
		case "fbyte":
			n := new(int)
			in.Counters = append(in.Counters, n)
			out = append(out, reflect.ValueOf(func() byte { *n++; return a.V.(byte) }))
		}
	}
	return out
}

func c14HasCallback(specs []c14Arg) bool {
	for _, a := range specs {
		if strings.HasPrefix(a.Kind, "f") {
			return true
		}
	}
	return false
}

// c14Term: the items X(args) appends to a statement, as a form-free term (nil, false if the
// harness does not know the construct: then the forms are still compared with each other).
func c14Term(name string, specs []c14Arg) ([]term.Node, bool) {
	one := func(n term.Node) ([]term.Node, bool) { return []term.Node{n}, true }
	kinds := ""
	for _, a := range specs {
		kinds += a.Kind + " "
	}
	kinds = strings.TrimSpace(kinds)
	switch name {
	case "Id":
		return one(term.Id(specs[0].S))
	case "Op":
		return one(term.Op(specs[0].S))
	case "Dot":
		return one(term.Dot(specs[0].S))
	case "Qual":
		return one(term.Qual(specs[0].S, specs[1].S))
	case "Lit", "LitFunc":
		return one(term.Lit(specs[0].V))
	case "LitRune", "LitRuneFunc":
		return one(term.LitRune(specs[0].V.(rune)))
	case "LitByte", "LitByteFunc":
		return one(term.LitByte(specs[0].V.(byte)))
	case "Null":
		return one(term.Null())
	case "Line":
		return one(term.Line())
	case "Comment":
		return one(term.Comment{Text: specs[0].S})
	case "Commentf":
		return one(term.Comment{Text: fmt.Sprintf(specs[0].S, specs[1].Vs...)})
	case "Tag":
		t := term.Tag{KV: specs[0].KV}
		if !specs[0].NilKV && t.KV == nil {
			t.KV = [][2]string{}
		}
		return one(t)
	case "Custom", "CustomFunc":
		return one(term.Custom(specs[0].O, specs[1].Items...))
	case "Add":
		return append([]term.Node{}, specs[0].Items...), true
	case "Do":
		return append([]term.Node{}, specs[0].Items...), true
	}
	_, isMethod := c14StmtT.MethodByName(name)
	if !isMethod {
		return nil, false
	}
	switch kinds {
	case "":
		for _, n := range NamedTokens {
			if n == name {
				return one(term.Named(name))
			}
		}
		for _, n := range ZeroGroups {
			if n == name {
				return one(term.G(name))
			}
		}
		if name == "Empty" {
			return one(term.Named("Empty"))
		}
	case "codes", "code":
		return one(term.G(name, specs[0].Items...))
	case "fgroup":
		base := strings.TrimSuffix(name, "Func")
		if _, ok := c14StmtT.MethodByName(base); ok && base != name {
			return one(term.G(base, specs[0].Items...))
		}
	}
	allCode := len(specs) > 0
	var its []term.Node
	for _, a := range specs {
		if a.Kind != "code" {
			allCode = false
		}
		its = append(its, a.Items...)
	}
	if allCode {
		return one(term.G(name, its...)) // Complex(a, b), Copy(a, b), Delete(a, b)
	}
	return nil, false
}

// ---------------------------------------------------------------- generation

func c14ApiCase(name string, seed int64) *Case {
	mt, ok := c14Methods(c14StmtT)[name]
	c := &Case{Stream: "api", Meta: map[string]interface{}{"c14": "api", "name": name, "seed": seed}}
	if !ok {
		return c
	}
	specs, ok := c14GenArgs(rand.New(rand.NewSource(seed)), name, mt, 1)
	if !ok {
		c.Tags = append(c.Tags, "args=unknown-type")
		return c
	}
	kind := "plain"
	switch {
	case c14HasCallback(specs):
		kind = "callback"
	case len(specs) == 0:
		kind = "no-params"
	}
	c.Tags = append(c.Tags, "construct="+kind)
	if kind == "callback" {
		c.Tags = append(c.Tags, "check=callback-adds-to-enclosing-group")
	}
	if n := len(specs); n > 0 && specs[n-1].Kind == "codes" {
		c.Tags = append(c.Tags, fmt.Sprintf("check=shared-arg-slice,len=%d,spare=%d", c14Min(len(specs[n-1].Items), 5), 1+int(uint64(seed)%3)))
	}
	items, ok := c14Term(name, specs)
	if ok {
		c.Hist = hist.History{{Kind: "rplain", Code: term.S(items...)}}
		c.Tags = append(c.Tags, "model=compared")
	} else {
		c.Tags = append(c.Tags, "model=no-term")
	}
	// non-trivial: the construct takes arguments (a construct without parameters has a single
	// case, which counts too: it still goes through all three forms)
	c.NonTrivial = true
	return c
}

func (c14) Generate(r *rand.Rand, t string) []*Case {
	var out []*Case
	out = append(out, &Case{Stream: "api-enum", NonTrivial: true, Meta: map[string]interface{}{"c14": "enum"}})
	n := tier(t, 20, 1000)
	for _, name := range c14ConstructNames() {
		k := n
		if mt := c14Methods(c14StmtT)[name]; mt.NumIn() == 1 {
			k = 1
		}
		for i := 0; i < k; i++ {
			out = append(out, c14ApiCase(name, r.Int63()))
		}
	}
	nf := tier(t, 4000, 200000)
	for i := 0; i < nf; i++ {
		paths := somePaths(r, 4)
		g := &Gen{R: r, Paths: paths, MaxDepth: 2 + r.Intn(3), NilRate: 8}
		if r.Intn(3) == 0 {
			g.NilRate = 0
		}
		h, _ := FileSetup(r, 0, SetupOpts{Paths: paths})
		for j := 1 + r.Intn(3); j > 0; j-- {
			h = append(h, hist.Op{Kind: "fadd", F: 0, Code: g.Stmt(0)})
		}
		h = append(h, hist.Op{Kind: "noformat", F: 0, Flag: r.Intn(3) == 0}, hist.Op{Kind: "render", F: 0})
		if r.Intn(3) == 0 {
			h = append(h, hist.Op{Kind: "rcode", F: 0, Code: g.Stmt(0)})
		}
		if r.Intn(3) == 0 {
			h = append(h, hist.Op{Kind: "rplain", Code: g.Stmt(0)})
		}
		h = append(h, hist.Op{Kind: "imports", F: 0})
		out = append(out, c14FormsCase(h, r.Int63()))
	}
	out = append(out, c14WritersCases(r, tier(t, 60, 1500))...)
	return out
}

// c14FormsCase runs h with a random form at every node (the choice is a function of seed).
func c14FormsCase(h hist.History, seed int64) *Case {
	log := term.NewFormLog()
	c := &Case{Hist: h, Stream: "forms", NonTrivial: true,
		Meta: map[string]interface{}{"c14": "forms", "seed": seed, "log": log}}
	c.Meta["world"] = func(w *hist.World) {
		*log = *term.NewFormLog() // a case may be executed more than once (shrinking)
		fb := term.NewFormBuilder(rand.New(rand.NewSource(seed)), c14Funcs, log)
		w.B.StmtHook = fb.Stmt
	}
	return c
}

func (c14) Compare(c *Case, exp, got []hist.Obs) string { return CompareAll(exp, got) }

// ---------------------------------------------------------------- oracle

func (c14) Oracle(c *Case, got []hist.Obs) string {
	switch c.Meta["c14"] {
	case "enum":
		return c14EnumOracle()
	case "api":
		return c14CheckConstruct(c.Meta["name"].(string), c.Meta["seed"].(int64), got, c.Hist)
	case "forms":
		return c14FormsOracle(c, got)
	case "writers":
		return c14WritersOracle(c, got)
	}
	return "C14: case without kind"
}

// c14EnumOracle: the API as a whole.
func c14EnumOracle() string {
	sm := c14Methods(c14StmtT)
	gm := c14Methods(c14GroupT)
	var bad []string
	cons := map[string]bool{}
	for _, n := range c14ConstructNames() {
		cons[n] = true
		st := sm[n]
		if g, ok := gm[n]; !ok {
			bad = append(bad, n+": no *Group method")
		} else if c14Sig(g, 1) != c14Sig(st, 1) {
			bad = append(bad, fmt.Sprintf("%s: *Group method takes %s, *Statement method %s", n, c14Sig(g, 1), c14Sig(st, 1)))
		}
		if f, ok := c14Funcs[n]; !ok {
			bad = append(bad, n+": no package function (or registry out of date)")
		} else if ft := reflect.TypeOf(f); ft.Kind() != reflect.Func || c14Sig(ft, 0) != c14Sig(st, 1) || ft.NumOut() != 1 || ft.Out(0) != c14StmtT {
			bad = append(bad, fmt.Sprintf("%s: package function has type %v, *Statement method takes %s", n, ft, c14Sig(st, 1)))
		}
		// variadic list constructs also come as ...Func (Make is the documented exception)
		if st.IsVariadic() && st.NumIn() == 2 && st.In(1).Elem() == c14CodeT && n != "Add" && n != "Make" {
			if f, ok := sm[n+"Func"]; !ok || f.NumIn() != 2 || f.In(1) != reflect.TypeOf((func(*jen.Group))(nil)) {
				bad = append(bad, n+": variadic construct without a "+n+"Func(func(*Group)) variant")
			}
		}
	}
	for n := range gm {
		if !cons[n] {
			bad = append(bad, n+": *Group method returning *Statement that is not a form of a construct")
		}
	}
	for n := range c14Funcs {
		if !cons[n] {
			bad = append(bad, n+": package function returning *Statement that is not a form of a construct")
		}
	}
	// is the registry complete? (package functions cannot be enumerated by reflection)
	src, dir, err := c14ExportedFuncs()
	if err != nil {
		bad = append(bad, "cannot read the source of the package the harness was built against ("+dir+"): "+err.Error())
	}
	for _, n := range src {
		if _, ok := c14Funcs[n]; !ok {
			bad = append(bad, n+": exported function returning *Statement in "+dir+" that harness/props/c14_registry.go does not list (regenerate it with `api2ir -registry`); it has no *Statement method of that name: "+fmt.Sprint(!cons[n]))
		}
	}
	bad = append(bad, c14FileGoString()...)
	bad = append(bad, c14EnclosingEnum()...) // c14_extra.go
	bad = append(bad, c14AliasEnum()...)     // c14_extra.go
	sort.Strings(bad)
	if len(bad) > 0 {
		return "API: " + strings.Join(bad, "; ")
	}
	return ""
}

// c14ExportedFuncs lists the exported package functions returning *Statement in the source
// directory of the package the harness was built against (non-test files without build tags
// other than verif).
func c14ExportedFuncs() (names []string, dir string, err error) {
	pc := reflect.ValueOf(jen.Id).Pointer()
	fn := runtime.FuncForPC(pc)
	if fn == nil {
		return nil, "", fmt.Errorf("no function information for jen.Id")
	}
	file, _ := fn.FileLine(pc)
	dir = filepath.Dir(file)
	fset := token.NewFileSet()
	matches, err := filepath.Glob(filepath.Join(dir, "*.go"))
	if err != nil || len(matches) == 0 {
		return nil, dir, fmt.Errorf("no Go files")
	}
	for _, m := range matches {
		if strings.HasSuffix(m, "_test.go") {
			continue
		}
		f, err := parser.ParseFile(fset, m, nil, 0)
		if err != nil {
			return nil, dir, err
		}
		for _, d := range f.Decls {
			fd, ok := d.(*ast.FuncDecl)
			if !ok || fd.Recv != nil || !ast.IsExported(fd.Name.Name) || fd.Type.Results == nil || len(fd.Type.Results.List) != 1 {
				continue
			}
			if st, ok := fd.Type.Results.List[0].Type.(*ast.StarExpr); ok {
				if id, ok := st.X.(*ast.Ident); ok && id.Name == "Statement" {
					names = append(names, fd.Name.Name)
				}
			}
		}
	}
	sort.Strings(names)
	return names, dir, nil
}

// c14CheckConstruct: clauses (a), (b), (c) for one construct on one argument list.
func c14CheckConstruct(name string, seed int64, got []hist.Obs, h hist.History) string {
	mt, ok := c14Methods(c14StmtT)[name]
	if !ok {
		return name + ": no such *Statement method"
	}
	specs, ok := c14GenArgs(rand.New(rand.NewSource(seed)), name, mt, 1)
	if !ok {
		return fmt.Sprintf("%s: the harness cannot generate arguments of type %s (new parameter type: extend c14GenArgs)", name, c14Sig(mt, 1))
	}
	inst := c14NewInst()
	inst.seed = seed
	ncb := 0
	// counters of the callbacks handed to one form: each must be exactly 1 on return
	form := func(what string, call func(in []reflect.Value) *jen.Statement) (*jen.Statement, []*int, string) {
		from := len(inst.Counters)
		in := inst.values(specs)
		cs := inst.Counters[from:]
		ncb = len(cs)
		var ret *jen.Statement
		var perr string
		func() {
			defer func() {
				if p := recover(); p != nil {
					perr = fmt.Sprintf("%s form of %s panicked while building: %v", what, name, p)
				}
			}()
			ret = call(in)
		}()
		if perr != "" {
			return nil, cs, perr
		}
		for _, n := range cs {
			if *n != 1 {
				return ret, cs, fmt.Sprintf("%s form of %s: a callback ran %d times inside the constructing call", what, name, *n)
			}
		}
		return ret, cs, ""
	}
	// method form
	s0 := &jen.Statement{}
	retM, _, e := form("method", func(in []reflect.Value) *jen.Statement {
		return c14Ret(reflect.ValueOf(s0).MethodByName(name).Call(in))
	})
	if e != "" {
		return e
	}
	if retM != s0 {
		return name + ": the *Statement method does not return its receiver"
	}
	// function form
	f, ok := c14Funcs[name]
	if !ok {
		return name + ": no package function of that name (or harness registry out of date)"
	}
	retF, _, e := form("function", func(in []reflect.Value) *jen.Statement { return c14Ret(reflect.ValueOf(f).Call(in)) })
	if e != "" {
		return e
	}
	if retF == nil {
		return name + ": the function form returned nil"
	}
	// Group form, inside a BlockFunc callback
	var retG *jen.Statement
	var grp *jen.Group
	var before, after int
	var last uintptr
	var fieldOK bool
	var ge string
	blockCalls := 0
	blk := jen.BlockFunc(func(g *jen.Group) {
		blockCalls++
		grp = g
		m := reflect.ValueOf(g).MethodByName(name)
		if !m.IsValid() {
			ge = name + ": *Group has no method of that name"
			return
		}
		before, _, fieldOK = term.GroupItems(g)
		retG, _, ge = form("Group", func(in []reflect.Value) *jen.Statement { return c14Ret(m.Call(in)) })
		after, last, _ = term.GroupItems(g)
	})
	if ge != "" {
		return ge
	}
	if blockCalls != 1 {
		return fmt.Sprintf("BlockFunc ran its callback %d times", blockCalls)
	}
	if retG == nil {
		return name + ": the Group form returned nil"
	}
	if fieldOK {
		if after != before+1 {
			return fmt.Sprintf("%s: the Group form changed the number of items of the group from %d to %d (must append exactly one)", name, before, after)
		}
		if last != reflect.ValueOf(retG).Pointer() {
			return name + ": the item the Group form appended is not the statement it returned (different pointer)"
		}
	}
	_ = grp
	// (a) byte-identical renders of the three forms
	rM, rF, rG := c14Render(retM), c14Render(retF), c14Render(retG)
	if rM != rF {
		return fmt.Sprintf("%s: method form and function form render differently:\n method:   %v\n function: %v", name, rM, rF)
	}
	if rM != rG {
		return fmt.Sprintf("%s: method form and Group form render differently:\n method: %v\n group:  %v", name, rM, rG)
	}
	// the Group form really put the returned statement into the group (seen through rendering,
	// independent of the field name): the block renders like Block(returned statement), and a
	// token appended to the returned statement afterwards shows up inside the block
	if a, b := c14Render(blk), c14Render(jen.Block(retG)); a != b {
		return fmt.Sprintf("%s: the group does not hold exactly the returned statement:\n BlockFunc{g.%s(..)}: %v\n Block(returned):     %v", name, name, a, b)
	}
	// ...Func variants against the plain variant applied to the same items; Lit...Func
	// against Lit...(value)
	if e := c14AgainstPlain(name, specs, inst, rM); e != "" {
		return e
	}
	// the form-free build of the term (what the model was given) renders the same
	if len(h) == 1 && len(got) == 1 && !c14SameAsObs(rM, got[0]) {
		return fmt.Sprintf("%s: the forms render %v but the chained-method build of the term gives %v", name, rM, got[0])
	}
	// (c) entry points, on all three
	for i, x := range []*jen.Statement{retM, retF, retG} {
		if e := c14CheckEntryPoints(x); e != "" {
			return fmt.Sprintf("%s (%s form): %s", name, []string{"method", "function", "Group"}[i], e)
		}
	}
	if e := c14CheckEntryPoints(grp); e != "" {
		return fmt.Sprintf("%s (the *Group holding the Group form): %s", name, e)
	}
	// (b) three more renders of everything: no callback may run again, output must not change
	for k := 0; k < 3; k++ {
		for i, x := range []*jen.Statement{retM, retF, retG, blk} {
			if r := c14Render(x); i < 3 && r != rM {
				return fmt.Sprintf("%s: render %d of a form differs from the first: %v vs %v", name, k+2, r, rM)
			}
		}
	}
	for i, n := range inst.Counters {
		if *n != 1 {
			return fmt.Sprintf("%s: callback %d of %d ran %d times after three more renders (must stay 1)", name, i, len(inst.Counters), *n)
		}
	}
	for _, l := range inst.Logs {
		if len(l.Violations) > 0 {
			return name + ": inside the ...Func callback: " + strings.Join(l.Violations, "; ")
		}
		for i, n := range l.Counters {
			if *n != 1 {
				return fmt.Sprintf("%s: nested callback of %s ran %d times", name, l.What[i], *n)
			}
		}
	}
	// callbacks that also add items to the enclosing group; the caller's argument slice with
	// spare capacity shared by two calls (c14_extra.go)
	if e := c14EnclosingCheck(name, specs, seed); e != "" {
		return e
	}
	if e := c14AliasApi(name, specs, seed); e != "" {
		return e
	}
	// pointer identity, seen through rendering: mutate the returned statement
	retG.Id("c14marker")
	a, b := c14Render(blk), c14Render(jen.Block(retG))
	if a != b || !strings.Contains(a.Out, "c14marker") {
		return fmt.Sprintf("%s: a token appended to the statement the Group form returned does not appear in the group (the group holds a copy):\n group: %v\n want:  %v", name, a, b)
	}
	_ = ncb
	return ""
}

func c14Min(a, b int) int {
	if a < b {
		return a
	}
	return b
}

func c14Ret(out []reflect.Value) *jen.Statement {
	if len(out) != 1 {
		return nil
	}
	s, _ := out[0].Interface().(*jen.Statement)
	return s
}

// c14AgainstPlain compares a callback variant with its plain variant on the same values.
func c14AgainstPlain(name string, specs []c14Arg, inst *c14Inst, rM c14Res) string {
	var plain *jen.Statement
	switch {
	case name == "LitFunc":
		plain = jen.Lit(specs[0].V)
	case name == "LitRuneFunc":
		plain = jen.LitRune(specs[0].V.(rune))
	case name == "LitByteFunc":
		plain = jen.LitByte(specs[0].V.(byte))
	case name == "Do":
		plain = &jen.Statement{}
		b := term.NewBuilder()
		for _, it := range specs[0].Items {
			b.Append(plain, it)
		}
	case strings.HasSuffix(name, "Func") && len(specs) > 0 && specs[len(specs)-1].Kind == "fgroup":
		base := strings.TrimSuffix(name, "Func")
		m := reflect.ValueOf(&jen.Statement{}).MethodByName(base)
		if !m.IsValid() {
			return name + ": there is no plain variant " + base
		}
		var in []reflect.Value
		for _, a := range specs[:len(specs)-1] {
			in = append(in, inst.values([]c14Arg{a})...)
		}
		for _, it := range specs[len(specs)-1].Items {
			in = append(in, c14CodeValue(inst.code(it)))
		}
		if !m.Type().IsVariadic() && m.Type().NumIn() != len(in) {
			return fmt.Sprintf("%s: the plain variant %s is not variadic", name, base)
		}
		var perr string
		func() {
			defer func() {
				if p := recover(); p != nil {
					perr = fmt.Sprint(p)
				}
			}()
			plain = c14Ret(m.Call(in))
		}()
		if perr != "" {
			return fmt.Sprintf("%s: the plain variant %s panicked while building: %s", name, base, perr)
		}
	default:
		return ""
	}
	if rP := c14Render(plain); rP != rM {
		return fmt.Sprintf("%s with a callback and its plain variant on the same values render differently:\n callback: %v\n plain:    %v", name, rM, rP)
	}
	return ""
}

// c14FormsOracle: what the form-choosing builder found while building, the callback counters
// after the history's renders and after three more renders of every root, entry points of
// every root, and (implementation only) each root against the chained-method build.
func c14FormsOracle(c *Case, got []hist.Obs) string {
	log, _ := c.Meta["log"].(*term.FormLog)
	if log == nil {
		return "C14: forms case without log"
	}
	if len(log.Violations) > 0 {
		return "while building with random forms: " + strings.Join(log.Violations, "; ")
	}
	if c.Meta["tagged"] == nil {
		// which forms this case really went through is only known after it ran: tag it now
		// (main reads the tags after the oracle)
		c.Meta["tagged"] = true
		for k := range log.Forms {
			c.Tags = append(c.Tags, "form="+k)
		}
		c.Tags = append(c.Tags, fmt.Sprintf("callbacks=%d", c14Min(len(log.Counters), 5)))
	}
	check := func(when string) string {
		for i, n := range log.Counters {
			if *n != 1 {
				return fmt.Sprintf("callback of %s ran %d times %s", log.What[i], *n, when)
			}
		}
		return ""
	}
	if e := check("after the history (build + renders)"); e != "" {
		return e
	}
	// the same terms through the plain builder
	plain := term.NewBuilder()
	var terms []*term.Stmt
	seen := map[*term.Stmt]bool{}
	for _, op := range c.Hist {
		switch op.Kind {
		case "fadd", "rcode", "rplain":
			if st, ok := op.Code.(*term.Stmt); ok && !seen[st] {
				seen[st] = true
				terms = append(terms, st)
			}
		}
	}
	for i, root := range log.Roots {
		first := c14Render(root)
		for k := 0; k < 3; k++ {
			if r := c14Render(root); r != first {
				return fmt.Sprintf("root %d renders differently the %d. time: %v vs %v", i, k+2, r, first)
			}
		}
		if e := c14CheckEntryPoints(root); e != "" {
			return fmt.Sprintf("root %d: %s", i, e)
		}
		if len(terms) == len(log.Roots) {
			var want c14Res
			func() {
				defer func() {
					if p := recover(); p != nil {
						want = c14Res{"harness", fmt.Sprint(p)}
					}
				}()
				want = c14Render(plain.Stmt(terms[i]))
			}()
			if want != first {
				return fmt.Sprintf("root %d: built with random forms it renders %v, built by chained methods %v", i, first, want)
			}
		}
	}
	return check("after three more renders of every statement")
}

// Regressions: fixed small programs through fixed seeds (so that every form is hit at least
// once whatever the run's seed is).
func (c14) Regressions() []*Case {
	var out []*Case
	dict := &term.Dict{Pairs: [][2]term.Node{{term.S(term.Lit("k")), term.S(term.Lit(1))}}}
	st := term.S(term.Named("Func"), term.Id("f"), term.G("Params"), term.G("Block",
		term.S(term.G("Return", term.S(term.G("Map", term.S(term.Named("String"))), term.Named("Int"), term.G("Values", dict)))),
		term.S(term.Id("g"), term.G("Call", term.S(term.Lit(2)), term.Nil{}, term.S(term.LitRune('x'))), term.Comment{Text: "c"})))
	for seed := int64(1); seed <= 8; seed++ {
		h := hist.History{{Kind: "newfile", F: 0, A: "p"}, {Kind: "fadd", F: 0, Code: st}, {Kind: "render", F: 0}, {Kind: "rplain", Code: st}}
		c := c14FormsCase(h, seed)
		c.Name = fmt.Sprintf("forms-fixed-%d", seed)
		c.Stream = "regression"
		out = append(out, c)
	}
	return out
}

// c14FileGoString: File.GoString is File.Render into a buffer, panicking with the error when
// rendering fails (clause "GoString, Render ... agree", for the File entry point).
func c14FileGoString() []string {
	var bad []string
	mk := func(valid bool, noformat bool) *jen.File {
		f := jen.NewFilePathName("a.b/c", "c")
		f.NoFormat = noformat
		f.HeaderComment("h")
		f.ImportAlias("x.y/z", "zz")
		f.Func().Id("f").Params().Block(jen.Qual("x.y/z", "A").Call(jen.Lit(1), jen.Qual("fmt", "Sprint").Call()))
		if !valid {
			f.Add(jen.Op("+").Op("+"))
		}
		return f
	}
	for _, valid := range []bool{true, false} {
		for _, nf := range []bool{false, true} {
			gs := c14Guard(func() c14Res { return c14Res{"ok", mk(valid, nf).GoString()} })
			rd := c14Guard(func() c14Res {
				var b bytes.Buffer
				if err := mk(valid, nf).Render(&b); err != nil {
					return c14Res{"err", err.Error()}
				}
				return c14Res{"ok", b.String()}
			})
			switch {
			case rd.Kind == "ok" && gs != rd:
				bad = append(bad, fmt.Sprintf("File.GoString and File.Render differ (valid=%v noformat=%v): %v vs %v", valid, nf, gs, rd))
			case rd.Kind != "ok" && (gs.Kind != "panic" || gs.Out != rd.Out):
				bad = append(bad, fmt.Sprintf("File.Render gives %v but File.GoString gives %v", rd, gs))
			}
		}
	}
	return bad
}
