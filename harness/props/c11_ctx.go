package props

import (
	"bytes"
	"fmt"
	"go/ast"
	"go/parser"
	"go/token"
	"go/types"
	"math"
	"math/rand"
	"strings"

	"github.com/dave/jennifer/jen"

	"verifharness/hist"
	"verifharness/term"
)

// C11, streams "type-name-context" and "int-digits" (round 7).
//
// type-name-context: the CONTEXT of a typed literal.  `int8(-8)` is a constant of type int8
// only where the identifier int8 denotes the predeclared type.  Every other stream renders
// literals in files without imports (or outside a File), so what the type name denotes never
// varies.  Here the File also uses a package whose NAME is the literal's type name (or `true`
// / `false` for bool, or another predeclared identifier as a control): a path ending in
// /int8, /uint32, /complex64 ... reached through Qual alone (the name is guessed from the
// path), or announced with ImportName / ImportAlias / ImportNames under that name; one or two
// such packages; the reference before, after or in the same declaration as the literals
// (element list, call arguments, function body, separate declarations).  The library has to
// rename the import (predeclared names are reserved) for the literal to keep its meaning.
//
// Oracle (independent of the model): the output is parsed and type-checked by go/types with
// an importer that serves, for every imported path, a package whose name is the name the
// history says it has (exporting X and F); the file must type-check and every literal
// expression - found by its position in the known skeleton - must be a constant of exactly
// its value's type and value (c1xCheckValue).  Then the same File is built directly with
// LitFunc in place of Lit and must render the same bytes.
//
// NonTrivial: the package name is the identifier the rendered literal text uses (its type
// name, or true/false for a bool): the clash is real.  Tags ctx:pkg=<name>, ctx:how=<qual|
// importname|importalias|importnames>, ctx:layout=<...>, ctx:two-packages, ctx:clash.
//
// int-digits: integers chosen by their number of DECIMAL digits: for every integer type and
// every digit count d that fits, +-10^(d-1), +-(10^d-1) and random d-digit values of both
// signs (d = 1..19; in particular negative values of 6, 9, 12, 15 and 18 digits, where digit
// grouping would start a new group).  Judged like every other value (c11.Oracle).  Tags
// int:digits=<d>, int:negative-digits=<d>.

type c11CtxDecl struct {
	Layout string        // ref | sep | list | call | func
	Path   string        // the package referenced (all but sep)
	Vals   []interface{} // the literals, in source order
}

type c11CtxPlan struct {
	Pkg      string // the name the packages have
	How      string
	Paths    []string
	Decls    []c11CtxDecl
	NoFormat bool
}

// c11CtxTypedNames: the identifiers a rendered literal can contain.
var c11CtxTypedNames = []string{"int8", "int16", "int32", "int64", "uint", "uint8", "uint16", "uint32", "uint64", "uintptr",
	"float32", "complex64", "true", "false"}

// bare kinds (their literal text names no type) and other predeclared identifiers: controls
var c11CtxOtherNames = []string{"int", "float64", "complex128", "bool", "string", "byte", "rune", "complex", "nil", "iota", "len", "error", "any"}

func c11CtxValue(r *rand.Rand, name string) interface{} {
	for _, it := range c11IntTypes {
		if it.name == name {
			if r.Intn(3) == 0 {
				return c11Int(it, r.Uint64()>>uint(r.Intn(64)))
			}
			b := c11Bounds(it)
			return b[r.Intn(len(b))]
		}
	}
	switch name {
	case "float32":
		if r.Intn(2) == 0 {
			return c11Random32(r)
		}
		return []float32{0, 1, -1, 1.5, 100, 1e6, 1e-7, math.MaxFloat32, math.SmallestNonzeroFloat32}[r.Intn(9)]
	case "float64":
		if r.Intn(2) == 0 {
			return c11Random64(r)
		}
		return []float64{0, 1, -1, 1.5, 100, 1e6, 1e-7, 1e21, math.MaxFloat64}[r.Intn(9)]
	case "complex64":
		return complex(float32(r.Intn(9)-4)/2, []float32{0, 1, -1, 2.5, 1e6, 1e-7}[r.Intn(6)])
	case "complex128", "complex":
		return complex(float64(r.Intn(9)-4)/2, []float64{0, 1, -1, 2.5, 1e6, 1e-7}[r.Intn(6)])
	case "true":
		return true
	case "false":
		return false
	case "bool":
		return r.Intn(2) == 0
	}
	// a control name: any typed value
	return c11CtxValue(r, c11CtxTypedNames[r.Intn(12)])
}

// c11CtxUses: the identifier that the text of Lit(v) uses, "" if none.
func c11CtxUses(v interface{}) string {
	switch x := v.(type) {
	case bool:
		return fmt.Sprint(x)
	case int, float64, complex128, string:
		return ""
	}
	return fmt.Sprintf("%T", v)
}

func c11CtxPlanFor(r *rand.Rand, pkg, how, layout string) c11CtxPlan {
	p := c11CtxPlan{Pkg: pkg, How: how, NoFormat: r.Intn(3) == 0}
	mkPath := func(i int) string {
		switch (r.Intn(3) + i) % 3 {
		case 0:
			return "example.com/lib/" + pkg
		case 1:
			if how == "qual" {
				return "a.b/" + strings.ToUpper(pkg[:1]) + pkg[1:] // the guess lower-cases it
			}
			return "a.b/go-" + pkg // the announced name differs from the path's last element
		}
		return "x/" + pkg
	}
	p.Paths = []string{mkPath(0)}
	if r.Intn(4) == 0 {
		p.Paths = append(p.Paths, mkPath(1))
	}
	if len(p.Paths) == 2 && p.Paths[0] == p.Paths[1] {
		p.Paths[1] = "y/z/" + pkg
	}
	val := func() interface{} {
		if r.Intn(5) == 0 { // a literal of another typed kind beside it
			return c11CtxValue(r, c11CtxTypedNames[r.Intn(len(c11CtxTypedNames))])
		}
		return c11CtxValue(r, pkg)
	}
	path := func() string { return p.Paths[r.Intn(len(p.Paths))] }
	switch layout {
	case "sep-after": // literal first, the reference in a later declaration
		p.Decls = []c11CtxDecl{{Layout: "sep", Vals: []interface{}{val()}}, {Layout: "ref", Path: path()}}
	case "sep-before":
		p.Decls = []c11CtxDecl{{Layout: "ref", Path: path()}, {Layout: "sep", Vals: []interface{}{val()}}}
	case "list":
		p.Decls = []c11CtxDecl{{Layout: "list", Path: path(), Vals: []interface{}{val(), val()}}}
	case "call":
		p.Decls = []c11CtxDecl{{Layout: "call", Path: path(), Vals: []interface{}{val()}}}
	case "func":
		p.Decls = []c11CtxDecl{{Layout: "func", Path: path(), Vals: []interface{}{val(), val()}}}
	default: // mixed: 2..4 declarations of random layouts
		n := 2 + r.Intn(3)
		for i := 0; i < n; i++ {
			switch r.Intn(5) {
			case 0:
				p.Decls = append(p.Decls, c11CtxDecl{Layout: "sep", Vals: []interface{}{val()}})
			case 1:
				p.Decls = append(p.Decls, c11CtxDecl{Layout: "ref", Path: path()})
			case 2:
				p.Decls = append(p.Decls, c11CtxDecl{Layout: "list", Path: path(), Vals: []interface{}{val(), val()}})
			case 3:
				p.Decls = append(p.Decls, c11CtxDecl{Layout: "call", Path: path(), Vals: []interface{}{val()}})
			default:
				p.Decls = append(p.Decls, c11CtxDecl{Layout: "func", Path: path(), Vals: []interface{}{val(), val()}})
			}
		}
		nl := 0
		for _, d := range p.Decls {
			nl += len(d.Vals)
		}
		if nl == 0 { // at least one literal
			p.Decls = append(p.Decls, c11CtxDecl{Layout: "sep", Vals: []interface{}{val()}})
		}
		p.Decls = append(p.Decls, c11CtxDecl{Layout: "ref", Path: p.Paths[len(p.Paths)-1]})
	}
	if len(p.Paths) == 2 { // both packages are used
		p.Decls = append(p.Decls, c11CtxDecl{Layout: "ref", Path: p.Paths[0]}, c11CtxDecl{Layout: "ref", Path: p.Paths[1]})
	}
	return p
}

var c11CtxLayouts = []string{"sep-after", "sep-before", "list", "call", "func", "mixed"}

// history of a plan (terms) ...
func (p c11CtxPlan) history() hist.History {
	h := hist.History{{Kind: "newfile", F: 0, A: "p"}, {Kind: "noformat", F: 0, Flag: p.NoFormat}}
	switch p.How {
	case "importname", "importalias":
		for _, q := range p.Paths {
			h = append(h, hist.Op{Kind: p.How, F: 0, A: q, B: p.Pkg})
		}
	case "importnames":
		var pairs [][2]string
		for _, q := range p.Paths {
			pairs = append(pairs, [2]string{q, p.Pkg})
		}
		h = append(h, hist.Op{Kind: "importnames", F: 0, Pairs: pairs})
	}
	fn := 0
	for _, d := range p.Decls {
		v := func(i int) term.Node { return term.Lit(d.Vals[i]) }
		var st *term.Stmt
		switch d.Layout {
		case "ref":
			st = term.S(term.Named("Var"), term.Id("_"), term.Op("="), term.Qual(d.Path, "X"))
		case "sep":
			st = term.S(term.Named("Var"), term.Id("_"), term.Op("="), v(0))
		case "list":
			st = term.S(term.Named("Var"), term.Id("_"), term.Op("="), term.G("Index"), term.G("Interface"),
				term.G("Values", term.S(term.Qual(d.Path, "X")), term.S(v(0)), term.S(v(1))))
		case "call":
			st = term.S(term.Named("Var"), term.Id("_"), term.Op("="), term.Qual(d.Path, "F"),
				term.G("Call", term.S(v(0)), term.S(term.Qual(d.Path, "X"))))
		case "func":
			fn++
			st = term.S(term.Named("Func"), term.Id(fmt.Sprintf("f%d", fn)), term.G("Params"), term.G("Block",
				term.S(term.Id("x"), term.Op(":="), v(0)),
				term.S(term.Qual(d.Path, "F"), term.G("Call", term.S(term.Id("x")), term.S(v(1))))))
		}
		h = append(h, hist.Op{Kind: "fadd", F: 0, Code: st})
	}
	return append(h, hist.Op{Kind: "render", F: 0})
}

// ... and the same File built directly, every literal through LitFunc.
func (p c11CtxPlan) renderFunc() (out string, calls int, msg string) {
	defer func() {
		if r := recover(); r != nil {
			msg = fmt.Sprintf("panic in the LitFunc build: %v", r)
		}
	}()
	f := jen.NewFile("p")
	f.NoFormat = p.NoFormat
	switch p.How {
	case "importname":
		for _, q := range p.Paths {
			f.ImportName(q, p.Pkg)
		}
	case "importalias":
		for _, q := range p.Paths {
			f.ImportAlias(q, p.Pkg)
		}
	case "importnames":
		m := map[string]string{}
		for _, q := range p.Paths {
			m[q] = p.Pkg
		}
		f.ImportNames(m)
	}
	fn := 0
	for _, d := range p.Decls {
		d := d
		lf := func(i int) func() interface{} { return func() interface{} { calls++; return d.Vals[i] } }
		switch d.Layout {
		case "ref":
			f.Add(jen.Var().Id("_").Op("=").Qual(d.Path, "X"))
		case "sep":
			f.Add(jen.Var().Id("_").Op("=").LitFunc(lf(0)))
		case "list":
			f.Add(jen.Var().Id("_").Op("=").Index().Interface().Values(jen.Qual(d.Path, "X"), jen.LitFunc(lf(0)), jen.LitFunc(lf(1))))
		case "call":
			f.Add(jen.Var().Id("_").Op("=").Qual(d.Path, "F").Call(jen.LitFunc(lf(0)), jen.Qual(d.Path, "X")))
		case "func":
			fn++
			f.Add(jen.Func().Id(fmt.Sprintf("f%d", fn)).Params().Block(
				jen.Id("x").Op(":=").LitFunc(lf(0)),
				jen.Qual(d.Path, "F").Call(jen.Id("x"), jen.LitFunc(lf(1)))))
		}
	}
	var buf bytes.Buffer
	if err := f.Render(&buf); err != nil {
		return "", calls, "the LitFunc build does not render: " + err.Error()
	}
	return buf.String(), calls, ""
}

func c11CtxCase(p c11CtxPlan, layout string) *Case {
	var lits []c1xLit
	tags := map[string]bool{"ctx:pkg=" + p.Pkg: true, "ctx:how=" + p.How: true, "ctx:layout=" + layout: true,
		fmt.Sprintf("noformat=%v", p.NoFormat): true}
	if len(p.Paths) == 2 {
		tags["ctx:two-packages"] = true
	}
	clash := false
	for _, d := range p.Decls {
		for _, v := range d.Vals {
			lits = append(lits, c1xLit{Kind: "lit", V: v})
			for _, t := range c11ValueTags(v) {
				tags[t] = true
			}
			if c11CtxUses(v) == p.Pkg {
				clash = true
			}
		}
	}
	if clash {
		tags["ctx:clash"] = true
	}
	return &Case{Hist: p.history(), Stream: "type-name-context", NonTrivial: clash, Tags: sortedKeys(tags),
		Meta: map[string]interface{}{"lits": lits, "ctx": p, "shape": c1xBatchFile, "noformat": p.NoFormat, "func": true}}
}

func c11CtxCases(r *rand.Rand, t string) []*Case {
	var out []*Case
	hows := []string{"qual", "importname", "importalias", "importnames"}
	// systematic: every typed name x every way of importing x every layout
	for _, name := range c11CtxTypedNames {
		for _, how := range hows {
			for _, lay := range c11CtxLayouts {
				out = append(out, c11CtxCase(c11CtxPlanFor(r, name, how, lay), lay))
			}
		}
	}
	// controls: names that no literal text uses
	for _, name := range c11CtxOtherNames {
		for _, how := range hows {
			lay := c11CtxLayouts[r.Intn(len(c11CtxLayouts))]
			out = append(out, c11CtxCase(c11CtxPlanFor(r, name, how, lay), lay))
		}
	}
	n := tier(t, 300, 20000)
	for i := 0; i < n; i++ {
		name := c11CtxTypedNames[r.Intn(len(c11CtxTypedNames))]
		if r.Intn(8) == 0 {
			name = c11CtxOtherNames[r.Intn(len(c11CtxOtherNames))]
		}
		lay := c11CtxLayouts[r.Intn(len(c11CtxLayouts))]
		out = append(out, c11CtxCase(c11CtxPlanFor(r, name, hows[r.Intn(4)], lay), lay))
	}
	return append(out, c11DigitCases(r, t)...)
}

// c11CtxImporter serves a package named name for every path.
type c11CtxImporter struct {
	name string
	pkgs map[string]*types.Package
}

func (im *c11CtxImporter) Import(path string) (*types.Package, error) {
	if p := im.pkgs[path]; p != nil {
		return p, nil
	}
	p := types.NewPackage(path, im.name)
	empty := types.NewInterfaceType(nil, nil)
	p.Scope().Insert(types.NewVar(token.NoPos, p, "X", empty))
	params := types.NewTuple(types.NewVar(token.NoPos, p, "a", types.NewSlice(empty)))
	results := types.NewTuple(types.NewVar(token.NoPos, p, "", empty))
	p.Scope().Insert(types.NewFunc(token.NoPos, p, "F", types.NewSignatureType(nil, nil, nil, params, results, true)))
	p.MarkComplete()
	if im.pkgs == nil {
		im.pkgs = map[string]*types.Package{}
	}
	im.pkgs[path] = p
	return p, nil
}

// c11CtxCheck decides the property on src for plan p.
func c11CtxCheck(src string, p c11CtxPlan) string {
	fset := token.NewFileSet()
	f, err := parser.ParseFile(fset, "x.go", src, 0)
	if err != nil {
		return "output does not parse: " + err.Error()
	}
	var decls []ast.Decl
	for _, d := range f.Decls {
		if gd, ok := d.(*ast.GenDecl); ok && gd.Tok == token.IMPORT {
			continue
		}
		decls = append(decls, d)
	}
	if len(decls) != len(p.Decls) {
		return fmt.Sprintf("%d declarations in the output, want %d", len(decls), len(p.Decls))
	}
	info := &types.Info{Types: map[ast.Expr]types.TypeAndValue{}}
	conf := types.Config{Importer: &c11CtxImporter{name: p.Pkg}}
	if _, err := conf.Check("p", fset, []*ast.File{f}, info); err != nil {
		return fmt.Sprintf("the file does not type-check when the imported packages are named %q: %s\n%s", p.Pkg, err.Error(), src)
	}
	bad := func(i int) string {
		return fmt.Sprintf("declaration %d does not have the skeleton of layout %s", i, p.Decls[i].Layout)
	}
	for i, d := range p.Decls {
		var exprs []ast.Expr
		value := func() ast.Expr {
			gd, ok := decls[i].(*ast.GenDecl)
			if !ok || gd.Tok != token.VAR || len(gd.Specs) != 1 {
				return nil
			}
			vs := gd.Specs[0].(*ast.ValueSpec)
			if len(vs.Names) != 1 || len(vs.Values) != 1 || vs.Type != nil {
				return nil
			}
			return vs.Values[0]
		}
		switch d.Layout {
		case "ref":
			if _, ok := value().(*ast.SelectorExpr); !ok {
				return bad(i)
			}
		case "sep":
			e := value()
			if e == nil {
				return bad(i)
			}
			exprs = []ast.Expr{e}
		case "list":
			cl, ok := value().(*ast.CompositeLit)
			if !ok || len(cl.Elts) != 3 {
				return bad(i)
			}
			exprs = cl.Elts[1:]
		case "call":
			ce, ok := value().(*ast.CallExpr)
			if !ok || len(ce.Args) != 2 {
				return bad(i)
			}
			if _, ok := ce.Fun.(*ast.SelectorExpr); !ok {
				return bad(i)
			}
			exprs = ce.Args[:1]
		case "func":
			fd, ok := decls[i].(*ast.FuncDecl)
			if !ok || fd.Body == nil || len(fd.Body.List) != 2 {
				return bad(i)
			}
			as, ok1 := fd.Body.List[0].(*ast.AssignStmt)
			es, ok2 := fd.Body.List[1].(*ast.ExprStmt)
			if !ok1 || !ok2 || len(as.Rhs) != 1 {
				return bad(i)
			}
			ce, ok := es.X.(*ast.CallExpr)
			if !ok || len(ce.Args) != 2 {
				return bad(i)
			}
			if _, ok := ce.Fun.(*ast.SelectorExpr); !ok {
				return bad(i)
			}
			exprs = []ast.Expr{as.Rhs[0], ce.Args[1]}
		}
		if len(exprs) != len(d.Vals) {
			return bad(i)
		}
		for j, e := range exprs {
			tv, ok := info.Types[e]
			if !ok {
				return fmt.Sprintf("declaration %d literal %d: no type recorded", i, j)
			}
			if m := c1xCheckValue(tv, d.Vals[j]); m != "" {
				return fmt.Sprintf("declaration %d: literal (%T %#v) rendered as `%s` in a file importing packages named %q: %s\n%s", i, d.Vals[j], d.Vals[j],
					src[fset.Position(e.Pos()).Offset:fset.Position(e.End()).Offset], p.Pkg, m, src)
			}
		}
	}
	return ""
}

func c11CtxOracle(c *Case, got []hist.Obs) string {
	p := c.Meta["ctx"].(c11CtxPlan)
	src, msg := c1xOutput(got)
	if msg != "" {
		return msg
	}
	if m := c11CtxCheck(src, p); m != "" {
		return m
	}
	out, calls, msg := p.renderFunc()
	if msg != "" {
		return msg
	}
	if calls == 0 {
		return "the LitFunc forms never called their callbacks"
	}
	if out != src {
		return fmt.Sprintf("the LitFunc form renders differently:\n value form %q\n func form  %q", src, out)
	}
	return ""
}

// ---------------------------------------------------------------------------------------
// int-digits

func c11DigitCases(r *rand.Rand, t string) []*Case {
	g := &c11Gen{r: r}
	reps := tier(t, 2, 40)
	for _, it := range c11IntTypes {
		var max uint64 // largest magnitude
		if it.signed {
			max = uint64(1) << uint(it.bits-1) // of the negative side
		} else {
			max = ^uint64(0) >> uint(64-it.bits)
		}
		lo := uint64(1)
		for d := 1; d <= 20; d++ {
			if lo > max {
				break
			}
			hi := uint64(math.MaxUint64) // d = 20
			if lo <= math.MaxUint64/10 {
				hi = lo*10 - 1
			}
			mags := []uint64{lo, hi, lo + 1}
			for k := 0; k < reps; k++ {
				span := hi - lo
				if span == math.MaxUint64 {
					mags = append(mags, r.Uint64())
				} else {
					mags = append(mags, lo+r.Uint64()%(span+1))
				}
			}
			for _, m := range mags {
				if m < lo || m > hi {
					continue
				}
				add := func(v interface{}, neg bool) {
					before := len(g.out)
					g.single(v, "int-digits")
					for _, c := range g.out[before:] {
						c.Tags = append(c.Tags, fmt.Sprintf("int:digits=%d", d))
						if neg {
							c.Tags = append(c.Tags, fmt.Sprintf("int:negative-digits=%d", d))
						}
					}
				}
				if it.signed {
					if m <= max-1 {
						add(c11Int(it, m), false)
					}
					if m <= max {
						add(c11Int(it, -m), true)
					}
				} else if m <= max {
					add(c11Int(it, m), false)
				}
			}
			if lo > math.MaxUint64/10 {
				break
			}
			lo *= 10
		}
	}
	return g.out
}
