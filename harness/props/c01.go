package props

import (
	"bytes"
	"fmt"
	"go/ast"
	"go/format"
	"go/parser"
	"go/printer"
	"go/scanner"
	"go/token"
	"hash/fnv"
	"io/fs"
	"math/rand"
	"os"
	"path/filepath"
	"sort"
	"strings"

	"verifharness/hist"
	"verifharness/rebuild"
)

// C01: faithful rendering - any Go program built through the DSL re-parses to itself.
//
// A case is a whole Go source file: rebuild.File translates its syntax tree into a history
// (NewFile, one import hint per import, one File.Add per top-level declaration built from
// the DSL element documented for each construct, Render).  The model renders the same
// history (Compare = everything, the harness formats the model's raw text itself); the
// oracle parses what the implementation wrote and compares it node by node with the
// original tree (rebuild.Compare).
type c01 struct {
	sum map[string]*c01Sum // per stream
}

type c01Sum struct {
	attempted, translated, skipped int
	decls, srcTokens, outTokens    int
	srcBytes                       int64
	skips                          map[string]int
}

func init() { Register(&c01{sum: map[string]*c01Sum{}}) }

func (*c01) ID() string { return "C01" }

// C01QuickCap is the largest source file the quick tier takes from GOROOT (the model
// co-process reads about 2 MB/s of case text per core and a file is one line).
const C01QuickCap = 60 << 10

// C01StringCap: files holding a string literal longer than this are skipped (and counted)
// in every tier.  The extracted model needs time far more than linear in the length of ONE
// string literal (measured: 4 KiB 0.26 s, 8 KiB 1.3 s, 16 KiB 7.9 s, 64 KiB 290 s;
// time/tzdata/zzipdata.go holds one of 400 KB); the implementation has no such limit.
const C01StringCap = 8 << 10

func c01LongestString(f *ast.File) int {
	m := 0
	ast.Inspect(f, func(n ast.Node) bool {
		if bl, ok := n.(*ast.BasicLit); ok && bl.Kind == token.STRING && len(bl.Value) > m {
			m = len(bl.Value)
		}
		return true
	})
	return m
}

const c01NewerRoot = "/opt/veriftools/go1.26.8/src"

func (p *c01) stream(name string) *c01Sum {
	s := p.sum[name]
	if s == nil {
		s = &c01Sum{skips: map[string]int{}}
		p.sum[name] = s
	}
	return s
}

type c01SrcFile struct {
	path string
	size int64
}

// c01GoFiles lists every .go file below root except those in testdata directories.
func c01GoFiles(root string) []c01SrcFile {
	var out []c01SrcFile
	filepath.WalkDir(root, func(p string, d fs.DirEntry, err error) error {
		if err != nil {
			return nil
		}
		if d.IsDir() {
			if d.Name() == "testdata" {
				return filepath.SkipDir
			}
			return nil
		}
		if strings.HasSuffix(p, ".go") {
			if fi, err := d.Info(); err == nil {
				out = append(out, c01SrcFile{p, fi.Size()})
			}
		}
		return nil
	})
	sort.Slice(out, func(i, j int) bool { return out[i].path < out[j].path })
	return out
}

// c01Stratify picks n files: round robin over the package groups (first path element; two
// for cmd, internal, vendor), cycling through three size classes, so that the sample
// spans many packages and both small and large files.
func c01Stratify(r *rand.Rand, root string, files []c01SrcFile, n int, maxSize int64) []c01SrcFile {
	type group struct{ byClass [3][]c01SrcFile }
	groups := map[string]*group{}
	var names []string
	for _, f := range files {
		if f.size > maxSize {
			continue
		}
		rel, _ := filepath.Rel(root, f.path)
		parts := strings.Split(filepath.ToSlash(rel), "/")
		key := parts[0]
		if (key == "cmd" || key == "internal" || key == "vendor") && len(parts) > 2 {
			key += "/" + parts[1]
		}
		g := groups[key]
		if g == nil {
			g = &group{}
			groups[key] = g
			names = append(names, key)
		}
		cl := 0
		switch {
		case f.size >= 16<<10:
			cl = 2
		case f.size >= 4<<10:
			cl = 1
		}
		g.byClass[cl] = append(g.byClass[cl], f)
	}
	sort.Strings(names)
	r.Shuffle(len(names), func(i, j int) { names[i], names[j] = names[j], names[i] })
	for _, k := range names {
		for c := range groups[k].byClass {
			l := groups[k].byClass[c]
			r.Shuffle(len(l), func(i, j int) { l[i], l[j] = l[j], l[i] })
		}
	}
	var out []c01SrcFile
	for round := 0; len(out) < n; round++ {
		took := false
		for _, k := range names {
			g := groups[k]
			for d := 0; d < 3; d++ {
				c := (round + d) % 3
				if len(g.byClass[c]) > 0 {
					out = append(out, g.byClass[c][0])
					g.byClass[c] = g.byClass[c][1:]
					took = true
					break
				}
			}
			if len(out) >= n {
				break
			}
		}
		if !took {
			break
		}
	}
	return out
}

func c01Bucket(n int) string {
	switch {
	case n == 0:
		return "0"
	case n < 10:
		return "1-9"
	case n < 100:
		return "10-99"
	case n < 1000:
		return "100-999"
	case n < 10000:
		return "1e3-1e4"
	case n < 100000:
		return "1e4-1e5"
	}
	return ">=1e5"
}

// c01CountTokens counts the tokens of src (comments and automatically inserted semicolons excluded).
func c01CountTokens(src []byte) int {
	var s scanner.Scanner
	fs := token.NewFileSet()
	s.Init(fs.AddFile("", fs.Base(), len(src)), src, nil, 0)
	n := 0
	for {
		_, tk, lit := s.Scan()
		if tk == token.EOF {
			return n
		}
		if tk == token.SEMICOLON && lit == "\n" {
			continue
		}
		n++
	}
}

func c01FeatureTag(k string) string {
	switch {
	case strings.HasPrefix(k, "assign:") && k != "assign:=" && k != "assign::=":
		return "assign:op="
	case strings.HasPrefix(k, "unary:"):
		return "unary"
	case strings.HasPrefix(k, "branch:"):
		if strings.HasSuffix(k, "-label") {
			return "branch:labelled"
		}
		return "branch"
	}
	return k
}

// c01Case translates one source text.  A file that cannot be translated gives a marker
// case (an empty File of that package) so that the skip and its reason are counted in the
// evidence; it is not NonTrivial.
func (p *c01) c01Case(stream, name string, src []byte, r *rand.Rand, dir string, pkgName func(string) (string, bool), fromDisk bool) *Case {
	sum := p.stream(stream)
	sum.attempted++
	sum.srcBytes += int64(len(src))
	marker := func(reason, pkg string) *Case {
		sum.skipped++
		sum.skips[reason]++
		if pkg == "" {
			pkg = "p"
		}
		return &Case{Stream: stream + "-skipped", Tags: []string{"skip:" + reason},
			Hist: hist.History{{Kind: "newfile", F: 0, A: pkg}, {Kind: "noformat", F: 0}, {Kind: "render", F: 0}},
			Meta: map[string]interface{}{"skip": reason, "pkg": pkg}}
	}
	fset := token.NewFileSet()
	f, err := parser.ParseFile(fset, name, src, 0) // object resolution on, comments dropped
	if err != nil {
		return marker("parse-error", "")
	}
	if n := c01LongestString(f); n > C01StringCap {
		// cost of the model co-process, not a limit of the DSL: see C01StringCap
		return marker(fmt.Sprintf("string-literal>%d-bytes(model-cost)", C01StringCap), f.Name.Name)
	}
	if v := GofmtStable(src); v != "" {
		// the toolchain's own formatter does not keep this source's tree: outside the domain
		// (nothing of jennifer is involved in this test)
		return marker("gofmt-changes-the-original", f.Name.Name)
	}
	h, st, err := rebuild.FileOpts(fset, f, &rebuild.Options{R: r, Dir: dir, PkgName: pkgName})
	if err != nil {
		if s, ok := err.(*rebuild.Skip); ok {
			return marker(s.Reason, f.Name.Name)
		}
		return marker("error", f.Name.Name)
	}
	ntok := c01CountTokens(src)
	sum.translated++
	sum.decls += st.Decls
	sum.srcTokens += ntok
	c := &Case{Stream: stream, Hist: h, NonTrivial: st.Decls > 0, Meta: map[string]interface{}{}}
	if fromDisk {
		c.Meta["path"] = name // the oracle reads the original again
	} else {
		c.Meta["src"] = string(src)
		c.Meta["name"] = name
	}
	seen := map[string]bool{}
	for k := range st.Feat {
		if t := c01FeatureTag(k); !seen[t] {
			seen[t] = true
			c.Tags = append(c.Tags, t)
		}
	}
	sort.Strings(c.Tags)
	c.Tags = append(c.Tags, "decls:"+c01Bucket(st.Decls), "tokens:"+c01Bucket(ntok), fmt.Sprintf("depth:%02d", c01Min(st.MaxDepth, 30)/3*3))
	return c
}

func (p *c01) totals(stream string, out []*Case) {
	s := p.stream(stream)
	if len(out) == 0 {
		return
	}
	last := out[len(out)-1]
	last.Tags = append(last.Tags,
		fmt.Sprintf("total:%s:files-attempted=%d", stream, s.attempted),
		fmt.Sprintf("total:%s:files-translated=%d", stream, s.translated),
		fmt.Sprintf("total:%s:files-skipped=%d", stream, s.skipped),
		fmt.Sprintf("total:%s:declarations=%d", stream, s.decls),
		fmt.Sprintf("total:%s:source-tokens=%d", stream, s.srcTokens),
		fmt.Sprintf("total:%s:source-bytes=%d", stream, s.srcBytes))
}

func (p *c01) gorootStream(r *rand.Rand, t, root, stream string) []*Case {
	files := c01GoFiles(root)
	if t != "thorough" {
		files = c01Stratify(r, root, files, 400, C01QuickCap)
	}
	pkgName := rebuild.PkgNameIn(root)
	var out []*Case
	for _, f := range files {
		src, err := os.ReadFile(f.path)
		if err != nil {
			continue
		}
		rel, _ := filepath.Rel(root, f.path)
		c := p.c01Case(stream, f.path, src, rand.New(rand.NewSource(r.Int63())), filepath.ToSlash(filepath.Dir(rel)), pkgName, true)
		out = append(out, c)
	}
	if t != "thorough" {
		p.stream(stream) // the cap is part of the evidence
		if len(out) > 0 {
			out[0].Tags = append(out[0].Tags, fmt.Sprintf("cap:%s:source-bytes<=%d", stream, C01QuickCap))
		}
	}
	p.totals(stream, out)
	return out
}

func genPkgNameOrStd(path string) (string, bool) {
	if n, ok := GenPkgName(path); ok {
		return n, true
	}
	return rebuild.GorootPkgName(path)
}

func (p *c01) generatedStream(r *rand.Rand, t string) []*Case {
	n := tier(t, 2000, 20000)
	var out []*Case
	for i := 0; i < n; i++ {
		depth := 2 + r.Intn(11) // 2..12
		size := 30 + r.Intn(300)
		if i%10 == 0 {
			size = 600 + r.Intn(1500)
		}
		gd := depth
		if i%12 == 5 {
			depth, gd = 12, -12 // deep spine
		}
		wideRate := 0
		if i%20 == 3 {
			// the arity dimension inside random programs: 1 list in 12, at whatever list site the
			// generator reaches, has 17..46 items (tag gen:wide-list)
			wideRate, size = 12, 200+r.Intn(400)
			if depth > 6 {
				depth, gd = 6, 6
			}
		}
		src, tags := GenSourceWide(r, gd, size, wideRate)
		c := p.c01Case("generated", fmt.Sprintf("gen%d.go", i), []byte(src), rand.New(rand.NewSource(r.Int63())), "", genPkgNameOrStd, false)
		if c.Meta["skip"] == "parse-error" {
			fmt.Fprintf(os.Stderr, "C01: generator produced a program that does not parse (generator defect):\n%s\n", src)
		}
		c.Tags = append(c.Tags, tags...)
		c.Tags = append(c.Tags, fmt.Sprintf("gen-depth:%02d", depth))
		out = append(out, c)
	}
	p.totals("generated", out)
	return out
}

func (p *c01) Generate(r *rand.Rand, t string) []*Case {
	var out []*Case
	out = append(out, p.gorootStream(r, t, rebuild.SrcRoot(), "goroot")...)
	if t == "thorough" {
		if fi, err := os.Stat(c01NewerRoot); err == nil && fi.IsDir() {
			out = append(out, p.gorootStream(r, t, c01NewerRoot, "goroot-newer")...)
		}
	}
	out = append(out, p.generatedStream(r, t)...)
	out = append(out, p.wideStream(r, t)...)
	// round 6 (c01_pkgname.go), drawn after everything older
	out = append(out, p.pkgNameStream(r, t)...)
	// the building style "caller reuses its slices" for every third case of the older streams
	// (chosen by position, no draw: the programs are the ones of before)
	for i, c := range out {
		if i%3 == 1 && c.Stream != "generated-pkgname" {
			c01ReuseSlices(c)
		}
		// the building style "parts attached through Do callbacks" (c01_do.go) for another third
		if i%3 == 2 && c.Stream != "generated-pkgname" && c.Meta != nil && c.Meta["world"] == nil {
			c01DoCallbacks(c, int64(i), false)
		}
	}
	return out
}

// Regressions: one hand-written file per shape the property names as untested by examples.
func (p *c01) Regressions() []*Case {
	srcs := [][2]string{
		{"for-every-clause-shape", "package p\n\nfunc f() {\n\tfor {\n\t}\n\tfor x {\n\t}\n\tfor i := 0; ; {\n\t}\n\tfor ; x; {\n\t}\n\tfor ; ; i++ {\n\t}\n\tfor i := 0; i < n; {\n\t}\n\tfor i := 0; ; i++ {\n\t}\n\tfor ; i < n; i++ {\n\t}\n\tfor i := 0; i < n; i++ {\n\t}\n\tfor range x {\n\t}\n\tfor k := range x {\n\t}\n\tfor k, v := range x {\n\t}\n\tfor k, v = range x {\n\t}\n}\n"},
		{"bare-return", "package p\n\nfunc f() (n int, err error) {\n\tif n > 0 {\n\t\treturn\n\t}\n\treturn\n}\n"},
		{"empty-case-bodies", "package p\n\nfunc f(x any) {\n\tswitch x {\n\tcase 1:\n\tcase 2, 3:\n\tdefault:\n\t}\n\tswitch x.(type) {\n\tcase int:\n\tdefault:\n\t}\n\tselect {\n\tcase <-c:\n\tcase c <- 1:\n\tdefault:\n\t}\n\tswitch {\n\t}\n\tselect {}\n}\n"},
		{"label-before-brace", "package p\n\nfunc f() {\n\tfor {\n\t\tgoto L\n\tL:\n\t}\nM:\n}\n"},
		{"label-on-explicit-empty-statement", "package p\n\nfunc f(x any) {\n\tswitch x {\n\tcase 1:\n\tL:\n\t\t;\n\tcase 2:\n\t\t;\n\tdefault:\n\t}\nM:\n\t;\n\tg()\n\t;\n}\n"},
		{"three-index-slice", "package p\n\nvar a = b[1:2:3]\nvar c = b[:2:3]\nvar d = b[:]\nvar e = b[1:]\nvar g = b[:2]\nvar h = b[i+1 : j*2 : cap(b)]\n"},
		{"huge-constants", "package p\n\nconst (\n\ta = 123456789012345678901234567890\n\tb = 0xFFFF_FFFF_FFFF_FFFF_FFFF\n\tc = 1e1000\n\td = 3.14159265358979323846264338327950288419716939937510582097494459\n\te = 9223372036854775807\n\tf = 9223372036854775808\n\tg = 0x1p-1074\n\th = 2i\n\ti = '\\U0010FFFF'\n)\n"},
		{"arity-0-to-8", "package p\n\nfunc f() { g(); g(1); g(1, 2, 3, 4, 5, 6, 7, 8); _ = []int{}; _ = []int{1, 2, 3, 4, 5, 6, 7, 8}; _ = T{A: 1, B: 2, C: 3, D: 4, E: 5, F: 6, G: 7, H: 8} }\n\nfunc h(a, b, c, d, e, f, g, i int) (j, k, l, m, n, o, q, r int) { return 1, 2, 3, 4, 5, 6, 7, 8 }\n"},
		{"nesting-depth-12", "package p\n\nfunc f() {\n\tif a {\n\t\tfor {\n\t\t\tswitch {\n\t\t\tcase b:\n\t\t\t\tfunc() {\n\t\t\t\t\tselect {\n\t\t\t\t\tdefault:\n\t\t\t\t\t\t{\n\t\t\t\t\t\t\tif c {\n\t\t\t\t\t\t\t} else if d {\n\t\t\t\t\t\t\t\tfor range e {\n\t\t\t\t\t\t\t\t\tx = f(g(h(i(j([]int{k[l[m[1]]]})))))\n\t\t\t\t\t\t\t\t}\n\t\t\t\t\t\t\t}\n\t\t\t\t\t\t}\n\t\t\t\t\t}\n\t\t\t\t}()\n\t\t\t}\n\t\t}\n\t}\n}\n"},
	}
	var out []*Case
	for _, s := range srcs {
		c := p.c01Case("regression", s[0]+".go", []byte(s[1]), nil, "", genPkgNameOrStd, false)
		c.Name = s[0]
		out = append(out, c)
	}
	out = append(out, p.doRegressions()...)
	return out
}

func (*c01) Compare(c *Case, exp, got []hist.Obs) string { return CompareAll(exp, got) }

func c01Source(c *Case) (name string, src []byte, err error) {
	if s, ok := c.Meta["src"].(string); ok {
		n, _ := c.Meta["name"].(string)
		return n, []byte(s), nil
	}
	if pth, ok := c.Meta["path"].(string); ok {
		b, err := os.ReadFile(pth)
		return pth, b, err
	}
	return "", nil, fmt.Errorf("case has no source")
}

// GofmtStable checks the ground-truth assumption of the oracle on the ORIGINAL alone
// (jennifer is not involved): go/format of the source must parse back to the same tree.
// "" = it does.  The installed go/printer breaks some sources, e.g. it drops the
// parentheses of `for (G[T]{}) ; ; {}` although a composite literal of an instantiated
// type needs them in a statement header; such a source is outside the domain (File.Render
// is by construction gofmt of the raw rendering, property C02).
func GofmtStable(src []byte) string {
	out, err := format.Source(src)
	if err != nil {
		return "go/format rejects the source: " + err.Error()
	}
	fa := token.NewFileSet()
	a, err := parser.ParseFile(fa, "original.go", src, parser.SkipObjectResolution)
	if err != nil {
		return "the source does not parse: " + err.Error()
	}
	fb := token.NewFileSet()
	b, err := parser.ParseFile(fb, "gofmt.go", out, parser.SkipObjectResolution)
	if err != nil {
		return "gofmt of the source does not parse: " + err.Error()
	}
	return rebuild.Compare(fa, a, fb, b)
}

// C01Verdict decides the property for one original source and the bytes File.Render
// wrote for its translation ("" = the output re-parses to the original).
func C01Verdict(name string, src []byte, rendered string) string {
	fa := token.NewFileSet()
	a, err := parser.ParseFile(fa, name, src, parser.SkipObjectResolution)
	if err != nil {
		return "harness: the original no longer parses: " + err.Error()
	}
	fb := token.NewFileSet()
	b, err := parser.ParseFile(fb, "rendered.go", rendered, parser.SkipObjectResolution)
	if err != nil {
		return "the rendered file does not parse: " + err.Error()
	}
	if d := rebuild.Compare(fa, a, fb, b); d != "" {
		return "the rendered file does not re-parse to the original: " + d
	}
	return ""
}

func (p *c01) Oracle(c *Case, got []hist.Obs) string {
	if len(got) != 1 {
		return fmt.Sprintf("expected one observation (the render), got %d", len(got))
	}
	o := got[0]
	switch o.Kind {
	case "write":
	case "panic":
		return "File.Render panicked on a program built from documented elements: " + o.Msg
	case "fmterr":
		return "File.Render failed, the rendering is not valid Go: " + c01Trunc(o.Msg, 300) + "\nraw: " + c01Trunc(o.Out, 1200)
	default:
		return "unexpected observation " + c01Trunc(o.String(), 400)
	}
	if o.Failed {
		return "the write failed without an injected fault"
	}
	if c.Meta["skip"] != nil {
		f, err := parser.ParseFile(token.NewFileSet(), "m.go", o.Out, 0)
		if err != nil || f.Name.Name != c.Meta["pkg"] || len(f.Decls) != 0 {
			return "an empty File does not render as its package clause: " + c01Trunc(o.Out, 200)
		}
		return ""
	}
	name, src, err := c01Source(c)
	if err != nil {
		return "harness: " + err.Error()
	}
	p.stream(c.Stream).outTokens += c01CountTokens([]byte(o.Out))
	return C01Verdict(name, src, o.Out)
}

func c01Trunc(s string, n int) string {
	if len(s) <= n {
		return s
	}
	return s[:n*2/3] + " ... " + s[len(s)-n/3:]
}

// Close prints the coverage numbers of the run (files, declarations, tokens, skip reasons).
func (p *c01) Close() {
	var names []string
	for k := range p.sum {
		names = append(names, k)
	}
	sort.Strings(names)
	for _, k := range names {
		s := p.sum[k]
		var sk []string
		for r, n := range s.skips {
			sk = append(sk, fmt.Sprintf("%s=%d", r, n))
		}
		sort.Strings(sk)
		fmt.Fprintf(os.Stderr, "C01 %-12s files attempted %d translated %d skipped %d [%s]  declarations %d  source bytes %d  source tokens %d  rendered tokens %d\n",
			k, s.attempted, s.translated, s.skipped, strings.Join(sk, " "), s.decls, s.srcBytes, s.srcTokens, s.outTokens)
	}
}

// ---- shrinking: at source level (drop a declaration, drop a statement), then translate again ----

type c01StmtSite struct {
	list *[]ast.Stmt
	i    int
}

func c01StmtSites(f *ast.File) []c01StmtSite {
	var out []c01StmtSite
	ast.Inspect(f, func(n ast.Node) bool {
		switch x := n.(type) {
		case *ast.BlockStmt:
			for i := range x.List {
				out = append(out, c01StmtSite{&x.List, i})
			}
		case *ast.CaseClause:
			for i := range x.Body {
				out = append(out, c01StmtSite{&x.Body, i})
			}
		case *ast.CommClause:
			for i := range x.Body {
				out = append(out, c01StmtSite{&x.Body, i})
			}
		}
		return true
	})
	return out
}

func (p *c01) Shrink(c *Case) []*Case {
	name, src, err := c01Source(c)
	if err != nil || c.Meta["skip"] != nil {
		return nil
	}
	parse := func() (*token.FileSet, *ast.File) {
		fset := token.NewFileSet()
		f, err := parser.ParseFile(fset, name, src, parser.SkipObjectResolution)
		if err != nil {
			return nil, nil
		}
		return fset, f
	}
	_, f := parse()
	if f == nil {
		return nil
	}
	var out []*Case
	emit := func(fset *token.FileSet, f *ast.File) {
		var b bytes.Buffer
		if printer.Fprint(&b, fset, f) != nil {
			return
		}
		nsrc := b.Bytes()
		if len(nsrc) >= len(src) {
			return
		}
		h := fnv.New64a()
		h.Write(nsrc)
		for try := 0; try < 3; try++ {
			cand := p.c01Case("shrink", "shrunk.go", nsrc, rand.New(rand.NewSource(int64(h.Sum64()))), "", func(path string) (string, bool) {
				if pth, ok := c.Meta["path"].(string); ok {
					for _, root := range []string{rebuild.SrcRoot(), c01NewerRoot} {
						if strings.HasPrefix(pth, root) {
							return rebuild.PkgNameIn(root)(path)
						}
					}
				}
				return genPkgNameOrStd(path)
			}, false)
			if cand.Meta["skip"] == rebuild.SkipImportUnused {
				// drop the imports the smaller file no longer uses and translate again
				fs2 := token.NewFileSet()
				g, err := parser.ParseFile(fs2, "shrunk.go", nsrc, 0)
				if err != nil {
					return
				}
				used := map[string]bool{}
				ast.Inspect(g, func(n ast.Node) bool {
					if se, ok := n.(*ast.SelectorExpr); ok {
						if id, ok := se.X.(*ast.Ident); ok && id.Obj == nil {
							used[id.Name] = true
						}
					}
					return true
				})
				for _, d := range g.Decls {
					gd, ok := d.(*ast.GenDecl)
					if !ok || gd.Tok != token.IMPORT {
						continue
					}
					var keep []ast.Spec
					for _, sp := range gd.Specs {
						is := sp.(*ast.ImportSpec)
						local := ""
						if is.Name != nil {
							local = is.Name.Name
						} else if n, ok := genPkgNameOrStd(strings.Trim(is.Path.Value, "\"`")); ok {
							local = n
						}
						if local == "_" || used[local] {
							keep = append(keep, sp)
						}
					}
					gd.Specs = keep
					if len(keep) > 0 && !gd.Lparen.IsValid() && len(keep) > 1 {
						gd.Lparen = gd.Pos()
					}
				}
				var decls []ast.Decl
				for _, d := range g.Decls {
					if gd, ok := d.(*ast.GenDecl); ok && gd.Tok == token.IMPORT && len(gd.Specs) == 0 {
						continue
					}
					decls = append(decls, d)
				}
				g.Decls = decls
				var b2 bytes.Buffer
				if printer.Fprint(&b2, fs2, g) != nil {
					return
				}
				nsrc = b2.Bytes()
				continue
			}
			if cand.Meta["skip"] != nil {
				return
			}
			out = append(out, cand)
			return
		}
	}
	// 1. drop one top-level declaration (later ones first: they are less often referred to)
	nd := len(f.Decls)
	for i := nd - 1; i >= 0 && len(out) < 10; i-- {
		if gd, ok := f.Decls[i].(*ast.GenDecl); ok && gd.Tok == token.IMPORT {
			continue
		}
		fs2, g := parse()
		g.Decls = append(g.Decls[:i:i], g.Decls[i+1:]...)
		emit(fs2, g)
	}
	// 2. drop one statement
	ns := len(c01StmtSites(f))
	step := 1
	if ns > 24 {
		step = ns / 24
	}
	for k := ns - 1; k >= 0 && len(out) < 30; k -= step {
		fs2, g := parse()
		sites := c01StmtSites(g)
		if k >= len(sites) {
			continue
		}
		s := sites[k]
		*s.list = append((*s.list)[:s.i:s.i], (*s.list)[s.i+1:]...)
		emit(fs2, g)
	}
	return out
}
