package props

import (
	"fmt"
	"math/rand"
	"os"
	"path/filepath"
	"strings"

	"verifharness/hist"
	"verifharness/term"
)

// Stream "save-over-earlier" of C07: the same construction SAVED over different earlier contents.
//
// The other streams render into a writer; File.Save has a second input that is not part of the
// construction: what the target path holds already.  "The same construction gives the same
// bytes" includes the bytes Save leaves on disk - a generator is re-run over its own earlier
// output all the time.  A case is a recipe of the deterministic domain (c07Recipe: the model
// predicts every byte) whose File is rendered and then saved to d0/zz_out.go; in two cases of
// three an EARLIER RUN of the generator is part of the history: a second, independent File built
// from the same recipe plus 1..3 further declarations at the end (since removed), saved to the same
// path first - the new output is then usually a strict prefix of what the path holds (tag
// measured: earlier-run-output=extends-the-new-output).  The model is compared with what is read
// back after each Save.
//
// Oracle (c07SaveOverCheck): the File under test is rebuilt from fresh objects and saved, in a
// fresh directory each time, over every one of these earlier contents, made from the bytes W that
// File.Render of the same File wrote into a buffer (no Save involved):
//
//	none            the path does not exist
//	identical       W
//	extended        W + more declarations (W is a strict prefix of the file: 1 byte, 1 line, 4 KB more)
//	truncated       a strict prefix of W (half of it; all but the last byte); the empty file
//	changed-inside  W with one byte changed (first byte, middle, last byte)
//	unrelated       another Go file, shorter and longer than W
//	same-length     len(W) other bytes
//
// After Save the file must hold exactly W in every one of them (same bytes whatever was there).
// NonTrivial: by construction the oracle saves over >= 10 different earlier contents, among them
// files longer than the output; the case counts when W is not empty.
const c07SaveSym = "d0/zz_out.go"

func c07SaveOverCase(r *rand.Rand) *Case {
	base := c07Recipe(r)
	var h hist.History
	for _, op := range base.Hist {
		if op.Kind == "imports" {
			continue
		}
		h = append(h, op)
	}
	tags := append([]string{"save-over-earlier"}, base.Tags...)
	earlier := r.Intn(3) != 0
	if earlier {
		// the earlier run: the same recipe (fresh nodes, file index 1) and further declarations
		var e hist.History
		for _, op := range h {
			if op.Kind == "render" {
				continue
			}
			op.F = 1
			if op.Kind == "noformat" {
				for j := 1 + r.Intn(3); j > 0; j-- {
					e = append(e, hist.Op{Kind: "fadd", F: 1, Code: term.S(term.Named("Func"), term.Id(fmt.Sprintf("Removed%d", j)), term.G("Params"),
						term.G("Block", term.S(term.Id("n"), term.Op("="), term.Lit(j))))})
				}
			}
			e = append(e, op)
		}
		e = append(e, hist.Op{Kind: "save", F: 1, A: c07SaveSym})
		h = append(c09Fresh(e), h...)
		tags = append(tags, "earlier-run-in-history")
	}
	h = append(h, hist.Op{Kind: "save", F: 0, A: c07SaveSym}, hist.Op{Kind: "imports", F: 0})
	info := &c09SaveInfo{}
	return &Case{Hist: h, Stream: "save-over-earlier", Tags: tags, NonTrivial: base.NonTrivial,
		Meta: map[string]interface{}{"c07save": info, "savepath": info.savePath, "builds": 0}}
}

type c07Earlier struct {
	name    string
	content *string // nil: the path does not exist
}

// c07EarlierContents: the earlier contents of the target, made from the rendered output w.
func c07EarlierContents(w string) []c07Earlier {
	s := func(x string) *string { return &x }
	flip := func(i int) string {
		b := []byte(w)
		if i >= 0 && i < len(b) {
			b[i] ^= 0x20
			if b[i] == w[i] {
				b[i] = 'x'
			}
		}
		return string(b)
	}
	out := []c07Earlier{
		{"none (new path)", nil},
		{"identical", s(w)},
		{"extended by 1 byte", s(w + "\n")},
		{"extended by a declaration", s(w + "\nfunc Reset() {\n\tn = 0\n}\n")},
		{"extended by 4 KB", s(w + strings.Repeat("// earlier output, since removed\n", 128))},
		{"empty file", s("")},
		{"unrelated, shorter", s("package p\n")},
		{"unrelated, longer", s("package other\n\n" + strings.Repeat("var X = 1 // another generator's output\n", len(w)/20+3))},
		{"same length, other bytes", s(strings.Repeat("#", len(w)))},
	}
	if len(w) >= 2 {
		out = append(out,
			c07Earlier{"truncated to half", s(w[:len(w)/2])},
			c07Earlier{"truncated by 1 byte", s(w[:len(w)-1])},
			c07Earlier{"first byte changed", s(flip(0))},
			c07Earlier{"a byte in the middle changed", s(flip(len(w) / 2))},
			c07Earlier{"last byte changed, then extended", s(flip(len(w)-1) + "// tail\n")},
			c07Earlier{"last byte changed", s(flip(len(w) - 1))})
	}
	return out
}

// c07SaveInto builds the job of File 0 with fresh objects and saves it in dir, over earlier.
func c07SaveInto(job hist.History, e c07Earlier) (o hist.Obs, err error) {
	dir, err := os.MkdirTemp("", "verif-c07-save-")
	if err != nil {
		return o, err
	}
	defer os.RemoveAll(dir)
	target := filepath.Join(dir, filepath.FromSlash(c07SaveSym))
	if err := os.MkdirAll(filepath.Dir(target), 0755); err != nil {
		return o, err
	}
	if e.content != nil {
		if err := os.WriteFile(target, []byte(*e.content), 0644); err != nil {
			return o, err
		}
	}
	w := hist.NewWorld()
	w.SavePath = func(sym string) string { return filepath.Join(dir, filepath.FromSlash(sym)) }
	var obs []hist.Obs
	func() {
		defer func() {
			if r := recover(); r != nil {
				obs = []hist.Obs{{Kind: "bad", Msg: fmt.Sprintf("harness panic: %v", r)}}
			}
		}()
		obs = w.Exec(c09Fresh(job))
	}()
	for i := len(obs) - 1; i >= 0; i-- {
		if obs[i].Kind != "imports" {
			return obs[i], nil
		}
	}
	return hist.Obs{Kind: "bad", Msg: "no observation"}, nil
}

// c07SaveOverDecide: what one Save over an earlier content left, against the rendered output w.
func c07SaveOverDecide(e c07Earlier, o hist.Obs, w string) string {
	if o.Kind != "save" || o.Failed {
		return fmt.Sprintf("the same construction saved over an earlier content (%s): Save did not succeed: %s", e.name, o.String())
	}
	if o.Out != w {
		return fmt.Sprintf("the same construction leaves other bytes on disk depending on what the path held before (earlier content: %s): %d bytes after Save, File.Render writes %d:\n   on disk %q\n   render  %q", e.name, len(o.Out), len(w), c09Clip(o.Out), c09Clip(w))
	}
	return ""
}

func c07SaveOverCheck(c *Case, got []hist.Obs) string {
	info, _ := c.Meta["c07save"].(*c09SaveInfo)
	if info != nil {
		defer info.cleanup()
	}
	_, jobs := C09Jobs(c.Hist)
	base, ok := c09Split(c.Hist, got)
	if !ok {
		return fmt.Sprintf("%d observations for a history that makes %d", len(got), c09CountObs(c.Hist))
	}
	mine := base[0]
	if len(mine) < 2 || mine[0].Kind != "write" || mine[0].Failed {
		return fmt.Sprintf("the recipe did not render: %v", mine)
	}
	w := mine[0].Out
	if d := c07SaveOverDecide(c07Earlier{name: "as the history says"}, mine[1], w); d != "" {
		return d
	}
	if len(jobs[1]) > 0 {
		rel := "other"
		if e := base[1]; len(e) > 0 && e[len(e)-1].Kind == "save" && len(e[len(e)-1].Out) > len(w) && strings.HasPrefix(e[len(e)-1].Out, w) {
			rel = "extends-the-new-output"
		}
		c.Tags = append(c.Tags, "earlier-run-output="+rel)
	}
	es := c07EarlierContents(w)
	for _, e := range es {
		o, err := c07SaveInto(jobs[0], e)
		if err != nil {
			return "harness: cannot prepare the save target: " + err.Error()
		}
		if d := c07SaveOverDecide(e, o, w); d != "" {
			return d
		}
	}
	c.Tags = append(c.Tags, fmt.Sprintf("saved-over-earlier-contents=%d", len(es)))
	c.NonTrivial = c.NonTrivial && w != ""
	return ""
}

// c07SaveOverCases: quick 40, thorough 2000; a PRNG of its own.
func c07SaveOverCases(sub int64, t string) []*Case {
	r := rand.New(rand.NewSource(sub ^ 0x5a7e07))
	var out []*Case
	for i := tier(t, 40, 2000); i > 0; i-- {
		out = append(out, c07SaveOverCase(r))
	}
	return out
}
