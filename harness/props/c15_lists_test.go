package props

import (
	"math/rand"
	"strings"
	"testing"

	"verifharness/hist"
)

// Round 7 of C15: blank texts in the comment lists, canonical path x package names.

func c15ListOutputs(t *testing.T, sp *c15Spec) [4]string {
	c := c15Case(sp, "test")
	got := hist.NewWorld().Exec(c.Hist)
	if v := (c15{}).Oracle(c, got); v != "" {
		t.Fatalf("unchanged tree: %s", v)
	}
	return [4]string{got[0].Out, got[1].Out, got[2].Out, got[3].Out}
}

func TestC15OracleEmptyPackageCommentBecomesBlankLine(t *testing.T) {
	sp := &c15Spec{Tmpl: 0, Headers: []string{"Code generated."}, Pkg: []string{"Package p does things.", "", "Details."}}
	o := c15ListOutputs(t, sp)
	if !strings.Contains(o[3], "// Package p does things.\n// \n// Details.\npackage p") {
		t.Fatalf("unexpected NoFormat output:\n%s", o[3])
	}
	// the empty comment line written as a blank line: the first text drops out of the package doc
	badRaw := strings.Replace(o[3], "// Package p does things.\n// \n", "// Package p does things.\n\n", 1)
	badFmt := strings.Replace(o[2], "// Package p does things.\n//\n", "// Package p does things.\n\n", 1)
	if badRaw == o[3] || badFmt == o[2] {
		t.Fatalf("replacement did not apply:\n%s\n%s", o[3], o[2])
	}
	if v := c15Check(sp, o[0], o[1], badFmt, badRaw); v == "" {
		t.Errorf("blank line instead of the empty package comment: accepted")
	}
	// a trailing empty text: no doc comment at all
	sp2 := &c15Spec{Tmpl: 0, Pkg: []string{"Package p does things.", ""}}
	o2 := c15ListOutputs(t, sp2)
	badRaw = strings.Replace(o2[3], "// \npackage p", "\npackage p", 1)
	// (gofmt drops the trailing blank line of a doc comment)
	badFmt = strings.Replace(o2[2], "// Package p does things.\npackage p", "// Package p does things.\n\npackage p", 1)
	if badRaw == o2[3] || badFmt == o2[2] {
		t.Fatalf("replacement did not apply:\n%s\n%s", o2[3], o2[2])
	}
	if v := c15Check(sp2, o2[0], o2[1], badFmt, badRaw); v == "" {
		t.Errorf("package doc detached by a blank line: accepted")
	}
}

func TestC15OracleCanonicalDroppedForTestPackage(t *testing.T) {
	for _, ctor := range []hist.Op{{Kind: "newfile", A: "c_test"}, {Kind: "newfilepathname", A: "a.b/c", B: "c_test"}, {Kind: "newfile", A: "main"}} {
		ctor := ctor
		sp := &c15Spec{Tmpl: 0, Ctor: &ctor, Canonical: "a.b/c", Pkg: []string{"Package doc."}}
		o := c15ListOutputs(t, sp)
		badRaw := strings.Replace(o[3], ` // import "a.b/c"`, "", 1)
		badFmt := strings.Replace(o[2], ` // import "a.b/c"`, "", 1)
		if badRaw == o[3] || badFmt == o[2] {
			t.Fatalf("replacement did not apply:\n%s\n%s", o[3], o[2])
		}
		if v := c15Check(sp, o[0], o[1], badFmt, badRaw); v == "" {
			t.Errorf("%v: annotation missing from the package clause: accepted", ctor)
		}
	}
}

func TestC15ListStreams(t *testing.T) {
	tags := map[string]int{}
	for _, c := range c15ListStreams(rand.New(rand.NewSource(4)), "quick") {
		for _, tg := range c.Tags {
			tags[tg]++
		}
	}
	for _, which := range []string{"pkg", "header"} {
		for _, kind := range []string{"empty", "blanks"} {
			for _, pos := range []string{"first", "middle", "last", "only"} {
				if which == "pkg" && pos == "only" {
					continue // an all-blank package doc: recorded finding gofmt-drops-empty-comment
				}
				if k := which + "-list:" + kind + "-text=" + pos; tags[k] < 5 {
					t.Errorf("tag %s: %d cases", k, tags[k])
				}
			}
		}
		if tags[which+"-list:several-blank-texts"] < 20 || tags[which+"-list:adjacent-blank-texts"] < 20 {
			t.Errorf("%s: several / adjacent blank texts missing", which)
		}
	}
	for _, want := range []string{"pkgname=ends-in-_test", "pkgname=main", "pkgname=predeclared", "pkgname=derived-from:c_test", "pkgname=derived-from:v2", "ctor=newfile", "ctor=newfilepath", "ctor=newfilepathname", "canonical+pkgcomment=true", "canonical+pkgcomment=false", "canonical+header=true"} {
		if tags[want] < 4 {
			t.Errorf("tag %s: %d cases", want, tags[want])
		}
	}
}
