package props

import (
	"math/rand"
	"strings"
)

// Stream "lead-space" of C19 (round 7): preamble blocks with WHITE SPACE IN FRONT of the text -
// what a caller gets from a back-quoted literal that starts with a line break, or from an indented
// one.  The dimension: (leading white space: newline, blanks, tab, two newlines, newline +
// indentation, blank + newline) x (what follows: something that LOOKS LIKE a raw comment after
// trimming - `// x`, `/* x */`, two `//` lines - or plain one-line / multi-line C
// text) x (trailing: nothing, one newline, two newlines, blank + newline).  By jennifer's
// documented rule a text is in raw form only when it STARTS with `//` or `/*`; with white space
// in front it is plain text and is wrapped in a comment of its own, the inner markers being
// part of the text.  Whatever form the writer picks, the block must stay in the doc comment of
// `import "C"` (adjacency) with all its lines (C19Check decides both).
//
// Outside the domain (left out, as in C15's domain): a plain text that holds a newline AND the
// block-comment closer `*/` - it is written as a /* */ block which the closer inside ends early
// (so the `/* x */` cores are combined only with leads and trails without a line break: the text
// is then one line and becomes a line comment).
//
// Enumerated: every (lead x core x trail) block alone, after another block, before another block,
// between two blocks and twice in a row (the neighbours rotate over the nine forms of
// c19TextBlock).  Drawn: 1..5 blocks, each with probability 1/2 a lead-space block, otherwise a
// block of c19TextBlock.  The other dimensions of the product are drawn per case.
var c19Leads = []struct{ s, name string }{
	{"\n", "newline"}, {" ", "blank"}, {"    ", "blanks"}, {"\t", "tab"}, {"\n\n", "two-newlines"}, {"\n\t", "newline+indent"}, {" \n", "blank+newline"}, {"\n  \n ", "mixed"},
}

var c19Trails = []struct{ s, name string }{{"", "none"}, {"\n", "newline"}, {"\n\n", "two-newlines"}, {" \n", "blank+newline"}, {"\n\t", "newline+tab"}}

var c19LeadCores = []struct {
	name string
	mk   func(i int) string
}{
	{"looks-raw-line", func(i int) string { return "// #cgo LDFLAGS: -llead" + itoa(i) }},
	{"looks-raw-block", func(i int) string { return "/* #include <lead" + itoa(i) + ".h> */" }},
	{"looks-raw-two-line-comments", func(i int) string { return "// #include <leada" + itoa(i) + ".h>\n// int la" + itoa(i) + "(void);" }},
	{"plain-one-line", func(i int) string { return "#include <leadp" + itoa(i) + ".h>" }},
	{"plain-multi-line", func(i int) string { return "#include <leadq" + itoa(i) + ".h>\nint lq" + itoa(i) + "(void);" }},
}

func itoa(i int) string {
	if i < 10 {
		return string(rune('0' + i))
	}
	return itoa(i/10) + string(rune('0'+i%10))
}

func c19LeadStream(r *rand.Rand, t string) []*Case {
	var out []*Case
	type blk struct {
		text string
		tags []string
	}
	var lead func(li, ci, ti, i int) blk
	lead = func(li, ci, ti, i int) blk {
		l, c, tr := c19Leads[li], c19LeadCores[ci], c19Trails[ti]
		if text := l.s + c.mk(i) + tr.s; strings.Contains(text, "*/") && strings.Contains(text, "\n") {
			// outside the domain: take the next core / a lead and a trail without line break
			if strings.Contains(c.mk(i), "\n") {
				return lead(li, (ci+1)%len(c19LeadCores), ti, i)
			}
			if strings.Contains(l.s, "\n") {
				return lead(1+li%3, ci, ti, i)
			}
			return lead(li, ci, 0, i)
		}
		tags := []string{"lead=" + l.name, "lead-core=" + c.name, "lead-trail=" + tr.name}
		if strings.HasPrefix(c.name, "looks-raw") && strings.Contains(tr.s, "\n") {
			tags = append(tags, "lead+looks-raw+trailing-newline")
		}
		return blk{l.s + c.mk(i) + tr.s, tags}
	}
	nb := 0
	other := func(i int) blk {
		nb++
		f := nb % c19TextForms
		return blk{c19TextBlock(f, []string{"#include <nb" + itoa(i) + ".h>"}), []string{"neighbour=" + c19TextFormNames[f]}}
	}
	mk := func(place string, bs ...blk) {
		cfg := c19Cfg{Stream: "lead-space",
			Use:    pick(r, []string{"qual", "anon", "both", "neither"}),
			Others: pick(r, []string{"none", "one", "many", "aliased", "anon"}),
			Prefix: r.Intn(2) == 0, Hint: pick(r, []string{"none", "none", "name", "alias", "dot"}), NoFormat: r.Intn(3) == 0}
		tagset := map[string]bool{"lead-place=" + place: true}
		for _, b := range bs {
			cfg.Pre = append(cfg.Pre, b.text)
			for _, tg := range b.tags {
				tagset[tg] = true
			}
		}
		cfg.Extra = sortedKeys(tagset)
		out = append(out, c19Make(cfg))
	}
	for li := range c19Leads {
		for ci := range c19LeadCores {
			for ti := range c19Trails {
				mk("alone", lead(li, ci, ti, 0))
				mk("last", other(0), lead(li, ci, ti, 1))
				mk("first", lead(li, ci, ti, 0), other(1))
				mk("between", other(0), lead(li, ci, ti, 1), other(2))
				mk("twice", lead(li, ci, ti, 0), lead(li, ci, ti, 1))
			}
		}
	}
	// (a combination outside the domain is replaced by a neighbouring one inside it, see lead)
	for i, n := 0, tier(t, 800, 20000); i < n; i++ {
		var bs []blk
		for j, m := 0, 1+r.Intn(5); j < m; j++ {
			if r.Intn(2) == 0 {
				bs = append(bs, lead(r.Intn(len(c19Leads)), r.Intn(len(c19LeadCores)), r.Intn(len(c19Trails)), j))
			} else {
				bs = append(bs, other(j))
			}
		}
		mk("drawn", bs...)
	}
	return out
}
