package props

import (
	"math/rand"
	"sort"
	"strings"

	"verifharness/hist"
)

// Stream settings-as-paths (used by C04 and C06): the strings a File is SET UP with and the
// import paths its body REFERENCES come from one small universe, so that they coincide all
// the time - in both directions:
//
//   - the paths are drawn first (one-element paths such as "log", "errors", "x", "kv" and
//     ordinary ones), then every setting of the File - package name, package path, canonical
//     path, PackagePrefix, the names given by ImportName / ImportAlias / ImportNames, the
//     paths given to Anon - is drawn, half of the time, from strings derived from those paths
//     (a path itself, its last element, the alias jennifer would guess for it);
//   - afterwards every setting string (the package name, the name NewFilePath inferred, the
//     last element of the package path, the canonical path, the prefix, the hint names) is
//     itself added to the referenced paths half of the time.
//
// All three constructors take part (tag ctor=...).  What has to hold is what C04 / C06 say
// and nothing else: the ONLY string that makes a path local is the package path given to
// NewFilePath / NewFilePathName (a File made with NewFile has no local path at all); a path
// that is spelled like the package name, the canonical path, the prefix or a hint name is an
// ordinary path: imported once, qualified (or bare under a dot hint).
//
// Tags (measured on the case): ctor=<constructor>; ref=<setting> for every setting string that
// is also a referenced (rendered) path: ref=package-name, ref=inferred-name (NewFilePath),
// ref=path-last-element, ref=canonical (canonical path different from the package path),
// ref=prefix, ref=hint-name, ref=local; canonical=local / canonical=other; name=path (the
// constructor was given the same string as path and as name); hidden=<setting> likewise for
// paths referenced only at positions that render nothing; anon=<setting>.
//
// NonTrivial: at least one referenced or Anon path is textually equal to a setting string of
// the File other than its package path (some ref= / hidden= / anon= tag other than ref=local).

var settingsOne = []string{"log", "errors", "x", "fmt", "rand", "d", "os", "pkg", "util", "q", "p", "time", "sort", "kv", "c", "http", "y"}
var settingsMulti = []string{"a.b/c", "x.y/c", "x.y/log", "a.b/rand", "math/rand", "example.com/mod/pkg", "x/y", "a.b/d", "net/http",
	"a.b/x", "a.b/errors", "x.y/kv", "go/scanner", "a.b/p", "x.y/q"}

func lastElem(p string) string {
	if i := strings.LastIndex(p, "/"); i >= 0 {
		return p[i+1:]
	}
	return p
}

func settingsCase(r *rand.Rand) *Case {
	all := append(append([]string{}, settingsOne...), settingsMulti...)
	seen := map[string]bool{}
	var paths []string
	addPath := func(p string) int {
		if p == "" || p == "C" {
			return -1
		}
		for i, q := range paths {
			if q == p {
				return i
			}
		}
		seen[p] = true
		paths = append(paths, p)
		return len(paths) - 1
	}
	for n := 1 + r.Intn(4); n > 0; n-- {
		if r.Intn(2) == 0 {
			addPath(pick(r, settingsOne))
		} else {
			addPath(pick(r, all))
		}
	}
	// strings derived from the paths drawn so far
	fromPaths := func(identOnly bool) string {
		p := paths[r.Intn(len(paths))]
		switch r.Intn(3) {
		case 0:
			if !identOnly || isIdent(p) {
				return p
			}
		case 1:
			return lastElem(p)
		}
		return lastElem(p) // every last element of the universe is an identifier (and its own guessed alias)
	}
	drawName := func() string { // an identifier
		if r.Intn(2) == 0 {
			return fromPaths(true)
		}
		return pick(r, settingsOne)
	}
	drawPath := func() string {
		if r.Intn(2) == 0 {
			return paths[r.Intn(len(paths))]
		}
		return pick(r, all)
	}

	var setup hist.History
	local, name, inferred, ctor := "", "", "", ""
	tags := map[string]bool{}
	switch r.Intn(3) {
	case 0:
		ctor, name = "newfile", drawName()
		setup = append(setup, hist.Op{Kind: "newfile", F: 0, A: name})
	case 1:
		ctor, local = "newfilepath", drawPath()
		inferred = lastElem(local)
		setup = append(setup, hist.Op{Kind: "newfilepath", F: 0, A: local})
	default:
		ctor, local = "newfilepathname", drawPath()
		switch r.Intn(3) {
		case 0:
			if isIdent(local) {
				name = local // NewFilePathName("log", "log")
				tags["name=path"] = true
				break
			}
			fallthrough
		default:
			name = drawName()
		}
		setup = append(setup, hist.Op{Kind: "newfilepathname", F: 0, A: local, B: name})
	}
	tags["ctor="+ctor] = true
	prefix, canonical := "", ""
	if r.Intn(3) == 0 {
		prefix = drawName()
		setup = append(setup, hist.Op{Kind: "prefix", F: 0, A: prefix})
	}
	if r.Intn(2) == 0 {
		switch {
		case local != "" && r.Intn(3) == 0:
			canonical = local // the ordinary use
			tags["canonical=local"] = true
		default:
			canonical = drawPath()
			if canonical == local {
				tags["canonical=local"] = true
			} else {
				tags["canonical=other"] = true
			}
		}
		at := 1 + r.Intn(len(setup)) // anywhere after the constructor
		setup = append(setup[:at:at], append(hist.History{{Kind: "canonical", F: 0, A: canonical}}, setup[at:]...)...)
	}
	// hints: for referenced paths and for setting strings, names from the same universe
	hintNames := map[string]bool{}
	var hintPaths []string
	for n := r.Intn(4); n > 0; n-- {
		p := drawPath()
		if r.Intn(4) == 0 {
			// a hint FOR a path spelled like a setting
			p = pick(r, []string{name, inferred, prefix, canonical, local, p})
			if p == "" {
				continue
			}
		}
		hn := drawName()
		if r.Intn(4) == 0 {
			hn = pick(r, []string{name, inferred, prefix, hn, hn})
			if hn == "" {
				continue
			}
		}
		hintPaths = append(hintPaths, p)
		switch r.Intn(6) {
		case 0, 1:
			setup = append(setup, hist.Op{Kind: "importname", F: 0, A: p, B: hn})
			hintNames[hn] = true
		case 2, 3:
			setup = append(setup, hist.Op{Kind: "importalias", F: 0, A: p, B: hn})
			hintNames[hn] = true
		case 4:
			setup = append(setup, hist.Op{Kind: "importalias", F: 0, A: p, B: "."})
		default:
			setup = append(setup, hist.Op{Kind: "importnames", F: 0, Pairs: [][2]string{{p, hn}}})
			hintNames[hn] = true
		}
	}
	// Anon: a path spelled like a setting, or a drawn path (never the File's own path)
	anon := map[string]bool{}
	if r.Intn(4) == 0 {
		var ps []string
		for n := 1 + r.Intn(2); n > 0; n-- {
			p := pick(r, []string{name, inferred, prefix, canonical, drawPath(), drawPath()})
			if p != "" && p != local && p != "C" {
				ps = append(ps, p)
				anon[p] = true
			}
		}
		if len(ps) > 0 {
			at := 1 + r.Intn(len(setup))
			setup = append(setup[:at:at], append(hist.History{{Kind: "anon", F: 0, Strs: ps}}, setup[at:]...)...)
		}
	}
	// the setting strings become referenced paths
	settings := map[string]string{} // string -> tag suffix (first role wins, in the order below)
	role := func(s, what string) {
		if s == "" {
			return
		}
		if _, ok := settings[s]; !ok {
			settings[s] = what
		}
	}
	role(local, "local")
	role(name, "package-name")
	role(inferred, "inferred-name")
	if local != "" && lastElem(local) != local {
		role(lastElem(local), "path-last-element")
	}
	if canonical != local {
		role(canonical, "canonical")
	}
	role(prefix, "prefix")
	for _, hn := range sortedKeys(hintNames) {
		role(hn, "hint-name")
	}
	var sk []string
	for s := range settings {
		sk = append(sk, s)
	}
	sort.Strings(sk)
	for _, s := range sk {
		if r.Intn(2) == 0 {
			addPath(s)
		}
	}
	for _, p := range hintPaths {
		if r.Intn(2) == 0 {
			addPath(p)
		}
	}
	// references: every path once or twice at a rendered position, except the ones drawn as
	// hidden (referenced only where nothing is rendered)
	var refs, hidden []int
	for i := range paths {
		if len(paths) > 1 && r.Intn(6) == 0 {
			hidden = append(hidden, i)
			continue
		}
		for k := 1 + r.Intn(2); k > 0; k-- {
			refs = append(refs, i)
		}
	}
	r.Shuffle(len(refs), func(a, b int) { refs[a], refs[b] = refs[b], refs[a] })
	rc, h := BuildRefCase(r, paths, setup, local, refs, hidden)
	h = append(h, hist.Op{Kind: "noformat", F: 0, Flag: r.Intn(4) == 0}, hist.Op{Kind: "render", F: 0}, hist.Op{Kind: "imports", F: 0})
	nontrivial := false
	isHidden := map[int]bool{}
	for _, i := range hidden {
		isHidden[i] = true
	}
	for i, p := range paths {
		what, ok := settings[p]
		if !ok {
			continue
		}
		if isHidden[i] {
			tags["hidden="+what] = true
		} else {
			tags["ref="+what] = true
		}
		if what != "local" {
			nontrivial = true
		}
	}
	for p := range anon {
		if what, ok := settings[p]; ok {
			tags["anon="+what] = true
			nontrivial = true
		}
	}
	ndot := 0
	for _, hnt := range rc.Hints {
		if hnt == [2]string{".", "alias"} {
			ndot++
		}
	}
	return &Case{Hist: h, Stream: "settings-as-paths", NonTrivial: nontrivial, Tags: sortedKeys(tags),
		Meta: map[string]interface{}{"rc": rc, "ndot": ndot}}
}
