package props

import (
	"math/rand"
	"strings"
	"testing"

	"verifharness/hist"
)

// Stream directive-long: the real observations are accepted; a panic in place of the format
// error, a format error whose text is only a part of the unformatted source, and a format
// error after a Write are rejected.
func TestC02DirectiveLongOracle(t *testing.T) {
	r := rand.New(rand.NewSource(7))
	seenErr, seenBeyond := 0, 0
	for i := 0; i < 400; i++ {
		c := c02DirectiveCase(r, i%2 == 0)
		got := hist.NewWorld().Exec(c.Hist)
		if m := (c02{}).Oracle(c, got); m != "" {
			t.Fatalf("oracle rejects the real observations: %s\n%s", m, c.Hist.Sexp())
		}
		for _, tg := range c.Tags {
			if tg == "dl:reported-line-beyond-source" {
				seenBeyond++
			}
		}
		if got[len(got)-1].Kind != "fmterr" {
			continue
		}
		seenErr++
		bad := append([]hist.Obs{}, got...)
		bad[0] = hist.Obs{Kind: "panic", Msg: "runtime error: slice bounds out of range [995:19]"}
		if m := (c02{}).Oracle(c, bad); !strings.Contains(m, "render panicked") {
			t.Fatalf("a panic is accepted: %q", m)
		}
		if c.Meta["quote"] == true {
			bad = append([]hist.Obs{}, got...)
			o := bad[len(bad)-1]
			lines := strings.Split(o.Out, "\n")
			o.Out = strings.Join(lines[len(lines)/2:], "\n")
			bad[len(bad)-1] = o
			if m := (c02{}).Oracle(c, bad); !strings.Contains(m, "does not quote the unformatted source") {
				t.Fatalf("a truncated quotation is accepted: %q", m)
			}
		}
		bad = append([]hist.Obs{}, got...)
		bad[0].Writes = 1
		if m := (c02{}).Oracle(c, bad); !strings.Contains(m, "writer was called") {
			t.Fatalf("a format error after a Write is accepted: %q", m)
		}
	}
	if seenErr < 200 || seenBeyond < 100 {
		t.Fatalf("the stream does not reach the error path often enough: %d format errors, %d beyond-source", seenErr, seenBeyond)
	}
}
